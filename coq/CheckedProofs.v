(* CheckedProofs.v — C06: exactness of size_bytes_checked (statement in
   ScriptSpec.v).

   stmt_checked_exact is FALSE as written (ScriptCounterexamples.v): the buffer
   is an arbitrary [list Z], and on a "byte" outside [0,256) a header value
   decodes to a negative number, for which the flat-group test of the visitor
   (a division) and the exact arithmetic of [fit_groups] disagree.  The
   corrected statement adds the hypothesis [bytes_ok b = true]. *)
From Coq Require Import ZArith List Bool Lia.
From Sbepp Require Import CInt CIntFacts Bytes BytesFacts Msg Layout Wire MsgSpec LayoutProofs
  MsgProofs Cursor CursorSpec CursorProofs Checked ScriptSpec.
Import ListNotations.
Local Open Scope Z_scope.

Definition stmt_checked_exact' : Prop :=
  forall be b m cl fuel,
    bytes_ok b = true ->                       (* <- the added hypothesis *)
    is_signed (m_bl_t m) = false ->
    0 <= m_bl_off m -> m_bl_off m + tbytes (m_bl_t m) <= m_hdr_size m ->
    wf_table_level (m_level m) -> wf_clevel (m_hdr_size m) (m_level m) cl ->
    len b < 2 ^ 63 -> (length b < fuel)%nat ->
    match size_bytes_checked be b fuel m cl with
    | CkValid s _ => described_fit be b m = Some s
    | CkInvalid _ => described_fit be b m = None
    | CkOob _ _ _ => True
    | CkFuel => True
    end.

(* ================================================================== *)
(* bytes                                                               *)
(* ================================================================== *)

Lemma bytes_ok_firstn n bs : bytes_ok bs = true -> bytes_ok (firstn n bs) = true.
Proof.
  intros H. rewrite <- (firstn_skipn n bs), bytes_ok_app in H.
  apply andb_true_iff in H. tauto.
Qed.

Lemma bytes_ok_skipn n bs : bytes_ok bs = true -> bytes_ok (skipn n bs) = true.
Proof.
  intros H. rewrite <- (firstn_skipn n bs), bytes_ok_app in H.
  apply andb_true_iff in H. tauto.
Qed.

Lemma bytes_ok_slice b off n : bytes_ok b = true -> bytes_ok (slice b off n) = true.
Proof. intros H. unfold slice. apply bytes_ok_firstn, bytes_ok_skipn, H. Qed.

Lemma dec_nonneg be bs : bytes_ok bs = true -> 0 <= dec be bs.
Proof.
  intros H. unfold dec. destruct be.
  - assert (H' : bytes_ok (rev bs) = true) by (now rewrite bytes_ok_rev).
    pose proof (dec_le_bound _ H'). lia.
  - pose proof (dec_le_bound _ H). lia.
Qed.

(* the flat-group test of validate_entries is the exact comparison *)
Lemma flat_check r bl n : 0 <= r -> 0 <= bl -> 0 <= n ->
  negb (bl =? 0) && (r / bl <? n) = (r <? n * bl).
Proof.
  intros Hr Hbl Hn. destruct (Z.eqb_spec bl 0) as [->|Hne]; cbn [negb andb].
  - symmetry. apply Z.ltb_ge. lia.
  - assert (Hpos : 0 < bl) by lia.
    destruct (Z.ltb_spec (r / bl) n) as [H1|H1]; destruct (Z.ltb_spec r (n * bl)) as [H2|H2];
      try reflexivity; exfalso.
    + assert (n <= r / bl) by (apply Z.div_le_lower_bound; lia). lia.
    + assert (r / bl < n) by (apply Z.div_lt_upper_bound; lia). lia.
Qed.

(* ================================================================== *)
(* the anonymous loops as top-level fixpoints, unfolding equations     *)
(* ================================================================== *)

Fixpoint ck_entries (be : bool) (b : list Z) (fuel : nat) (l : level) (cl : clevel) (bl : Z)
  (j : nat) (n : Z) (s : ck) {struct j} : ckout :=
  if n <=? 0 then KOk s else
  match j with
  | O => KFuel
  | S j' =>
    let c := ck_c s in
    let ev := {| lv_start := c; lv_level := c; lv_bl := bl; lv_end := len b |} in
    let s' := tick (if is_empty_level l cl then set_c s (c + bl) else s) in
    match validate s' bl with
    | KOk s2 =>
      match ck_level be b fuel l cl ev s2 with
      | KOk s3 => ck_entries be b fuel l cl bl j' (n - 1) s3
      | other => other
      end
    | other => other
    end
  end.

Lemma loop_is_ck_entries be b fuel l cl bl : forall j n s,
  (fix loop (j : nat) (n : Z) (s : ck) {struct j} : ckout :=
     if n <=? 0 then KOk s else
     match j with
     | O => KFuel
     | S j' =>
       let c := ck_c s in
       let ev := {| lv_start := c; lv_level := c; lv_bl := bl; lv_end := len b |} in
       let s' := tick (if is_empty_level l cl then set_c s (c + bl) else s) in
       match validate s' bl with
       | KOk s2 =>
         match ck_level be b fuel l cl ev s2 with
         | KOk s3 => loop j' (n - 1) s3
         | other => other
         end
       | other => other
       end
     end) j n s
  = ck_entries be b fuel l cl bl j n s.
Proof.
  induction j as [|j IH]; intros n s; cbn [ck_entries].
  - reflexivity.
  - destruct (n <=? 0); [reflexivity|]. cbv zeta.
    destruct (validate _ bl) as [s2| | |]; try reflexivity.
    destruct (ck_level be b fuel l cl _ s2) as [s3| | |]; try reflexivity.
    apply IH.
Qed.

Lemma ck_entries_eq be b fuel l cl bl j n s :
  ck_entries be b fuel l cl bl j n s =
  if n <=? 0 then KOk s else
  match j with
  | O => KFuel
  | S j' =>
    let c := ck_c s in
    let ev := {| lv_start := c; lv_level := c; lv_bl := bl; lv_end := len b |} in
    let s' := tick (if is_empty_level l cl then set_c s (c + bl) else s) in
    match validate s' bl with
    | KOk s2 =>
      match ck_level be b fuel l cl ev s2 with
      | KOk s3 => ck_entries be b fuel l cl bl j' (n - 1) s3
      | other => other
      end
    | other => other
    end
  end.
Proof. destruct j; reflexivity. Qed.

(* what on_group does once the dimension is validated and read *)
Definition ck_group_body (be : bool) (b : list Z) (fuel : nat) (d : dim) (l : level) (cl : clevel)
  (p : Z) (s1 : ck) : ckout :=
  let bl := dec be (slice b (p + d_bl_off d) (tbytes (d_bl_t d))) in
  let n := dec be (slice b (p + d_n_off d) (tbytes (d_n_t d))) in
  if is_flat l then
    if negb (bl =? 0) && (ck_rem s1 / bl <? n) then KInvalid (ck_steps s1)
    else KOk {| ck_rem := ck_rem s1 - n * bl; ck_c := ck_c s1 + n * bl; ck_steps := ck_steps s1 |}
  else ck_entries be b fuel l cl bl fuel n s1.

Lemma ck_groups_cons be b fuel d cbl l rest cl crest v (first : bool) s p :
  p = (if first then block_end v else ck_c s) ->
  ck_groups be b fuel (GCons d cbl l rest) (CGCons cl crest) v first s =
  match validate (tick (set_c s (p + d_size d))) (d_size d) with
  | KOk s1 =>
    match touch 3 b (p + d_bl_off d) (tbytes (d_bl_t d)) s1,
          touch 3 b (p + d_n_off d) (tbytes (d_n_t d)) s1 return ckout with
    | Some bad, _ => bad
    | _, Some bad => bad
    | None, None =>
      match ck_group_body be b fuel d l cl p s1 with
      | KOk s2 => ck_groups be b fuel rest crest v false s2
      | other => other
      end
    end
  | other => other
  end.
Proof.
  intros ->. cbn [ck_groups]. cbv zeta.
  destruct (validate _ (d_size d)) as [s1| | |]; try reflexivity.
  destruct (touch 3 b _ (tbytes (d_bl_t d)) s1); [reflexivity|].
  destruct (touch 3 b _ (tbytes (d_n_t d)) s1); [reflexivity|].
  unfold ck_group_body. cbv zeta.
  destruct (is_flat l); [reflexivity|].
  rewrite loop_is_ck_entries. reflexivity.
Qed.

Lemma ck_level_eq be b fuel fs gs ds cl v s :
  ck_level be b fuel (Level fs gs ds) cl v s =
  match ck_fields b v (clevel_fields cl) s with
  | KOk s1 =>
    match ck_groups be b fuel gs (clevel_groups cl) v true s1 with
    | KOk s2 => ck_datas be b v ds (groups_empty gs) s2
    | other => other
    end
  | other => other
  end.
Proof. reflexivity. Qed.

Fixpoint fit_entries (be : bool) (b : list Z) (fuel : nat) (l : level) (bl : Z)
  (k : nat) (n pos : Z) {struct k} : option Z :=
  if n <=? 0 then Some pos else
  if len b <? pos + bl then None else
  match k with
  | O => None
  | S k' => obind (fit_level be b fuel l pos bl) (fun p' => fit_entries be b fuel l bl k' (n - 1) p')
  end.

Lemma loop_is_fit_entries be b fuel l bl : forall k n pos,
  (fix loop (k : nat) (n pos : Z) {struct k} : option Z :=
     if n <=? 0 then Some pos else
     if len b <? pos + bl then None else
     match k with
     | O => None
     | S k' => obind (fit_level be b fuel l pos bl) (fun p' => loop k' (n - 1) p')
     end) k n pos
  = fit_entries be b fuel l bl k n pos.
Proof.
  induction k as [|k IH]; intros n pos; cbn [fit_entries].
  - reflexivity.
  - destruct (n <=? 0); [reflexivity|]. destruct (len b <? pos + bl); [reflexivity|].
    destruct (fit_level be b fuel l pos bl) as [p'|]; cbn [obind]; [apply IH|reflexivity].
Qed.

Lemma fit_entries_eq be b fuel l bl k n pos :
  fit_entries be b fuel l bl k n pos =
  if n <=? 0 then Some pos else
  if len b <? pos + bl then None else
  match k with
  | O => None
  | S k' => obind (fit_level be b fuel l pos bl) (fun p' => fit_entries be b fuel l bl k' (n - 1) p')
  end.
Proof. destruct k; reflexivity. Qed.

Lemma fit_groups_cons be b fuel d cbl l rest pos :
  fit_groups be b fuel (GCons d cbl l rest) pos =
  if negb (in_buf b pos (d_size d)) then None else
  obind (rd be b (pos + d_bl_off d) (d_bl_t d)) (fun bl =>
  obind (rd be b (pos + d_n_off d) (d_n_t d)) (fun n =>
  obind
    (if is_flat l
     then (if pos + d_size d + n * bl <=? len b then Some (pos + d_size d + n * bl) else None)
     else fit_entries be b fuel l bl fuel n (pos + d_size d))
    (fun p => fit_groups be b fuel rest p))).
Proof.
  cbn [fit_groups].
  destruct (negb (in_buf b pos (d_size d))); [reflexivity|].
  destruct (rd be b (pos + d_bl_off d) (d_bl_t d)) as [bl|]; cbn [obind]; [|reflexivity].
  destruct (rd be b (pos + d_n_off d) (d_n_t d)) as [n|]; cbn [obind]; [|reflexivity].
  destruct (is_flat l); [reflexivity|].
  rewrite loop_is_fit_entries. reflexivity.
Qed.

Lemma fit_level_eq be b fuel fs gs ds pos bl :
  fit_level be b fuel (Level fs gs ds) pos bl =
  obind (fit_groups be b fuel gs (pos + bl)) (fun p => fit_datas be b ds p).
Proof. reflexivity. Qed.

Lemma is_empty_level_nonflat l cl : is_flat l = false -> is_empty_level l cl = false.
Proof. intros H. unfold is_empty_level. destruct (clevel_fields cl); [exact H|reflexivity]. Qed.

(* ================================================================== *)
(* the simulation                                                      *)
(* ================================================================== *)

Section Exact.
  Variables (be : bool) (b : list Z).
  Hypothesis Hok : bytes_ok b = true.
  Hypothesis Hlen : len b < 2 ^ 63.

  Lemma val_nonneg off w : 0 <= dec be (slice b off w).
  Proof. apply dec_nonneg, bytes_ok_slice, Hok. Qed.

  Lemma touch_in kind off w s : 0 <= off -> off + w <= len b -> touch kind b off w s = None.
  Proof.
    intros H1 H2. unfold touch.
    destruct (Z.leb_spec 0 off); [|lia]. destruct (Z.leb_spec (off + w) (len b)); [|lia]. reflexivity.
  Qed.

  Lemma rd_in off t : 0 <= off -> off + tbytes t <= len b ->
    rd be b off t = Some (dec be (slice b off (tbytes t))).
  Proof.
    intros H1 H2. unfold rd.
    replace (in_buf b off (tbytes t)) with true; [reflexivity|].
    symmetry. apply in_buf_iff. pose proof (tbytes_pos t). lia.
  Qed.

  Lemma rd_out off t : len b < off + tbytes t -> rd be b off t = None.
  Proof.
    intros H. unfold rd. destruct (in_buf b off (tbytes t)) eqn:E; [|reflexivity].
    apply in_buf_iff in E. lia.
  Qed.

  (* the described structure does not fit *)
  Definition bad (r : option Z) : Prop :=
    match r with None => True | Some e => len b < e end.

  (* outcome of a part of the visit started at position [p0] against the
     declarative walk from [p0] *)
  Definition rel (p0 : Z) (Q : ck -> Z -> Prop) (out : ckout) (res : option Z) : Prop :=
    match out with
    | KOk s' => exists e, res = Some e /\ p0 <= e <= len b /\ ck_rem s' = len b - e /\ Q s' e
    | KInvalid _ => bad res
    | _ => True
    end.

  Lemma rel_weaken p1 p0 (Q1 Q0 : ck -> Z -> Prop) out res :
    rel p1 Q1 out res -> p0 <= p1 ->
    (forall s' e, p1 <= e -> Q1 s' e -> Q0 s' e) ->
    rel p0 Q0 out res.
  Proof.
    intros H Hp HQ. destruct out as [s'|st|k o st|]; cbn [rel] in *; try exact H.
    destruct H as (e & Hr & Hb & Hrem & Hq). exists e. repeat split; try assumption; try lia.
    apply HQ; [lia|exact Hq].
  Qed.

  Lemma fit_datas_bad : forall ds pos, len b < pos -> bad (fit_datas be b ds pos).
  Proof.
    intros [|t r] pos H; cbn [fit_datas bad]; [exact H|].
    rewrite rd_out by (pose proof (tbytes_pos t); lia). exact I.
  Qed.

  Lemma fit_groups_bad fuel : forall gs pos, len b < pos -> bad (fit_groups be b fuel gs pos).
  Proof.
    intros [|d cbl l rest] pos H; [exact H|]. rewrite fit_groups_cons.
    destruct (in_buf b pos (d_size d)) eqn:E; cbn [negb]; [|exact I].
    apply in_buf_iff in E. lia.
  Qed.

  Lemma fit_entries_bad fuel l bl k n pos : 0 <= bl -> len b < pos ->
    bad (fit_entries be b fuel l bl k n pos).
  Proof.
    intros Hbl H. rewrite fit_entries_eq. destruct (n <=? 0); [exact H|].
    destruct (Z.ltb_spec (len b) (pos + bl)); [exact I|lia].
  Qed.

  Lemma bad_bind (r : option Z) (f : Z -> option Z) :
    bad r -> (forall e, len b < e -> bad (f e)) -> bad (obind r f).
  Proof. destruct r as [e|]; cbn [obind bad]; intros H Hf; [apply Hf, H|exact I]. Qed.

  (* ---- fields: never invalid, the accounting is untouched ---- *)
  Lemma ck_fields_spec v : forall al s,
    match ck_fields b v al s with
    | KOk s1 => ck_rem s1 = ck_rem s
    | KOob _ _ _ => True
    | _ => False
    end.
  Proof.
    induction al as [|a r IH]; intros s; cbn [ck_fields]; [reflexivity|].
    destruct (if ca_view a then None else touch 1 b (ck_c s + ca_rel a) (ca_size a) s) as [bad0|] eqn:E.
    - destruct (ca_view a); [discriminate|]. unfold touch in E.
      destruct ((0 <=? ck_c s + ca_rel a) && (ck_c s + ca_rel a + ca_size a <=? len b));
        [discriminate|]. inversion E; subst bad0. exact I.
    - specialize (IH (tick (set_c s (if ca_last a then block_end v
                                     else ck_c s + ca_rel a + ca_size a)))).
      destruct (ck_fields b v r _); exact IH.
  Qed.

  (* ---- data ---- *)
  Definition Qmem (first : bool) (nonempty : Prop) (p0 : Z) (s' : ck) (e : Z) : Prop :=
    (first = false -> ck_c s' = e) /\ (nonempty -> ck_c s' = e /\ p0 + 1 <= e).

  Lemma ck_datas_spec v : forall ds (first : bool) s p0,
    p0 = (if first then block_end v else ck_c s) ->
    0 <= p0 <= len b -> ck_rem s = len b - p0 ->
    rel p0 (Qmem first (ds <> []) p0) (ck_datas be b v ds first s) (fit_datas be b ds p0).
  Proof.
    induction ds as [|t r IH]; intros first s p0 Hp0 Hb Hrem.
    - cbn [ck_datas fit_datas rel]. exists p0. split; [reflexivity|]. split; [lia|].
      split; [exact Hrem|]. split.
      + intros ->. symmetry. exact Hp0.
      + intros H. contradiction H. reflexivity.
    - cbn [ck_datas fit_datas]. rewrite <- Hp0.
      pose proof (tbytes_pos t) as Ht.
      unfold touch.
      destruct ((0 <=? p0) && (p0 + tbytes t <=? len b)) eqn:E; [|exact I].
      apply andb_true_iff in E. destruct E as [E1 E2]. apply Z.leb_le in E1, E2.
      rewrite rd_in by lia. cbn [obind].
      set (n := dec be (slice b p0 (tbytes t))).
      assert (Hn : 0 <= n) by apply val_nonneg.
      unfold validate. cbn [ck_rem ck_c ck_steps tick set_c].
      destruct (Z.ltb_spec (ck_rem s) (tbytes t)) as [Hlt|_]; [lia|].
      cbn [ck_rem ck_c ck_steps].
      destruct (Z.ltb_spec (ck_rem s - tbytes t) n) as [Hlt|Hge].
      + cbn [rel]. apply fit_datas_bad. lia.
      + assert (Hmod : (tbytes t + n) mod 2 ^ 64 = tbytes t + n) by (apply Z.mod_small; lia).
        rewrite Hmod.
        eapply rel_weaken.
        * apply (IH false _ (p0 + tbytes t + n)).
          -- cbn [ck_c]. lia.
          -- lia.
          -- cbn [ck_rem]. lia.
        * lia.
        * intros s' e He [Hq1 _]. specialize (Hq1 eq_refl). unfold Qmem. split.
          -- intros _. exact Hq1.
          -- intros _. split; [exact Hq1|lia].
  Qed.

  (* ---- the mutual statement ---- *)
  Definition P_level (l : level) : Prop :=
    forall cl hdr v s fuel1 fuel2,
      wf_table_level l -> wf_clevel hdr l cl -> (length b < fuel1)%nat ->
      0 <= block_end v <= len b -> ck_rem s = len b - block_end v ->
      rel (block_end v)
          (fun s' e => is_flat l = false -> ck_c s' = e /\ block_end v + 1 <= e)
          (ck_level be b fuel2 l cl v s)
          (fit_level be b fuel1 l (lv_level v) (lv_bl v)).

  Definition P_groups (gs : groups) : Prop :=
    forall cgs v (first : bool) s fuel1 fuel2 p0,
      wf_table_groups gs -> wf_cgroups gs cgs -> (length b < fuel1)%nat ->
      p0 = (if first then block_end v else ck_c s) ->
      0 <= p0 <= len b -> ck_rem s = len b - p0 ->
      rel p0 (Qmem first (gs <> GNil) p0)
          (ck_groups be b fuel2 gs cgs v first s)
          (fit_groups be b fuel1 gs p0).

  Lemma groups_nil : P_groups GNil.
  Proof.
    intros cgs v first s fuel1 fuel2 p0 _ _ _ Hp0 Hb Hrem.
    cbn [ck_groups fit_groups rel]. exists p0. split; [reflexivity|]. split; [lia|].
    split; [exact Hrem|]. split.
    - intros ->. symmetry. exact Hp0.
    - intros H. contradiction H. reflexivity.
  Qed.

  Lemma level_step fs gs ds : P_groups gs -> P_level (Level fs gs ds).
  Proof.
    intros IHg cl hdr v s fuel1 fuel2 Hwt Hwc Hf1 Hbe Hrem.
    destruct cl as [al cgs]. cbn [wf_clevel] in Hwc. destruct Hwc as [_ Hcg].
    cbn [wf_table_level] in Hwt. destruct Hwt as (_ & _ & Hwg).
    rewrite ck_level_eq, fit_level_eq. cbn [clevel_fields clevel_groups].
    pose proof (ck_fields_spec v al s) as Hf.
    destruct (ck_fields b v al s) as [s1|?|?|]; try contradiction; [|exact I].
    change (lv_level v + lv_bl v) with (block_end v).
    assert (Hrem1 : ck_rem s1 = len b - block_end v) by lia.
    pose proof (IHg cgs v true s1 fuel1 fuel2 (block_end v) Hwg Hcg Hf1 eq_refl Hbe Hrem1) as Hg.
    destruct (ck_groups be b fuel2 gs cgs v true s1) as [s2|st|k o st|]; cbn [rel] in Hg.
    - destruct Hg as (e1 & Hr1 & Hb1 & Hrem2 & Hq1a & Hq1b). rewrite Hr1. cbn [obind].
      assert (Hp : e1 = if groups_empty gs then block_end v else ck_c s2).
      { destruct gs as [|d cbl l rest]; cbn [groups_empty].
        - cbn [fit_groups] in Hr1. inversion Hr1. reflexivity.
        - symmetry. apply Hq1b. discriminate. }
      pose proof (ck_datas_spec v ds (groups_empty gs) s2 e1 Hp ltac:(lia) Hrem2) as Hd.
      eapply rel_weaken; [exact Hd|lia|].
      intros s' e He [Hqa Hqb] Hfl.
      destruct gs as [|d cbl l rest].
      + unfold is_flat in Hfl. cbn [level_groups level_datas groups_empty andb] in Hfl.
        assert (Hds : ds <> []) by (destruct ds; [discriminate|discriminate]).
        specialize (Hqb Hds). cbn [fit_groups] in Hr1. inversion Hr1. subst e1. exact Hqb.
      + assert (Hne : GCons d cbl l rest <> GNil) by discriminate.
        specialize (Hq1b Hne). cbn [groups_empty] in Hqa. specialize (Hqa eq_refl).
        split; [exact Hqa|lia].
    - cbn [rel]. apply bad_bind; [exact Hg|]. intros e He. apply fit_datas_bad, He.
    - exact I.
    - exact I.
  Qed.

  (* entries of a nested group, given the statement for the entry level *)
  Lemma entries_spec l cl bl fuel1 fuel2 :
    P_level l -> wf_table_level l -> wf_clevel 0 l cl -> is_flat l = false -> 0 <= bl ->
    (length b < fuel1)%nat ->
    forall j k n s, 0 <= ck_c s <= len b -> ck_rem s = len b - ck_c s ->
      len b < ck_c s + Z.of_nat k ->
      rel (ck_c s) (fun s' e => ck_c s' = e)
          (ck_entries be b fuel2 l cl bl j n s)
          (fit_entries be b fuel1 l bl k n (ck_c s)).
  Proof.
    intros IHl Hwl Hcl Hfl Hbl Hf1.
    induction j as [|j IHj]; intros k n s Hc Hrem Hk;
      rewrite ck_entries_eq, fit_entries_eq.
    - destruct (n <=? 0); [|exact I].
      cbn [rel]. exists (ck_c s). repeat split; try lia.
    - destruct (n <=? 0).
      { cbn [rel]. exists (ck_c s). repeat split; try lia. }
      cbv zeta. rewrite (is_empty_level_nonflat l cl Hfl).
      unfold validate. cbn [ck_rem ck_c ck_steps tick].
      destruct (Z.ltb_spec (ck_rem s) bl) as [Hlt|Hge].
      + cbn [rel]. destruct (Z.ltb_spec (len b) (ck_c s + bl)); [exact I|lia].
      + destruct (Z.ltb_spec (len b) (ck_c s + bl)) as [|_]; [lia|].
        destruct k as [|k]; [lia|].
        set (ev := {| lv_start := ck_c s; lv_level := ck_c s; lv_bl := bl; lv_end := len b |}).
        set (s2 := {| ck_rem := ck_rem s - bl; ck_c := ck_c s; ck_steps := ck_steps s + 1 |}).
        assert (Hbe : block_end ev = ck_c s + bl) by reflexivity.
        pose proof (IHl cl 0 ev s2 fuel1 fuel2 Hwl Hcl Hf1 ltac:(rewrite Hbe; lia)
                      ltac:(rewrite Hbe; cbn [s2 ck_rem]; lia)) as Hl.
        cbn [ev lv_level lv_bl] in Hl. fold ev in Hl.
        destruct (ck_level be b fuel2 l cl ev s2) as [s3|st|kk o st|]; cbn [rel] in Hl.
        * destruct Hl as (e & Hr & Hb & Hrem3 & Hq). specialize (Hq Hfl).
          destruct Hq as [Hc3 Hprog]. rewrite Hbe in Hb, Hprog.
          rewrite Hr. cbn [obind].
          replace e with (ck_c s3) at 1 by exact Hc3.
          eapply rel_weaken.
          -- apply (IHj k (n - 1) s3); lia.
          -- lia.
          -- intros s' e' _ H. exact H.
        * cbn [rel]. apply bad_bind; [exact Hl|]. intros e He.
          apply fit_entries_bad; assumption.
        * exact I.
        * exact I.
  Qed.

  (* what follows a group *)
  Lemma groups_continue rest crest v fuel1 fuel2 p0 p1 out1 res1 :
    P_groups rest -> wf_table_groups rest -> wf_cgroups rest crest -> (length b < fuel1)%nat ->
    0 <= p0 -> p0 + 1 <= p1 ->
    rel p1 (fun s' e => ck_c s' = e) out1 res1 ->
    rel p0 (fun s' e => ck_c s' = e /\ p0 + 1 <= e)
      (match out1 with
       | KOk s2 => ck_groups be b fuel2 rest crest v false s2
       | KInvalid st => KInvalid st
       | KOob k o st => KOob k o st
       | KFuel => KFuel
       end)
      (obind res1 (fun p => fit_groups be b fuel1 rest p)).
  Proof.
    intros IHr Hwr Hcr Hf1 Hp0 Hp1 H.
    destruct out1 as [s2|st|k o st|]; cbn [rel] in H.
    - destruct H as (e1 & -> & Hb1 & Hrem1 & Hc1). cbn [obind].
      eapply rel_weaken.
      + apply (IHr crest v false s2 fuel1 fuel2 e1 Hwr Hcr Hf1); [symmetry; exact Hc1|lia|exact Hrem1].
      + lia.
      + intros s' e He [Hq _]. specialize (Hq eq_refl). split; [exact Hq|lia].
    - cbn [rel]. apply bad_bind; [exact H|]. intros e He. apply fit_groups_bad, He.
    - exact I.
    - exact I.
  Qed.

  Lemma groups_step d cbl l rest : P_level l -> P_groups rest -> P_groups (GCons d cbl l rest).
  Proof.
    intros IHl IHr cgs v first s fuel1 fuel2 p0 Hwt Hwc Hf1 Hp0 Hb Hrem.
    destruct cgs as [|cl crest]; [contradiction|].
    cbn [wf_table_groups] in Hwt. destruct Hwt as (Hd & Hcbl & Hwl & Hwr).
    cbn [wf_cgroups] in Hwc. destruct Hwc as (Hcl & Hcr).
    destruct Hd as (Hu1 & Hu2 & Hbo & Hbe & Hno & Hne & Hdisj).
    pose proof (tbytes_pos (d_bl_t d)) as Ht1. pose proof (tbytes_pos (d_n_t d)) as Ht2.
    rewrite (ck_groups_cons be b fuel2 d cbl l rest cl crest v first s p0 Hp0), fit_groups_cons.
    (* every outcome is weakened to the member form at the end *)
    assert (Hfin : forall out res,
              rel p0 (fun s' e => ck_c s' = e /\ p0 + 1 <= e) out res ->
              rel p0 (Qmem first (GCons d cbl l rest <> GNil) p0) out res).
    { intros out res H. eapply rel_weaken; [exact H|lia|].
      intros s' e _ [H1 H2]. split; [intros _; exact H1|intros _; split; assumption]. }
    unfold validate. cbn [ck_rem ck_c ck_steps tick set_c].
    destruct (Z.ltb_spec (ck_rem s) (d_size d)) as [Hlt|Hge].
    - cbn [rel]. destruct (in_buf b p0 (d_size d)) eqn:E; cbn [negb]; [|exact I].
      apply in_buf_iff in E. lia.
    - replace (in_buf b p0 (d_size d)) with true by (symmetry; apply in_buf_iff; lia).
      cbn [negb].
      rewrite !touch_in by lia. rewrite !rd_in by lia. cbn [obind].
      apply Hfin. unfold ck_group_body. cbv zeta.
      set (bl := dec be (slice b (p0 + d_bl_off d) (tbytes (d_bl_t d)))).
      set (n := dec be (slice b (p0 + d_n_off d) (tbytes (d_n_t d)))).
      assert (Hbl : 0 <= bl) by apply val_nonneg.
      assert (Hn : 0 <= n) by apply val_nonneg.
      cbn [ck_rem ck_c ck_steps].
      apply (groups_continue rest crest v fuel1 fuel2 p0 (p0 + d_size d)); try assumption; try lia.
      destruct (is_flat l) eqn:Hfl.
      + rewrite flat_check by lia.
        assert (Hnb : 0 <= n * bl) by (apply Z.mul_nonneg_nonneg; assumption).
        destruct (Z.ltb_spec (ck_rem s - d_size d) (n * bl)) as [Hlt|Hge2].
        * cbn [rel bad]. destruct (Z.leb_spec (p0 + d_size d + n * bl) (len b)); [lia|exact I].
        * cbn [rel ck_rem ck_c]. destruct (Z.leb_spec (p0 + d_size d + n * bl) (len b)); [|lia].
          exists (p0 + d_size d + n * bl). repeat split; try lia.
      + set (s1 := {| ck_rem := ck_rem s - d_size d; ck_c := p0 + d_size d;
                      ck_steps := ck_steps s + 1 |}).
        change (p0 + d_size d) with (ck_c s1).
        apply (entries_spec l cl bl fuel1 fuel2 IHl Hwl Hcl Hfl Hbl Hf1 fuel2 fuel1 n s1);
          cbn [s1 ck_c ck_rem]; unfold len in *; lia.
  Qed.

  Lemma exact_all : (forall l, P_level l) /\ (forall gs, P_groups gs).
  Proof.
    split.
    - apply (level_mind P_level P_groups).
      + intros fs gs IH ds. apply level_step, IH.
      + exact groups_nil.
      + intros d cbl l IHl rest IHr. apply groups_step; assumption.
    - apply (groups_mind P_level P_groups).
      + intros fs gs IH ds. apply level_step, IH.
      + exact groups_nil.
      + intros d cbl l IHl rest IHr. apply groups_step; assumption.
  Qed.
End Exact.

Theorem checked_exact' : stmt_checked_exact'.
Proof.
  unfold stmt_checked_exact'. intros be b m cl fuel Hok Hs Hbo Hbe Hwt Hwc Hlen Hfuel.
  pose proof (tbytes_pos (m_bl_t m)) as Ht.
  unfold size_bytes_checked, described_fit.
  destruct (Z.ltb_spec (len b) (m_hdr_size m)) as [Hlt|Hge].
  - destruct (in_buf b 0 (m_hdr_size m)) eqn:E; cbn [negb]; [|reflexivity].
    apply in_buf_iff in E. lia.
  - replace (in_buf b 0 (m_hdr_size m)) with true by (symmetry; apply in_buf_iff; lia).
    cbn [negb].
    rewrite (rd_in be b) by lia. cbn [obind].
    set (bl := dec be (slice b (m_bl_off m) (tbytes (m_bl_t m)))).
    assert (Hbl : 0 <= bl) by (apply val_nonneg; exact Hok).
    unfold validate. cbn [ck_rem ck_c ck_steps].
    destruct (Z.ltb_spec (len b) (m_hdr_size m)) as [|_]; [lia|].
    cbn [ck_rem ck_c ck_steps].
    destruct (Z.ltb_spec (len b - m_hdr_size m) bl) as [Hlt|Hge2].
    + destruct (fit_level be b (S (length b)) (m_level m) (m_hdr_size m) bl) as [e|];
        cbn [obind]; [|reflexivity].
      destruct (Z.leb_spec (m_hdr_size m + bl) (len b)); [lia|reflexivity].
    + set (v := {| lv_start := 0; lv_level := m_hdr_size m; lv_bl := bl; lv_end := len b |}).
      set (s2 := {| ck_rem := len b - m_hdr_size m - bl; ck_c := m_hdr_size m; ck_steps := 0 |}).
      assert (Hbe' : block_end v = m_hdr_size m + bl) by reflexivity.
      pose proof (proj1 (exact_all be b Hok Hlen) (m_level m) cl (m_hdr_size m) v s2
                    (S (length b)) fuel Hwt Hwc ltac:(lia) ltac:(rewrite Hbe'; lia)
                    ltac:(rewrite Hbe'; cbn [s2 ck_rem]; lia)) as H.
      cbn [v lv_level lv_bl] in H. fold v in H.
      destruct (ck_level be b fuel (m_level m) cl v s2) as [s3|st|k o st|]; cbn [rel] in H.
      * destruct H as (e & Hr & Hb & Hrem & _). rewrite Hr. cbn [obind].
        destruct (Z.leb_spec (m_hdr_size m + bl) (len b)); [|lia].
        destruct (Z.leb_spec e (len b)); [|lia]. cbn [andb]. f_equal. lia.
      * destruct (fit_level be b (S (length b)) (m_level m) (m_hdr_size m) bl) as [e|];
          cbn [obind]; [|reflexivity].
        cbn [bad] in H. destruct (Z.leb_spec e (len b)); [lia|].
        rewrite andb_false_r. reflexivity.
      * exact I.
      * exact I.
Qed.
Print Assumptions checked_exact'.
