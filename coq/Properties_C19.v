(* Properties_C19.v — C19: visiting enumerates members faithfully. *)
From Coq Require Import ZArith List.
From Sbepp Require Import CInt Bytes Msg Layout Wire MsgSpec Cursor CursorSpec CursorProofs Bitset BitsetProofs.
Import ListNotations.
Local Open Scope Z_scope.

(* a complete visit of the image of any well-formed value tree produces exactly
   CursorSpec.ev_level: every non-constant field of a level once, in schema
   order, at the address the named accessor reads; every group with its count;
   every entry in order at the address where the previous one ends; every data
   member with its length -- and leaves the cursor at the end of the view *)
Theorem C19_visit_events_and_cursor_end : stmt_trav_message_enc''.
Proof. exact trav_message_enc''. Qed.
Print Assumptions C19_visit_events_and_cursor_end.

(* visiting a set reports every declared choice with its bit, in declaration
   order (shared with C15) *)
Theorem C19_set_visit : forall T bits idx,
  is_set_type T = true -> in_range T bits = true ->
  Forall (fun n => 0 <= n < CInt.bits T) idx ->
  visit_set T bits idx = map (fun n => Some (Z.testbit bits n)) idx.
Proof. exact visit_set_spec. Qed.
Print Assumptions C19_set_visit.

From Sbepp Require Import EnumVisit.

(* visiting an enum value yields the tag of the validValue with that constant,
   or the unknown tag exactly when no validValue has it *)
Theorem C19_enum_visit_value_tag : forall vals v i,
  NoDup vals -> nth_error vals i = Some v -> enum_visit vals v = Some i.
Proof. exact enum_visit_unique. Qed.
Print Assumptions C19_enum_visit_value_tag.

Theorem C19_enum_visit_unknown : forall vals v, enum_visit vals v = None <-> ~ In v vals.
Proof. exact enum_visit_none. Qed.
Print Assumptions C19_enum_visit_unknown.

From Sbepp Require Import CursorStop CursorStopProofs.

(* "it stops as soon as a callback returns true": a visitor whose callback
   number k+1 returns true sees exactly the first k callbacks of the complete
   visit and no later one -- for ALL buffers and tables *)
Theorem C19_stop_yields_prefix : stmt_stop_prefix.
Proof. exact stop_prefix. Qed.
Print Assumptions C19_stop_yields_prefix.

Theorem C19_no_stop_is_complete_visit : stmt_stop_beyond.
Proof. exact stop_beyond. Qed.
Print Assumptions C19_no_stop_is_complete_visit.

Theorem C19_completed_stop_run_is_complete_visit : stmt_stop_done_complete.
Proof. exact stop_done_complete. Qed.
Print Assumptions C19_completed_stop_run_is_complete_visit.

Theorem C19_stop_runs_are_prefix_ordered : stmt_stop_events_prefix_general.
Proof. exact stop_events_prefix_general. Qed.
Print Assumptions C19_stop_runs_are_prefix_ordered.

Theorem C19_stop_budget_counts_callbacks : stmt_stop_budget_general.
Proof. exact stop_budget_general. Qed.
Print Assumptions C19_stop_budget_counts_callbacks.

(* on the image of any well-formed value tree: the first k members / entries
   of the declarative event list, in schema order *)
Theorem C19_stop_on_image_is_schema_order_prefix : stmt_stop_prefix_enc.
Proof. exact stop_prefix_enc. Qed.
Print Assumptions C19_stop_on_image_is_schema_order_prefix.
