(* Properties_C19.v — extended as proofs land *)
From Coq Require Import ZArith List.
From Sbepp Require Import Bytes BytesFacts.
Theorem C19_codec_round_trip : forall be w x, dec be (enc be w x) = (x mod 256 ^ Z.of_nat w)%Z.
Proof. exact dec_enc. Qed.
Print Assumptions C19_codec_round_trip.
