(* FillProofs.v — C17: the header fillers write exactly the listed members
   (statements in ScriptSpec.v). *)
From Coq Require Import ZArith List Bool Lia.
From Sbepp Require Import CInt CIntFacts Bytes BytesFacts Msg Layout Wire MsgSpec LayoutProofs
  MsgProofs Cursor CursorSpec Checked ScriptSpec.
Import ListNotations.
Local Open Scope Z_scope.

(* ================================================================== *)
(* Buffer algebra: presentation  b = pre ++ mid ++ post                *)
(* ================================================================== *)

Lemma buf_split b pos n : in_buf b pos n = true ->
  exists pre mid post, b = pre ++ mid ++ post /\ len pre = pos /\ len mid = n.
Proof.
  intros H. apply in_buf_iff in H. destruct H as (Hp & Hn & Hle). unfold len in *.
  exists (firstn (Z.to_nat pos) b), (firstn (Z.to_nat n) (skipn (Z.to_nat pos) b)),
         (skipn (Z.to_nat n) (skipn (Z.to_nat pos) b)).
  split; [now rewrite !firstn_skipn|].
  split.
  - rewrite firstn_length. lia.
  - rewrite firstn_length, skipn_length. lia.
Qed.

Lemma firstn_app_le {A} (l1 l2 : list A) n : (n <= length l1)%nat ->
  firstn n (l1 ++ l2) = firstn n l1.
Proof.
  intros H. rewrite firstn_app. replace (n - length l1)%nat with 0%nat by lia.
  cbn [firstn]. apply app_nil_r.
Qed.

Lemma skipn_app_le {A} (l1 l2 : list A) n : (n <= length l1)%nat ->
  skipn n (l1 ++ l2) = skipn n l1 ++ l2.
Proof.
  intros H. rewrite skipn_app. replace (n - length l1)%nat with 0%nat by lia. reflexivity.
Qed.

(* a splice inside the middle segment *)
Lemma splice_mid pre mid post off bs : in_buf mid off (len bs) = true ->
  splice (pre ++ mid ++ post) (len pre + off) bs = pre ++ splice mid off bs ++ post.
Proof.
  intros H. apply in_buf_iff in H. destruct H as (Ho & _ & Hle). unfold splice, len in *.
  replace (Z.to_nat (Z.of_nat (length pre) + off)) with (length pre + Z.to_nat off)%nat by lia.
  rewrite firstn_app, firstn_all2 by lia.
  replace (length pre + Z.to_nat off - length pre)%nat with (Z.to_nat off) by lia.
  rewrite firstn_app_le by lia.
  rewrite <- Nat.add_assoc.
  rewrite skipn_app, skipn_all2 by lia. cbn [app].
  replace (length pre + (Z.to_nat off + length bs) - length pre)%nat
    with (Z.to_nat off + length bs)%nat by lia.
  rewrite skipn_app_le by lia.
  now rewrite <- !app_assoc.
Qed.

Lemma splice_slice_id b pos n : in_buf b pos n = true -> splice b pos (slice b pos n) = b.
Proof.
  intros H. destruct (buf_split b pos n H) as (pre & mid & post & -> & <- & <-).
  rewrite slice_app_mid. apply splice_app_mid. reflexivity.
Qed.

(* ================================================================== *)
(* put_fills                                                           *)
(* ================================================================== *)

Lemma fill_in_buf hdr hsz off t : len hdr = hsz -> 0 <= off -> off + tbytes t <= hsz ->
  in_buf hdr off (tbytes t) = true.
Proof.
  intros Hl Ho Hle. apply in_buf_iff. pose proof (tbytes_pos t). lia.
Qed.

Lemma len_put_fills be cbl n hsz : forall fills hdr,
  len hdr = hsz -> fills_inside hsz fills -> len (put_fills be fills cbl n hdr) = hsz.
Proof.
  induction fills as [|[[off t] v] rest IH]; intros hdr Hl Hin; cbn [put_fills].
  - exact Hl.
  - cbn [fills_inside] in Hin. destruct Hin as (Ho & Hle & Hrest).
    apply IH; [|exact Hrest].
    rewrite len_put; [exact Hl|]. eapply fill_in_buf; eassumption.
Qed.

(* the filler on a presented buffer *)
Lemma do_fills_pres be pre post cbl n hsz : forall fills mid,
  len mid = hsz -> fills_inside hsz fills ->
  do_fills be (pre ++ mid ++ post) (len pre) fills cbl n
  = Some (pre ++ put_fills be fills cbl n mid ++ post).
Proof.
  induction fills as [|[[off t] v] rest IH]; intros mid Hl Hin; cbn [do_fills put_fills].
  - reflexivity.
  - cbn [fills_inside] in Hin. destruct Hin as (Ho & Hle & Hrest).
    assert (Hib : in_buf mid off (tbytes t) = true) by (eapply fill_in_buf; eassumption).
    unfold wr. rewrite len_enc_tw. rewrite in_buf_mid by exact Hib. cbn [obind].
    rewrite splice_mid by (rewrite len_enc_tw; exact Hib).
    fold (put be mid off t (fill_value cbl n v)).
    apply IH; [|exact Hrest]. rewrite len_put; [exact Hl|exact Hib].
Qed.

Theorem do_fills_spec : stmt_do_fills_spec.
Proof.
  unfold stmt_do_fills_spec. intros be b pos hsz fills cbl n Hin Hb.
  destruct (buf_split b pos hsz Hb) as (pre & mid & post & -> & <- & <-).
  rewrite slice_app_mid.
  rewrite (do_fills_pres be pre post cbl n (len mid) fills mid eq_refl Hin).
  f_equal. symmetry. apply splice_app_mid.
  pose proof (len_put_fills be cbl n (len mid) fills mid eq_refl Hin) as H.
  unfold len in H. lia.
Qed.
Print Assumptions do_fills_spec.

Theorem do_fills_frame : stmt_do_fills_frame.
Proof.
  unfold stmt_do_fills_frame. intros be b pos hsz fills cbl n b' Hin Hb H.
  rewrite (do_fills_spec be b pos hsz fills cbl n Hin Hb) in H.
  inversion H; subst b'; clear H.
  pose proof Hb as Hb'. apply in_buf_iff in Hb'. destruct Hb' as (Hp & Hn & Hle).
  assert (Hl : len (put_fills be fills cbl n (slice b pos hsz)) = hsz).
  { apply len_put_fills; [|exact Hin]. unfold len. rewrite length_slice by exact Hb. lia. }
  assert (Hib : in_buf b pos (len (put_fills be fills cbl n (slice b pos hsz))) = true)
    by (rewrite Hl; exact Hb).
  split; [apply len_splice; exact Hib|].
  intros i Hi. apply nth_splice_other; [exact Hib|].
  unfold len in Hl. destruct Hi as [Hi|Hi]; [left; exact Hi|right]. lia.
Qed.
Print Assumptions do_fills_frame.

(* members that no later assignment overlaps keep their bytes *)
Lemma put_fills_other be cbl n hsz off t : forall fills hdr,
  len hdr = hsz -> fills_inside hsz fills -> 0 <= off -> off + tbytes t <= hsz ->
  Forall (fun x => let '(o2, t2, _) := x in off + tbytes t <= o2 \/ o2 + tbytes t2 <= off) fills ->
  slice (put_fills be fills cbl n hdr) off (tbytes t) = slice hdr off (tbytes t).
Proof.
  induction fills as [|[[o2 t2] v2] rest IH]; intros hdr Hl Hin Ho Hle Hd; cbn [put_fills].
  - reflexivity.
  - cbn [fills_inside] in Hin. destruct Hin as (Ho2 & Hle2 & Hrest).
    inversion Hd as [|x r Hd1 Hdr]; subst x r.
    assert (Hib2 : in_buf hdr o2 (tbytes t2) = true) by (eapply fill_in_buf; eassumption).
    assert (Hib : in_buf hdr off (tbytes t) = true) by (eapply fill_in_buf; eassumption).
    rewrite IH; try assumption.
    + apply slice_put_other; assumption.
    + rewrite len_put; assumption.
Qed.

Lemma put_fills_value be cbl n hsz off t v : forall fills hdr,
  len hdr = hsz -> fills_inside hsz fills -> fills_disjoint fills ->
  In (off, t, v) fills ->
  slice (put_fills be fills cbl n hdr) off (tbytes t) = enc be (tw t) (fill_value cbl n v).
Proof.
  induction fills as [|[[o2 t2] v2] rest IH]; intros hdr Hl Hin Hdis HIn; [contradiction|].
  cbn [put_fills]. cbn [fills_inside] in Hin. destruct Hin as (Ho2 & Hle2 & Hrest).
  cbn [fills_disjoint] in Hdis. destruct Hdis as (Hd1 & Hdr).
  assert (Hib2 : in_buf hdr o2 (tbytes t2) = true) by (eapply fill_in_buf; eassumption).
  assert (Hl' : len (put be hdr o2 t2 (fill_value cbl n v2)) = hsz) by (rewrite len_put; assumption).
  destruct HIn as [Heq|HIn].
  - inversion Heq; subst o2 t2 v2; clear Heq.
    rewrite (put_fills_other be cbl n hsz off t rest _ Hl' Hrest Ho2 Hle2 Hd1).
    apply slice_put_same. exact Hib2.
  - apply IH; assumption.
Qed.

Theorem do_fills_values : stmt_do_fills_values.
Proof.
  unfold stmt_do_fills_values.
  intros be b pos hsz fills cbl n b' off t v Hin Hdis Hb Hfit H HIn.
  destruct (buf_split b pos hsz Hb) as (pre & mid & post & -> & <- & <-).
  rewrite (do_fills_pres be pre post cbl n (len mid) fills mid eq_refl Hin) in H.
  inversion H; subst b'; clear H.
  assert (Hoff : 0 <= off /\ off + tbytes t <= len mid).
  { clear - Hin HIn. induction fills as [|[[o2 t2] v2] rest IH]; [contradiction|].
    cbn [fills_inside] in Hin. destruct Hin as (Ho2 & Hle2 & Hrest).
    destruct HIn as [Heq|HIn]; [inversion Heq; subst; lia|apply IH; assumption]. }
  destruct Hoff as [Ho Hle].
  pose proof (len_put_fills be cbl n (len mid) fills mid eq_refl Hin) as Hl.
  rewrite (rd_at be _ pre (put_fills be fills cbl n mid) post off t eq_refl).
  2:{ eapply fill_in_buf; eassumption. }
  f_equal.
  rewrite (put_fills_value be cbl n (len mid) off t v fills mid eq_refl Hin Hdis HIn).
  apply dec_enc_fits.
  rewrite Forall_forall in Hfit. specialize (Hfit _ HIn). cbn in Hfit. apply Hfit.
Qed.
Print Assumptions do_fills_values.
