(* MsgProofs.v — proofs of the wire / runtime statements of MsgSpec.v. *)
From Coq Require Import ZArith List Bool Lia.
From Sbepp Require Import CInt CIntFacts Bytes BytesFacts Msg Layout Wire MsgSpec.
Import ListNotations.
Local Open Scope Z_scope.

(* ================================================================== *)
(* Buffers                                                             *)
(* ================================================================== *)

Lemma len_length a : len a = Z.of_nat (length a).
Proof. reflexivity. Qed.

Lemma len_nil : len [] = 0.
Proof. reflexivity. Qed.

Lemma nth_firstn_lt {A} (l : list A) n i d : (i < n)%nat -> nth i (firstn n l) d = nth i l d.
Proof.
  revert n i. induction l as [|x l IH]; intros n i Hi.
  - rewrite firstn_nil. reflexivity.
  - destruct n as [|n]; [lia|]. destruct i as [|i]; [reflexivity|].
    cbn. apply IH. lia.
Qed.

Lemma nth_slice b off n i d : (i < Z.to_nat n)%nat ->
  nth i (slice b off n) d = nth (Z.to_nat off + i) b d.
Proof. intros Hi. unfold slice. rewrite nth_firstn_lt by exact Hi. apply nth_skipn'. Qed.

(* a slice that lies inside the middle segment *)
Lemma slice_mid pre mid post off n : in_buf mid off n = true ->
  slice (pre ++ mid ++ post) (len pre + off) n = slice mid off n.
Proof.
  intros H. apply in_buf_iff in H. destruct H as [Ho [Hn Hle]].
  unfold slice, len in *.
  replace (Z.to_nat (Z.of_nat (length pre) + off)) with (length pre + Z.to_nat off)%nat by lia.
  rewrite skipn_app.
  rewrite skipn_all2 by lia. cbn [app].
  replace (length pre + Z.to_nat off - length pre)%nat with (Z.to_nat off) by lia.
  rewrite skipn_app, firstn_app.
  rewrite skipn_length.
  replace (Z.to_nat n - (length mid - Z.to_nat off))%nat with 0%nat by lia.
  cbn [firstn]. apply app_nil_r.
Qed.

Lemma in_buf_mid pre mid post off n : in_buf mid off n = true ->
  in_buf (pre ++ mid ++ post) (len pre + off) n = true.
Proof.
  rewrite !in_buf_iff, !len_app. pose proof (len_nonneg pre). pose proof (len_nonneg post). lia.
Qed.

Lemma slice_full b : slice b 0 (len b) = b.
Proof.
  unfold slice, len. cbn [Z.to_nat skipn]. rewrite Nat2Z.id. apply firstn_all.
Qed.

(* overwriting elsewhere does not change a slice *)
Lemma slice_splice_other b off bs off' n :
  in_buf b off (len bs) = true -> in_buf b off' n = true ->
  off' + n <= off \/ off + len bs <= off' ->
  slice (splice b off bs) off' n = slice b off' n.
Proof.
  intros H1 H2 Hd.
  assert (Hl : length (splice b off bs) = length b) by (apply length_splice; exact H1).
  assert (H2' : in_buf (splice b off bs) off' n = true).
  { apply in_buf_iff. apply in_buf_iff in H2. unfold len in *. rewrite Hl. exact H2. }
  apply (nth_ext _ _ 0 0).
  - rewrite !length_slice by assumption. reflexivity.
  - intros i Hi. rewrite length_slice in Hi by assumption.
    rewrite !nth_slice by exact Hi.
    apply nth_splice_other; [exact H1|].
    apply in_buf_iff in H1. apply in_buf_iff in H2. unfold len in *. lia.
Qed.

Lemma len_splice b off bs : in_buf b off (len bs) = true -> len (splice b off bs) = len b.
Proof. intros H. unfold len. f_equal. apply length_splice. exact H. Qed.

(* ================================================================== *)
(* Header members                                                      *)
(* ================================================================== *)

Lemma tbytes_pos t : 1 <= tbytes t.
Proof. destruct t; vm_compute; discriminate. Qed.

Lemma tbytes_tw t : Z.of_nat (tw t) = tbytes t.
Proof. unfold tw. pose proof (tbytes_pos t). lia. Qed.

Lemma pow_tw t : 256 ^ Z.of_nat (tw t) = 2 ^ bits t.
Proof. destruct t; reflexivity. Qed.

Lemma len_enc be w x : len (enc be w x) = Z.of_nat w.
Proof. unfold len. now rewrite length_enc. Qed.

Lemma len_enc_tw be t x : len (enc be (tw t) x) = tbytes t.
Proof. rewrite len_enc. apply tbytes_tw. Qed.

Lemma dec_enc_fits be t v : fits t v -> dec be (enc be (tw t) v) = v.
Proof.
  intros H. rewrite dec_enc, pow_tw. apply Z.mod_small. exact H.
Qed.

Lemma len_put be bg off t v : in_buf bg off (tbytes t) = true ->
  len (put be bg off t v) = len bg.
Proof. intros H. unfold put. apply len_splice. rewrite len_enc_tw. exact H. Qed.

Lemma slice_put_same be bg off t v : in_buf bg off (tbytes t) = true ->
  slice (put be bg off t v) off (tbytes t) = enc be (tw t) v.
Proof.
  intros H. unfold put. rewrite <- (len_enc_tw be t v).
  apply slice_splice_same. rewrite len_enc_tw. exact H.
Qed.

Lemma dec_put_same be bg off t v : in_buf bg off (tbytes t) = true -> fits t v ->
  dec be (slice (put be bg off t v) off (tbytes t)) = v.
Proof. intros H Hf. rewrite slice_put_same by exact H. apply dec_enc_fits. exact Hf. Qed.

Lemma slice_put_other be bg off t v off' n :
  in_buf bg off (tbytes t) = true -> in_buf bg off' n = true ->
  off' + n <= off \/ off + tbytes t <= off' ->
  slice (put be bg off t v) off' n = slice bg off' n.
Proof.
  intros H1 H2 Hd. unfold put. apply slice_splice_other; rewrite ?len_enc_tw; assumption.
Qed.

Lemma in_buf_len_eq a b off n : len a = len b -> in_buf a off n = in_buf b off n.
Proof. intros H. unfold in_buf. rewrite H. reflexivity. Qed.

(* reading a header member of a segment placed anywhere in a buffer *)
Lemma rd_at be b pre mid post off t :
  b = pre ++ mid ++ post -> in_buf mid off (tbytes t) = true ->
  rd be b (len pre + off) t = Some (dec be (slice mid off (tbytes t))).
Proof.
  intros -> H. unfold rd. rewrite in_buf_mid by exact H. rewrite slice_mid by exact H. reflexivity.
Qed.

Lemma rd_enc_at be b pre post t v :
  b = pre ++ enc be (tw t) v ++ post -> fits t v ->
  rd be b (len pre) t = Some v.
Proof.
  intros Hb Hf.
  assert (Hin : in_buf (enc be (tw t) v) 0 (tbytes t) = true).
  { apply in_buf_iff. rewrite len_enc_tw. pose proof (tbytes_pos t). lia. }
  pose proof (rd_at be b pre _ post 0 t Hb Hin) as H.
  rewrite Z.add_0_r in H. rewrite H. f_equal.
  rewrite <- (len_enc_tw be t v), slice_full. apply dec_enc_fits. exact Hf.
Qed.

Lemma rd_bytes_at b pre mid post off n :
  b = pre ++ mid ++ post -> in_buf mid off n = true ->
  rd_bytes b (len pre + off) n = Some (slice mid off n).
Proof.
  intros -> H. unfold rd_bytes. rewrite in_buf_mid by exact H. rewrite slice_mid by exact H.
  reflexivity.
Qed.

(* ---- dimension composite ---- *)

Lemma wf_dim_in_bl d bg : wf_dim d -> len bg = d_size d ->
  in_buf bg (d_bl_off d) (tbytes (d_bl_t d)) = true.
Proof.
  intros (_ & _ & H1 & H2 & _) Hl. apply in_buf_iff. rewrite Hl.
  pose proof (tbytes_pos (d_bl_t d)). lia.
Qed.

Lemma wf_dim_in_n d bg : wf_dim d -> len bg = d_size d ->
  in_buf bg (d_n_off d) (tbytes (d_n_t d)) = true.
Proof.
  intros (_ & _ & _ & _ & H1 & H2 & _) Hl. apply in_buf_iff. rewrite Hl.
  pose proof (tbytes_pos (d_n_t d)). lia.
Qed.

Lemma wf_dim_size_pos d : wf_dim d -> 1 <= d_size d.
Proof.
  intros (_ & _ & H1 & H2 & _). pose proof (tbytes_pos (d_bl_t d)). lia.
Qed.

Lemma len_dim_bytes be d bg bl n : wf_dim d -> len bg = d_size d ->
  len (dim_bytes be d bg bl n) = d_size d.
Proof.
  intros Hd Hl. unfold dim_bytes.
  assert (H1 : len (put be bg (d_bl_off d) (d_bl_t d) bl) = d_size d).
  { rewrite len_put; [exact Hl|]. apply wf_dim_in_bl; assumption. }
  rewrite len_put; [exact H1|]. apply wf_dim_in_n; assumption.
Qed.

Lemma dim_bytes_bl be d bg bl n : wf_dim d -> len bg = d_size d -> fits (d_bl_t d) bl ->
  dec be (slice (dim_bytes be d bg bl n) (d_bl_off d) (tbytes (d_bl_t d))) = bl.
Proof.
  intros Hd Hl Hf. unfold dim_bytes.
  pose proof (wf_dim_in_bl d bg Hd Hl) as Hib.
  assert (H1 : len (put be bg (d_bl_off d) (d_bl_t d) bl) = d_size d)
    by (rewrite len_put; assumption).
  rewrite slice_put_other.
  - apply dec_put_same; assumption.
  - apply wf_dim_in_n; assumption.
  - apply wf_dim_in_bl; assumption.
  - destruct Hd as (_ & _ & _ & _ & _ & _ & [H|H]); [left|right]; exact H.
Qed.

Lemma dim_bytes_n be d bg bl n : wf_dim d -> len bg = d_size d -> fits (d_n_t d) n ->
  dec be (slice (dim_bytes be d bg bl n) (d_n_off d) (tbytes (d_n_t d))) = n.
Proof.
  intros Hd Hl Hf. unfold dim_bytes.
  assert (H1 : len (put be bg (d_bl_off d) (d_bl_t d) bl) = d_size d).
  { rewrite len_put; [exact Hl|]. apply wf_dim_in_bl; assumption. }
  apply dec_put_same; [|exact Hf]. apply wf_dim_in_n; assumption.
Qed.

(* ================================================================== *)
(* Frame theorems                                                      *)
(* ================================================================== *)

Lemma obind_some {A B} (o : option A) (f : A -> option B) r :
  obind o f = Some r -> exists a, o = Some a /\ f a = Some r.
Proof. destruct o as [a|]; cbn; [eauto|discriminate]. Qed.

Lemma wr_frame b off bs b' : wr b off bs = Some b' ->
  0 <= off /\ off + len bs <= len b /\ len b' = len b /\
  slice b' off (len bs) = bs /\
  forall i, (i < Z.to_nat off \/ Z.to_nat off + length bs <= i)%nat ->
    nth i b' 0 = nth i b 0.
Proof.
  unfold wr. destruct (in_buf b off (len bs)) eqn:Hin; [|discriminate].
  intros H; inversion H; subst; clear H.
  pose proof Hin as Hin'. apply in_buf_iff in Hin'.
  split; [lia|]. split; [lia|]. split; [apply len_splice; exact Hin|].
  split; [apply slice_splice_same; exact Hin|].
  intros i Hi. apply nth_splice_other; assumption.
Qed.

Theorem set_field_frame : stmt_set_field_frame.
Proof.
  unfold stmt_set_field_frame, set_field. intros be b m base path k bs b' H.
  apply obind_some in H. destruct H as [[[pos bl] l] [_ H]].
  destruct (nth_error (level_fields l) k) as [f|]; [|discriminate].
  destruct (len bs =? f_size f); [|discriminate].
  exists (pos + f_off f). apply wr_frame. exact H.
Qed.
Print Assumptions set_field_frame.

Theorem group_resize_frame : stmt_group_resize_frame.
Proof.
  unfold stmt_group_resize_frame, group_resize. intros be b m base path k n b' H.
  apply obind_some in H. destruct H as [[[[g d] cbl] sub] [Hloc H]].
  exists g, d, cbl, sub. split; [exact Hloc|].
  apply wr_frame in H. destruct H as (_ & _ & Hl & _ & Hn).
  split; [exact Hl|]. intros i Hi. apply Hn. rewrite length_enc. exact Hi.
Qed.
Print Assumptions group_resize_frame.

(* ================================================================== *)
(* Unfolding equations (the fixpoints are mutual / nested: never [simpl]) *)
(* ================================================================== *)

Lemma enc_level_eq be l block vgs vds :
  enc_level be l (VLevel block vgs vds) =
  block ++ enc_groups be (level_groups l) vgs ++ enc_datas be (level_datas l) vds.
Proof. reflexivity. Qed.

Lemma enc_groups_cons be d cbl l rest bg es vrest :
  enc_groups be (GCons d cbl l rest) (VGCons bg es vrest) =
  dim_bytes be d bg (first_block_len es (dec be (slice bg (d_bl_off d) (tbytes (d_bl_t d)))))
            (ecount es)
  ++ enc_entries be l es ++ enc_groups be rest vrest.
Proof. reflexivity. Qed.

Lemma enc_groups_gnil be vgs : enc_groups be GNil vgs = [].
Proof. destruct vgs; reflexivity. Qed.

Lemma enc_entries_cons be l e r :
  enc_entries be l (VECons e r) = enc_level be l e ++ enc_entries be l r.
Proof. reflexivity. Qed.

Lemma wf_level_eq be l block vgs vds :
  wf_level be l (VLevel block vgs vds) =
  (wf_groups be (level_groups l) vgs /\ datas_fit (level_datas l) vds).
Proof. reflexivity. Qed.

Lemma wf_groups_cons be d cbl l rest bg es vrest :
  wf_groups be (GCons d cbl l rest) (VGCons bg es vrest) =
  (let bl := first_block_len es (dec be (slice bg (d_bl_off d) (tbytes (d_bl_t d)))) in
   wf_dim d /\ len bg = d_size d /\ bytes_ok bg = true /\
   fits (d_bl_t d) bl /\ fits (d_n_t d) (ecount es) /\
   all_blocks_len es bl /\
   (is_flat l = true -> d_size d + ecount es * bl < 2 ^ 64) /\
   wf_entries be l es /\ wf_groups be rest vrest).
Proof. reflexivity. Qed.

Lemma wf_entries_cons be l e r :
  wf_entries be l (VECons e r) = (wf_level be l e /\ wf_entries be l r).
Proof. reflexivity. Qed.

Lemma fuel_needed_eq l block vgs vds :
  fuel_needed l (VLevel block vgs vds) = fuel_needed_gs (level_groups l) vgs.
Proof. reflexivity. Qed.

Lemma fuel_needed_gs_cons d cbl l rest bg es vrest :
  fuel_needed_gs (GCons d cbl l rest) (VGCons bg es vrest) =
  Z.max (if is_flat l then 0 else Z.max (ecount es) (fuel_needed_es l es))
        (fuel_needed_gs rest vrest).
Proof. reflexivity. Qed.

Lemma fuel_needed_es_cons l e r :
  fuel_needed_es l (VECons e r) = Z.max (fuel_needed l e) (fuel_needed_es l r).
Proof. reflexivity. Qed.

Lemma level_end_eq be b fuel fs gs ds pos bl :
  level_end be b fuel (Level fs gs ds) pos bl =
  obind (groups_end be b fuel gs (pos + bl)) (fun p => datas_end be b ds p).
Proof. reflexivity. Qed.

(* the anonymous loop of [groups_end] is [entries_walk] *)
Lemma loop_is_entries_walk be b fuel l bl : forall k n pos,
  (fix loop (k : nat) (n pos : Z) {struct k} : option Z :=
     if n <=? 0 then Some pos else
     match k with
     | O => None
     | S k' => obind (level_end be b fuel l pos bl) (fun p' => loop k' (n - 1) p')
     end) k n pos
  = entries_walk be b fuel l bl k n pos.
Proof.
  induction k as [|k IH]; intros n pos; cbn [entries_walk].
  - reflexivity.
  - destruct (n <=? 0); [reflexivity|].
    destruct (level_end be b fuel l pos bl) as [p'|]; cbn [obind]; [apply IH|reflexivity].
Qed.

Lemma groups_end_cons be b fuel d cbl l rest pos :
  groups_end be b fuel (GCons d cbl l rest) pos =
  obind (rd be b (pos + d_bl_off d) (d_bl_t d)) (fun bl =>
  obind (rd be b (pos + d_n_off d) (d_n_t d)) (fun n =>
  obind
    (if is_flat l
     then obind (flat_group_size d n bl) (fun s => Some (pos + s))
     else entries_walk be b fuel l bl fuel n (pos + d_size d))
    (fun p => groups_end be b fuel rest p))).
Proof.
  cbn [groups_end].
  destruct (rd be b (pos + d_bl_off d) (d_bl_t d)) as [bl|]; cbn [obind]; [|reflexivity].
  destruct (rd be b (pos + d_n_off d) (d_n_t d)) as [n|]; cbn [obind]; [|reflexivity].
  destruct (is_flat l); [reflexivity|].
  rewrite loop_is_entries_walk. reflexivity.
Qed.

Lemma entries_walk_S be b fuel l bl k n pos : 0 < n ->
  entries_walk be b fuel l bl (S k) n pos =
  obind (level_end be b fuel l pos bl) (fun p' => entries_walk be b fuel l bl k (n - 1) p').
Proof.
  intros Hn. cbn [entries_walk]. destruct (Z.leb_spec n 0) as [Hle|Hgt]; [lia|reflexivity].
Qed.

Lemma entries_walk_0 be b fuel l bl k pos :
  entries_walk be b fuel l bl k 0 pos = Some pos.
Proof. destruct k; reflexivity. Qed.

(* ================================================================== *)
(* Flat groups: size by arithmetic                                     *)
(* ================================================================== *)

Lemma uac_size_t_unsigned t : is_signed t = false -> uac SIZE_T t = U64.
Proof. destruct t; intros H; try discriminate; reflexivity. Qed.

Lemma bits_le_64 t : 2 ^ bits t <= 2 ^ 64.
Proof. destruct t; vm_compute; discriminate. Qed.

Lemma wrap_u64_small z : 0 <= z < 2 ^ 64 -> wrap U64 z = z.
Proof. intros H. unfold wrap. cbn [is_signed bits]. apply Z.mod_small. exact H. Qed.

Lemma flat_group_size_ok d n bl :
  is_unsigned_ity (d_bl_t d) -> 0 <= d_size d -> 0 <= n -> 0 <= bl ->
  d_size d + n * bl < 2 ^ 64 -> n < 2 ^ 64 -> bl < 2 ^ 64 ->
  flat_group_size d n bl = Some (d_size d + n * bl).
Proof.
  intros Hu Hs Hn Hbl Hlt Hn64 Hbl64.
  assert (Hnb : 0 <= n * bl) by (apply Z.mul_nonneg_nonneg; assumption).
  unfold flat_group_size, cmul, cadd, cbin.
  rewrite (uac_size_t_unsigned _ Hu).
  unfold arith. cbn [is_signed obind].
  rewrite (wrap_u64_small n) by lia. rewrite (wrap_u64_small bl) by lia.
  rewrite (wrap_u64_small (n * bl)) by lia.
  change (uac SIZE_T SIZE_T) with U64. cbn [is_signed].
  rewrite (wrap_u64_small (d_size d)) by lia.
  rewrite (wrap_u64_small (n * bl)) by lia.
  rewrite wrap_u64_small by lia. reflexivity.
Qed.

Lemma flat_level_size_ok hdr bl :
  0 <= hdr -> 0 <= bl -> hdr + bl < 2 ^ 64 -> flat_level_size hdr bl = Some (hdr + bl).
Proof.
  intros Hh Hb Hlt. unfold flat_level_size, cadd, cbin.
  change (uac SIZE_T SIZE_T) with U64. unfold arith. cbn [is_signed].
  rewrite (wrap_u64_small hdr) by lia. rewrite (wrap_u64_small bl) by lia.
  rewrite wrap_u64_small by lia. reflexivity.
Qed.

Lemma ecount_nonneg es : 0 <= ecount es.
Proof. induction es as [|e r IH]; cbn [ecount]; lia. Qed.

Lemma is_flat_inv l : is_flat l = true -> level_groups l = GNil /\ level_datas l = [].
Proof.
  unfold is_flat, groups_empty, datas_empty. intros H. apply andb_true_iff in H.
  destruct H as [H1 H2].
  destruct (level_groups l); [|discriminate]. destruct (level_datas l); [|discriminate]. auto.
Qed.

Lemma enc_level_flat be l v : is_flat l = true -> enc_level be l v = vblock v.
Proof.
  intros H. apply is_flat_inv in H. destruct H as [Hg Hd]. destruct v as [block vgs vds].
  rewrite enc_level_eq, Hg, Hd, enc_groups_gnil. cbn [enc_datas vblock].
  now rewrite !app_nil_r.
Qed.

Lemma enc_entries_flat_len be l bl es : is_flat l = true -> all_blocks_len es bl ->
  len (enc_entries be l es) = ecount es * bl.
Proof.
  intros Hf. induction es as [|e r IH]; intros Hb.
  - reflexivity.
  - cbn [all_blocks_len] in Hb. destruct Hb as [He Hr].
    rewrite enc_entries_cons, len_app, enc_level_flat by exact Hf.
    cbn [ecount]. rewrite IH by exact Hr. lia.
Qed.

(* ================================================================== *)
(* <data> members                                                      *)
(* ================================================================== *)

Lemma datas_end_enc be : forall ds vds b pre post,
  datas_fit ds vds -> b = pre ++ enc_datas be ds vds ++ post ->
  datas_end be b ds (len pre) = Some (len pre + len (enc_datas be ds vds)).
Proof.
  induction ds as [|t ds IH]; intros vds b pre post Hfit Hb.
  - destruct vds; [|contradiction]. cbn [datas_end enc_datas]. rewrite len_nil. f_equal. lia.
  - destruct vds as [|p vds]; [contradiction|].
    cbn [datas_fit] in Hfit. destruct Hfit as (Hu & Hf & Hrest).
    cbn [datas_end enc_datas] in *.
    rewrite (rd_enc_at be b pre ((p ++ enc_datas be ds vds) ++ post) t (len p)).
    2:{ rewrite Hb. now rewrite <- !app_assoc. }
    2:{ exact Hf. }
    cbn [obind].
    replace (len pre + tbytes t + len p) with (len (pre ++ enc be (tw t) (len p) ++ p))
      by (rewrite !len_app, len_enc_tw; lia).
    rewrite (IH vds b _ post Hrest).
    2:{ rewrite Hb. now rewrite <- !app_assoc. }
    f_equal. rewrite !len_app, len_enc_tw. lia.
Qed.

(* ================================================================== *)
(* THE navigation theorem                                              *)
(* ================================================================== *)

Scheme vlevel_mind := Induction for vlevel Sort Prop
  with vgroups_mind := Induction for vgroups Sort Prop
  with ventries_mind := Induction for ventries Sort Prop.
Combined Scheme vtree_mutind from vlevel_mind, vgroups_mind, ventries_mind.

(* the buffer [b] is fixed; the image sits anywhere inside it *)
Definition nav_level (v : vlevel) : Prop :=
  forall be l b pre post fuel,
    wf_level be l v -> fuel_needed l v <= Z.of_nat fuel ->
    b = pre ++ enc_level be l v ++ post ->
    level_end be b fuel l (len pre) (len (vblock v))
    = Some (len pre + len (enc_level be l v)).

Definition nav_groups (vgs : vgroups) : Prop :=
  forall be gs b pre post fuel,
    wf_groups be gs vgs -> fuel_needed_gs gs vgs <= Z.of_nat fuel ->
    b = pre ++ enc_groups be gs vgs ++ post ->
    groups_end be b fuel gs (len pre)
    = Some (len pre + len (enc_groups be gs vgs)).

Definition nav_entries (es : ventries) : Prop :=
  forall be l b pre post fuel bl k,
    wf_entries be l es -> all_blocks_len es bl ->
    fuel_needed_es l es <= Z.of_nat fuel -> ecount es <= Z.of_nat k ->
    b = pre ++ enc_entries be l es ++ post ->
    entries_walk be b fuel l bl k (ecount es) (len pre)
    = Some (len pre + len (enc_entries be l es)).

Lemma nav_level_step block vgs vds :
  nav_groups vgs -> nav_level (VLevel block vgs vds).
Proof.
  intros IHg be l b pre post fuel Hwf Hfuel Hb.
  destruct l as [fs gs ds].
  rewrite wf_level_eq in Hwf. destruct Hwf as [Hwg Hwd].
  rewrite fuel_needed_eq in Hfuel. rewrite enc_level_eq in *.
  cbn [level_groups level_datas vblock] in *.
  rewrite level_end_eq.
  replace (len pre + len block) with (len (pre ++ block)) by (rewrite len_app; lia).
  rewrite (IHg be gs b (pre ++ block) (enc_datas be ds vds ++ post) fuel Hwg Hfuel).
  2:{ rewrite Hb. now rewrite <- !app_assoc. }
  cbn [obind].
  replace (len (pre ++ block) + len (enc_groups be gs vgs))
    with (len (pre ++ block ++ enc_groups be gs vgs)) by (rewrite !len_app; lia).
  rewrite (datas_end_enc be ds vds b _ post Hwd).
  2:{ rewrite Hb. now rewrite <- !app_assoc. }
  f_equal. rewrite !len_app. lia.
Qed.

Lemma nav_groups_nil : nav_groups VGNil.
Proof.
  intros be gs b pre post fuel Hwf Hfuel Hb.
  destruct gs; [|contradiction]. cbn [groups_end enc_groups]. rewrite len_nil. f_equal. lia.
Qed.

Lemma nav_groups_step bg es vrest :
  nav_entries es -> nav_groups vrest -> nav_groups (VGCons bg es vrest).
Proof.
  intros IHe IHr be gs b pre post fuel Hwf Hfuel Hb.
  destruct gs as [|d cbl l rest]; [contradiction|].
  rewrite wf_groups_cons in Hwf. cbv zeta in Hwf.
  rewrite fuel_needed_gs_cons in Hfuel. rewrite enc_groups_cons in *.
  set (bl := first_block_len es (dec be (slice bg (d_bl_off d) (tbytes (d_bl_t d))))) in *.
  destruct Hwf as (Hd & Hlen & Hok & Hfbl & Hfn & Hall & Hflat & Hwe & Hwr).
  set (D := dim_bytes be d bg bl (ecount es)) in *.
  set (E := enc_entries be l es) in *.
  set (R := enc_groups be rest vrest) in *.
  assert (HlD : len D = d_size d) by (apply len_dim_bytes; assumption).
  assert (HbD : b = pre ++ D ++ ((E ++ R) ++ post)) by (rewrite Hb; now rewrite <- !app_assoc).
  assert (HDbl : dec be (slice D (d_bl_off d) (tbytes (d_bl_t d))) = bl)
    by (apply dim_bytes_bl; assumption).
  assert (HDn : dec be (slice D (d_n_off d) (tbytes (d_n_t d))) = ecount es)
    by (apply dim_bytes_n; assumption).
  rewrite groups_end_cons.
  (* the two header reads *)
  rewrite (rd_at be b pre D _ (d_bl_off d) (d_bl_t d) HbD).
  2:{ apply wf_dim_in_bl; assumption. }
  cbn [obind]. rewrite HDbl.
  rewrite (rd_at be b pre D _ (d_n_off d) (d_n_t d) HbD).
  2:{ apply wf_dim_in_n; assumption. }
  cbn [obind]. rewrite HDn.
  (* the entries *)
  assert (Hent :
    (if is_flat l
     then obind (flat_group_size d (ecount es) bl) (fun s => Some (len pre + s))
     else entries_walk be b fuel l bl fuel (ecount es) (len pre + d_size d))
    = Some (len (pre ++ D ++ E))).
  { destruct (is_flat l) eqn:Hfl.
    - pose proof (ecount_nonneg es) as Hn0.
      pose proof (wf_dim_size_pos d Hd) as Hs1.
      pose proof (bits_le_64 (d_bl_t d)). pose proof (bits_le_64 (d_n_t d)).
      unfold fits in Hfbl, Hfn.
      assert (Hlt : d_size d + ecount es * bl < 2 ^ 64) by (apply Hflat; reflexivity).
      assert (Hu : is_unsigned_ity (d_bl_t d)) by (destruct Hd as (Hu & _); exact Hu).
      rewrite flat_group_size_ok by (assumption || lia).
      cbn [obind]. f_equal. rewrite !len_app, HlD. unfold E.
      rewrite (enc_entries_flat_len be l bl es Hfl Hall). lia.
    - replace (len pre + d_size d) with (len (pre ++ D)) by (rewrite len_app; lia).
      rewrite (IHe be l b (pre ++ D) (R ++ post) fuel bl fuel Hwe Hall); try lia.
      + f_equal. rewrite !len_app. fold E. lia.
      + rewrite Hb. fold E. now rewrite <- !app_assoc. }
  rewrite Hent. cbn [obind].
  rewrite (IHr be rest b (pre ++ D ++ E) post fuel Hwr).
  - f_equal. fold R. rewrite !len_app. lia.
  - lia.
  - rewrite Hb. fold R. now rewrite <- !app_assoc.
Qed.

Lemma nav_entries_nil : nav_entries VENil.
Proof.
  intros be l b pre post fuel bl k _ _ _ _ _.
  cbn [ecount enc_entries]. rewrite entries_walk_0, len_nil. f_equal. lia.
Qed.

Lemma nav_entries_step e r :
  nav_level e -> nav_entries r -> nav_entries (VECons e r).
Proof.
  intros IHl IHr be l b pre post fuel bl k Hwf Hall Hfuel Hk Hb.
  rewrite wf_entries_cons in Hwf. destruct Hwf as [Hwe Hwr].
  cbn [all_blocks_len] in Hall. destruct Hall as [Hbl Hall].
  rewrite fuel_needed_es_cons in Hfuel. rewrite enc_entries_cons in *.
  cbn [ecount] in *. pose proof (ecount_nonneg r) as Hn0.
  destruct k as [|k]; [lia|].
  rewrite entries_walk_S by lia.
  rewrite <- Hbl.
  rewrite (IHl be l b pre (enc_entries be l r ++ post) fuel Hwe).
  2:{ lia. }
  2:{ rewrite Hb. now rewrite <- !app_assoc. }
  cbn [obind].
  replace (1 + ecount r - 1) with (ecount r) by lia.
  replace (len pre + len (enc_level be l e)) with (len (pre ++ enc_level be l e))
    by (rewrite len_app; lia).
  rewrite Hbl.
  rewrite (IHr be l b (pre ++ enc_level be l e) post fuel bl k Hwr Hall).
  - f_equal. rewrite !len_app. lia.
  - lia.
  - lia.
  - rewrite Hb. now rewrite <- !app_assoc.
Qed.

Lemma nav_all :
  (forall v, nav_level v) /\ (forall vgs, nav_groups vgs) /\ (forall es, nav_entries es).
Proof.
  apply vtree_mutind.
  - intros block vgs IH vds. apply nav_level_step. exact IH.
  - exact nav_groups_nil.
  - intros bg es IHe vrest IHr. apply nav_groups_step; assumption.
  - exact nav_entries_nil.
  - intros e IHl r IHr. apply nav_entries_step; assumption.
Qed.

Theorem level_end_enc : stmt_level_end_enc.
Proof.
  unfold stmt_level_end_enc. intros be l v pre post fuel Hwf Hfuel.
  apply (proj1 nav_all v be l _ pre post fuel Hwf Hfuel). reflexivity.
Qed.
Print Assumptions level_end_enc.

Theorem groups_end_enc : stmt_groups_end_enc.
Proof.
  unfold stmt_groups_end_enc. intros be gs vgs pre post fuel Hwf Hfuel.
  apply (proj1 (proj2 nav_all) vgs be gs _ pre post fuel Hwf Hfuel). reflexivity.
Qed.
Print Assumptions groups_end_enc.

(* the same for the exposed entry walk *)
Lemma entries_walk_enc be l es b pre post fuel bl k :
  wf_entries be l es -> all_blocks_len es bl ->
  fuel_needed_es l es <= Z.of_nat fuel -> ecount es <= Z.of_nat k ->
  b = pre ++ enc_entries be l es ++ post ->
  entries_walk be b fuel l bl k (ecount es) (len pre)
  = Some (len pre + len (enc_entries be l es)).
Proof. apply (proj2 (proj2 nav_all) es). Qed.

(* ================================================================== *)
(* Fuel                                                                *)
(* ================================================================== *)

(* an entry of a nested group contains a dimension or a length prefix *)
Lemma nested_entry_nonempty be l e :
  is_flat l = false -> wf_level be l e -> 1 <= len (enc_level be l e).
Proof.
  intros Hfl Hwf. destruct e as [block vgs vds]. destruct l as [fs gs ds].
  rewrite wf_level_eq in Hwf. destruct Hwf as [Hwg Hwd].
  rewrite enc_level_eq. cbn [level_groups level_datas] in *.
  rewrite !len_app. pose proof (len_nonneg block).
  unfold is_flat in Hfl. cbn [level_groups level_datas] in Hfl.
  destruct gs as [|d cbl l' rest].
  - destruct ds as [|t ds]; [discriminate|].
    destruct vds as [|p vds]; [contradiction|].
    cbn [enc_datas]. rewrite !len_app, len_enc_tw.
    pose proof (tbytes_pos t). pose proof (len_nonneg p).
    pose proof (len_nonneg (enc_groups be GNil vgs)).
    pose proof (len_nonneg (enc_datas be ds vds)). lia.
  - destruct vgs as [|bg es vrest]; [contradiction|].
    rewrite wf_groups_cons in Hwg. cbv zeta in Hwg.
    destruct Hwg as (Hd & Hlen & _).
    rewrite enc_groups_cons, !len_app, len_dim_bytes by assumption.
    pose proof (wf_dim_size_pos d Hd).
    pose proof (len_nonneg (enc_entries be l' es)).
    pose proof (len_nonneg (enc_groups be rest vrest)).
    pose proof (len_nonneg (enc_datas be ds vds)). lia.
Qed.

Definition fuel_level (v : vlevel) : Prop :=
  forall be l, wf_level be l v -> fuel_needed l v <= len (enc_level be l v).
Definition fuel_groups (vgs : vgroups) : Prop :=
  forall be gs, wf_groups be gs vgs -> fuel_needed_gs gs vgs <= len (enc_groups be gs vgs).
Definition fuel_entries (es : ventries) : Prop :=
  forall be l, wf_entries be l es ->
    fuel_needed_es l es <= len (enc_entries be l es) /\
    (is_flat l = false -> ecount es <= len (enc_entries be l es)).

Lemma fuel_all :
  (forall v, fuel_level v) /\ (forall vgs, fuel_groups vgs) /\ (forall es, fuel_entries es).
Proof.
  apply vtree_mutind.
  - intros block vgs IH vds be l Hwf.
    rewrite wf_level_eq in Hwf. destruct Hwf as [Hwg _].
    rewrite fuel_needed_eq, enc_level_eq, !len_app.
    specialize (IH be _ Hwg).
    pose proof (len_nonneg block). pose proof (len_nonneg (enc_datas be (level_datas l) vds)). lia.
  - intros be gs _. destruct gs; cbn [fuel_needed_gs enc_groups]; rewrite len_nil; lia.
  - intros bg es IHe vrest IHr be gs Hwf.
    destruct gs as [|d cbl l rest]; [contradiction|].
    rewrite wf_groups_cons in Hwf. cbv zeta in Hwf.
    destruct Hwf as (Hd & Hlen & _ & _ & _ & _ & _ & Hwe & Hwr).
    rewrite fuel_needed_gs_cons, enc_groups_cons, !len_app.
    specialize (IHr be rest Hwr). destruct (IHe be l Hwe) as [IH1 IH2].
    pose proof (len_nonneg (dim_bytes be d bg
      (first_block_len es (dec be (slice bg (d_bl_off d) (tbytes (d_bl_t d))))) (ecount es))).
    pose proof (len_nonneg (enc_entries be l es)).
    pose proof (len_nonneg (enc_groups be rest vrest)).
    destruct (is_flat l); [lia|]. specialize (IH2 eq_refl). lia.
  - intros be l _. cbn [fuel_needed_es enc_entries ecount]. rewrite len_nil. lia.
  - intros e IHl r IHr be l Hwf.
    rewrite wf_entries_cons in Hwf. destruct Hwf as [Hwe Hwr].
    rewrite fuel_needed_es_cons, enc_entries_cons, len_app. cbn [ecount].
    specialize (IHl be l Hwe). destruct (IHr be l Hwr) as [IH1 IH2].
    pose proof (len_nonneg (enc_level be l e)). pose proof (len_nonneg (enc_entries be l r)).
    split; [lia|]. intros Hfl. specialize (IH2 Hfl).
    pose proof (nested_entry_nonempty be l e Hfl Hwe). lia.
Qed.

Lemma fuel_needed_le_len be l v :
  wf_level be l v -> fuel_needed l v <= len (enc_level be l v).
Proof. apply (proj1 fuel_all v). Qed.

Lemma default_fuel_ge b pre mid post : b = pre ++ mid ++ post ->
  len mid <= Z.of_nat (default_fuel b).
Proof.
  intros ->. unfold default_fuel. rewrite Nat2Z.inj_succ. fold (len (pre ++ mid ++ post)).
  rewrite !len_app. pose proof (len_nonneg pre). pose proof (len_nonneg post). lia.
Qed.

Theorem default_fuel_suffices : stmt_default_fuel_suffices.
Proof.
  unfold stmt_default_fuel_suffices. intros be l v pre post Hwf.
  pose proof (fuel_needed_le_len be l v Hwf).
  pose proof (default_fuel_ge _ pre (enc_level be l v) post eq_refl). lia.
Qed.
Print Assumptions default_fuel_suffices.

(* ================================================================== *)
(* Message level                                                       *)
(* ================================================================== *)

Lemma enc_level_parts be l v :
  enc_level be l v =
  vblock v ++ enc_groups be (level_groups l) (vlevel_groups v)
           ++ enc_datas be (level_datas l) (vlevel_datas v).
Proof. destruct v; reflexivity. Qed.

Lemma wf_level_parts be l v :
  wf_level be l v ->
  wf_groups be (level_groups l) (vlevel_groups v) /\ datas_fit (level_datas l) (vlevel_datas v).
Proof. destruct v; intros H; exact H. Qed.

Lemma fuel_needed_parts l v :
  fuel_needed l v = fuel_needed_gs (level_groups l) (vlevel_groups v).
Proof. destruct v; reflexivity. Qed.

Section Message.
  Variables (be : bool) (m : message) (hdrbg : list Z) (v : vlevel).
  Variables (b pre post : list Z).
  Hypothesis Hwf : wf_message be m hdrbg v.
  Hypothesis Hb : b = pre ++ enc_message be m hdrbg v ++ post.

  Let hdr := put be hdrbg (m_bl_off m) (m_bl_t m) (len (vblock v)).

  Lemma msg_hdr_in : in_buf hdrbg (m_bl_off m) (tbytes (m_bl_t m)) = true.
  Proof.
    destruct Hwf as (_ & H1 & H2 & H3 & _). apply in_buf_iff. rewrite H3.
    pose proof (tbytes_pos (m_bl_t m)). lia.
  Qed.

  Lemma len_msg_hdr : len hdr = m_hdr_size m.
  Proof.
    unfold hdr. rewrite len_put by exact msg_hdr_in.
    destruct Hwf as (_ & _ & _ & H3 & _). exact H3.
  Qed.

  Lemma msg_buffer_split : b = (pre ++ hdr) ++ enc_level be (m_level m) v ++ post.
  Proof. rewrite Hb. unfold enc_message. fold hdr. now rewrite <- !app_assoc. Qed.

  Lemma len_pre_hdr : len (pre ++ hdr) = len pre + m_hdr_size m.
  Proof. rewrite len_app, len_msg_hdr. reflexivity. Qed.

  Lemma msg_wf_level : wf_level be (m_level m) v.
  Proof. destruct Hwf as (_ & _ & _ & _ & _ & _ & H). exact H. Qed.

  Lemma msg_block_length_enc : msg_block_length be b m (len pre) = Some (len (vblock v)).
  Proof.
    unfold msg_block_length.
    rewrite (rd_at be b pre hdr (enc_level be (m_level m) v ++ post) (m_bl_off m) (m_bl_t m)).
    - f_equal. unfold hdr. apply dec_put_same; [exact msg_hdr_in|].
      destruct Hwf as (_ & _ & _ & _ & _ & H & _). exact H.
    - rewrite Hb. unfold enc_message. fold hdr. now rewrite <- !app_assoc.
    - rewrite (in_buf_len_eq hdr hdrbg); [exact msg_hdr_in|].
      rewrite len_msg_hdr. destruct Hwf as (_ & _ & _ & H3 & _). now rewrite H3.
  Qed.

  Lemma msg_resolve_root :
    msg_resolve be b m (len pre) [] = Some (len pre + m_hdr_size m, len (vblock v), m_level m).
  Proof. unfold msg_resolve. rewrite msg_block_length_enc. reflexivity. Qed.

  Lemma msg_fuel : fuel_needed (m_level m) v <= Z.of_nat (default_fuel b).
  Proof.
    pose proof (fuel_needed_le_len be (m_level m) v msg_wf_level).
    pose proof (default_fuel_ge b _ _ _ msg_buffer_split). lia.
  Qed.

  Lemma msg_size_bytes_enc_aux :
    len (enc_message be m hdrbg v) < 2 ^ 64 ->
    msg_size_bytes be b m (len pre) = Some (len (enc_message be m hdrbg v)).
  Proof.
    intros Hsz. unfold msg_size_bytes. rewrite msg_block_length_enc. cbn [obind].
    unfold level_size_bytes, enc_message. fold hdr. rewrite len_app, len_msg_hdr.
    destruct (is_flat (m_level m)) eqn:Hfl.
    - rewrite enc_level_flat by exact Hfl.
      unfold enc_message in Hsz. fold hdr in Hsz.
      rewrite len_app, len_msg_hdr, enc_level_flat in Hsz by exact Hfl.
      assert (Hh : 0 <= m_hdr_size m).
      { pose proof (len_nonneg hdrbg). unfold wf_message in Hwf. lia. }
      apply flat_level_size_ok; pose proof (len_nonneg (vblock v)); lia.
    - rewrite <- len_pre_hdr.
      rewrite (proj1 nav_all v be (m_level m) b (pre ++ hdr) post (default_fuel b)
                 msg_wf_level msg_fuel msg_buffer_split).
      cbn [obind]. f_equal. rewrite len_pre_hdr. lia.
  Qed.

  (* ---- fields ---- *)
  Lemma get_root_field_enc_aux k f :
    nth_error (level_fields (m_level m)) k = Some f ->
    0 <= f_off f -> 0 <= f_size f -> f_off f + f_size f <= len (vblock v) ->
    get_field be b m (len pre) [] k = Some (slice (vblock v) (f_off f) (f_size f)).
  Proof.
    intros Hk Ho Hs Hle. unfold get_field. rewrite msg_resolve_root. cbn [obind]. rewrite Hk.
    rewrite <- len_pre_hdr.
    apply (rd_bytes_at b (pre ++ hdr) (vblock v)
             ((enc_groups be (level_groups (m_level m)) (vlevel_groups v)
               ++ enc_datas be (level_datas (m_level m)) (vlevel_datas v)) ++ post)).
    - rewrite msg_buffer_split, enc_level_parts. now rewrite <- !app_assoc.
    - apply in_buf_iff. lia.
  Qed.
End Message.

Theorem msg_size_bytes_enc : stmt_msg_size_bytes_enc.
Proof.
  unfold stmt_msg_size_bytes_enc. intros be m hdrbg v pre post Hwf Hsz.
  apply (msg_size_bytes_enc_aux be m hdrbg v _ pre post Hwf eq_refl Hsz).
Qed.
Print Assumptions msg_size_bytes_enc.

Theorem get_root_field_enc : stmt_get_root_field_enc.
Proof.
  unfold stmt_get_root_field_enc. intros be m hdrbg v pre post k f Hwf.
  apply (get_root_field_enc_aux be m hdrbg v _ pre post Hwf eq_refl).
Qed.
Print Assumptions get_root_field_enc.

(* ================================================================== *)
(* Groups of a level                                                   *)
(* ================================================================== *)

Lemma group_at_enc be b pre post d bg es :
  let bl := first_block_len es (dec be (slice bg (d_bl_off d) (tbytes (d_bl_t d)))) in
  wf_dim d -> len bg = d_size d -> fits (d_bl_t d) bl -> fits (d_n_t d) (ecount es) ->
  b = pre ++ dim_bytes be d bg bl (ecount es) ++ post ->
  group_at be b d (len pre) = Some {| gv_pos := len pre; gv_bl := bl; gv_n := ecount es |}.
Proof.
  intros bl Hd Hlen Hfbl Hfn Hb. unfold group_at.
  assert (HlD : len (dim_bytes be d bg bl (ecount es)) = d_size d)
    by (apply len_dim_bytes; assumption).
  rewrite (rd_at be b pre _ post (d_bl_off d) (d_bl_t d) Hb) by (apply wf_dim_in_bl; assumption).
  cbn [obind]. rewrite dim_bytes_bl by assumption.
  rewrite (rd_at be b pre _ post (d_n_off d) (d_n_t d) Hb) by (apply wf_dim_in_n; assumption).
  cbn [obind]. rewrite dim_bytes_n by assumption. reflexivity.
Qed.

Lemma nth_group_pos_enc be b fuel : forall k gs vgs pre post bg es,
  wf_groups be gs vgs -> fuel_needed_gs gs vgs <= Z.of_nat fuel ->
  b = pre ++ enc_groups be gs vgs ++ post ->
  vgroups_nth vgs k = Some (bg, es) ->
  exists d cbl sub,
    let gpos := len pre + groups_prefix_len be gs vgs k in
    nth_group_pos be b fuel gs k (len pre) = Some (gpos, d, cbl, sub) /\
    group_at be b d gpos =
      Some {| gv_pos := gpos;
              gv_bl := first_block_len es (dec be (slice bg (d_bl_off d) (tbytes (d_bl_t d))));
              gv_n := ecount es |}.
Proof.
  induction k as [|k IH]; intros gs vgs pre post bg es Hwf Hfuel Hb Hnth.
  - destruct vgs as [|bg0 es0 vrest]; [discriminate|].
    cbn [vgroups_nth] in Hnth. inversion Hnth; subst bg0 es0; clear Hnth.
    destruct gs as [|d cbl l rest]; [contradiction|].
    rewrite wf_groups_cons in Hwf. cbv zeta in Hwf.
    destruct Hwf as (Hd & Hlen & _ & Hfbl & Hfn & _).
    exists d, cbl, l. cbn [groups_prefix_len nth_group_pos]. cbv zeta.
    rewrite Z.add_0_r. split; [reflexivity|].
    rewrite enc_groups_cons in Hb.
    eapply group_at_enc; try eassumption.
    rewrite Hb. rewrite <- !app_assoc. reflexivity.
  - destruct vgs as [|bg0 es0 vrest]; [discriminate|].
    cbn [vgroups_nth] in Hnth.
    destruct gs as [|d cbl l rest]; [contradiction|].
    pose proof Hwf as Hwf0.
    rewrite wf_groups_cons in Hwf. cbv zeta in Hwf.
    destruct Hwf as (Hd & Hlen & Hok & Hfbl & Hfn & Hall & Hflat & Hwe & Hwr).
    rewrite fuel_needed_gs_cons in Hfuel.
    assert (Hwf1 : wf_groups be (GCons d cbl l GNil) (VGCons bg0 es0 VGNil)).
    { rewrite wf_groups_cons. cbv zeta. repeat (split; [assumption|]). exact I. }
    assert (Hfuel1 : fuel_needed_gs (GCons d cbl l GNil) (VGCons bg0 es0 VGNil) <= Z.of_nat fuel).
    { rewrite fuel_needed_gs_cons. cbn [fuel_needed_gs]. lia. }
    set (G1 := enc_groups be (GCons d cbl l GNil) (VGCons bg0 es0 VGNil)).
    assert (HG : enc_groups be (GCons d cbl l rest) (VGCons bg0 es0 vrest)
                 = G1 ++ enc_groups be rest vrest).
    { unfold G1. rewrite !enc_groups_cons. cbn [enc_groups].
      rewrite app_nil_r. now rewrite <- !app_assoc. }
    rewrite HG in Hb.
    cbn [nth_group_pos groups_prefix_len].
    rewrite (proj1 (proj2 nav_all) _ be _ b pre (enc_groups be rest vrest ++ post) fuel Hwf1 Hfuel1).
    2:{ rewrite Hb. fold G1. now rewrite <- !app_assoc. }
    cbn [obind]. fold G1.
    destruct (IH rest vrest (pre ++ G1) post bg es Hwr ltac:(lia)) as (d' & cbl' & sub' & H1 & H2).
    { rewrite Hb. now rewrite <- !app_assoc. }
    { exact Hnth. }
    cbv zeta in H1, H2. rewrite len_app in H1, H2.
    exists d', cbl', sub'. cbv zeta.
    rewrite Z.add_assoc. split; assumption.
Qed.

Theorem locate_root_group_enc : stmt_locate_root_group_enc.
Proof.
  unfold stmt_locate_root_group_enc. intros be m hdrbg v pre post k bg es Hwf Hnth.
  set (b := pre ++ enc_message be m hdrbg v ++ post).
  assert (Hb : b = pre ++ enc_message be m hdrbg v ++ post) by reflexivity.
  set (hdr := put be hdrbg (m_bl_off m) (m_bl_t m) (len (vblock v))).
  pose proof (msg_wf_level be m hdrbg v Hwf) as Hwl.
  apply wf_level_parts in Hwl. destruct Hwl as [Hwg Hwd].
  pose proof (msg_fuel be m hdrbg v b pre post Hwf Hb) as Hfuel.
  rewrite fuel_needed_parts in Hfuel.
  destruct (nth_group_pos_enc be b (default_fuel b) k _ _
              ((pre ++ hdr) ++ vblock v)
              (enc_datas be (level_datas (m_level m)) (vlevel_datas v) ++ post)
              bg es Hwg Hfuel) as (d & cbl & sub & H1 & H2).
  { rewrite (msg_buffer_split be m hdrbg v b pre post Hb). fold hdr.
    rewrite enc_level_parts. now rewrite <- !app_assoc. }
  { exact Hnth. }
  cbv zeta in H1, H2.
  assert (Hlh : len (pre ++ hdr) = len pre + m_hdr_size m)
    by (apply (len_pre_hdr be m hdrbg v pre Hwf)).
  rewrite len_app, Hlh in H1, H2.
  eexists _, d, cbl, sub. unfold locate_group.
  rewrite (msg_resolve_root be m hdrbg v b pre post Hwf Hb). cbn [obind].
  rewrite H1. cbn [obind]. rewrite H2. cbn [obind].
  split; [reflexivity|]. cbn [gv_pos gv_n gv_bl]. repeat split; reflexivity.
Qed.
Print Assumptions locate_root_group_enc.

(* ================================================================== *)
(* <data> of a level                                                   *)
(* ================================================================== *)

Lemma nth_data_pos_enc be b : forall ds vds k p pre post,
  datas_fit ds vds -> nth_error vds k = Some p ->
  b = pre ++ enc_datas be ds vds ++ post ->
  exists t pre' post',
    nth_data_pos be b ds k (len pre) = Some (len pre', t) /\ fits t (len p) /\
    b = pre' ++ enc be (tw t) (len p) ++ p ++ post'.
Proof.
  induction ds as [|t ds IH]; intros vds k p pre post Hfit Hnth Hb.
  - destruct vds; [|contradiction]. destruct k; discriminate.
  - destruct vds as [|p0 vds]; [contradiction|].
    cbn [datas_fit] in Hfit. destruct Hfit as (Hu & Hf & Hrest).
    cbn [enc_datas] in Hb.
    destruct k as [|k]; cbn [nth_error] in Hnth; cbn [nth_data_pos].
    + inversion Hnth; subst p0; clear Hnth.
      exists t, pre, (enc_datas be ds vds ++ post). split; [reflexivity|]. split; [exact Hf|].
      rewrite Hb. now rewrite <- !app_assoc.
    + rewrite (rd_enc_at be b pre ((p0 ++ enc_datas be ds vds) ++ post) t (len p0)).
      2:{ rewrite Hb. now rewrite <- !app_assoc. }
      2:{ exact Hf. }
      cbn [obind].
      replace (len pre + tbytes t + len p0) with (len (pre ++ enc be (tw t) (len p0) ++ p0))
        by (rewrite !len_app, len_enc_tw; lia).
      apply (IH vds k p _ post Hrest Hnth).
      rewrite Hb. now rewrite <- !app_assoc.
Qed.

Theorem get_root_data_enc : stmt_get_root_data_enc.
Proof.
  unfold stmt_get_root_data_enc. intros be m hdrbg v pre post k p Hwf Hnth.
  set (b := pre ++ enc_message be m hdrbg v ++ post).
  assert (Hb : b = pre ++ enc_message be m hdrbg v ++ post) by reflexivity.
  set (hdr := put be hdrbg (m_bl_off m) (m_bl_t m) (len (vblock v))).
  pose proof (msg_wf_level be m hdrbg v Hwf) as Hwl.
  apply wf_level_parts in Hwl. destruct Hwl as [Hwg Hwd].
  pose proof (msg_fuel be m hdrbg v b pre post Hwf Hb) as Hfuel.
  rewrite fuel_needed_parts in Hfuel.
  set (gs := level_groups (m_level m)) in *. set (ds := level_datas (m_level m)) in *.
  set (G := enc_groups be gs (vlevel_groups v)).
  assert (Hsplit : b = ((pre ++ hdr) ++ vblock v) ++ G ++ enc_datas be ds (vlevel_datas v) ++ post).
  { rewrite (msg_buffer_split be m hdrbg v b pre post Hb). fold hdr.
    rewrite enc_level_parts. fold gs ds G. now rewrite <- !app_assoc. }
  unfold get_data, locate_data.
  rewrite (msg_resolve_root be m hdrbg v b pre post Hwf Hb). cbn [obind]. fold gs ds.
  assert (Hlh : len (pre ++ hdr) = len pre + m_hdr_size m)
    by (apply (len_pre_hdr be m hdrbg v pre Hwf)).
  replace (len pre + m_hdr_size m + len (vblock v)) with (len ((pre ++ hdr) ++ vblock v))
    by (rewrite len_app, Hlh; reflexivity).
  rewrite (proj1 (proj2 nav_all) _ be gs b _ _ (default_fuel b) Hwg Hfuel Hsplit).
  cbn [obind]. fold G. rewrite <- len_app.
  destruct (nth_data_pos_enc be b ds (vlevel_datas v) k p (((pre ++ hdr) ++ vblock v) ++ G) post
              Hwd Hnth) as (t & pre' & post' & H1 & Hf & Hb').
  { rewrite Hsplit. now rewrite <- !app_assoc. }
  rewrite H1. cbn [obind].
  rewrite (rd_enc_at be b pre' (p ++ post') t (len p) Hb' Hf). cbn [obind].
  rewrite <- (len_enc_tw be t (len p)), <- len_app.
  rewrite <- (Z.add_0_r (len (pre' ++ enc be (tw t) (len p)))).
  rewrite (rd_bytes_at b _ p post' 0 (len p)).
  - now rewrite slice_full.
  - rewrite Hb'. now rewrite <- !app_assoc.
  - apply in_buf_iff. pose proof (len_nonneg p). lia.
Qed.
Print Assumptions get_root_data_enc.
