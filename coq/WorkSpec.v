(* WorkSpec.v — C06, "returns after work bounded by a function of n alone":
   statement of the work bound of size_bytes_checked.  Proof: WorkProofs.v. *)
From Coq Require Import ZArith List Bool.
From Sbepp Require Import CInt Bytes Msg Layout Cursor CursorSpec ScriptSpec Checked.
Import ListNotations.
Local Open Scope Z_scope.

Definition ckres_steps (r : ckres) : Z :=
  match r with
  | CkValid _ st => st
  | CkInvalid st => st
  | CkOob _ _ st => st
  | CkFuel => 0
  end.

(* callbacks one instance of every level of the table can cost: one per field,
   group and data member, plus one per entry of a group *)
Fixpoint cl_members (l : level) (cl : clevel) {struct l} : Z :=
  match l, cl with
  | Level _ gs ds, CLevel al cgs =>
    Z.of_nat (length al) + Z.of_nat (length ds) + gs_members gs cgs
  end
with gs_members (gs : groups) (cgs : cgroups) {struct gs} : Z :=
  match gs, cgs with
  | GCons _ _ l rest, CGCons cl crest => 2 + cl_members l cl + gs_members rest crest
  | _, _ => 0
  end.

(* For ANY buffer content and length n = len b (hostile counts included): the
   visitor's iteration never needs more than n rounds per loop (the model's
   fuel is never exhausted once it exceeds n, so CkFuel is not an outcome of
   the real code), and the number of callbacks executed is at most
   W * (n + 1) where W depends on the schema only. *)
Definition stmt_checked_work_bound : Prop :=
  forall be b m cl fuel,
    bytes_ok b = true ->
    is_signed (m_bl_t m) = false ->
    0 <= m_bl_off m -> m_bl_off m + tbytes (m_bl_t m) <= m_hdr_size m ->
    wf_table_level (m_level m) -> wf_clevel (m_hdr_size m) (m_level m) cl ->
    (length b < fuel)%nat ->
    size_bytes_checked be b fuel m cl <> CkFuel /\
    0 <= ckres_steps (size_bytes_checked be b fuel m cl)
      <= (cl_members (m_level m) cl + 1) * (len b + 1).

(* the outcome does not depend on the fuel once it exceeds n *)
Definition stmt_checked_fuel_irrelevant : Prop :=
  forall be b m cl fuel1 fuel2,
    bytes_ok b = true ->
    is_signed (m_bl_t m) = false ->
    0 <= m_bl_off m -> m_bl_off m + tbytes (m_bl_t m) <= m_hdr_size m ->
    wf_table_level (m_level m) -> wf_clevel (m_hdr_size m) (m_level m) cl ->
    (length b < fuel1)%nat -> (length b < fuel2)%nat ->
    size_bytes_checked be b fuel1 m cl = size_bytes_checked be b fuel2 m cl.
