(* CursorScript.v — sequences of cursor-based accessor calls on the members of
   ONE level view (message or entry), executed with the REAL oracles: the
   random-access address of a group / data member is computed by the library's
   own navigation (Msg.nth_group_pos / Msg.groups_end / Msg.nth_data_pos), the
   size oracles by Msg.groups_end of the single group and Cursor.data_size_at.

   [run_lop] / [run_script] replace the hand-written glue of the "cur" command
   of ocaml/drv_msg_cursor.ml.  [ra_addr], [req_pos], [doc_after] are the
   declarative counterparts (what the documentation promises); the theorems
   relating the two on encoded images are in CursorScriptProofs.v.

   Definitions only (extracted). *)
From Coq Require Import ZArith List Bool.
From Sbepp Require Import CInt Bytes Msg Layout Cursor CursorSpec.
Import ListNotations.
Local Open Scope Z_scope.

(* one call: member kind, member index inside the level, cursor wrapper *)
Inductive lop :=
| LF (k : nat) (w : wrapper)     (* k-th non-constant field *)
| LG (k : nat) (w : wrapper)     (* k-th group *)
| LD (k : nat) (w : wrapper).    (* k-th data *)

Definition lop_wrapper (o : lop) : wrapper :=
  match o with LF _ w | LG _ w | LD _ w => w end.

(* init / init_dont_move ignore the incoming cursor value *)
Definition is_init (w : wrapper) : bool :=
  match w with WInit | WInitDontMove => true | _ => false end.

(* wrappers whose field / data call advances the cursor past the member *)
Definition is_moving (w : wrapper) : bool :=
  match w with WPlain | WSkip | WInit => true | _ => false end.

(* the first variable-length member of the level: generated with
   get_first_group_view / get_first_data_view, which never look at the cursor *)
Definition is_first (l : level) (o : lop) : bool :=
  match o with
  | LF _ _ => false
  | LG k _ => Nat.eqb k 0
  | LD k _ => Nat.eqb k 0 && groups_empty (level_groups l)
  end.

(* the member index exists *)
Definition in_range (l : level) (al : list cacc) (o : lop) : bool :=
  match o with
  | LF k _ => match nth_error al k with Some _ => true | None => false end
  | LG k _ => match groups_nth (level_groups l) k with Some _ => true | None => false end
  | LD k _ => match nth_error (level_datas l) k with Some _ => true | None => false end
  end.

(* size_bytes of the single group (d, cbl, sub) located at [pos]
   (glue: groups_end (GCons d cbl sub GNil) at - at) *)
Definition group_size_at (be : bool) (b : list Z) (fuel : nat) (d : dim) (cbl : Z)
  (sub : level) (pos : Z) : option Z :=
  obind (groups_end be b fuel (GCons d cbl sub GNil) pos) (fun e => Some (e - pos)).

(* ------------------------------------------------------------------ *)
(* declarative side                                                    *)
(* ------------------------------------------------------------------ *)

(* the address the random-access accessor of the member returns; None: the
   member does not exist or the navigation leaves the buffer *)
Definition ra_addr (be : bool) (b : list Z) (fuel : nat) (l : level) (al : list cacc)
  (v : lview) (o : lop) : option Z :=
  match o with
  | LF k _ => option_map (fun a => lv_start v + ca_abs a) (nth_error al k)
  | LG k _ =>
    option_map (fun r : Z * dim * Z * level => fst (fst (fst r)))
               (nth_group_pos be b fuel (level_groups l) k (block_end v))
  | LD k _ =>
    obind (groups_end be b fuel (level_groups l) (block_end v)) (fun ge =>
    option_map (fun r : Z * ity => fst r) (nth_data_pos be b (level_datas l) k ge))
  end.

(* the cursor value the call requires (plain / dont_move / skip);
   None: no requirement (first variable-length member) or no such member *)
Definition req_pos (be : bool) (b : list Z) (fuel : nat) (l : level) (al : list cacc)
  (v : lview) (o : lop) : option Z :=
  match o with
  | LF k _ => option_map (required_pos v) (nth_error al k)
  | _ => if is_first l o then None else ra_addr be b fuel l al v o
  end.

(* the call is admissible with the cursor at [c] *)
Definition op_ok (be : bool) (b : list Z) (fuel : nat) (l : level) (al : list cacc)
  (v : lview) (o : lop) (c : Z) : bool :=
  is_init (lop_wrapper o) || is_first l o ||
  match req_pos be b fuel l al v o with Some p => p =? c | None => false end.

(* the documented cursor value after an admissible call made with the cursor
   at [c].  dont_move leaves the cursor where it is EXCEPT on the first
   variable-length member, where the library sets it to the member's address
   (dont_move_cursor_wrapper::get_first_group_view / get_first_data_view). *)
Definition doc_after (be : bool) (b : list Z) (fuel : nat) (l : level) (al : list cacc)
  (v : lview) (o : lop) (c : Z) : option Z :=
  match o with
  | LF k w =>
    option_map (fun a =>
      match w with
      | WPlain | WSkip | WInit => after_field v a
      | WDontMove => c
      | WInitDontMove => required_pos v a
      end) (nth_error al k)
  | LG k w =>
    obind (ra_addr be b fuel l al v o) (fun p =>
    match groups_nth (level_groups l) k with
    | None => None
    | Some (d, cbl, sub) =>
      match w with
      | WPlain | WInit => Some (p + d_size d)
      | WSkip => obind (group_size_at be b fuel d cbl sub p) (fun z => Some (p + z))
      | WDontMove => Some (if is_first l o then p else c)
      | WInitDontMove => Some p
      end
    end)
  | LD k w =>
    obind (ra_addr be b fuel l al v o) (fun p =>
    match nth_error (level_datas l) k with
    | None => None
    | Some t =>
      match w with
      | WPlain | WSkip | WInit => obind (data_size_at be b t p) (fun z => Some (p + z))
      | WDontMove => Some (if is_first l o then p else c)
      | WInitDontMove => Some p
      end
    end)
  end.

(* ------------------------------------------------------------------ *)
(* executable side                                                     *)
(* ------------------------------------------------------------------ *)

(* one call with the cursor at [c].  None only for an out-of-range index.
   The level's block starts at [lv_level v] with wire blockLength [lv_bl v]. *)
Definition run_lop (be : bool) (b : list Z) (fuel : nat) (l : level) (al : list cacc)
  (v : lview) (o : lop) (c : Z) : option (cres Z) :=
  match o with
  | LF k w =>
    match nth_error al k with
    | Some a => Some (cur_field w v a c)
    | None => None
    end
  | LG k w =>
    match groups_nth (level_groups l) k with
    | Some (d, cbl, sub) =>
      Some (cur_group w (Nat.eqb k 0) v (ra_addr be b fuel l al v o) (d_size d)
                      (group_size_at be b fuel d cbl sub) c)
    | None => None
    end
  | LD k w =>
    match nth_error (level_datas l) k with
    | Some t =>
      Some (cur_data w (Nat.eqb k 0 && groups_empty (level_groups l)) v
                     (ra_addr be b fuel l al v o) (data_size_at be b t) c)
    | None => None
    end
  end.

(* the calls one after another, the cursor threaded through; stops after the
   first result that is not COk (that result is included).  An out-of-range
   index (run_lop = None, the glue raised an exception) also stops the run and
   contributes nothing: the result is then shorter than [ops] without ending in
   CAssert / COob. *)
Fixpoint run_script (be : bool) (b : list Z) (fuel : nat) (l : level) (al : list cacc)
  (v : lview) (ops : list lop) (c : Z) : list (lop * cres Z) :=
  match ops with
  | [] => []
  | o :: rest =>
    match run_lop be b fuel l al v o c with
    | None => []
    | Some (COk a c') => (o, COk a c') :: run_script be b fuel l al v rest c'
    | Some r => [(o, r)]
    end
  end.

(* what the documentation promises for a script: every call returns the
   random-access address and leaves the cursor at the documented position *)
Fixpoint spec_script (be : bool) (b : list Z) (fuel : nat) (l : level) (al : list cacc)
  (v : lview) (ops : list lop) (c : Z) : list (lop * cres Z) :=
  match ops with
  | [] => []
  | o :: rest =>
    match ra_addr be b fuel l al v o, doc_after be b fuel l al v o c with
    | Some a, Some c' => (o, COk a c') :: spec_script be b fuel l al v rest c'
    | _, _ => []
    end
  end.

(* the documented cursor value after a whole script *)
Fixpoint end_cursor (be : bool) (b : list Z) (fuel : nat) (l : level) (al : list cacc)
  (v : lview) (ops : list lop) (c : Z) : Z :=
  match ops with
  | [] => c
  | o :: rest =>
    match doc_after be b fuel l al v o c with
    | Some c' => end_cursor be b fuel l al v rest c'
    | None => c
    end
  end.

(* legal scripts, decidable: every index exists and every call is admissible at
   the cursor value documented for the calls before it *)
Fixpoint legalb (be : bool) (b : list Z) (fuel : nat) (l : level) (al : list cacc)
  (v : lview) (ops : list lop) (c : Z) : bool :=
  match ops with
  | [] => true
  | o :: rest =>
    in_range l al o && op_ok be b fuel l al v o c &&
    match doc_after be b fuel l al v o c with
    | Some c' => legalb be b fuel l al v rest c'
    | None => false
    end
  end.

(* ------------------------------------------------------------------ *)
(* the "cur" command: resolve a path, build the view, run the script    *)
(* ------------------------------------------------------------------ *)

(* the view of the level found at [path]: the message view for the empty path
   (it starts [m_hdr_size] bytes before its block), an entry view otherwise *)
Definition path_lview (b : list Z) (base : Z) (path : list step) (pos bl : Z) : lview :=
  {| lv_start := match path with [] => base | _ => pos end;
     lv_level := pos; lv_bl := bl; lv_end := len b |}.

(* the [hdr] argument the cursor accessors of that level are compiled with *)
Definition path_hdr (m : message) (path : list step) : Z :=
  match path with [] => m_hdr_size m | _ => 0 end.

(* [start]: None = cursor initialised to the start of the level's block
   ("init"), Some off = cursor at [base + off].  [al]: cursor accessors of the
   level at [path] (Compile.compile_clevel).  None: the path cannot be
   resolved inside the buffer ("OOB"). *)
Definition run_cur (be : bool) (b : list Z) (m : message) (base : Z) (path : list step)
  (al : list cacc) (start : option Z) (ops : list lop) : option (list (lop * cres Z)) :=
  obind (msg_resolve be b m base path) (fun r =>
    let '(pos, bl, l) := r in
    let v := path_lview b base path pos bl in
    let c := match start with None => pos | Some off => base + off end in
    Some (run_script be b (default_fuel b) l al v ops c)).
