(* CursorSpec.v — statements (as Props) of the cursor / traversal / size
   theorems.  Proofs: CursorProofs.v. *)
From Coq Require Import ZArith List Bool.
From Sbepp Require Import CInt Bytes Msg Layout Wire MsgSpec Cursor.
Import ListNotations.
Local Open Scope Z_scope.

(* ------------------------------------------------------------------ *)
(* single calls                                                        *)
(* ------------------------------------------------------------------ *)

(* the position a field accessor requires the cursor to be at *)
Definition required_pos (v : lview) (a : cacc) : Z := lv_start v + ca_abs a - ca_rel a.

(* where the documentation says the cursor is after the call *)
Definition after_field (v : lview) (a : cacc) : Z :=
  if ca_last a then block_end v else lv_start v + ca_abs a + ca_size a.

Definition view_in_buffer (v : lview) (c : Z) : Prop :=
  0 <= c <= lv_end v /\ 0 <= lv_start v <= lv_end v /\ lv_end v < 2 ^ 64.

(* plain / dont_move / skip at the required position behave like the
   random-access accessor (same address = lv_start + absolute offset) and move
   as documented, provided the accessed bytes are inside the view's buffer *)
Definition stmt_cur_field_at_required : Prop :=
  forall v a c, view_in_buffer v c -> 0 <= ca_rel a -> 0 <= ca_size a ->
    c = required_pos v a -> lv_start v + ca_abs a + ca_size a <= lv_end v ->
    cur_field WPlain v a c = COk (lv_start v + ca_abs a) (after_field v a) /\
    cur_field WDontMove v a c = COk (lv_start v + ca_abs a) c /\
    cur_field WSkip v a c = COk (lv_start v + ca_abs a) (after_field v a).

(* init / init_dont_move ignore the incoming cursor value *)
Definition stmt_cur_field_init : Prop :=
  forall v a c, view_in_buffer v c -> 0 <= ca_abs a -> 0 <= ca_size a ->
    lv_start v + ca_abs a + ca_size a <= lv_end v ->
    cur_field WInit v a c = COk (lv_start v + ca_abs a) (after_field v a) /\
    cur_field WInitDontMove v a c = COk (lv_start v + ca_abs a) (required_pos v a).

(* misuse is reported: a plain, dont_move or skip call made while the cursor is
   not at the required position fires the assertion *)
Definition stmt_cur_field_misplaced_reported : Prop :=
  forall w v a c, w = WPlain \/ w = WDontMove \/ w = WSkip ->
    c <> required_pos v a -> cur_field w v a c = CAssert.

(* groups / data that are not the first variable-length member *)
Definition stmt_cur_group_misplaced_reported : Prop :=
  forall w v p dsz gsz c, w = WPlain \/ w = WDontMove \/ w = WSkip ->
    c <> p -> cur_group w false v (Some p) dsz gsz c = CAssert.

Definition stmt_cur_data_misplaced_reported : Prop :=
  forall w v p dsz c, w = WPlain \/ w = WDontMove \/ w = WSkip ->
    c <> p -> cur_data w false v (Some p) dsz c = CAssert.

(* at the right position every wrapper returns the random-access address [p] *)
Definition stmt_cur_group_equiv : Prop :=
  forall w first v p dsz gsz c,
    (first = true -> p = block_end v) -> (first = false -> c = p) ->
    (w = WSkip -> exists z, gsz p = Some z) ->
    exists c', cur_group w first v (Some p) dsz gsz c = COk p c' /\
      (w = WPlain \/ w = WInit -> c' = p + dsz) /\
      (w = WInitDontMove \/ w = WDontMove -> c' = p) /\
      (w = WSkip -> gsz p = Some (c' - p)).

(* ------------------------------------------------------------------ *)
(* complete traversal                                                  *)
(* ------------------------------------------------------------------ *)

(* the cursor accessor list of a level is consistent with the table (this is
   what LayoutProofs.cursor_offsets_agree establishes for generated code) *)
Fixpoint accs_ok (hdr pos : Z) (fl : list fld) (al : list cacc) : Prop :=
  match fl, al with
  | [], [] => True
  | f :: fl', a :: al' =>
    pos + ca_rel a = f_off f /\ 0 <= ca_rel a /\
    ca_abs a = f_off f + hdr /\ ca_size a = f_size f /\ 0 <= f_size f /\
    ca_last a = (match fl' with [] => true | _ => false end) /\
    accs_ok hdr (f_off f + f_size f) fl' al'
  | _, _ => False
  end.

Fixpoint wf_clevel (hdr : Z) (l : level) (cl : clevel) {struct l} : Prop :=
  match l, cl with
  | Level fs gs _, CLevel al cgs => accs_ok hdr 0 fs al /\ wf_cgroups gs cgs
  end
with wf_cgroups (gs : groups) (cgs : cgroups) {struct gs} : Prop :=
  match gs, cgs with
  | GNil, CGNil => True
  | GCons _ _ l rest, CGCons cl crest => wf_clevel 0 l cl /\ wf_cgroups rest crest
  | _, _ => False
  end.

(* every compiled field lies inside the wire block of every level instance *)
Fixpoint fields_fit (l : level) (v : vlevel) {struct v} : Prop :=
  match v with
  | VLevel block vgs _ =>
    Forall (fun f => 0 <= f_off f /\ f_off f + f_size f <= len block) (level_fields l) /\
    fields_fit_gs (level_groups l) vgs
  end
with fields_fit_gs (gs : groups) (vgs : vgroups) {struct vgs} : Prop :=
  match vgs, gs with
  | VGCons _ es vrest, GCons _ _ l rest => fields_fit_es l es /\ fields_fit_gs rest vrest
  | _, _ => True
  end
with fields_fit_es (l : level) (es : ventries) {struct es} : Prop :=
  match es with
  | VENil => True
  | VECons e r => fields_fit l e /\ fields_fit_es l r
  end.

(* the events a faithful visit must produce, computed from the value tree and
   the lengths of the encoder's output only *)
Fixpoint ev_fields (fs : list fld) (k : nat) (pos : Z) : list event :=
  match fs with
  | [] => []
  | f :: r => EField k (pos + f_off f) :: ev_fields r (S k) pos
  end.

Fixpoint ev_datas (ds : list ity) (vds : list (list Z)) (k : nat) (pos : Z) : list event :=
  match ds, vds with
  | t :: ds', p :: vds' => EData k pos (len p) :: ev_datas ds' vds' (S k) (pos + tbytes t + len p)
  | _, _ => []
  end.

Fixpoint ev_level (be : bool) (l : level) (v : vlevel) (pos : Z) {struct v} : list event :=
  match v with
  | VLevel block vgs vds =>
    ev_fields (level_fields l) 0 pos
    ++ ev_groups be (level_groups l) vgs 0 (pos + len block)
    ++ ev_datas (level_datas l) vds 0 (pos + len block + len (enc_groups be (level_groups l) vgs))
  end
with ev_groups (be : bool) (gs : groups) (vgs : vgroups) (k : nat) (pos : Z) {struct vgs}
  : list event :=
  match vgs, gs with
  | VGCons bg es vrest, GCons d cbl l rest =>
    EGroup k pos (ecount es)
    :: ev_entries be l es (pos + d_size d)
    ++ ev_groups be rest vrest (S k) (pos + d_size d + len (enc_entries be l es))
  | _, _ => []
  end
with ev_entries (be : bool) (l : level) (es : ventries) (pos : Z) {struct es} : list event :=
  match es with
  | VENil => []
  | VECons e r => EEntry pos :: ev_level be l e pos ++ ev_entries be l r (pos + len (enc_level be l e))
  end.

(* C04 "after a complete traversal the cursor is at the message end", C19
   "each member exactly once, in schema order, with the view the named
   accessor returns", C03 for cursor access: on any buffer containing the image
   of a well-formed value tree with arbitrary wire block lengths, the complete
   visit / cursor traversal produces exactly [ev_level] and leaves the cursor
   at the end of the image *)
Definition stmt_trav_message_enc : Prop :=
  forall be m cl hdrbg v pre post,
    wf_message be m hdrbg v ->
    wf_clevel (m_hdr_size m) (m_level m) cl ->
    fields_fit (m_level m) v ->
    len (pre ++ enc_message be m hdrbg v ++ post) < 2 ^ 64 ->
    trav_message be (pre ++ enc_message be m hdrbg v ++ post) m cl (len pre)
    = COk (ev_level be (m_level m) v (len pre + m_hdr_size m))
          (len pre + len (enc_message be m hdrbg v)).

(* ------------------------------------------------------------------ *)
(* C05: the trait-level size formula                                   *)
(* ------------------------------------------------------------------ *)

Fixpoint dims_size (gs : groups) : Z :=
  match gs with GNil => 0 | GCons d _ _ r => d_size d + dims_size r end.

Fixpoint prefixes_size (ds : list ity) : Z :=
  match ds with [] => 0 | t :: r => tbytes t + prefixes_size r end.

(* generated message_traits<>::size_bytes(n_g1, n_g1_nested..., n_g2, ..., total_data_size):
   one count per group in pre-order, each multiplied by the per-entry constant
   (compiled blockLength + dimension headers of the entry's groups + length
   prefixes of the entry's data) *)
Fixpoint trait_groups (gs : groups) (counts : list Z) {struct gs} : Z * list Z :=
  match gs with
  | GNil => (0, counts)
  | GCons d cbl l rest =>
    match counts with
    | [] => (0, [])
    | n :: cs =>
      let '(sub, cs1) := trait_groups (level_groups l) cs in
      let '(r, cs2) := trait_groups rest cs1 in
      (n * (cbl + dims_size (level_groups l) + prefixes_size (level_datas l)) + sub + r, cs2)
    end
  end.

Definition trait_size (m : message) (counts : list Z) (total_data : Z) : Z :=
  m_hdr_size m + m_cbl m
  + dims_size (level_groups (m_level m)) + prefixes_size (level_datas (m_level m))
  + fst (trait_groups (level_groups (m_level m)) counts) + total_data.

(* the arguments a caller passes for a given value tree *)
Fixpoint ventries_list (es : ventries) : list vlevel :=
  match es with VENil => [] | VECons e r => e :: ventries_list r end.

Definition child_instances (k : nat) (parents : list vlevel) : list vlevel :=
  flat_map (fun v => match vgroups_nth (vlevel_groups v) k with
                     | Some (_, es) => ventries_list es
                     | None => []
                     end) parents.

Fixpoint counts_gs (gs : groups) (k : nat) (parents : list vlevel) {struct gs} : list Z :=
  match gs with
  | GNil => []
  | GCons _ _ l rest =>
    let inst := child_instances k parents in
    (Z.of_nat (length inst) :: counts_gs (level_groups l) 0 inst) ++ counts_gs rest (S k) parents
  end.

Fixpoint data_total (v : vlevel) {struct v} : Z :=
  match v with
  | VLevel _ vgs vds => fold_right (fun p acc => len p + acc) 0 vds + data_total_gs vgs
  end
with data_total_gs (vgs : vgroups) {struct vgs} : Z :=
  match vgs with
  | VGNil => 0
  | VGCons _ es rest => data_total_es es + data_total_gs rest
  end
with data_total_es (es : ventries) {struct es} : Z :=
  match es with
  | VENil => 0
  | VECons e r => data_total e + data_total_es r
  end.

(* encoded under the current schema: every block has its compiled length *)
Fixpoint compiled_blocks (cbl : Z) (l : level) (v : vlevel) {struct v} : Prop :=
  match v with
  | VLevel block vgs _ => len block = cbl /\ compiled_blocks_gs (level_groups l) vgs
  end
with compiled_blocks_gs (gs : groups) (vgs : vgroups) {struct vgs} : Prop :=
  match vgs, gs with
  | VGCons _ es vrest, GCons _ cbl l rest => compiled_blocks_es cbl l es /\ compiled_blocks_gs rest vrest
  | _, _ => True
  end
with compiled_blocks_es (cbl : Z) (l : level) (es : ventries) {struct es} : Prop :=
  match es with
  | VENil => True
  | VECons e r => compiled_blocks cbl l e /\ compiled_blocks_es cbl l r
  end.

Definition stmt_trait_size_is_image_length : Prop :=
  forall be m hdrbg v,
    wf_message be m hdrbg v -> compiled_blocks (m_cbl m) (m_level m) v ->
    trait_size m (counts_gs (level_groups (m_level m)) 0 [v]) (data_total v)
    = len (enc_message be m hdrbg v).

(* ------------------------------------------------------------------ *)
(* C02/C03 at any depth: entries found where the image puts them       *)
(* ------------------------------------------------------------------ *)

(* value-side resolution of a path and the offset of the resolved entry's
   block inside the image of the level *)
Fixpoint ventries_nth (es : ventries) (i : nat) : option vlevel :=
  match es, i with
  | VENil, _ => None
  | VECons e _, O => Some e
  | VECons _ r, S i' => ventries_nth r i'
  end.

Fixpoint entries_prefix_len (be : bool) (l : level) (es : ventries) (i : nat) : Z :=
  match es, i with
  | VECons e r, S i' => len (enc_level be l e) + entries_prefix_len be l r i'
  | _, _ => 0
  end.

Fixpoint groups_nth (gs : groups) (k : nat) : option (dim * Z * level) :=
  match gs, k with
  | GNil, _ => None
  | GCons d cbl l _, O => Some (d, cbl, l)
  | GCons _ _ _ rest, S k' => groups_nth rest k'
  end.

(* (resolved level, resolved value, offset of its block from the start of the
   root block) *)
Fixpoint vresolve (be : bool) (path : list step) (l : level) (v : vlevel)
  : option (level * vlevel * Z) :=
  match path with
  | [] => Some (l, v, 0)
  | SGroup k i :: rest =>
    match groups_nth (level_groups l) k, vgroups_nth (vlevel_groups v) k with
    | Some (d, _, sub), Some (_, es) =>
      if i <? 0 then None else
      match ventries_nth es (Z.to_nat i) with
      | Some e =>
        match vresolve be rest sub e with
        | Some (l', v', off) =>
          Some (l', v', len (vblock v)
                        + groups_prefix_len be (level_groups l) (vlevel_groups v) k
                        + d_size d + entries_prefix_len be sub es (Z.to_nat i) + off)
        | None => None
        end
      | None => None
      end
    | _, _ => None
    end
  end.

(* flat-group entry addressing must not overflow: i * blockLength is computed
   over Z in the model (C12 covers the iterator arithmetic itself) *)
Definition stmt_get_field_any_path_enc : Prop :=
  forall be m hdrbg v pre post path k l' v' off f,
    wf_message be m hdrbg v ->
    vresolve be path (m_level m) v = Some (l', v', off) ->
    nth_error (level_fields l') k = Some f ->
    0 <= f_off f -> 0 <= f_size f -> f_off f + f_size f <= len (vblock v') ->
    get_field be (pre ++ enc_message be m hdrbg v ++ post) m (len pre) path k
    = Some (slice (vblock v') (f_off f) (f_size f)).

Definition stmt_get_data_any_path_enc : Prop :=
  forall be m hdrbg v pre post path k l' v' off p,
    wf_message be m hdrbg v ->
    vresolve be path (m_level m) v = Some (l', v', off) ->
    nth_error (vlevel_datas v') k = Some p ->
    get_data be (pre ++ enc_message be m hdrbg v ++ post) m (len pre) path k = Some p.
