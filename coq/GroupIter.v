(* GroupIter.v — model of the group views of sbepp.hpp (C12):
     detail::random_access_iterator   (iterator of flat groups)
     detail::forward_iterator         (iterator of nested groups)
     detail::flat_group_base          (size_bytes, begin, end, operator[], front,
                                       back, resize, clear)
     detail::nested_group_base        (begin, end, resize, clear)
   transcribed through CInt so that every integral promotion, usual arithmetic
   conversion and narrowing conversion the C++ performs is part of the model.

   Type parameters: [S] = size_type = numInGroup's value type, [B] =
   blockLength's value type (both one of U8 U16 U32 U64), difference_type =
   [dty S] = make_signed<size_type>.

   Dimension header.  The library takes the data start of a group from
   `sbepp::size_bytes(dimension)`, the size of the whole dimension composite,
   which may be larger than sizeof(blockLength) + sizeof(numInGroup): SBE 2.0
   style extra members (numGroups, numVarDataFields), members with explicit
   `offset=` padding, blockLength / numInGroup in either order.  The header
   size is therefore a PARAMETER of the model: field [g_hdr] of a group on
   decoded header values (the iterator algebra never looks inside the header:
   it receives the decoded blockLength and numInGroup), and a layout [hlay] =
   (size, offset of blockLength, offset of numInGroup) for the byte-level
   operations (reading the header, resize/clear, nested groups).
   [hdr_size S B] / [std_hlay S B] is the special case of the two-member
   composite "blockLength followed by numInGroup".

   Pointers.  A pointer is the signed 64-bit distance (in bytes) from the first
   byte of the buffer the view was created on: [padd p v] is the flat, modular
   address computation every LP64 target performs for `p + v` where [v] is the
   *mathematical value* of the integer operand (a negative signed operand moves
   backwards, an unsigned operand is never negative — in particular an
   unsigned 32-bit product is zero-extended).  The object-bounds rules of the
   C++ abstract machine for pointer arithmetic are NOT modelled (see
   NOTES_C12.md); signed integer overflow is ([GUB]).

   Everything is wrapped in [Module GI] so that the extracted OCaml names
   (GI.xxx, GI.Legacy.xxx) cannot collide with other properties' models.

   The main definitions model the repaired code:
       operator+=  : ptr += static_cast<std::ptrdiff_t>(n)
                            * static_cast<std::ptrdiff_t>(block_length);   (fix_c12.diff)
       operator[]  : iterator{begin_ptr + static_cast<std::size_t>(pos)
                                             * block_length, block_length, pos, end}
                                                                             (fix_c12.diff)
       size_bytes  : size_bytes(dimension)
                     + static_cast<std::size_t>(numInGroup) * blockLength
                                          (already in /repo: "fix: compute flat group
                                           size_bytes in std::size_t", found by C05)
   [GI.Legacy] models the code before these repairs:
       operator+=  : ptr += n * block_length;          (usual arithmetic conversions
                                                         of difference_type x BlockLengthType)
       operator[]  : deref of (begin() + pos)          (pos narrowed to difference_type)
       size_bytes  : size_bytes(dimension) + numInGroup * blockLength
                                                        (product in the promoted header types) *)
From Coq Require Import ZArith Bool List.
From Sbepp Require Import CInt.
Import ListNotations.
Local Open Scope Z_scope.

Module GI.

(* ------------------------------------------------------------------ *)
(* outcomes                                                            *)
(* ------------------------------------------------------------------ *)
Inductive outcome (A : Type) : Type :=
| GOk (a : A)      (* returns normally *)
| GAssert          (* SBEPP_ASSERT / SBEPP_SIZE_CHECK fails (checks enabled) *)
| GUB.             (* undefined behaviour: signed overflow, out-of-buffer access *)
Arguments GOk {A} a.
Arguments GAssert {A}.
Arguments GUB {A}.

Definition gbind {A B} (o : outcome A) (f : A -> outcome B) : outcome B :=
  match o with GOk a => f a | GAssert => GAssert | GUB => GUB end.

Definition of_opt {A} (o : option A) : outcome A :=
  match o with Some a => GOk a | None => GUB end.

(* ------------------------------------------------------------------ *)
(* types, pointers, checks                                             *)
(* ------------------------------------------------------------------ *)
Definition is_uns (t : ity) : bool :=
  match t with U8 | U16 | U32 | U64 => true | _ => false end.

(* difference_type = std::make_signed<size_type>::type *)
Definition dty (S : ity) : ity := to_signed S.

(* sizeof *)
Definition wbytes (t : ity) : nat :=
  match t with
  | U8 | I8 => 1 | U16 | I16 => 2 | U32 | I32 => 4 | U64 | I64 => 8
  end%nat.
Definition wsize (t : ity) : Z := Z.of_nat (wbytes t).

(* sbepp::size_bytes(dimension) of the two-member dimension composite:
   blockLength followed by numInGroup (the special case; in general the size
   is the parameter [g_hdr] / [h_size] below) *)
Definition hdr_size (S B : ity) : Z := wsize B + wsize S.

Definition padd (p v : Z) : Z := wrap PTRDIFF_T (p + v).
Definition psub (p v : Z) : Z := wrap PTRDIFF_T (p - v).

(* SBEPP_SIZE_CHECK(begin, end, offset, size):
     begin && begin <= end && ((offset + size) <= static_cast<std::size_t>(end - begin))
   ([need] is the value of offset + size, which is never negative here; views
   are never created from a null pointer in this model) *)
Definition size_check (chk : bool) (b e need : Z) : bool :=
  negb chk || ((b <=? e) && (wrap SIZE_T need <=? wrap SIZE_T (e - b))).

Definition gassert {A} (chk : bool) (c : bool) (k : outcome A) : outcome A :=
  if negb chk || c then k else GAssert.

(* ------------------------------------------------------------------ *)
(* random_access_iterator<Byte, Entry, B, dty S, S>                    *)
(* ------------------------------------------------------------------ *)
Record iter : Type := mkIter {
  i_ptr : Z;   (* Byte* ptr *)
  i_bl  : Z;   (* BlockLengthType block_length *)
  i_idx : Z;   (* IndexType index *)
  i_end : Z    (* Byte* end (only stored when size checks are enabled) *)
}.

(* operator*(): the entry view {ptr, end, block_length}; its address is ptr *)
Definition it_deref (it : iter) : Z := i_ptr it.

(* index++ / index-- : computed in the promoted type, stored back in S *)
Definition idx_step (f : ity -> ity -> Z -> Z -> option Z) (S : ity) (idx : Z) : outcome Z :=
  gbind (of_opt (f S INT idx 1)) (fun r => GOk (ccast S r)).

(* operator++: SBEPP_SIZE_CHECK(ptr, end, 0, block_length); ptr += block_length; index++ *)
Definition it_inc (chk : bool) (S B : ity) (it : iter) : outcome iter :=
  if size_check chk (i_ptr it) (i_end it) (i_bl it) then
    gbind (idx_step cadd S (i_idx it)) (fun ix =>
    GOk (mkIter (padd (i_ptr it) (i_bl it)) (i_bl it) ix (i_end it)))
  else GAssert.

(* operator--: ptr -= block_length; index-- *)
Definition it_dec (S B : ity) (it : iter) : outcome iter :=
  gbind (idx_step csub S (i_idx it)) (fun ix =>
  GOk (mkIter (psub (i_ptr it) (i_bl it)) (i_bl it) ix (i_end it))).

(* index += n : index = static_cast<S>(index + n), index + n in uac(S, dty S) *)
Definition idx_add (S : ity) (idx n : Z) : outcome Z :=
  gbind (of_opt (cadd S (dty S) idx n)) (fun r => GOk (ccast S r)).

(* operator+=(difference_type n), [n] already converted to difference_type.
   [offset] is the byte offset expression, the only thing the fix changes *)
Definition it_add_with (offset : ity -> ity -> Z -> Z -> option Z)
    (S B : ity) (it : iter) (n : Z) : outcome iter :=
  gbind (of_opt (offset S B n (i_bl it))) (fun off =>
  gbind (idx_add S (i_idx it) n) (fun ix =>
  GOk (mkIter (padd (i_ptr it) off) (i_bl it) ix (i_end it)))).

(* static_cast<std::ptrdiff_t>(n) * static_cast<std::ptrdiff_t>(block_length) *)
Definition offset_fixed (S B : ity) (n bl : Z) : option Z :=
  cmul PTRDIFF_T PTRDIFF_T (ccast PTRDIFF_T n) (ccast PTRDIFF_T bl).

(* the implicit conversion of an integer argument to `difference_type n` *)
Definition to_diff (S : ity) (n : Z) : Z := ccast (dty S) n.

Section Ops.
  (* [offset] : the byte offset expression of operator+= *)
  Variable offset : ity -> ity -> Z -> Z -> option Z.

  Definition it_add_assign_g (S B : ity) (it : iter) (n : Z) : outcome iter :=
    it_add_with offset S B it (to_diff S n).

  (* operator-=(n): return *this += -n;   (-n in the promoted type, converted
     back to difference_type by the call) *)
  Definition it_sub_assign_g (S B : ity) (it : iter) (n : Z) : outcome iter :=
    gbind (of_opt (cneg (dty S) (to_diff S n))) (fun m =>
    it_add_with offset S B it (ccast (dty S) m)).
End Ops.

(* operator+= / operator+ / n + it  (all the same state transformer on a copy) *)
Definition it_plus := it_add_assign_g offset_fixed.
(* operator-= / operator-(n) *)
Definition it_minus := it_sub_assign_g offset_fixed.

(* operator-(rhs): return index - rhs.index;  (converted to difference_type) *)
Definition it_diff (S : ity) (a b : iter) : outcome Z :=
  gbind (of_opt (csub S S (i_idx a) (i_idx b))) (fun d => GOk (ccast (dty S) d)).

(* operator[](difference_type n): deref of ( *this + n) *)
Definition it_subscript (S B : ity) (it : iter) (n : Z) : outcome Z :=
  gbind (it_plus S B it n) (fun r => GOk (it_deref r)).

(* comparisons look at the index only (both operands have type S, promotion
   preserves value and order) *)
Definition it_eq (a b : iter) : bool := i_idx a =? i_idx b.
Definition it_lt (a b : iter) : bool := i_idx a <? i_idx b.
Definition it_le (a b : iter) : bool := i_idx a <=? i_idx b.

(* ------------------------------------------------------------------ *)
(* flat_group_base on decoded header values                            *)
(* ------------------------------------------------------------------ *)
Record grp : Type := mkGrp {
  g_ptr : Z;   (* address of the group view (= of its dimension header) *)
  g_end : Z;   (* end pointer of the view *)
  g_hdr : Z;   (* sbepp::size_bytes(dimension): size of the dimension composite *)
  g_bl  : Z;   (* wire blockLength, a value of type B *)
  g_ng  : Z    (* wire numInGroup, a value of type S *)
}.

(* get_header_tag: SBEPP_SIZE_CHECK(addr, end, 0, size_bytes(header)) *)
Definition hdr_ok (chk : bool) (S B : ity) (g : grp) : bool :=
  size_check chk (g_ptr g) (g_end g) (g_hdr g).

(* size_bytes_tag (fixed):
   size_bytes(dimension) + static_cast<std::size_t>(numInGroup) * blockLength *)
Definition size_bytes_fixed (S B : ity) (H ng bl : Z) : option Z :=
  obind (cmul SIZE_T B (ccast SIZE_T ng) bl) (fun prod =>
  cadd SIZE_T (uac SIZE_T B) H prod).

(* addr + sbepp::size_bytes(dimension) *)
Definition g_begin_ptr (S B : ity) (g : grp) : Z := padd (g_ptr g) (g_hdr g).

(* begin() *)
Definition g_begin (chk : bool) (S B : ity) (g : grp) : outcome iter :=
  gassert chk (hdr_ok chk S B g)
    (GOk (mkIter (g_begin_ptr S B g) (g_bl g) 0 (g_end g))).

Section GroupOps.
  (* S B, header size, numInGroup, blockLength *)
  Variable size_bytes : ity -> ity -> Z -> Z -> Z -> option Z.

  Definition g_size_bytes_g (chk : bool) (S B : ity) (g : grp) : outcome Z :=
    gassert chk (hdr_ok chk S B g) (of_opt (size_bytes S B (g_hdr g) (g_ng g) (g_bl g))).

  (* end(): iterator{addr + size_bytes, blockLength, size(), end} *)
  Definition g_end_it_g (chk : bool) (S B : ity) (g : grp) : outcome iter :=
    gbind (g_size_bytes_g chk S B g) (fun sb =>
    GOk (mkIter (padd (g_ptr g) sb) (g_bl g) (g_ng g) (g_end g))).

  (* back(): SBEPP_ASSERT(!empty()); return *(--end()); *)
  Definition g_back_g (chk : bool) (S B : ity) (g : grp) : outcome Z :=
    gassert chk (hdr_ok chk S B g && negb (g_ng g =? 0))
      (gbind (g_end_it_g chk S B g) (fun e =>
       gbind (it_dec S B e) (fun r => GOk (it_deref r)))).
End GroupOps.

Definition g_size_bytes := g_size_bytes_g size_bytes_fixed.
Definition g_end_it := g_end_it_g size_bytes_fixed.
Definition g_back := g_back_g size_bytes_fixed.

(* size() *)
Definition g_size (chk : bool) (S B : ity) (g : grp) : outcome Z :=
  gassert chk (hdr_ok chk S B g) (GOk (g_ng g)).

(* operator[](size_type pos) (fixed):
     SBEPP_ASSERT(pos < size());
     return *iterator{addr + size_bytes(dimension)
                        + static_cast<std::size_t>(pos) * block_length,
                      block_length, pos, end};                          *)
Definition g_at (chk : bool) (S B : ity) (g : grp) (pos : Z) : outcome Z :=
  let pos := ccast S pos in
  gassert chk (hdr_ok chk S B g && (pos <? g_ng g))
    (gbind (of_opt (cmul SIZE_T B (ccast SIZE_T pos) (g_bl g))) (fun off =>
     GOk (it_deref (mkIter (padd (g_begin_ptr S B g) off) (g_bl g) pos (g_end g))))).

(* front(): SBEPP_ASSERT(!empty()); return *begin(); *)
Definition g_front (chk : bool) (S B : ity) (g : grp) : outcome Z :=
  gassert chk (hdr_ok chk S B g && negb (g_ng g =? 0))
    (gbind (g_begin chk S B g) (fun b => GOk (it_deref b))).

(* k applications of operator++ starting from [it] (range-for / std::next) *)
Fixpoint it_inc_n (chk : bool) (S B : ity) (k : nat) (it : iter) : outcome iter :=
  match k with
  | O => GOk it
  | Datatypes.S k' => gbind (it_inc chk S B it) (it_inc_n chk S B k')
  end.

(* ------------------------------------------------------------------ *)
(* the code before the repairs                                         *)
(* ------------------------------------------------------------------ *)
Module Legacy.
  (* ptr += n * block_length;   n : difference_type, block_length : B *)
  Definition offset_legacy (S B : ity) (n bl : Z) : option Z :=
    cmul (dty S) B n bl.

  Definition it_plus := it_add_assign_g offset_legacy.
  Definition it_minus := it_sub_assign_g offset_legacy.

  Definition it_subscript (S B : ity) (it : iter) (n : Z) : outcome Z :=
    gbind (it_plus S B it n) (fun r => GOk (it_deref r)).

  (* size_bytes(dimension) + numInGroup * blockLength *)
  Definition size_bytes_legacy (S B : ity) (H ng bl : Z) : option Z :=
    obind (cmul S B ng bl) (fun prod =>
    cadd SIZE_T (uac S B) H prod).

  Definition g_size_bytes := g_size_bytes_g size_bytes_legacy.
  Definition g_end_it := g_end_it_g size_bytes_legacy.
  Definition g_back := g_back_g size_bytes_legacy.

  (* operator[](size_type pos): SBEPP_ASSERT(pos < size()); return *(begin() + pos); *)
  Definition g_at (chk : bool) (S B : ity) (g : grp) (pos : Z) : outcome Z :=
    let pos := ccast S pos in
    gassert chk (hdr_ok chk S B g && (pos <? g_ng g))
      (gbind (g_begin chk S B g) (fun b =>
       gbind (it_plus S B b pos) (fun r => GOk (it_deref r)))).
End Legacy.

(* ------------------------------------------------------------------ *)
(* byte level: little-endian dimension header in a buffer              *)
(* ------------------------------------------------------------------ *)
Fixpoint enc_le (w : nat) (v : Z) : list Z :=
  match w with
  | O => []
  | Datatypes.S w' => (v mod 256) :: enc_le w' (v / 256)
  end.

Fixpoint dec_le (l : list Z) : Z :=
  match l with
  | [] => 0
  | b :: t => b + 256 * dec_le t
  end.

Definition blen (buf : list Z) : Z := Z.of_nat (length buf).

(* [n] bytes at offset [off]; None = access outside the buffer *)
Definition slice (buf : list Z) (off : Z) (n : nat) : option (list Z) :=
  if (off <? 0) || (blen buf <? off + Z.of_nat n) then None
  else Some (firstn n (skipn (Z.to_nat off) buf)).

Definition rd (t : ity) (buf : list Z) (off : Z) : option Z :=
  match slice buf off (wbytes t) with
  | Some l => Some (dec_le l)
  | None => None
  end.

Definition wr (t : ity) (buf : list Z) (off : Z) (v : Z) : option (list Z) :=
  if (off <? 0) || (blen buf <? off + wsize t) then None
  else Some (firstn (Z.to_nat off) buf ++ enc_le (wbytes t) v
             ++ skipn (Z.to_nat off + wbytes t) buf).

(* layout of a dimension composite: its size (sbepp::size_bytes(dimension),
   the end of its last member) and the offsets of the two members the group
   views use.  Anything else in the composite (numGroups, numVarDataFields,
   padding) is neither read nor written by the group views. *)
Record hlay : Type := mkHlay {
  h_size : Z;   (* sbepp::size_bytes(dimension) *)
  h_bl   : Z;   (* offset of blockLength inside the composite *)
  h_ng   : Z    (* offset of numInGroup inside the composite *)
}.

(* the two-member composite: blockLength at 0, numInGroup right after it *)
Definition std_hlay (S B : ity) : hlay := mkHlay (hdr_size S B) 0 (wsize B).

(* a group view {p, e} on [buf]: get_header_tag, blockLength().value(),
   numInGroup().value() *)
Definition read_grp (chk : bool) (S B : ity) (L : hlay) (buf : list Z) (p e : Z) : outcome grp :=
  if size_check chk p e (h_size L) then
    gbind (of_opt (rd B buf (padd p (h_bl L)))) (fun bl =>
    gbind (of_opt (rd S buf (padd p (h_ng L)))) (fun ng =>
    GOk (mkGrp p e (h_size L) bl ng)))
  else GAssert.

(* resize(count): header().numInGroup(count)
   = header size check, then set_value at the offset of numInGroup *)
Definition g_resize (chk : bool) (S B : ity) (L : hlay) (buf : list Z) (p e : Z) (count : Z)
  : outcome (list Z) :=
  if size_check chk p e (h_size L) then
    of_opt (wr S buf (padd p (h_ng L)) (ccast S count))
  else GAssert.

(* clear(): resize(0) *)
Definition g_clear (chk : bool) (S B : ity) (L : hlay) (buf : list Z) (p e : Z) : outcome (list Z) :=
  g_resize chk S B L buf p e 0.

(* ------------------------------------------------------------------ *)
(* nested_group_base / forward_iterator                                *)
(* entries of the harness schema: a block of (wire) blockLength bytes  *)
(* followed by one flat group with the standard uint16/uint16          *)
(* groupSizeEncoding dimension; the OUTER dimension has any layout [L] *)
(* ------------------------------------------------------------------ *)

(* sbepp::size_bytes(entry) as generated:
     const auto last = inner();   // {entry_ptr + block_length, end}
     return addressof(last) + size_bytes(last) - addressof(entry);       *)
Definition entry_size (chk : bool) (buf : list Z) (p bl e : Z) : outcome Z :=
  let ip := padd p bl in
  gbind (read_grp chk U16 U16 (std_hlay U16 U16) buf ip e) (fun ig =>
  gbind (g_size_bytes chk U16 U16 ig) (fun isz =>
  GOk (ccast SIZE_T (wrap PTRDIFF_T (padd ip isz - p))))).

(* forward_iterator::operator++:
     SBEPP_SIZE_CHECK(ptr, end, 0, size_bytes(operator*()));
     ptr += size_bytes(operator*()); index++;                            *)
Definition n_inc (chk : bool) (S B : ity) (buf : list Z) (it : iter) : outcome iter :=
  gbind (entry_size chk buf (i_ptr it) (i_bl it) (i_end it)) (fun sz =>
  if size_check chk (i_ptr it) (i_end it) sz then
    gbind (idx_step cadd S (i_idx it)) (fun ix =>
    GOk (mkIter (padd (i_ptr it) sz) (i_bl it) ix (i_end it)))
  else GAssert).

(* nested begin(): iterator{addr + size_bytes(dimension), 0, blockLength, end} *)
Definition n_begin (chk : bool) (S B : ity) (L : hlay) (buf : list Z) (p e : Z) : outcome iter :=
  gbind (read_grp chk S B L buf p e) (fun g =>
  GOk (mkIter (g_begin_ptr S B g) (g_bl g) 0 e)).

(* nested end(): iterator{nullptr, numInGroup, blockLength, end}; only its
   index is ever looked at *)
Definition n_end_idx (chk : bool) (S B : ity) (L : hlay) (buf : list Z) (p e : Z) : outcome Z :=
  gbind (read_grp chk S B L buf p e) (fun g => GOk (g_ng g)).

(* for(auto entry : group): the addresses of the entries visited.
   [fuel] bounds the walk (the caller passes numInGroup) *)
Fixpoint n_walk (chk : bool) (S B : ity) (buf : list Z) (fuel : nat) (endidx : Z)
    (it : iter) : outcome (list Z) :=
  match fuel with
  | O => GOk []
  | Datatypes.S f =>
    if i_idx it =? endidx then GOk [] else
    gbind (n_inc chk S B buf it) (fun it' =>
    gbind (n_walk chk S B buf f endidx it') (fun rest =>
    GOk (it_deref it :: rest)))
  end.

Definition n_entries (chk : bool) (S B : ity) (L : hlay) (buf : list Z) (p e : Z) : outcome (list Z) :=
  gbind (n_begin chk S B L buf p e) (fun b =>
  gbind (n_end_idx chk S B L buf p e) (fun ei =>
  n_walk chk S B buf (Z.to_nat ei) ei b)).

(* the wire image (specification side): concatenation, no pointers *)
Record nentry : Type := mkNEntry {
  ne_block : list Z;     (* the entry's block, wire blockLength bytes *)
  ne_ibl   : Z;          (* inner group: blockLength *)
  ne_icnt  : Z;          (* inner group: numInGroup *)
  ne_ipay  : list Z      (* inner group: payload, icnt * ibl bytes *)
}.

Definition enc_entry (en : nentry) : list Z :=
  ne_block en ++ enc_le 2 (ne_ibl en) ++ enc_le 2 (ne_icnt en) ++ ne_ipay en.

(* the two-member dimension header (layout [std_hlay S B]) *)
Definition enc_dim (S B : ity) (bl ng : Z) : list Z :=
  enc_le (wbytes B) bl ++ enc_le (wbytes S) ng.

(* a nested group on the wire: the bytes of its dimension composite ([hdr]:
   any [h_size L] bytes that hold blockLength at [h_bl L] and numInGroup at
   [h_ng L]) followed by the entries *)
Definition enc_nested (hdr : list Z) (es : list nentry) : list Z :=
  hdr ++ concat (map enc_entry es).

End GI.
