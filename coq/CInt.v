(* CInt.v — C++ fixed-width integer semantics on the LP64 ABI used in this
   sandbox (int = 32 bit, long = long long = 64 bit, size_t = unsigned long,
   ptrdiff_t = long).  Values are mathematical integers [Z] tagged by a type;
   every operation returns [option Z] where [None] stands for undefined
   behaviour (signed overflow, shift count out of range, ...).

   Only definitions live here (the file is extracted to OCaml); lemmas are in
   CIntFacts.v. *)
From Coq Require Import ZArith Bool.
Local Open Scope Z_scope.

Inductive ity := U8 | U16 | U32 | U64 | I8 | I16 | I32 | I64.

Definition ity_eqb (a b : ity) : bool :=
  match a, b with
  | U8, U8 | U16, U16 | U32, U32 | U64, U64
  | I8, I8 | I16, I16 | I32, I32 | I64, I64 => true
  | _, _ => false
  end.

Definition bits (t : ity) : Z :=
  match t with
  | U8 | I8 => 8 | U16 | I16 => 16 | U32 | I32 => 32 | U64 | I64 => 64
  end.

Definition is_signed (t : ity) : bool :=
  match t with I8 | I16 | I32 | I64 => true | _ => false end.

Definition to_unsigned (t : ity) : ity :=
  match t with I8 => U8 | I16 => U16 | I32 => U32 | I64 => U64 | u => u end.

Definition to_signed (t : ity) : ity :=
  match t with U8 => I8 | U16 => I16 | U32 => I32 | U64 => I64 | s => s end.

Definition tmin (t : ity) : Z :=
  if is_signed t then - 2 ^ (bits t - 1) else 0.

Definition tmax (t : ity) : Z :=
  if is_signed t then 2 ^ (bits t - 1) - 1 else 2 ^ bits t - 1.

Definition in_range (t : ity) (z : Z) : bool :=
  (tmin t <=? z) && (z <=? tmax t).

(* conversion to [t] (modular; implementation-defined before C++20 for signed
   targets, two's complement on every supported compiler and since C++20) *)
Definition wrap (t : ity) (z : Z) : Z :=
  if is_signed t
  then (z + 2 ^ (bits t - 1)) mod 2 ^ bits t - 2 ^ (bits t - 1)
  else z mod 2 ^ bits t.

(* integral promotion: everything of rank below int becomes int *)
Definition promote (t : ity) : ity :=
  match t with
  | U8 | U16 | I8 | I16 => I32
  | other => other
  end.

(* usual arithmetic conversions, applied to already promoted types *)
Definition uac (a b : ity) : ity :=
  let a := promote a in
  let b := promote b in
  if ity_eqb a b then a else
  match a, b with
  | I32, I64 | I64, I32 => I64
  | U32, U64 | U64, U32 => U64
  | I32, U32 | U32, I32 => U32
  | I32, U64 | U64, I32 => U64
  | I64, U32 | U32, I64 => I64
  | I64, U64 | U64, I64 => U64
  | x, _ => x
  end.

(* result of an arithmetic operation evaluated in type [t] *)
Definition arith (t : ity) (z : Z) : option Z :=
  if is_signed t
  then (if in_range t z then Some z else None)
  else Some (wrap t z).

(* binary operators: operand types [ta] [tb], operand values [a] [b] (assumed
   in range of their types); result type is [uac ta tb] *)
Definition cbin (f : Z -> Z -> Z) (ta tb : ity) (a b : Z) : option Z :=
  let t := uac ta tb in arith t (f (wrap t a) (wrap t b)).

Definition cadd := cbin Z.add.
Definition csub := cbin Z.sub.
Definition cmul := cbin Z.mul.

(* bitwise operators never overflow; on signed operands they act on the
   two's complement representation *)
Definition cbit (f : Z -> Z -> Z) (ta tb : ity) (a b : Z) : Z :=
  let t := uac ta tb in wrap t (f (wrap t a) (wrap t b)).

Definition cand := cbit Z.land.
Definition cor := cbit Z.lor.

Definition cnot (ta : ity) (a : Z) : Z :=
  let t := promote ta in wrap t (Z.lnot a).

Definition cneg (ta : ity) (a : Z) : option Z :=
  let t := promote ta in arith t (- a).

(* a << n : the result type is the promoted left operand *)
Definition cshl (ta : ity) (a n : Z) : option Z :=
  let t := promote ta in
  if (n <? 0) || (bits t <=? n) then None else
  if is_signed t
  then (* C++14 (CWG 1457): defined iff a >= 0 and a*2^n fits the unsigned type *)
       (if (a <? 0) || (2 ^ bits t <=? a * 2 ^ n) then None
        else Some (wrap t (a * 2 ^ n)))
  else Some (wrap t (a * 2 ^ n)).

(* explicit or implicit conversion *)
Definition ccast (t : ity) (a : Z) : Z := wrap t a.

Definition obind {A B} (o : option A) (f : A -> option B) : option B :=
  match o with Some a => f a | None => None end.

Definition SIZE_T := U64.
Definition PTRDIFF_T := I64.
Definition INT := I32.
