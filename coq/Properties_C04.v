(* Properties_C04.v — C04: cursor access is equivalent to random access. *)
From Coq Require Import ZArith List.
From Sbepp Require Import CInt Bytes BytesFacts Msg Layout Wire MsgSpec LayoutProofs.
Import ListNotations.
Local Open Scope Z_scope.

(* the generator's independently recomputed cursor offsets agree with the
   validator's: for every accepted field list the (relative, absolute) pairs
   satisfy  previous end + rel = offset,  abs = offset + header size, and only
   the last non-constant field gets the jump-to-block-end flavour *)
Theorem C04_cursor_offsets_agree : stmt_cursor_offsets_agree.
Proof. exact cursor_offsets_agree. Qed.
Print Assumptions C04_cursor_offsets_agree.

(* get_valid_offset never throws after validation, and vice versa *)
Theorem C04_cursor_rejects_iff : stmt_cursor_rejects_iff.
Proof. exact cursor_rejects_iff. Qed.
Print Assumptions C04_cursor_rejects_iff.

From Sbepp Require Import Cursor CursorSpec CursorProofs.

(* every wrapper at the required position behaves like the random-access
   accessor (same address) and leaves the cursor at the documented position *)
Theorem C04_field_at_required_position : stmt_cur_field_at_required.
Proof. exact cur_field_at_required. Qed.
Print Assumptions C04_field_at_required_position.

Theorem C04_field_init_wrappers : stmt_cur_field_init.
Proof. exact cur_field_init. Qed.
Print Assumptions C04_field_init_wrappers.

Theorem C04_group_wrappers_equiv : stmt_cur_group_equiv.
Proof. exact cur_group_equiv. Qed.
Print Assumptions C04_group_wrappers_equiv.

(* misuse is reported through the assertion handler instead of silently
   reading other bytes: fields, and groups / data that are not the first
   variable-length member *)
Theorem C04_misplaced_field_reported : stmt_cur_field_misplaced_reported.
Proof. exact cur_field_misplaced_reported. Qed.
Print Assumptions C04_misplaced_field_reported.

Theorem C04_misplaced_group_reported : stmt_cur_group_misplaced_reported.
Proof. exact cur_group_misplaced_reported. Qed.
Print Assumptions C04_misplaced_group_reported.

Theorem C04_misplaced_data_reported : stmt_cur_data_misplaced_reported.
Proof. exact cur_data_misplaced_reported. Qed.
Print Assumptions C04_misplaced_data_reported.

(* a complete cursor traversal (fields, cursor_range over every group, nested
   entries, data) of the image of ANY well-formed value tree, with arbitrary
   wire block lengths, visits every member at its random-access address and
   leaves the cursor exactly at the end of the message.  Side condition: no
   non-empty flat group has wire blockLength 0 (the model bounds the entry loop
   by the buffer length; the library itself has no such bound). *)
Theorem C04_complete_traversal_ends_at_message_end : stmt_trav_message_enc''.
Proof. exact trav_message_enc''. Qed.
Print Assumptions C04_complete_traversal_ends_at_message_end.

From Sbepp Require Import Compile CompileSpec CompileProofs.

(* for EVERY schema level the layout model accepts, the generator's cursor
   accessor table exists and satisfies wf_clevel -- the hypothesis of the
   traversal theorem -- so that theorem applies to every accepted schema *)
Theorem C04_accepted_schema_cursor_table_exists : stmt_compile_clevel_total.
Proof. exact compile_clevel_total. Qed.
Print Assumptions C04_accepted_schema_cursor_table_exists.

Theorem C04_accepted_schema_cursor_table_consistent : stmt_compile_clevel_wf.
Proof. exact compile_clevel_wf. Qed.
Print Assumptions C04_accepted_schema_cursor_table_consistent.
