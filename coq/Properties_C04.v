(* Properties_C04.v — C04: cursor access is equivalent to random access. *)
From Coq Require Import ZArith List.
From Sbepp Require Import CInt Bytes BytesFacts Msg Layout Wire MsgSpec LayoutProofs.
Import ListNotations.
Local Open Scope Z_scope.

(* the generator's independently recomputed cursor offsets agree with the
   validator's: for every accepted field list the (relative, absolute) pairs
   satisfy  previous end + rel = offset,  abs = offset + header size, and only
   the last non-constant field gets the jump-to-block-end flavour *)
Theorem C04_cursor_offsets_agree : stmt_cursor_offsets_agree.
Proof. exact cursor_offsets_agree. Qed.
Print Assumptions C04_cursor_offsets_agree.

(* get_valid_offset never throws after validation, and vice versa *)
Theorem C04_cursor_rejects_iff : stmt_cursor_rejects_iff.
Proof. exact cursor_rejects_iff. Qed.
Print Assumptions C04_cursor_rejects_iff.

From Sbepp Require Import Cursor CursorSpec CursorProofs.

(* every wrapper at the required position behaves like the random-access
   accessor (same address) and leaves the cursor at the documented position *)
Theorem C04_field_at_required_position : stmt_cur_field_at_required.
Proof. exact cur_field_at_required. Qed.
Print Assumptions C04_field_at_required_position.

Theorem C04_field_init_wrappers : stmt_cur_field_init.
Proof. exact cur_field_init. Qed.
Print Assumptions C04_field_init_wrappers.

Theorem C04_group_wrappers_equiv : stmt_cur_group_equiv.
Proof. exact cur_group_equiv. Qed.
Print Assumptions C04_group_wrappers_equiv.

(* misuse is reported through the assertion handler instead of silently
   reading other bytes: fields, and groups / data that are not the first
   variable-length member *)
Theorem C04_misplaced_field_reported : stmt_cur_field_misplaced_reported.
Proof. exact cur_field_misplaced_reported. Qed.
Print Assumptions C04_misplaced_field_reported.

Theorem C04_misplaced_group_reported : stmt_cur_group_misplaced_reported.
Proof. exact cur_group_misplaced_reported. Qed.
Print Assumptions C04_misplaced_group_reported.

Theorem C04_misplaced_data_reported : stmt_cur_data_misplaced_reported.
Proof. exact cur_data_misplaced_reported. Qed.
Print Assumptions C04_misplaced_data_reported.

(* a complete cursor traversal (fields, cursor_range over every group, nested
   entries, data) of the image of ANY well-formed value tree, with arbitrary
   wire block lengths, visits every member at its random-access address and
   leaves the cursor exactly at the end of the message.  Side condition: no
   non-empty flat group has wire blockLength 0 (the model bounds the entry loop
   by the buffer length; the library itself has no such bound). *)
Theorem C04_complete_traversal_ends_at_message_end : stmt_trav_message_enc''.
Proof. exact trav_message_enc''. Qed.
Print Assumptions C04_complete_traversal_ends_at_message_end.

From Sbepp Require Import Compile CompileSpec CompileProofs.

(* for EVERY schema level the layout model accepts, the generator's cursor
   accessor table exists and satisfies wf_clevel -- the hypothesis of the
   traversal theorem -- so that theorem applies to every accepted schema *)
Theorem C04_accepted_schema_cursor_table_exists : stmt_compile_clevel_total.
Proof. exact compile_clevel_total. Qed.
Print Assumptions C04_accepted_schema_cursor_table_exists.

Theorem C04_accepted_schema_cursor_table_consistent : stmt_compile_clevel_wf.
Proof. exact compile_clevel_wf. Qed.
Print Assumptions C04_accepted_schema_cursor_table_consistent.

From Sbepp Require Import CursorScript CursorScriptProofs.

(* SEQUENCES of cursor calls with mixed wrappers on the members of one level
   view (CursorScript.run_script / run_cur is what the correspondence driver
   executes).  On the image of any well-formed value tree, embedded anywhere
   in a buffer: *)

(* one call: an init-type wrapper, the first variable-length member, or a call
   made at the required position returns the random-access address (= where the
   image puts the member) and leaves the cursor at the documented position;
   any other plain / dont_move / skip call is reported *)
Theorem C04_call_on_image : stmt_run_lop_image.
Proof. exact run_lop_image. Qed.
Print Assumptions C04_call_on_image.

(* the documented position after a moving call is the position the next
   member in schema order requires *)
Theorem C04_chain_field_to_next_field : stmt_chain_field_field.
Proof. exact chain_field_field. Qed.
Print Assumptions C04_chain_field_to_next_field.
Theorem C04_chain_last_field_to_block_end : stmt_chain_last_field.
Proof. exact chain_last_field. Qed.
Print Assumptions C04_chain_last_field_to_block_end.
Theorem C04_chain_group_skip_to_next_group : stmt_chain_group_group.
Proof. exact chain_group_group. Qed.
Print Assumptions C04_chain_group_skip_to_next_group.
Theorem C04_chain_last_group_to_first_data : stmt_chain_last_group_data.
Proof. exact chain_last_group_data. Qed.
Print Assumptions C04_chain_last_group_to_first_data.
Theorem C04_chain_data_to_next_data : stmt_chain_data_data.
Proof. exact chain_data_data. Qed.
Print Assumptions C04_chain_data_to_next_data.
Theorem C04_chain_empty_group : stmt_chain_empty_group.
Proof. exact chain_empty_group. Qed.
Print Assumptions C04_chain_empty_group.
Theorem C04_chain_end_of_level : stmt_chain_end_of_level.
Proof. exact chain_end_of_level. Qed.
Print Assumptions C04_chain_end_of_level.

(* any legal forward sequence: every call returns the random-access address
   and the documented cursor; the first misplaced plain / dont_move / skip call
   after a legal prefix is reported and nothing after it runs *)
Theorem C04_legal_sequence_equals_random_access : stmt_run_script_legal.
Proof. exact run_script_legal. Qed.
Print Assumptions C04_legal_sequence_equals_random_access.

Theorem C04_sequence_misuse_reported : stmt_run_script_misuse.
Proof. exact run_script_misuse. Qed.
Print Assumptions C04_sequence_misuse_reported.

(* the schema-order script (fields plain, groups skip, data plain) is legal
   and ends at the end of the level *)
Theorem C04_schema_order_script_is_legal : stmt_schema_script_legal.
Proof. exact schema_script_legal. Qed.
Print Assumptions C04_schema_order_script_is_legal.

(* the same for the level at any path of an encoded message (what the `cur`
   command of the correspondence driver runs) *)
Theorem C04_legal_sequence_at_any_path : stmt_run_cur_legal.
Proof. exact run_cur_legal. Qed.
Print Assumptions C04_legal_sequence_at_any_path.


From Sbepp Require Import CursorRange CursorRangeProofs.

(* cursor_range / cursor_subrange(pos[, count]) (CursorRange.run_crange_at is
   what the correspondence driver runs): on the image of any well-formed value
   tree the entries visited are exactly the random-access entries
   pos .. pos+count-1 and the cursor ends at entry pos+count (or at the end of
   the group); failed preconditions are reported; ranges compose; the range
   used inside visit_children and a user-level cursor_range agree *)
Theorem C04_random_access_entry_addresses : stmt_entry_pos_enc.
Proof. exact entry_pos_enc. Qed.
Print Assumptions C04_random_access_entry_addresses.

Theorem C04_cursor_range_on_image : stmt_crange_enc_default.
Proof. exact crange_enc_default. Qed.
Print Assumptions C04_cursor_range_on_image.

Theorem C04_cursor_range_at_any_path : stmt_run_crange_at_enc.
Proof. exact run_crange_at_enc. Qed.
Print Assumptions C04_cursor_range_at_any_path.

Theorem C04_cursor_subrange_pos_precondition_reported : stmt_crange_pos_asserts.
Proof. exact crange_pos_asserts. Qed.
Print Assumptions C04_cursor_subrange_pos_precondition_reported.

Theorem C04_cursor_subrange_count_precondition_reported : stmt_crange_count_asserts.
Proof. exact crange_count_asserts. Qed.
Print Assumptions C04_cursor_subrange_count_precondition_reported.

Theorem C04_cursor_ranges_compose : stmt_crange_compose_enc.
Proof. exact crange_compose_enc. Qed.
Print Assumptions C04_cursor_ranges_compose.

Theorem C04_cursor_range_is_the_visit_loop : stmt_crange_all_in_trav_groups.
Proof. exact crange_all_in_trav_groups. Qed.
Print Assumptions C04_cursor_range_is_the_visit_loop.
