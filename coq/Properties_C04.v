(* Properties_C04.v — C04: cursor access is equivalent to random access. *)
From Coq Require Import ZArith List.
From Sbepp Require Import CInt Bytes BytesFacts Msg Layout Wire MsgSpec LayoutProofs.
Import ListNotations.
Local Open Scope Z_scope.

(* the generator's independently recomputed cursor offsets agree with the
   validator's: for every accepted field list the (relative, absolute) pairs
   satisfy  previous end + rel = offset,  abs = offset + header size, and only
   the last non-constant field gets the jump-to-block-end flavour *)
Theorem C04_cursor_offsets_agree : stmt_cursor_offsets_agree.
Proof. exact cursor_offsets_agree. Qed.
Print Assumptions C04_cursor_offsets_agree.

(* get_valid_offset never throws after validation, and vice versa *)
Theorem C04_cursor_rejects_iff : stmt_cursor_rejects_iff.
Proof. exact cursor_rejects_iff. Qed.
Print Assumptions C04_cursor_rejects_iff.
