(* ExtrStrings.v — extraction directive only.  Coq's [string] would be
   extracted as an OCaml type named [string], which shadows the built-in type
   in every driver that does [open Model].  It is extracted as [ascii list]
   instead ([ascii] stays the extracted inductive, no OCaml [char]/[int]). *)
From Coq Require Import Extraction String Ascii.
Extract Inductive string => "ascii list" [ "[]" "(::)" ].
