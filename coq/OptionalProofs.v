(* OptionalProofs.v — proofs about Optional.v (optional/required scalars) and
   OptLit.v (generator literals).  Statements re-exported in Properties_C16.v. *)
From Coq Require Import ZArith Bool List Lia Ascii String.
From Sbepp Require Import CInt CIntFacts Fp Optional OptLit.
Import IEEE Opt ListNotations.
Local Open Scope Z_scope.

(* ------------------------------------------------------------------------ *)
(* built-in comparisons = mathematical comparison *)

Lemma uac_same t : uac t t = promote t.
Proof. destruct t; reflexivity. Qed.

Lemma in_range_promote t z : CInt.in_range t z = true -> CInt.in_range (promote t) z = true.
Proof.
  rewrite !in_range_iff. unfold tmin, tmax. destruct t; cbn; lia.
Qed.

Lemma int_cmp_spec t a b :
  CInt.in_range t a = true -> CInt.in_range t b = true ->
  int_cmp t a b = ord_of_comparison (a ?= b).
Proof.
  intros Ha Hb. unfold int_cmp. rewrite uac_same.
  rewrite !wrap_id by (apply in_range_promote; assumption). reflexivity.
Qed.

Lemma int_cmp_refl t a : int_cmp t a a = Equal.
Proof. unfold int_cmp. rewrite Z.compare_refl. reflexivity. Qed.

Lemma p_cmp_spec p a b :
  pvalid p a = true -> pvalid p b = true -> p_cmp p a b = spec_val_cmp p a b.
Proof.
  unfold pvalid, p_cmp, spec_val_cmp. destruct (kind p) as [t|f]; intros Ha Hb.
  - apply int_cmp_spec; assumption.
  - reflexivity.
Qed.

Lemma fcompare_refl f a : fcompare f a a = if is_nan f a then FUn else FEq.
Proof.
  unfold fcompare. destruct (is_nan f a); cbn; [reflexivity|].
  rewrite Z.compare_refl. reflexivity.
Qed.

Lemma fcompare_nan_l f a b : is_nan f a = true -> fcompare f a b = FUn.
Proof. intros H. unfold fcompare. rewrite H. reflexivity. Qed.

Lemma fcompare_nan_r f a b : is_nan f b = true -> fcompare f a b = FUn.
Proof. intros H. unfold fcompare. rewrite H, orb_true_r. reflexivity. Qed.

(* v != v is exactly the NaN test *)
Lemma p_ne_self p v : p_ne p v v = spec_is_nan p v.
Proof.
  unfold p_ne, p_cmp, spec_is_nan. destruct (kind p) as [t|f].
  - rewrite int_cmp_refl. reflexivity.
  - rewrite fcompare_refl. destruct (is_nan f v); reflexivity.
Qed.

Lemma is_null_spec d v :
  pvalid (td_prim d) v = true -> pvalid (td_prim d) (td_null d) = true ->
  is_null d v = spec_null d v.
Proof.
  intros Hv Hn. unfold is_null, spec_null, p_eq.
  rewrite !p_ne_self, (p_cmp_spec _ _ _ Hv Hn). reflexivity.
Qed.

Lemma has_value_spec d v :
  pvalid (td_prim d) v = true -> pvalid (td_prim d) (td_null d) = true ->
  has_value d v = negb (spec_null d v) /\ to_bool d v = negb (spec_null d v).
Proof.
  intros Hv Hn. unfold to_bool, has_value. rewrite (is_null_spec d v Hv Hn). split; reflexivity.
Qed.

(* the null value is null, whatever it is (also when it is NaN) *)
Lemma null_is_null d : is_null d (td_null d) = true.
Proof.
  unfold is_null, p_eq, p_ne, p_cmp. destruct (kind (td_prim d)) as [t|f].
  - rewrite int_cmp_refl. reflexivity.
  - rewrite fcompare_refl. destruct (is_nan f (td_null d)); reflexivity.
Qed.

Lemma default_is_null d :
  has_value d (opt_default d) = false /\
  to_bool d (opt_default d) = false /\
  opt_nullopt d = opt_default d /\
  has_value d (opt_nullopt d) = false.
Proof.
  unfold to_bool, has_value, opt_nullopt, opt_default. rewrite null_is_null. repeat split.
Qed.

Lemma value_or_spec d v dflt :
  pvalid (td_prim d) v = true -> pvalid (td_prim d) (td_null d) = true ->
  value_or d v dflt = spec_value_or d v dflt.
Proof.
  intros Hv Hn. unfold value_or, spec_value_or.
  destruct (has_value_spec d v Hv Hn) as [_ ->]. destruct (spec_null d v); reflexivity.
Qed.

Lemma in_range_spec d v :
  pvalid (td_prim d) v = true ->
  pvalid (td_prim d) (td_min d) = true -> pvalid (td_prim d) (td_max d) = true ->
  opt_in_range d v = spec_in_range d v /\ Req.req_in_range d v = spec_in_range d v.
Proof.
  intros Hv Hmin Hmax. unfold opt_in_range, Req.req_in_range, spec_in_range, p_le.
  rewrite (p_cmp_spec _ _ _ Hmin Hv), (p_cmp_spec _ _ _ Hv Hmax). split; reflexivity.
Qed.

(* for the integer types the specification of in_range is min <= v <= max *)
Lemma spec_in_range_int d v t :
  kind (td_prim d) = KInt t ->
  spec_in_range d v = (td_min d <=? v) && (v <=? td_max d).
Proof.
  intros Hk. unfold spec_in_range, spec_val_cmp. rewrite Hk.
  f_equal.
  - destruct (Z.compare_spec (td_min d) v); cbn; symmetry;
      [apply Z.leb_le|apply Z.leb_le|apply Z.leb_gt]; lia.
  - destruct (Z.compare_spec v (td_max d)); cbn; symmetry;
      [apply Z.leb_le|apply Z.leb_le|apply Z.leb_gt]; lia.
Qed.

(* ------------------------------------------------------------------------ *)
(* the six operators, both implementations *)

Lemma compare_spec d l r :
  pvalid (td_prim d) l = true -> pvalid (td_prim d) r = true ->
  pvalid (td_prim d) (td_null d) = true ->
  Pre20.all d l r = Some (cmp6_of_ord (spec_cmp d l r)) /\
  Cxx20.all d l r = Some (cmp6_of_ord (spec_cmp d l r)) /\
  Cxx20.cmp3 d l r = Some (spec_cmp d l r).
Proof.
  intros Hl Hr Hn.
  destruct (has_value_spec d l Hl Hn) as [Hhl Hbl].
  destruct (has_value_spec d r Hr Hn) as [Hhr Hbr].
  unfold Pre20.all, Cxx20.all, Cxx20.cmp3, Pre20.ne, Pre20.lt, Pre20.le, Pre20.gt, Pre20.ge,
    opt_eq, p_eq, p_lt, p_le, p_gt, p_ge, spec_cmp, cmp6_of_ord.
  rewrite Hhl, Hhr, Hbl, Hbr, (p_cmp_spec _ _ _ Hl Hr).
  destruct (spec_null d l), (spec_null d r); cbn; repeat split; reflexivity.
Qed.

Lemma required_compare_spec d l r :
  pvalid (td_prim d) l = true -> pvalid (td_prim d) r = true ->
  Req.Pre20.all d l r = Some (cmp6_of_ord (spec_val_cmp (td_prim d) l r)) /\
  Req.Cxx20.all d l r = Some (cmp6_of_ord (spec_val_cmp (td_prim d) l r)) /\
  Req.Cxx20.cmp3 d l r = Some (spec_val_cmp (td_prim d) l r).
Proof.
  intros Hl Hr.
  unfold Req.Pre20.all, Req.Cxx20.all, Req.Cxx20.cmp3, p_eq, p_ne, p_lt, p_le, p_gt, p_ge,
    cmp6_of_ord.
  rewrite (p_cmp_spec _ _ _ Hl Hr).
  destruct (spec_val_cmp (td_prim d) l r); cbn; repeat split; reflexivity.
Qed.

(* the documented rules, read off the operators directly *)
Lemma null_equals_only_null d l r :
  pvalid (td_prim d) l = true -> pvalid (td_prim d) r = true ->
  pvalid (td_prim d) (td_null d) = true ->
  has_value d l = false ->
  opt_eq d l r = negb (has_value d r) /\
  opt_eq d r l = negb (has_value d r) /\
  Pre20.ne d l r = has_value d r /\
  Pre20.ne d r l = has_value d r.
Proof.
  intros Hl Hr Hn Hnull. unfold Pre20.ne, opt_eq, to_bool. rewrite Hnull.
  rewrite andb_false_r. cbn. destruct (has_value d r); repeat split; reflexivity.
Qed.

Lemma null_before_every_value d l r :
  has_value d l = false -> has_value d r = true ->
  Pre20.all d l r = Some (cmp6_of_ord Less) /\ Cxx20.all d l r = Some (cmp6_of_ord Less) /\
  Pre20.all d r l = Some (cmp6_of_ord Greater) /\ Cxx20.all d r l = Some (cmp6_of_ord Greater).
Proof.
  intros Hl Hr.
  unfold Pre20.all, Cxx20.all, Cxx20.cmp3, Pre20.ne, Pre20.lt, Pre20.le, Pre20.gt, Pre20.ge,
    opt_eq, to_bool.
  rewrite Hl, Hr. cbn. repeat split; reflexivity.
Qed.

Lemma values_compare_underlying d l r :
  pvalid (td_prim d) l = true -> pvalid (td_prim d) r = true ->
  has_value d l = true -> has_value d r = true ->
  Pre20.all d l r = Some (cmp6_of_ord (spec_val_cmp (td_prim d) l r)) /\
  Cxx20.all d l r = Some (cmp6_of_ord (spec_val_cmp (td_prim d) l r)).
Proof.
  intros Hvl Hvr Hl Hr.
  unfold Pre20.all, Cxx20.all, Cxx20.cmp3, Pre20.ne, Pre20.lt, Pre20.le, Pre20.gt, Pre20.ge,
    opt_eq, to_bool, p_eq, p_lt, p_le, p_gt, p_ge.
  rewrite Hl, Hr, (p_cmp_spec _ _ _ Hvl Hvr). cbn.
  destruct (spec_val_cmp (td_prim d) l r); cbn; split; reflexivity.
Qed.

(* the repair does not change anything for the integer types *)
Lemma legacy_same_on_integers d l r t :
  kind (td_prim d) = KInt t ->
  pvalid (td_prim d) l = true -> pvalid (td_prim d) r = true ->
  pvalid (td_prim d) (td_null d) = true ->
  Legacy.has_value d l = has_value d l /\
  Legacy.value_or d l r = value_or d l r /\
  Legacy.Pre20.all d l r = Pre20.all d l r /\
  Legacy.Cxx20.all d l r = Cxx20.all d l r.
Proof.
  intros Hk Hl Hr Hn.
  assert (Hh : forall v, pvalid (td_prim d) v = true -> Legacy.has_value d v = has_value d v).
  { intros v Hv. unfold Legacy.has_value, has_value, is_null. rewrite !p_ne_self.
    unfold spec_is_nan. rewrite Hk. cbn. rewrite orb_false_r.
    unfold p_ne, p_eq, ord_ne. reflexivity. }
  assert (He : Legacy.opt_eq d l r = opt_eq d l r).
  { unfold Legacy.opt_eq, opt_eq, to_bool.
    rewrite <- (Hh l Hl), <- (Hh r Hr). unfold Legacy.has_value, p_ne, p_eq.
    rewrite (p_cmp_spec _ _ _ Hl Hr), (p_cmp_spec _ _ _ Hl Hn), (p_cmp_spec _ _ _ Hr Hn).
    unfold spec_val_cmp. rewrite Hk.
    destruct (Z.compare_spec l (td_null d)) as [E1|E1|E1];
    destruct (Z.compare_spec r (td_null d)) as [E2|E2|E2]; cbn;
    destruct (Z.compare_spec l r) as [E3|E3|E3]; cbn; try reflexivity; lia. }
  split; [apply Hh; exact Hl|].
  split.
  { unfold Legacy.value_or, value_or, Legacy.to_bool, to_bool. rewrite (Hh l Hl). reflexivity. }
  split.
  - unfold Legacy.Pre20.all, Pre20.all, Legacy.Pre20.ne, Pre20.ne,
      Legacy.Pre20.lt, Legacy.Pre20.le, Legacy.Pre20.gt, Legacy.Pre20.ge,
      Pre20.lt, Pre20.le, Pre20.gt, Pre20.ge, Legacy.to_bool, to_bool.
    rewrite He, (Hh l Hl), (Hh r Hr).
    assert (Hne : p_ne (td_prim d) l r = negb (opt_eq d l r)).
    { rewrite <- He. unfold Legacy.opt_eq, p_ne, p_eq, ord_ne. reflexivity. }
    rewrite Hne. reflexivity.
  - unfold Legacy.Cxx20.all, Cxx20.all, Legacy.Cxx20.cmp3, Cxx20.cmp3, Legacy.to_bool, to_bool.
    rewrite Hk, He, (Hh l Hl), (Hh r Hr). reflexivity.
Qed.

(* ------------------------------------------------------------------------ *)
(* the code before the repair violates the property *)

Example legacy_float_default_has_value_refuted :
  Legacy.has_value (builtin PFloat) (Legacy.opt_default (builtin PFloat)) = true /\
  Legacy.has_value (builtin PDouble) (Legacy.opt_nullopt (builtin PDouble)) = true.
Proof. vm_compute. split; reflexivity. Qed.

Example legacy_float_null_ne_null_refuted :
  Legacy.opt_eq (builtin PFloat) (Legacy.opt_default (builtin PFloat))
                (Legacy.opt_nullopt (builtin PFloat)) = false /\
  Legacy.Pre20.ne (builtin PDouble) (Legacy.opt_default (builtin PDouble))
                (Legacy.opt_default (builtin PDouble)) = true.
Proof. vm_compute. split; reflexivity. Qed.

Example legacy_float_value_or_refuted :
  (* default-constructed float_opt_t .value_or(1.0f) returns the NaN, not 1.0f *)
  Legacy.value_or (builtin PFloat) (Legacy.opt_default (builtin PFloat)) 1065353216
    = fl_qnan F32.
Proof. vm_compute. reflexivity. Qed.

Example legacy_float_spaceship_refuted :
  (* C++20: float_opt_t{1.0f} < float_opt_t{2.0f} does not compile *)
  Legacy.Cxx20.all (builtin PFloat) 1065353216 1073741824 = None /\
  Legacy.Cxx20.cmp3 (builtin PDouble) 0 0 = None.
Proof. vm_compute. split; reflexivity. Qed.

(* ------------------------------------------------------------------------ *)
(* non-vacuity: the hypotheses of the theorems above are satisfiable, on
   instances that exercise NaN, infinities and the integer extremes *)

Definition f32_one : Z := 1065353216.       (* 0x3f800000 *)
Definition f32_ninf : Z := 4286578688.      (* 0xff800000 *)
Definition f32_nan2 : Z := 4290772993.      (* 0xffc00001: negative NaN, payload 1 *)

Example default_is_null_nonvacuous :
  has_value (builtin PFloat) (opt_default (builtin PFloat)) = false /\
  has_value (builtin PInt64) (opt_nullopt (builtin PInt64)) = false /\
  has_value (builtin PFloat) f32_nan2 = false /\
  has_value (builtin PFloat) f32_ninf = true.
Proof. vm_compute. repeat split; reflexivity. Qed.

Example compare_spec_nonvacuous :
  let d := builtin PFloat in
  pvalid PFloat f32_nan2 = true /\ pvalid PFloat f32_ninf = true /\
  pvalid PFloat (td_null d) = true /\
  Pre20.all d f32_nan2 f32_ninf = Some (cmp6_of_ord Less) /\
  Cxx20.all d f32_ninf f32_one = Some (cmp6_of_ord Less) /\
  Cxx20.cmp3 d (td_null d) f32_nan2 = Some Equal /\
  (* a type whose null is not NaN: NaN is an (unordered) value *)
  Cxx20.cmp3 (mk_tdesc PFloat (fl_min F32) (fl_max F32) f32_ninf) f32_nan2 f32_one
    = Some Unordered /\
  Pre20.all (builtin PInt8) (-128) 127 = Some (cmp6_of_ord Less) /\
  Pre20.all (builtin PUint64) 18446744073709551615 0 = Some (cmp6_of_ord Less) /\
  Pre20.all (builtin PUint64) 18446744073709551614 0 = Some (cmp6_of_ord Greater).
Proof. vm_compute. repeat split; reflexivity. Qed.

Example value_or_spec_nonvacuous :
  value_or (builtin PDouble) (fl_qnan F64) 7 = 7 /\
  value_or (builtin PDouble) (fl_inf F64) 7 = fl_inf F64 /\
  value_or (builtin PChar) 0 65 = 65 /\ value_or (builtin PChar) 66 65 = 66.
Proof. vm_compute. repeat split; reflexivity. Qed.

Example in_range_spec_nonvacuous :
  opt_in_range (builtin PFloat) (fl_qnan F32) = false /\
  opt_in_range (builtin PFloat) (fl_max F32) = true /\
  opt_in_range (builtin PFloat) (fl_inf F32) = false /\
  opt_in_range (builtin PFloat) 0 = false /\
  opt_in_range (builtin PInt8) (-128) = false /\
  opt_in_range (builtin PInt8) (-127) = true /\
  Req.req_in_range (builtin PUint8) 255 = false.
Proof. vm_compute. repeat split; reflexivity. Qed.

Example required_compare_spec_nonvacuous :
  Req.Cxx20.all (builtin PDouble) (fl_qnan F64) (fl_qnan F64) = Some (cmp6_of_ord Unordered) /\
  Req.Pre20.all (builtin PDouble) 0 (2 ^ 63) = Some (cmp6_of_ord Equal) /\  (* +0 == -0 *)
  Req.Pre20.all (builtin PInt32) (-2147483648) 2147483647 = Some (cmp6_of_ord Less).
Proof. vm_compute. repeat split; reflexivity. Qed.

Example has_value_spec_nonvacuous :
  let d := builtin PDouble in
  pvalid PDouble (fl_inf F64) = true /\ pvalid PDouble (td_null d) = true /\
  has_value d (fl_inf F64) = true /\ spec_null d (fl_inf F64) = false /\
  has_value d (fl_qnan F64 + 1) = false /\ spec_null d (fl_qnan F64 + 1) = true /\
  has_value (builtin PUint8) 255 = false /\ has_value (builtin PUint8) 254 = true.
Proof. vm_compute. repeat split; reflexivity. Qed.

Example null_rules_nonvacuous :
  (* hypotheses of null_equals_only_null / null_before_every_value /
     values_compare_underlying hold on these instances *)
  let d := builtin PFloat in
  has_value d (td_null d) = false /\ has_value d f32_one = true /\
  has_value d f32_ninf = true /\
  opt_eq d (td_null d) f32_one = false /\ opt_eq d (td_null d) f32_nan2 = true /\
  Pre20.all d (td_null d) f32_ninf = Some (cmp6_of_ord Less) /\
  Cxx20.all d f32_ninf f32_one = Some (cmp6_of_ord (spec_val_cmp PFloat f32_ninf f32_one)).
Proof. vm_compute. repeat split; reflexivity. Qed.

Example legacy_same_on_integers_nonvacuous :
  let d := builtin PInt16 in
  kind (td_prim d) = KInt I16 /\ pvalid PInt16 (-32768) = true /\ pvalid PInt16 7 = true /\
  Legacy.Pre20.all d (-32768) 7 = Pre20.all d (-32768) 7 /\
  Pre20.all d (-32768) 7 = Some (cmp6_of_ord Less).
Proof. vm_compute. repeat split; reflexivity. Qed.
