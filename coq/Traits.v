(* Traits.v — model of the *derived* traits sbeppc emits (traits_generator.hpp)
   and of the tag tree (tags_generator.hpp).

   Copy-through traits (name, id, description, sinceVersion, deprecated,
   semanticType, characterEncoding, ...) are text pasted from the AST and are
   not modelled: they are decided by the correspondence alone.  Modelled:

     offset()        of composite elements   validate_element_offset +
                                             make_offset_impl(t.offset, ctx.offset_in_composite)
     size_bytes()    of composites           validate_encoding(composite)
     offset()        of fields               validate_field_offset (level_offset)
     block_length()  of messages / groups    validate_block_length
     presence()      of fields               get_actual_presence
     children tag lists, tag paths, tag kinds (is_*_tag = "X_traits<Tag> is
                                             specialised")

   Sizes and offsets are computed by Layout.v (type_size, member_offsets,
   place, block_length).  Definitions only (extracted).  Proofs: TraitsProofs.v *)
From Coq Require Import ZArith List Bool String.
From Sbepp Require Import CInt Bytes Msg Layout.
Import ListNotations.
Local Open Scope Z_scope.

Inductive presence := PRequired | POptional | PConstant.

Inductive tenc :=
| TyType (name : string) (p : prim) (pres : presence) (len : Z) (off : option Z)
| TyEnum (name : string) (p : prim) (values : list string) (off : option Z)
| TySet (name : string) (p : prim) (choices : list string) (off : option Z)
| TyComposite (name : string) (off : option Z) (elems : list telem)
with telem :=
| ElRef (name : string) (off : option Z) (target : tenc)   (* target = the public encoding referred to *)
| ElEnc (e : tenc).

Definition tenc_name (e : tenc) : string :=
  match e with TyType n _ _ _ _ | TyEnum n _ _ _ | TySet n _ _ _ | TyComposite n _ _ => n end.
Definition tenc_off (e : tenc) : option Z :=
  match e with TyType _ _ _ _ o | TyEnum _ _ _ o | TySet _ _ _ o | TyComposite _ o _ => o end.
Definition telem_name (x : telem) : string :=
  match x with ElRef n _ _ => n | ElEnc e => tenc_name e end.
Definition telem_off (x : telem) : option Z :=
  match x with ElRef _ o _ => o | ElEnc e => tenc_off e end.

(* is_constant_composite_element *)
Definition tenc_const (e : tenc) : bool :=
  match e with TyType _ _ PConstant _ _ => true | _ => false end.
Definition telem_const (x : telem) : bool :=
  match x with ElRef _ _ t => tenc_const t | ElEnc e => tenc_const e end.

(* projection to the layout model *)
Fixpoint to_stype (e : tenc) : stype :=
  match e with
  | TyType _ p _ len _ => if len =? 1 then TScalar p else TArray p len
  | TyEnum _ p _ _ | TySet _ p _ _ => TScalar p
  | TyComposite _ _ es =>
    TComposite ((fix go (es : list telem) : list smember :=
                   match es with
                   | [] => []
                   | ElRef _ o t :: r => SMember o (tenc_const t) (to_stype t) :: go r
                   | ElEnc e :: r => SMember (tenc_off e) (tenc_const e) (to_stype e) :: go r
                   end) es)
  end.
Definition telem_stype (x : telem) : stype :=
  match x with ElRef _ _ t => to_stype t | ElEnc e => to_stype e end.
Definition to_smember (x : telem) : smember :=
  SMember (telem_off x) (telem_const x) (telem_stype x).

(* ctx.size of an encoding *)
Definition enc_size (e : tenc) : option Z := type_size (to_stype e).

(* offset_in_composite of every element (None for constants) *)
Definition elem_offsets (es : list telem) : option (list (option Z)) :=
  member_offsets (map to_smember es) 0.

(* the offset() trait of an element:
     type/enum/set/composite element: make_offset_impl(e.offset, ctx.offset_in_composite)
     ref element: make_offset_impl(ctx.offset_in_composite), a plain offset_t that
     stays 0 when the target is a constant
   None = the trait is not emitted *)
Definition elem_offset_trait (x : telem) (computed : option Z) : option Z :=
  match x with
  | ElRef _ _ _ => Some (match computed with Some o => o | None => 0 end)
  | ElEnc e => match tenc_off e with Some o => Some o | None => computed end
  end.

(* public encodings have no offset_in_composite *)
Definition public_offset_trait (e : tenc) : option Z := tenc_off e.

(* ---- message levels ---- *)
Inductive ftype :=
| FPrim (p : prim)            (* field type is a primitive type name *)
| FEnc (e : tenc).            (* field type is a public encoding *)

Record tfield := { tf_name : string; tf_off : option Z; tf_pres : presence; tf_type : ftype }.

(* get_actual_presence *)
Definition actual_presence (f : tfield) : presence :=
  match tf_type f with
  | FPrim _ => tf_pres f
  | FEnc (TyType _ _ pres _ _) => pres
  | FEnc (TyComposite _ _ _) => tf_pres f
  | FEnc (TyEnum _ _ _ _) => match tf_pres f with POptional => PRequired | p => p end
  | FEnc (TySet _ _ _ _) => PRequired
  end.

Definition is_constant (p : presence) : bool := match p with PConstant => true | _ => false end.

Definition ftype_stype (t : ftype) : stype :=
  match t with FPrim p => TScalar p | FEnc e => to_stype e end.

Definition to_sfield (f : tfield) : sfield :=
  {| sf_off := tf_off f; sf_const := is_constant (actual_presence f); sf_type := ftype_stype (tf_type f) |}.

Inductive tgroup :=
| TGroup (name : string) (bl : option Z) (fields : list tfield) (groups : list tgroup) (data : list string).

Definition tgroup_name (g : tgroup) := match g with TGroup n _ _ _ _ => n end.

Record tmessage := { tm_name : string; tm_bl : option Z; tm_fields : list tfield;
                     tm_groups : list tgroup; tm_data : list string }.

(* level_offset of the non-constant fields and the minimal block length *)
Definition level_layout (fs : list tfield) : option (list fld * Z) :=
  layout_fields (map to_sfield fs) 0.

(* field_traits::offset(): level_offset, a plain offset_t that stays 0 for
   constants *)
Fixpoint field_offset_traits (fs : list tfield) (offs : list fld) : list Z :=
  match fs with
  | [] => []
  | f :: r =>
    if is_constant (actual_presence f) then 0 :: field_offset_traits r offs
    else match offs with
         | o :: offs' => f_off o :: field_offset_traits r offs'
         | [] => 0 :: field_offset_traits r []
         end
  end.

Record level_traits := { lt_offsets : list Z; lt_presence : list presence; lt_block_length : Z }.

Definition level_traits_of (bl : option Z) (fs : list tfield) : option level_traits :=
  match level_layout fs with
  | Some (offs, minimal) =>
    match block_length bl minimal with
    | Some b => Some {| lt_offsets := field_offset_traits fs offs;
                        lt_presence := map actual_presence fs;
                        lt_block_length := b |}
    | None => None
    end
  | None => None
  end.

(* ---- tags ---- *)
Inductive tag_kind :=
  KType | KEnum | KEnumValue | KSet | KSetChoice | KComposite
| KField | KGroup | KData | KMessage | KSchema.

Definition tag := list string.          (* path below <schema>::schema *)

Definition tenc_kind (e : tenc) : tag_kind :=
  match e with TyType _ _ _ _ _ => KType | TyEnum _ _ _ _ => KEnum | TySet _ _ _ _ => KSet
             | TyComposite _ _ _ => KComposite end.

(* children tag lists as emitted by get_tags / get_element_tags *)
Definition child_tags (parent : tag) (names : list string) : list tag :=
  map (fun n => parent ++ [n]) names.

(* every (tag, kind) for which a traits specialisation is emitted, types side *)
Fixpoint enc_tags (parent : tag) (e : tenc) : list (tag * tag_kind) :=
  let me := parent ++ [tenc_name e] in
  (me, tenc_kind e) ::
  match e with
  | TyType _ _ _ _ _ => []
  | TyEnum _ _ vs _ => map (fun v => (me ++ [v], KEnumValue)) vs
  | TySet _ _ cs _ => map (fun c => (me ++ [c], KSetChoice)) cs
  | TyComposite _ _ es =>
    (fix go (es : list telem) : list (tag * tag_kind) :=
       match es with
       | [] => []
       | ElRef n _ t :: r => (me ++ [n], tenc_kind t) :: go r
       | ElEnc x :: r => enc_tags me x ++ go r
       end) es
  end.

Fixpoint group_tags (parent : tag) (g : tgroup) : list (tag * tag_kind) :=
  match g with
  | TGroup n _ fs gs ds =>
    let me := parent ++ [n] in
    (me, KGroup) :: map (fun f => (me ++ [tf_name f], KField)) fs ++
    (fix go (gs : list tgroup) : list (tag * tag_kind) :=
       match gs with [] => [] | x :: r => group_tags me x ++ go r end) gs ++
    map (fun d => (me ++ [d], KData)) ds
  end.

Definition message_tags (m : tmessage) : list (tag * tag_kind) :=
  let me := ["messages"; tm_name m]%string in
  (me, KMessage) :: map (fun f => (me ++ [tf_name f], KField)) (tm_fields m) ++
  flat_map (group_tags me) (tm_groups m) ++
  map (fun d => (me ++ [d], KData)) (tm_data m).

Record tschema := { ts_types : list tenc; ts_messages : list tmessage }.

Definition schema_tags (s : tschema) : list (tag * tag_kind) :=
  ([], KSchema) :: flat_map (enc_tags ["types"%string]) (ts_types s) ++
  flat_map message_tags (ts_messages s).

(* is_<kind>_tag<Tag>::value *)
Definition tag_kind_eqb (a b : tag_kind) : bool :=
  match a, b with
  | KType, KType | KEnum, KEnum | KEnumValue, KEnumValue | KSet, KSet | KSetChoice, KSetChoice
  | KComposite, KComposite | KField, KField | KGroup, KGroup | KData, KData
  | KMessage, KMessage | KSchema, KSchema => true
  | _, _ => false
  end.
Definition tag_eqb (a b : tag) : bool :=
  (List.length a =? List.length b)%nat && forallb (fun p => String.eqb (fst p) (snd p)) (combine a b).
Definition is_kind_tag (s : tschema) (k : tag_kind) (t : tag) : bool :=
  existsb (fun p => tag_eqb (fst p) t && tag_kind_eqb (snd p) k) (schema_tags s).

(* ---- well-formed schemas: the uniqueness rules of schema_parser.hpp ---- *)
Fixpoint enc_wf (e : tenc) : Prop :=
  match e with
  | TyType _ _ _ _ _ => True
  | TyEnum _ _ vs _ => NoDup vs
  | TySet _ _ cs _ => NoDup cs
  | TyComposite _ _ es =>
    NoDup (map telem_name es) /\
    (fix go (es : list telem) : Prop :=
       match es with
       | [] => True
       | ElRef _ _ _ :: r => go r
       | ElEnc x :: r => enc_wf x /\ go r
       end) es
  end.

Definition level_member_names (fs : list tfield) (gs : list tgroup) (ds : list string) : list string :=
  map tf_name fs ++ map tgroup_name gs ++ ds.

Fixpoint group_wf (g : tgroup) : Prop :=
  match g with
  | TGroup _ _ fs gs ds =>
    NoDup (level_member_names fs gs ds) /\
    (fix go (gs : list tgroup) : Prop :=
       match gs with [] => True | x :: r => group_wf x /\ go r end) gs
  end.

Definition message_wf (m : tmessage) : Prop :=
  NoDup (level_member_names (tm_fields m) (tm_groups m) (tm_data m)) /\ Forall group_wf (tm_groups m).

Definition schema_wf (s : tschema) : Prop :=
  NoDup (map tenc_name (ts_types s)) /\ Forall enc_wf (ts_types s) /\
  NoDup (map tm_name (ts_messages s)) /\ Forall message_wf (ts_messages s).

(* entry points of the extracted driver (unique names) *)
Definition c18_elem_offsets := elem_offsets.
Definition c18_enc_size := enc_size.
Definition c18_elem_offset_trait := elem_offset_trait.
Definition c18_public_offset_trait := public_offset_trait.
Definition c18_level_traits_of := level_traits_of.
Definition c18_schema_tags := schema_tags.
Definition c18_is_kind_tag := is_kind_tag.
Definition c18_child_tags := child_tags.
