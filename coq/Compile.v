(* Compile.v — the cursor accessor table of a schema level, as the generator
   builds it (make_fields_cursor_accessors + the per-kind accessor flavour):
   Layout.cursor_fields paired with "is this field accessed as a view".
   Definitions only (extracted); statements tying the compiled tables to the
   well-formedness predicates of the runtime theorems are in CompileSpec.v. *)
From Coq Require Import ZArith List Bool.
From Sbepp Require Import CInt Bytes Msg Layout Cursor.
Import ListNotations.
Local Open Scope Z_scope.

Definition is_view_type (t : stype) : bool :=
  match t with TScalar _ => false | _ => true end.

Definition nonconst_views (fs : list sfield) : list bool :=
  map (fun f => is_view_type (sf_type f)) (filter (fun f => negb (sf_const f)) fs).

Fixpoint compile_clevel (l : slevel) (hdr : Z) {struct l} : option clevel :=
  match l with
  | SLevel fs gs _ =>
    match cursor_fields fs hdr 0, compile_cgroups gs with
    | Some cl, Some cgs =>
      Some (CLevel (map (fun p => cacc_of (fst p) (snd p)) (combine cl (nonconst_views fs))) cgs)
    | _, _ => None
    end
  end
with compile_cgroups (gs : sgroups) {struct gs} : option cgroups :=
  match gs with
  | SGNil => Some CGNil
  | SGCons _ _ l rest =>
    match compile_clevel l 0, compile_cgroups rest with
    | Some a, Some b => Some (CGCons a b)
    | _, _ => None
    end
  end.

Definition compile_message_cursor (m : smessage) : option clevel :=
  match type_size (TComposite (sm_header m)) with
  | Some hsz => compile_clevel (sm_level m) hsz
  | None => None
  end.
