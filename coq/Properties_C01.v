(* Properties_C01.v — C01: encoding writes exactly the SBE wire image.
   Statements only; proofs in BytesFacts.v, LayoutProofs.v, MsgProofs.v. *)
From Coq Require Import ZArith List.
From Sbepp Require Import CInt Bytes BytesFacts Msg Layout Wire MsgSpec LayoutProofs MsgProofs.
Import ListNotations.
Local Open Scope Z_scope.

(* the byte order primitives: both C++ implementations of set_primitive write
   the schema byte order image of the value, for every width *)
Theorem C01_set_primitive_bitcast : forall be w x, set_primitive_bitcast be w x = enc be w x.
Proof. exact set_primitive_bitcast_spec. Qed.
Print Assumptions C01_set_primitive_bitcast.

Theorem C01_set_primitive_memcpy : forall be w x, set_primitive_memcpy be w x = enc be w x.
Proof. exact set_primitive_memcpy_spec. Qed.
Print Assumptions C01_set_primitive_memcpy.

Theorem C01_big_endian_is_reversed_little : forall w x, enc true w x = rev (enc false w x).
Proof. exact enc_be_is_rev_le. Qed.
Print Assumptions C01_big_endian_is_reversed_little.

(* field offsets computed by the validator are the SBE ones: explicit offset
   honoured, otherwise end of the predecessor; constants take no space *)
Theorem C01_offsets_are_sbe : stmt_layout_sbe_offsets.
Proof. exact layout_sbe_offsets. Qed.
Print Assumptions C01_offsets_are_sbe.

(* ... and never overlap or leave the block *)
Theorem C01_fields_disjoint_in_block : stmt_layout_no_overlap.
Proof. exact layout_no_overlap. Qed.
Print Assumptions C01_fields_disjoint_in_block.

Theorem C01_block_length_covers_fields : stmt_block_length_covers.
Proof. exact block_length_covers. Qed.
Print Assumptions C01_block_length_covers_fields.

Theorem C01_composite_members_in_order : stmt_member_offsets_in_order.
Proof. exact member_offsets_in_order. Qed.
Print Assumptions C01_composite_members_in_order.

(* locality: a field setter (at any path) changes exactly the bytes of the
   located field; every other byte keeps its value; what was written reads back *)
Theorem C01_set_field_local : stmt_set_field_frame.
Proof. exact set_field_frame. Qed.
Print Assumptions C01_set_field_local.

(* resize changes only numInGroup *)
Theorem C01_group_resize_local : stmt_group_resize_frame.
Proof. exact group_resize_frame. Qed.
Print Assumptions C01_group_resize_local.

From Sbepp Require Import Cursor CursorSpec Checked ScriptSpec ScriptProofs.

(* THE property, at full strength: for every message table whose header /
   dimension fillers are consistent, every value tree of its shape whose
   values are representable, and ANY background buffer that is long enough,
   running the in-order script (fill_message_header; per level: the field
   setters, then for each group fill_group_header and its entries in order,
   then the data assignments) with the library's navigation yields exactly the
   reference image Wire.over_message -- header, fields at their offsets,
   dimensions, entries at blockLength stride, length-prefixed data -- followed
   by the untouched rest of the background: every byte that belongs to no
   written member keeps its previous value. *)
Theorem C01_encode_script_produces_wire_image : stmt_encode_script_image.
Proof. exact encode_script_image. Qed.
Print Assumptions C01_encode_script_produces_wire_image.

From Sbepp Require Import Compile CompileSpec CompileProofs.

(* accepted schemas compile to well-formed tables: dimensions (members inside
   the composite, blockLength/numInGroup disjoint and unsigned), levels (fields
   inside the block, data length types unsigned), header geometry, fills inside
   the header -- the hypotheses of the encoding/decoding theorems *)
Theorem C01_accepted_schema_dimension_wf : stmt_compile_dim_wf.
Proof. exact compile_dim_wf. Qed.
Print Assumptions C01_accepted_schema_dimension_wf.

Theorem C01_accepted_schema_level_wf : stmt_compile_level_table_wf.
Proof. exact compile_level_table_wf. Qed.
Print Assumptions C01_accepted_schema_level_wf.

Theorem C01_accepted_schema_message_header_ok : stmt_compile_message_header_ok.
Proof. exact compile_message_header_ok. Qed.
Print Assumptions C01_accepted_schema_message_header_ok.

From Sbepp Require Import SrcTables SrcTablesProofs.

(* tables regenerated from /repo's utils.hpp / sbe_schema_validator.hpp on
   every run: a field of built-in primitive type p gets the wrapper of p, and
   the size tables of the validator (layout) and of the generator (cursor
   offsets) agree with the encoding width of p *)
Theorem C01_source_wrapper_of_each_primitive : stmt_src_wrappers.
Proof. exact src_wrappers. Qed.
Print Assumptions C01_source_wrapper_of_each_primitive.

Theorem C01_source_size_tables_agree : stmt_src_sizes.
Proof. exact src_sizes. Qed.
Print Assumptions C01_source_size_tables_agree.
