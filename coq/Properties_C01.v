(* Properties_C01.v — placeholder until the proofs land; see MsgProofs.v *)
From Coq Require Import ZArith List.
From Sbepp Require Import Bytes BytesFacts.
Theorem C01_codec_round_trip : forall be w x, dec be (enc be w x) = (x mod 256 ^ Z.of_nat w)%Z.
Proof. exact dec_enc. Qed.
Print Assumptions C01_codec_round_trip.
