(* CursorRangeProofs.v — theorems about CursorRange.v (user-level
   cursor_range / cursor_subrange of a group, driver op `crange`).
   Statements first (as Props), proofs below. *)
From Coq Require Import ZArith List Bool Lia.
From Sbepp Require Import CInt CIntFacts Bytes BytesFacts Msg Layout Wire MsgSpec MsgProofs
  Cursor CursorSpec CursorProofs CursorRange.
Import ListNotations.
Local Open Scope Z_scope.

(* ================================================================== *)
(* 0. Vocabulary of the statements                                     *)
(* ================================================================== *)

(* wire blockLength of a group of a value tree (first entry's block; background
   value for an empty group) *)
Definition wire_bl (be : bool) (d : dim) (bg : list Z) (es : ventries) : Z :=
  first_block_len es (dec be (slice bg (d_bl_off d) (tbytes (d_bl_t d)))).

(* image of one group: dimension, then the entries *)
Definition group_image (be : bool) (d : dim) (l : level) (bg : list Z) (es : ventries) : list Z :=
  dim_bytes be d bg (wire_bl be d bg es) (ecount es) ++ enc_entries be l es.

(* the view random access (Msg.group_at) yields for that image at [gpos] *)
Definition img_gview (be : bool) (d : dim) (bg : list Z) (es : ventries) (gpos : Z) : gview :=
  {| gv_pos := gpos; gv_bl := wire_bl be d bg es; gv_n := ecount es |}.

(* where the image puts entry [i] of the group at [gpos]; for i = number of
   entries: the end of the group *)
Definition entry_addr (be : bool) (d : dim) (l : level) (es : ventries) (gpos : Z) (i : nat) : Z :=
  gpos + d_size d + entries_prefix_len be l es i.

(* the image of a group of a well-formed value tree sits at offset [len pre]
   of the buffer [b]; hypotheses of the traversal theorem (T_entries /
   stmt_trav_message_enc') restricted to this group *)
Definition crange_embedded (be : bool) (d : dim) (cbl : Z) (l : level) (cl : clevel)
  (bg : list Z) (es : ventries) (b pre post : list Z) (fuel : nat) : Prop :=
  b = pre ++ group_image be d l bg es ++ post /\
  wf_groups be (GCons d cbl l GNil) (VGCons bg es VGNil) /\
  wf_clevel 0 l cl /\ fields_fit_es l es /\
  (is_flat l = true -> ecount es <= Z.of_nat fuel) /\
  flat_counts_le_es (Z.of_nat fuel) l es /\
  len b <= Z.of_nat fuel /\ len b < 2 ^ 64.

(* ------------------------------------------------------------------ *)
(* (A) on images                                                       *)
(* ------------------------------------------------------------------ *)

(* random access finds every entry where the image puts it *)
Definition stmt_entry_pos_enc : Prop :=
  forall be d cbl l bg es b pre post fuel i,
    b = pre ++ group_image be d l bg es ++ post ->
    wf_groups be (GCons d cbl l GNil) (VGCons bg es VGNil) ->
    len b <= Z.of_nat fuel -> 0 <= i < ecount es ->
    entry_pos be b fuel d l (img_gview be d bg es (len pre)) i
    = Some (entry_addr be d l es (len pre) (Z.to_nat i)).

(* every range whose preconditions hold visits exactly the entries
   start .. start+count-1 at the addresses the image puts them (= their
   random-access addresses) and leaves the cursor at entry start+count, which
   is the end of the group when start+count = numInGroup *)
Definition stmt_crange_enc : Prop :=
  forall be d cbl l cl bg es b pre post fuel mode s cnt,
    crange_embedded be d cbl l cl bg es b pre post fuel ->
    crange_bounds (ecount es) mode = Some (s, cnt) -> 0 <= s -> 0 <= cnt ->
    let g := img_gview be d bg es (len pre) in
    let addr := entry_addr be d l es (len pre) in
    run_crange be b fuel d l cl (len b) g mode
      = COk (map addr (seq (Z.to_nat s) (Z.to_nat cnt))) (addr (Z.to_nat (s + cnt))) /\
    (forall i, 0 <= i < ecount es -> entry_pos be b fuel d l g i = Some (addr (Z.to_nat i))) /\
    s + cnt <= ecount es /\
    addr (Z.to_nat (ecount es)) = len pre + len (group_image be d l bg es).

(* the same with the fuel the driver uses and the fuel-free side condition of
   stmt_trav_message_enc'' (no non-empty flat group has wire blockLength 0) *)
Definition stmt_crange_enc_default : Prop :=
  forall be d cbl l cl bg es pre post mode s cnt,
    let b := pre ++ group_image be d l bg es ++ post in
    wf_groups be (GCons d cbl l GNil) (VGCons bg es VGNil) ->
    wf_clevel 0 l cl -> fields_fit_es l es ->
    flat_blocks_pos_gs (GCons d cbl l GNil) (VGCons bg es VGNil) ->
    len b < 2 ^ 64 ->
    crange_bounds (ecount es) mode = Some (s, cnt) -> 0 <= s -> 0 <= cnt ->
    let addr := entry_addr be d l es (len pre) in
    run_crange be b (default_fuel b) d l cl (len b) (img_gview be d bg es (len pre)) mode
      = COk (map addr (seq (Z.to_nat s) (Z.to_nat cnt))) (addr (Z.to_nat (s + cnt))).

(* the driver command on a message image: group [k] of the level at [path] *)
Definition stmt_run_crange_at_enc : Prop :=
  forall be m cl hdrbg v pre post path k l' v' off d cbl sub bg es mode s cnt,
    let b := pre ++ enc_message be m hdrbg v ++ post in
    wf_message be m hdrbg v ->
    wf_clevel (m_hdr_size m) (m_level m) cl ->
    fields_fit (m_level m) v ->
    len b < 2 ^ 64 ->
    flat_blocks_pos (m_level m) v ->
    vresolve be path (m_level m) v = Some (l', v', off) ->
    groups_nth (level_groups l') k = Some (d, cbl, sub) ->
    vgroups_nth (vlevel_groups v') k = Some (bg, es) ->
    crange_bounds (ecount es) mode = Some (s, cnt) -> 0 <= s -> 0 <= cnt ->
    let gpos := len pre + m_hdr_size m + off + len (vblock v')
                + groups_prefix_len be (level_groups l') (vlevel_groups v') k in
    let addr := entry_addr be d sub es gpos in
    locate_group be b m (len pre) path k = Some (img_gview be d bg es gpos, d, cbl, sub) /\
    run_crange_at be b m cl (len pre) path k mode
      = COk (map addr (seq (Z.to_nat s) (Z.to_nat cnt))) (addr (Z.to_nat (s + cnt))) /\
    (forall i, 0 <= i < ecount es ->
       entry_pos be b (default_fuel b) d sub (img_gview be d bg es gpos) i
       = Some (addr (Z.to_nat i))).

(* ------------------------------------------------------------------ *)
(* (B) preconditions (any buffer)                                      *)
(* ------------------------------------------------------------------ *)
Definition stmt_crange_pos_asserts : Prop :=
  forall be b fuel d l cl lvend g pos count,
    gv_n g <= pos ->
    run_crange be b fuel d l cl lvend g (CRFrom pos) = CAssert /\
    run_crange be b fuel d l cl lvend g (CRFromCount pos count) = CAssert.

Definition stmt_crange_count_asserts : Prop :=
  forall be b fuel d l cl lvend g pos count,
    gv_n g - pos < count ->
    run_crange be b fuel d l cl lvend g (CRFromCount pos count) = CAssert.

Definition stmt_crange_all_empty : Prop :=
  forall be b fuel d l cl lvend g,
    gv_n g <= 0 ->
    run_crange be b fuel d l cl lvend g CRAll = COk [] (gv_pos g + d_size d).

(* the assertion outcome comes from the preconditions only when they fail:
   with the preconditions satisfied, CAssert can only come from the traversal
   of an entry *)
Definition stmt_crange_bounds_spec : Prop :=
  forall n mode,
    match mode with
    | CRAll => crange_bounds n mode = Some (0, n)
    | CRFrom pos =>
      (pos < n -> crange_bounds n mode = Some (pos, n - pos)) /\
      (n <= pos -> crange_bounds n mode = None)
    | CRFromCount pos count =>
      (pos < n -> count <= n - pos -> crange_bounds n mode = Some (pos, count)) /\
      (n <= pos \/ n - pos < count -> crange_bounds n mode = None)
    end.

(* ------------------------------------------------------------------ *)
(* (C) composition                                                    *)
(* ------------------------------------------------------------------ *)
(* visiting c1 + c2 entries = visiting c1 entries and then, from the cursor
   this leaves, c2 more (any buffer; the model's iteration bound must cover the
   whole range) *)
Definition stmt_crange_visit_compose : Prop :=
  forall be b fuel l cl bl lvend c1 c2 c,
    0 <= c1 -> 0 <= c2 -> c1 + c2 <= Z.of_nat fuel ->
    crange_visit be b fuel l cl bl lvend (c1 + c2) c =
    match crange_visit be b fuel l cl bl lvend c1 c with
    | COk (a1, e1) c' =>
      match crange_visit be b fuel l cl bl lvend c2 c' with
      | COk (a2, e2) c'' => COk (a1 ++ a2, e1 ++ e2) c''
      | CAssert => CAssert
      | COob => COob
      end
    | CAssert => CAssert
    | COob => COob
    end.

(* on images, at the level of the driver op: cursor_subrange(pos, c1) leaves
   the cursor at the random-access address of entry pos+c1, so
   cursor_subrange(pos+c1, c2) may follow, and both together visit what
   cursor_subrange(pos, c1+c2) visits.  pos + c1 < numInGroup is required: the
   second call's own precondition (see crange_compose_naive_false) *)
Definition stmt_crange_compose_enc : Prop :=
  forall be d cbl l cl bg es b pre post fuel pos c1 c2,
    crange_embedded be d cbl l cl bg es b pre post fuel ->
    0 <= pos -> 0 <= c1 -> 0 <= c2 -> pos + c1 < ecount es -> pos + c1 + c2 <= ecount es ->
    let g := img_gview be d bg es (len pre) in
    exists a1 a2 f1 f2,
      run_crange be b fuel d l cl (len b) g (CRFromCount pos c1) = COk a1 f1 /\
      entry_pos be b fuel d l g (pos + c1) = Some f1 /\
      run_crange be b fuel d l cl (len b) g (CRFromCount (pos + c1) c2) = COk a2 f2 /\
      run_crange be b fuel d l cl (len b) g (CRFromCount pos (c1 + c2)) = COk (a1 ++ a2) f2.

(* the form without that side condition is false *)
Definition stmt_crange_compose_naive : Prop :=
  forall be b fuel d l cl lvend g pos c1 c2 a1 f1,
    0 <= pos -> 0 <= c1 -> 0 <= c2 ->
    run_crange be b fuel d l cl lvend g (CRFromCount pos c1) = COk a1 f1 ->
    run_crange be b fuel d l cl lvend g (CRFromCount pos (c1 + c2))
    = cres_map (app a1) (run_crange be b fuel d l cl lvend g (CRFromCount (pos + c1) c2)).

(* ------------------------------------------------------------------ *)
(* (D) consistency with the complete traversal                        *)
(* ------------------------------------------------------------------ *)
(* forgetting the address log, [cr_entries] IS the entry loop of
   [Cursor.trav_groups] ([CursorProofs.trav_entries], see
   [CursorProofs.loop_is_trav_entries] / [trav_groups_cons]) -- on any buffer *)
Definition stmt_cr_entries_is_trav_entries : Prop :=
  forall be b fuel l cl bl lvend j n c addrs acc,
    cres_map snd (cr_entries be b fuel l cl bl lvend j n c addrs acc)
    = trav_entries be b fuel l cl bl lvend j n c acc.

(* cursor_range(c) inside visit_children (the step of [trav_groups] for one
   group) and the user-level cursor_range(c) agree on ANY buffer: same outcome,
   same final cursor, and the events pushed are those of the user-level range *)
Definition stmt_crange_all_in_trav_groups : Prop :=
  forall be b fuel d cbl l rest cl crest v k first p c acc s g,
    cur_group WPlain first v p (d_size d) (fun _ => None) c = COk s (s + d_size d) ->
    group_at be b d s = Some g ->
    trav_groups be b fuel (GCons d cbl l rest) (CGCons cl crest) v k first p c acc =
    match run_crange_ev be b fuel d l cl (lv_end v) g CRAll with
    | COk (_, evs) c' =>
      trav_groups be b fuel rest crest v (S k) false
        (obind p (fun p0 => groups_end be b fuel (GCons d cbl l GNil) p0)) c'
        (rev evs ++ EGroup k s (gv_n g) :: acc)
    | CAssert => CAssert
    | COob => COob
    end.

(* the addresses a range reports are exactly the positions of the EEntry
   events of that range, each followed by the events of the complete traversal
   of that entry (any buffer) *)
Definition chunk_events (ch : Z * list event) : list event := EEntry (fst ch) :: snd ch.
Definition stmt_crange_events_shape : Prop :=
  forall be b fuel l cl bl lvend count c addrs evs c',
    crange_visit be b fuel l cl bl lvend count c = COk (addrs, evs) c' ->
    exists chunks : list (Z * list event),
      addrs = map fst chunks /\
      evs = concat (map chunk_events chunks) /\
      Forall (fun ch => exists cur',
                trav_level be b fuel l cl
                  {| lv_start := fst ch; lv_level := fst ch; lv_bl := bl; lv_end := lvend |}
                  (if is_empty_level l cl then fst ch + bl else fst ch) []
                = COk (rev (snd ch)) cur') chunks.

(* on images: cursor_range(c) reports every entry of the group, and its events
   are exactly the segment [ev_entries] that the complete-traversal theorem
   (stmt_trav_message_enc'': [ev_level] -> [ev_groups] =
   EGroup k pos n :: ev_entries be l es (pos + d_size d) ++ ...) lists for this
   group *)
Definition stmt_crange_all_events_enc : Prop :=
  forall be d cbl l cl bg es b pre post fuel,
    crange_embedded be d cbl l cl bg es b pre post fuel ->
    let addr := entry_addr be d l es (len pre) in
    run_crange_ev be b fuel d l cl (len b) (img_gview be d bg es (len pre)) CRAll
    = COk (map addr (seq 0 (Z.to_nat (ecount es))), ev_entries be l es (len pre + d_size d))
          (addr (Z.to_nat (ecount es))).

(* ================================================================== *)
(* Proofs                                                              *)
(* ================================================================== *)

(* ---- the loop ---- *)
Lemma cr_entries_0 be b fuel l cl bl lvend j n c addrs acc : n <= 0 ->
  cr_entries be b fuel l cl bl lvend j n c addrs acc = COk (addrs, acc) c.
Proof.
  intros Hn. destruct j; cbn [cr_entries]; destruct (Z.leb_spec n 0); try lia; reflexivity.
Qed.

Lemma cr_entries_S be b fuel l cl bl lvend j n c addrs acc : 0 < n ->
  cr_entries be b fuel l cl bl lvend (S j) n c addrs acc =
  match trav_level be b fuel l cl {| lv_start := c; lv_level := c; lv_bl := bl; lv_end := lvend |}
          (if is_empty_level l cl then c + bl else c) (EEntry c :: acc) with
  | COk acc' c' => cr_entries be b fuel l cl bl lvend j (n - 1) c' (c :: addrs) acc'
  | CAssert => CAssert
  | COob => COob
  end.
Proof.
  intros Hn. cbn [cr_entries]. destruct (Z.leb_spec n 0) as [Hle|Hgt]; [lia|reflexivity].
Qed.

Lemma cr_entries_fuel0 be b fuel l cl bl lvend n c addrs acc : 0 < n ->
  cr_entries be b fuel l cl bl lvend O n c addrs acc = COob.
Proof.
  intros Hn. cbn [cr_entries]. destruct (Z.leb_spec n 0) as [Hle|Hgt]; [lia|reflexivity].
Qed.

(* ---- value-tree side ---- *)
Lemma ventries_nth_lt : forall es i, Z.of_nat i < ecount es -> exists e, ventries_nth es i = Some e.
Proof.
  induction es as [|e r IH]; intros i Hi.
  - cbn [ecount] in Hi. lia.
  - destruct i as [|i].
    + exists e. reflexivity.
    + cbn [ventries_nth]. apply IH. cbn [ecount] in Hi. lia.
Qed.

Lemma prefix_len_S be l : forall es i e, ventries_nth es i = Some e ->
  entries_prefix_len be l es (S i) = entries_prefix_len be l es i + len (enc_level be l e).
Proof.
  induction es as [|e0 r IH]; intros i e Hnth; [discriminate|].
  destruct i as [|i]; cbn [ventries_nth] in Hnth.
  - inversion Hnth; subst e0. cbn [entries_prefix_len].
    destruct r; cbn [entries_prefix_len]; lia.
  - change (entries_prefix_len be l (VECons e0 r) (S (S i)))
      with (len (enc_level be l e0) + entries_prefix_len be l r (S i)).
    rewrite (IH i e Hnth). cbn [entries_prefix_len]. lia.
Qed.

Lemma prefix_len_all be l : forall es i, ecount es <= Z.of_nat i ->
  entries_prefix_len be l es i = len (enc_entries be l es).
Proof.
  induction es as [|e r IH]; intros i Hi.
  - destruct i; reflexivity.
  - pose proof (ecount_nonneg r). cbn [ecount] in Hi. destruct i as [|i]; [lia|].
    cbn [entries_prefix_len]. rewrite enc_entries_cons, len_app, IH by lia. reflexivity.
Qed.

Lemma prefix_len_0 be l es : entries_prefix_len be l es 0 = 0.
Proof. destruct es; reflexivity. Qed.

Lemma fields_fit_es_nth l : forall es i e, ventries_nth es i = Some e ->
  fields_fit_es l es -> fields_fit l e.
Proof.
  induction es as [|e0 r IH]; intros i e Hnth Hf; [discriminate|].
  cbn [fields_fit_es] in Hf. destruct Hf as [H0 Hr].
  destruct i as [|i]; cbn [ventries_nth] in Hnth.
  - inversion Hnth; subst e0. exact H0.
  - exact (IH i e Hnth Hr).
Qed.

Lemma flat_counts_le_es_nth N l : forall es i e, ventries_nth es i = Some e ->
  flat_counts_le_es N l es -> flat_counts_le N l e.
Proof.
  induction es as [|e0 r IH]; intros i e Hnth Hf; [discriminate|].
  cbn [flat_counts_le_es] in Hf. destruct Hf as [H0 Hr].
  destruct i as [|i]; cbn [ventries_nth] in Hnth.
  - inversion Hnth; subst e0. exact H0.
  - exact (IH i e Hnth Hr).
Qed.

(* ---- the loop on the image of the entries of a group ---- *)
Section Img.
  Variables (be : bool) (b : list Z) (fuel : nat).
  Hypothesis Hfuel : len b <= Z.of_nat fuel.
  Hypothesis Hlt : len b < 2 ^ 64.

  Lemma cr_entries_img l cl es pre post bl lvend :
    wf_entries be l es -> wf_clevel 0 l cl -> fields_fit_es l es ->
    flat_counts_le_es (Z.of_nat fuel) l es -> all_blocks_len es bl ->
    b = pre ++ enc_entries be l es ++ post -> lvend = len b ->
    forall k s j addrs acc, Z.of_nat (s + k) <= ecount es -> (k <= j)%nat ->
    exists evs,
      cr_entries be b fuel l cl bl lvend j (Z.of_nat k)
                 (len pre + entries_prefix_len be l es s) addrs acc
      = COk (rev (map (fun i => len pre + entries_prefix_len be l es i) (seq s k)) ++ addrs, evs)
            (len pre + entries_prefix_len be l es (s + k)).
  Proof.
    intros Hwe Hcl Hff Hfc Hall Hb Hend.
    induction k as [|k IH]; intros s j addrs acc Hsk Hj.
    - exists acc. rewrite cr_entries_0 by lia. rewrite Nat.add_0_r. reflexivity.
    - destruct j as [|j]; [lia|].
      destruct (ventries_nth_lt es s ltac:(lia)) as [e He].
      destruct (nth_entry_full be l bl es s e He Hwe Hall)
        as (Hwfe & Hble & _ & E1 & E2 & HE & HlE1).
      assert (Hb1 : b = (pre ++ E1) ++ enc_level be l e ++ (E2 ++ post)).
      { rewrite Hb, HE. now rewrite <- !app_assoc. }
      rewrite cr_entries_S by lia.
      replace (len pre + entries_prefix_len be l es s) with (len (pre ++ E1))
        by (rewrite len_app; lia).
      rewrite (proj1 (T_all be b fuel Hfuel Hlt) e l cl 0 (pre ++ E1) (E2 ++ post) _ _ _ Hwfe Hcl
                 (fields_fit_es_nth l es s e He Hff)
                 (flat_counts_le_es_nth _ l es s e He Hfc) Hb1).
      2:{ reflexivity. }
      2:{ cbn [lv_start]. lia. }
      2:{ cbn [lv_bl]. lia. }
      2:{ cbn [lv_end]. exact Hend. }
      2:{ rewrite Hble. reflexivity. }
      replace (Z.of_nat (S k) - 1) with (Z.of_nat k) by lia.
      replace (len (pre ++ E1) + len (enc_level be l e))
        with (len pre + entries_prefix_len be l es (S s))
        by (rewrite (prefix_len_S be l es s e He), len_app; lia).
      destruct (IH (S s) j (len (pre ++ E1) :: addrs)
                   (rev (ev_level be l e (len (pre ++ E1))) ++ EEntry (len (pre ++ E1)) :: acc)
                   ltac:(lia) ltac:(lia)) as [evs Hevs].
      exists evs. rewrite Hevs.
      replace (S s + k)%nat with (s + S k)%nat by lia.
      f_equal. f_equal. cbn [seq map]. rewrite rev_cons_app.
      rewrite len_app, HlE1. reflexivity.
  Qed.
End Img.

(* ---- random access on the image of a group ---- *)
Theorem entry_pos_enc : stmt_entry_pos_enc.
Proof.
  unfold stmt_entry_pos_enc. intros be d cbl l bg es b pre post fuel i Hb Hwf Hfuel Hi.
  unfold group_image in Hb. fold (wire_bl be d bg es) in Hb.
  rewrite wf_groups_cons in Hwf. cbv zeta in Hwf. fold (wire_bl be d bg es) in Hwf.
  set (bl := wire_bl be d bg es) in *.
  destruct Hwf as (Hd & Hlbg & _ & Hfbl & Hfn & Hall & _ & Hwe & _).
  set (D := dim_bytes be d bg bl (ecount es)) in *.
  assert (HlD : len D = d_size d) by (apply len_dim_bytes; assumption).
  destruct (ventries_nth_lt es (Z.to_nat i) ltac:(lia)) as [e He].
  unfold entry_pos, img_gview, entry_addr. cbn [gv_pos gv_bl gv_n]. fold bl.
  replace (i <? 0) with false by (symmetry; apply Z.ltb_ge; lia).
  replace (ecount es <=? i) with false by (symmetry; apply Z.leb_gt; lia).
  cbn [orb].
  destruct (is_flat l) eqn:Hfl.
  - f_equal. rewrite (entries_prefix_flat be l bl es (Z.to_nat i) e Hfl He Hall).
    rewrite Z2Nat.id by lia. lia.
  - assert (Hb3 : b = (pre ++ D) ++ enc_entries be l es ++ post)
      by (rewrite Hb; now rewrite <- !app_assoc).
    replace (len pre + d_size d) with (len (pre ++ D)) by (rewrite len_app; lia).
    rewrite <- (Z2Nat.id i) at 1 by lia.
    rewrite (entries_walk_prefix be b fuel l bl es (Z.to_nat i) e fuel (pre ++ D) post
               He Hwe Hall Hfuel).
    + reflexivity.
    + destruct (fuel_entries_b be l es b _ _ fuel Hwe Hb3 Hfuel) as [_ Hcnt].
      specialize (Hcnt Hfl). lia.
    + exact Hb3.
Qed.
Print Assumptions entry_pos_enc.

Lemma crange_bounds_inv n mode s cnt : crange_bounds n mode = Some (s, cnt) ->
  match mode with
  | CRAll => s = 0 /\ cnt = n
  | CRFrom pos => s = pos /\ cnt = n - pos /\ pos < n
  | CRFromCount pos count => s = pos /\ cnt = count /\ pos < n /\ count <= n - pos
  end.
Proof.
  destruct mode as [|pos|pos count]; cbn [crange_bounds].
  - intros H. inversion H. split; reflexivity.
  - destruct (Z.ltb_spec pos n) as [Hlt|Hge]; [|discriminate].
    intros H. inversion H. repeat split; lia.
  - destruct (Z.ltb_spec pos n) as [Hlt|Hge]; [|discriminate].
    destruct (Z.leb_spec count (n - pos)) as [Hle|Hgt]; [|discriminate].
    intros H. inversion H. repeat split; lia.
Qed.

Lemma map_seq_shift {A} (f g : nat -> A) s k :
  (forall i, (s <= i < s + k)%nat -> f i = g i) -> map f (seq s k) = map g (seq s k).
Proof.
  intros H. apply map_ext_in. intros i Hi. apply in_seq in Hi. apply H. exact Hi.
Qed.

Theorem crange_enc : stmt_crange_enc.
Proof.
  unfold stmt_crange_enc.
  intros be d cbl l cl bg es b pre post fuel mode s cnt Hemb Hbounds Hs0 Hc0.
  set (g := img_gview be d bg es (len pre)). set (addr := entry_addr be d l es (len pre)).
  unfold crange_embedded in Hemb.
  destruct Hemb as (Hb & Hwf & Hcl & Hff & Hcntf & Hfc & Hfuel & Hlt).
  assert (Hpos : forall i, 0 <= i < ecount es ->
            entry_pos be b fuel d l g i = Some (addr (Z.to_nat i))).
  { intros i Hi. exact (entry_pos_enc be d cbl l bg es b pre post fuel i Hb Hwf Hfuel Hi). }
  pose proof (ecount_nonneg es) as Hn0.
  assert (Hle : s + cnt <= ecount es).
  { apply crange_bounds_inv in Hbounds. destruct mode; lia. }
  pose proof Hwf as Hwf0.
  unfold group_image in Hb. fold (wire_bl be d bg es) in Hb.
  rewrite wf_groups_cons in Hwf. cbv zeta in Hwf. fold (wire_bl be d bg es) in Hwf.
  set (bl := wire_bl be d bg es) in *.
  destruct Hwf as (Hd & Hlbg & _ & Hfbl & Hfn & Hall & _ & Hwe & _).
  set (D := dim_bytes be d bg bl (ecount es)) in *.
  assert (HlD : len D = d_size d) by (apply len_dim_bytes; assumption).
  assert (Hb3 : b = (pre ++ D) ++ enc_entries be l es ++ post)
    by (rewrite Hb; now rewrite <- !app_assoc).
  split; [|split; [exact Hpos|split; [exact Hle|]]].
  - (* the cursor the driver starts with *)
    assert (Hstart : crange_start be b fuel d l g mode s = Some (addr (Z.to_nat s))).
    { pose proof (crange_bounds_inv _ _ _ _ Hbounds) as Hinv.
      destruct mode as [|pos|pos count]; cbn [crange_start].
      - destruct Hinv as [-> _]. unfold addr, entry_addr. cbn [Z.to_nat gv_pos g img_gview].
        rewrite prefix_len_0. f_equal. lia.
      - apply Hpos. lia.
      - apply Hpos. lia. }
    (* enough fuel for the entries *)
    assert (Hj : ecount es <= Z.of_nat fuel).
    { destruct (is_flat l) eqn:Hfl; [apply Hcntf; reflexivity|].
      destruct (fuel_entries_b be l es b _ _ fuel Hwe Hb3 Hfuel) as [_ H]. apply H. exact Hfl. }
    unfold run_crange, run_crange_ev. cbn [gv_n g img_gview]. rewrite Hbounds.
    change ({| gv_pos := len pre; gv_bl := wire_bl be d bg es; gv_n := ecount es |}) with g.
    rewrite Hstart. unfold crange_visit. cbn [gv_bl g img_gview]. fold bl.
    destruct (cr_entries_img be b fuel Hfuel Hlt l cl es (pre ++ D) post bl (len b)
                Hwe Hcl Hff Hfc Hall Hb3 eq_refl (Z.to_nat cnt) (Z.to_nat s) fuel [] [])
      as [evs Hevs]; [lia|lia|].
    rewrite Z2Nat.id in Hevs by lia.
    assert (Haddr : forall i, len (pre ++ D) + entries_prefix_len be l es i = addr i).
    { intros i. unfold addr, entry_addr. rewrite len_app, HlD. reflexivity. }
    rewrite Haddr in Hevs. rewrite Hevs. cbn [cres_map fst snd].
    rewrite app_nil_r, rev_involutive.
    rewrite (map_seq_shift _ addr) by (intros i _; apply Haddr).
    rewrite Haddr. f_equal. f_equal. lia.
  - unfold addr, entry_addr. rewrite prefix_len_all by lia.
    unfold group_image. fold bl D. rewrite len_app, HlD. lia.
Qed.
Print Assumptions crange_enc.

(* ---- (B) ---- *)
Theorem crange_pos_asserts : stmt_crange_pos_asserts.
Proof.
  unfold stmt_crange_pos_asserts. intros be b fuel d l cl lvend g pos count Hpos.
  unfold run_crange, run_crange_ev. cbn [crange_bounds].
  destruct (Z.ltb_spec pos (gv_n g)); [lia|]. split; reflexivity.
Qed.
Print Assumptions crange_pos_asserts.

Theorem crange_count_asserts : stmt_crange_count_asserts.
Proof.
  unfold stmt_crange_count_asserts. intros be b fuel d l cl lvend g pos count Hc.
  unfold run_crange, run_crange_ev. cbn [crange_bounds].
  destruct (Z.ltb_spec pos (gv_n g)); [|reflexivity].
  destruct (Z.leb_spec count (gv_n g - pos)); [lia|reflexivity].
Qed.
Print Assumptions crange_count_asserts.

Theorem crange_all_empty : stmt_crange_all_empty.
Proof.
  unfold stmt_crange_all_empty. intros be b fuel d l cl lvend g Hn.
  unfold run_crange, run_crange_ev, crange_visit. cbn [crange_bounds crange_start].
  rewrite cr_entries_0 by exact Hn. reflexivity.
Qed.
Print Assumptions crange_all_empty.

Theorem crange_bounds_spec : stmt_crange_bounds_spec.
Proof.
  unfold stmt_crange_bounds_spec. intros n mode.
  destruct mode as [|pos|pos count]; cbn [crange_bounds].
  - reflexivity.
  - destruct (Z.ltb_spec pos n); split; intros; try lia; reflexivity.
  - destruct (Z.ltb_spec pos n); destruct (Z.leb_spec count (n - pos));
      split; intros; try lia; reflexivity.
Qed.
Print Assumptions crange_bounds_spec.

(* ---- (A) with the driver's fuel ---- *)
Lemma crange_embedded_default be d cbl l cl bg es b pre post :
  b = pre ++ group_image be d l bg es ++ post ->
  wf_groups be (GCons d cbl l GNil) (VGCons bg es VGNil) ->
  wf_clevel 0 l cl -> fields_fit_es l es ->
  flat_blocks_pos_gs (GCons d cbl l GNil) (VGCons bg es VGNil) ->
  len b < 2 ^ 64 ->
  crange_embedded be d cbl l cl bg es b pre post (default_fuel b).
Proof.
  intros Hb Hwf Hcl Hff Hpos Hlt.
  assert (HN : len (enc_groups be (GCons d cbl l GNil) (VGCons bg es VGNil))
               <= Z.of_nat (default_fuel b)).
  { rewrite enc_groups_single. change (len (group_image be d l bg es) <= Z.of_nat (default_fuel b)).
    pose proof (default_fuel_len b). pose proof (len_mid_le b pre _ post Hb). lia. }
  pose proof (proj1 (proj2 (flat_counts_le_mono _ _ HN)) _ _
                (proj1 (proj2 (flat_counts_of_blocks_pos be)) _ _ Hwf Hpos)) as Hfc.
  cbn [flat_counts_le_gs] in Hfc. destruct Hfc as (H1 & H2 & _).
  unfold crange_embedded. repeat (split; [assumption|]).
  split; [apply default_fuel_len|exact Hlt].
Qed.

Theorem crange_enc_default : stmt_crange_enc_default.
Proof.
  unfold stmt_crange_enc_default. intros be d cbl l cl bg es pre post mode s cnt.
  set (b := pre ++ group_image be d l bg es ++ post).
  intros Hwf Hcl Hff Hpos Hlt Hbounds Hs0 Hc0.
  exact (proj1 (crange_enc be d cbl l cl bg es b pre post (default_fuel b) mode s cnt
                  (crange_embedded_default be d cbl l cl bg es b pre post eq_refl
                     Hwf Hcl Hff Hpos Hlt) Hbounds Hs0 Hc0)).
Qed.
Print Assumptions crange_enc_default.

(* ---- hypotheses of the traversal theorem along a path ---- *)
Lemma wf_clevel_groups hdr l cl : wf_clevel hdr l cl ->
  wf_cgroups (level_groups l) (clevel_groups cl).
Proof. destruct l, cl. cbn [wf_clevel level_groups clevel_groups]. intros [_ H]. exact H. Qed.

Lemma fields_fit_groups l v : fields_fit l v ->
  fields_fit_gs (level_groups l) (vlevel_groups v).
Proof. destruct v. cbn [fields_fit vlevel_groups]. intros [_ H]. exact H. Qed.

Lemma flat_blocks_pos_groups l v : flat_blocks_pos l v ->
  flat_blocks_pos_gs (level_groups l) (vlevel_groups v).
Proof. destruct v. cbn [flat_blocks_pos vlevel_groups]. intros H. exact H. Qed.

Lemma wf_cgroups_nth : forall gs cgs k d cbl sub,
  wf_cgroups gs cgs -> groups_nth gs k = Some (d, cbl, sub) ->
  exists clk, cgroups_nth cgs k = Some clk /\ wf_clevel 0 sub clk.
Proof.
  induction gs as [|d0 cbl0 l0 rest IH]; intros cgs k d cbl sub Hwf Hg; [discriminate|].
  destruct cgs as [|cl0 crest]; [contradiction|].
  cbn [wf_cgroups] in Hwf. destruct Hwf as [H0 Hr].
  destruct k as [|k]; cbn [groups_nth] in Hg.
  - inversion Hg; subst d0 cbl0 l0. exists cl0. split; [reflexivity|exact H0].
  - cbn [cgroups_nth]. exact (IH crest k d cbl sub Hr Hg).
Qed.

Lemma fields_fit_gs_nth : forall gs vgs k d cbl sub bg es,
  fields_fit_gs gs vgs -> groups_nth gs k = Some (d, cbl, sub) ->
  vgroups_nth vgs k = Some (bg, es) -> fields_fit_es sub es.
Proof.
  induction gs as [|d0 cbl0 l0 rest IH]; intros vgs k d cbl sub bg es Hf Hg Hvg; [discriminate|].
  destruct vgs as [|bg0 es0 vrest]; [discriminate|].
  cbn [fields_fit_gs] in Hf. destruct Hf as [H0 Hr].
  destruct k as [|k]; cbn [groups_nth] in Hg; cbn [vgroups_nth] in Hvg.
  - inversion Hg; subst d0 cbl0 l0. inversion Hvg; subst bg0 es0. exact H0.
  - exact (IH vrest k d cbl sub bg es Hr Hg Hvg).
Qed.

Lemma flat_blocks_pos_gs_nth : forall gs vgs k d cbl sub bg es,
  flat_blocks_pos_gs gs vgs -> groups_nth gs k = Some (d, cbl, sub) ->
  vgroups_nth vgs k = Some (bg, es) ->
  flat_blocks_pos_gs (GCons d cbl sub GNil) (VGCons bg es VGNil).
Proof.
  induction gs as [|d0 cbl0 l0 rest IH]; intros vgs k d cbl sub bg es Hf Hg Hvg; [discriminate|].
  destruct vgs as [|bg0 es0 vrest]; [discriminate|].
  cbn [flat_blocks_pos_gs] in Hf. destruct Hf as (H0 & H1 & Hr).
  destruct k as [|k]; cbn [groups_nth] in Hg; cbn [vgroups_nth] in Hvg.
  - inversion Hg; subst d0 cbl0 l0. inversion Hvg; subst bg0 es0.
    cbn [flat_blocks_pos_gs]. repeat split; assumption.
  - exact (IH vrest k d cbl sub bg es Hr Hg Hvg).
Qed.

Lemma flat_blocks_pos_es_nth l : forall es i e, ventries_nth es i = Some e ->
  flat_blocks_pos_es l es -> flat_blocks_pos l e.
Proof.
  induction es as [|e0 r IH]; intros i e Hnth Hf; [discriminate|].
  cbn [flat_blocks_pos_es] in Hf. destruct Hf as [H0 Hr].
  destruct i as [|i]; cbn [ventries_nth] in Hnth.
  - inversion Hnth; subst e0. exact H0.
  - exact (IH i e Hnth Hr).
Qed.

Lemma vresolve_props be : forall path l v cl hdr l' v' off,
  vresolve be path l v = Some (l', v', off) ->
  wf_clevel hdr l cl -> fields_fit l v -> flat_blocks_pos l v ->
  exists cl' hdr', clevel_at cl path = Some cl' /\ wf_clevel hdr' l' cl' /\
                   fields_fit l' v' /\ flat_blocks_pos l' v'.
Proof.
  induction path as [|[k i] rest IH]; intros l v cl hdr l' v' off Hres Hcl Hff Hfp.
  - cbn [vresolve] in Hres. inversion Hres; subst l' v' off.
    exists cl, hdr. cbn [clevel_at]. repeat split; assumption.
  - cbn [vresolve] in Hres.
    destruct (groups_nth (level_groups l) k) as [[[d cbl] sub]|] eqn:Hg; [|discriminate].
    destruct (vgroups_nth (vlevel_groups v) k) as [[bg es]|] eqn:Hvg; [|discriminate].
    destruct (i <? 0) eqn:Hi0; [discriminate|].
    destruct (ventries_nth es (Z.to_nat i)) as [e|] eqn:He; [|discriminate].
    destruct (vresolve be rest sub e) as [[[l'' v''] off']|] eqn:Hsub; [|discriminate].
    inversion Hres; subst l'' v'' off; clear Hres.
    destruct (wf_cgroups_nth _ _ k d cbl sub (wf_clevel_groups hdr l cl Hcl) Hg)
      as (clk & Hck & Hwck).
    pose proof (fields_fit_gs_nth _ _ k d cbl sub bg es (fields_fit_groups l v Hff) Hg Hvg) as Hffe.
    pose proof (flat_blocks_pos_gs_nth _ _ k d cbl sub bg es (flat_blocks_pos_groups l v Hfp) Hg Hvg)
      as Hfpg.
    cbn [flat_blocks_pos_gs] in Hfpg. destruct Hfpg as (_ & Hfpe & _).
    destruct (IH sub e clk 0 l' v' off' Hsub Hwck
                (fields_fit_es_nth sub es _ e He Hffe)
                (flat_blocks_pos_es_nth sub es _ e He Hfpe))
      as (cl' & hdr' & H1 & H2 & H3 & H4).
    exists cl', hdr'. cbn [clevel_at]. rewrite Hck. cbn [obind].
    repeat split; assumption.
Qed.

Theorem run_crange_at_enc : stmt_run_crange_at_enc.
Proof.
  unfold stmt_run_crange_at_enc.
  intros be m cl hdrbg v pre post path k l' v' off d cbl sub bg es mode s cnt.
  set (b := pre ++ enc_message be m hdrbg v ++ post).
  intros Hwf Hcl Hff Hlt Hfp Hres Hg Hvg Hbounds Hs0 Hc0.
  set (gpos := len pre + m_hdr_size m + off + len (vblock v')
               + groups_prefix_len be (level_groups l') (vlevel_groups v') k).
  assert (Hb : b = pre ++ enc_message be m hdrbg v ++ post) by reflexivity.
  set (hdr := put be hdrbg (m_bl_off m) (m_bl_t m) (len (vblock v))).
  pose proof (msg_wf_level be m hdrbg v Hwf) as Hwl.
  pose proof (msg_buffer_split be m hdrbg v b pre post Hb) as Hsplit. fold hdr in Hsplit.
  pose proof (len_pre_hdr be m hdrbg v pre Hwf) as Hlh. fold hdr in Hlh.
  destruct (resolve_enc be b (default_fuel b) path (m_level m) v (pre ++ hdr) post l' v' off Hwl
              (default_fuel_len b) Hsplit Hres) as (Hr & Hwf' & pre' & post' & Hb' & Hlen').
  destruct (vresolve_props be path (m_level m) v cl (m_hdr_size m) l' v' off Hres Hcl Hff Hfp)
    as (cl' & hdr' & Hcla & Hcl' & Hff' & Hfp').
  pose proof (wf_level_parts be l' v' Hwf') as [Hwg Hwd].
  set (gs := level_groups l') in *. set (vgs := vlevel_groups v') in *.
  assert (Hb1 : b = (pre' ++ vblock v') ++ enc_groups be gs vgs
                     ++ (enc_datas be (level_datas l') (vlevel_datas v') ++ post')).
  { rewrite Hb', enc_level_parts. now rewrite <- !app_assoc. }
  destruct (nth_group_full be b (default_fuel b) k gs vgs _ _ bg es d cbl sub Hwg
              (default_fuel_len b) Hb1 Hvg Hg) as (Hpos & Hwf1 & pre1 & post1 & Hb2 & Hlen1).
  rewrite len_app in Hpos, Hlen1.
  assert (Hgpos : len pre1 = gpos) by (unfold gpos; lia).
  rewrite enc_groups_single in Hb2.
  change (b = pre1 ++ group_image be d sub bg es ++ post1) in Hb2.
  (* the tables of the group's entries *)
  destruct (wf_cgroups_nth _ _ k d cbl sub (wf_clevel_groups hdr' l' cl' Hcl') Hg)
    as (clk & Hck & Hwck).
  pose proof (fields_fit_gs_nth _ _ k d cbl sub bg es (fields_fit_groups l' v' Hff') Hg Hvg) as Hffe.
  pose proof (flat_blocks_pos_gs_nth _ _ k d cbl sub bg es (flat_blocks_pos_groups l' v' Hfp') Hg Hvg)
    as Hfpg.
  pose proof (crange_embedded_default be d cbl sub clk bg es b pre1 post1 Hb2 Hwf1 Hwck Hffe Hfpg Hlt)
    as Hemb.
  (* random access to the group *)
  assert (Hloc : locate_group be b m (len pre) path k
                 = Some (img_gview be d bg es gpos, d, cbl, sub)).
  { unfold locate_group, msg_resolve.
    rewrite (msg_block_length_enc be m hdrbg v b pre post Hwf Hb). cbn [obind].
    rewrite <- Hlh, Hr. cbn [obind]. fold gs.
    replace (len (pre ++ hdr) + off + len (vblock v')) with (len pre' + len (vblock v')) by lia.
    rewrite Hpos. cbn [obind]. rewrite <- Hlen1.
    pose proof Hwf1 as Hwf1'. rewrite wf_groups_cons in Hwf1'. cbv zeta in Hwf1'.
    destruct Hwf1' as (Hd & Hlbg & _ & Hfbl & Hfn & _).
    rewrite (group_at_enc be b pre1 (enc_entries be sub es ++ post1) d bg es Hd Hlbg Hfbl Hfn).
    2:{ rewrite Hb2. unfold group_image, wire_bl. now rewrite <- !app_assoc. }
    cbn [obind]. rewrite Hgpos. reflexivity. }
  destruct (crange_enc be d cbl sub clk bg es b pre1 post1 (default_fuel b) mode s cnt
              Hemb Hbounds Hs0 Hc0) as (Hrun & Hep & _ & _).
  rewrite Hgpos in Hrun, Hep.
  split; [exact Hloc|]. split; [|exact Hep].
  unfold run_crange_at, group_clevel. rewrite Hloc, Hcla. cbn [obind]. rewrite Hck.
  exact Hrun.
Qed.
Print Assumptions run_crange_at_enc.

(* ================================================================== *)
(* accumulator independence of the traversal                           *)
(* ================================================================== *)
Definition cres_app (r : cres (list event)) (acc : list event) : cres (list event) :=
  cres_map (fun a => a ++ acc) r.

Lemma cres_app_app r x y : cres_app (cres_app r x) y = cres_app r (x ++ y).
Proof. destruct r; cbn [cres_app cres_map]; [|reflexivity|reflexivity]. now rewrite <- app_assoc. Qed.

Lemma trav_fields_acc v : forall fs k c acc,
  trav_fields v fs k c acc = cres_app (trav_fields v fs k c []) acc.
Proof.
  induction fs as [|a r IH]; intros k c acc; cbn [trav_fields].
  - reflexivity.
  - destruct (cur_field WPlain v a c) as [addr c'| |]; [|reflexivity|reflexivity].
    rewrite (IH (S k) c' (EField k addr :: acc)), (IH (S k) c' [EField k addr]), cres_app_app.
    reflexivity.
Qed.

Lemma trav_datas_acc be b v : forall ds k first p c acc,
  trav_datas be b v ds k first p c acc = cres_app (trav_datas be b v ds k first p c []) acc.
Proof.
  induction ds as [|t r IH]; intros k first p c acc; cbn [trav_datas].
  - reflexivity.
  - destruct (cur_data WPlain first v p (data_size_at be b t) c) as [s c'| |];
      [|reflexivity|reflexivity].
    destruct (rd be b s t) as [n|]; [|reflexivity].
    rewrite (IH (S k) false _ c' (EData k s n :: acc)), (IH (S k) false _ c' [EData k s n]),
      cres_app_app.
    reflexivity.
Qed.

Definition acc_level (be : bool) (b : list Z) (fuel : nat) (l : level) : Prop :=
  forall cl v c acc,
    trav_level be b fuel l cl v c acc = cres_app (trav_level be b fuel l cl v c []) acc.

Definition acc_groups (be : bool) (b : list Z) (fuel : nat) (gs : groups) : Prop :=
  forall cgs v k first p c acc,
    trav_groups be b fuel gs cgs v k first p c acc
    = cres_app (trav_groups be b fuel gs cgs v k first p c []) acc.

Lemma trav_entries_acc_of be b fuel l cl bl lvend : acc_level be b fuel l ->
  forall j n c acc,
    trav_entries be b fuel l cl bl lvend j n c acc
    = cres_app (trav_entries be b fuel l cl bl lvend j n c []) acc.
Proof.
  intros Hl. induction j as [|j IH]; intros n c acc; cbn [trav_entries].
  - destruct (n <=? 0); reflexivity.
  - destruct (n <=? 0); [reflexivity|]. cbv zeta.
    rewrite (Hl cl _ _ (EEntry c :: acc)), (Hl cl _ _ [EEntry c]).
    destruct (trav_level be b fuel l cl
                {| lv_start := c; lv_level := c; lv_bl := bl; lv_end := lvend |}
                (if is_empty_level l cl then c + bl else c) []) as [a1 c1| |];
      cbn [cres_app cres_map]; [|reflexivity|reflexivity].
    rewrite (IH (n - 1) c1 (a1 ++ EEntry c :: acc)), (IH (n - 1) c1 (a1 ++ [EEntry c])),
      cres_app_app, <- app_assoc.
    reflexivity.
Qed.

Lemma acc_all be b fuel : (forall l, acc_level be b fuel l) /\ (forall gs, acc_groups be b fuel gs).
Proof.
  assert (H : forall gs, acc_groups be b fuel gs).
  { apply (groups_mind (fun l => acc_level be b fuel l) (fun gs => acc_groups be b fuel gs)).
    - (* level *)
      intros fs gs IHg ds cl v c acc. rewrite !trav_level_eq.
      rewrite (trav_fields_acc v (clevel_fields cl) 0 c acc).
      destruct (trav_fields v (clevel_fields cl) 0 c []) as [a1 c1| |];
        cbn [cres_app cres_map]; [|reflexivity|reflexivity].
      rewrite (IHg (clevel_groups cl) v 0%nat true _ c1 (a1 ++ acc)),
        (IHg (clevel_groups cl) v 0%nat true _ c1 a1).
      destruct (trav_groups be b fuel gs (clevel_groups cl) v 0 true (Some (block_end v)) c1 [])
        as [a2 c2| |]; cbn [cres_app cres_map]; [|reflexivity|reflexivity].
      rewrite (trav_datas_acc be b v ds 0 _ _ c2 (a2 ++ a1 ++ acc)),
        (trav_datas_acc be b v ds 0 _ _ c2 (a2 ++ a1)), cres_app_app, <- app_assoc.
      reflexivity.
    - (* no group *)
      intros cgs v k first p c acc. reflexivity.
    - (* a group *)
      intros d cbl l IHl rest IHr cgs v k first p c acc.
      destruct cgs as [|cl crest]; [reflexivity|].
      rewrite !trav_groups_cons.
      destruct (cur_group WPlain first v p (d_size d) (fun _ => None) c) as [s c1| |];
        [|reflexivity|reflexivity].
      destruct (rd be b (s + d_bl_off d) (d_bl_t d)) as [bl|]; [|reflexivity].
      destruct (rd be b (s + d_n_off d) (d_n_t d)) as [n|]; [|reflexivity].
      rewrite (trav_entries_acc_of be b fuel l cl bl (lv_end v) IHl fuel n c1 (EGroup k s n :: acc)),
        (trav_entries_acc_of be b fuel l cl bl (lv_end v) IHl fuel n c1 [EGroup k s n]).
      destruct (trav_entries be b fuel l cl bl (lv_end v) fuel n c1 []) as [a1 c'| |];
        cbn [cres_app cres_map]; [|reflexivity|reflexivity].
      cbv zeta.
      rewrite (IHr crest v (S k) false _ c' (a1 ++ EGroup k s n :: acc)),
        (IHr crest v (S k) false _ c' (a1 ++ [EGroup k s n])), cres_app_app, <- app_assoc.
      reflexivity. }
  split; [|exact H].
  intros [fs gs ds] cl v c acc. rewrite !trav_level_eq.
  rewrite (trav_fields_acc v (clevel_fields cl) 0 c acc).
  destruct (trav_fields v (clevel_fields cl) 0 c []) as [a1 c1| |];
    cbn [cres_app cres_map]; [|reflexivity|reflexivity].
  rewrite (H gs (clevel_groups cl) v 0%nat true _ c1 (a1 ++ acc)),
    (H gs (clevel_groups cl) v 0%nat true _ c1 a1).
  destruct (trav_groups be b fuel gs (clevel_groups cl) v 0 true (Some (block_end v)) c1 [])
    as [a2 c2| |]; cbn [cres_app cres_map]; [|reflexivity|reflexivity].
  rewrite (trav_datas_acc be b v ds 0 _ _ c2 (a2 ++ a1 ++ acc)),
    (trav_datas_acc be b v ds 0 _ _ c2 (a2 ++ a1)), cres_app_app, <- app_assoc.
  reflexivity.
Qed.

Lemma trav_level_acc be b fuel l cl v c acc :
  trav_level be b fuel l cl v c acc = cres_app (trav_level be b fuel l cl v c []) acc.
Proof. apply (proj1 (acc_all be b fuel)). Qed.

Lemma trav_entries_acc be b fuel l cl bl lvend j n c acc :
  trav_entries be b fuel l cl bl lvend j n c acc
  = cres_app (trav_entries be b fuel l cl bl lvend j n c []) acc.
Proof. apply trav_entries_acc_of. apply (proj1 (acc_all be b fuel)). Qed.

(* ================================================================== *)
(* (D) the loop of CursorRange is the loop of Cursor.trav_groups       *)
(* ================================================================== *)

Theorem cr_entries_is_trav_entries : stmt_cr_entries_is_trav_entries.
Proof.
  unfold stmt_cr_entries_is_trav_entries. intros be b fuel l cl bl lvend.
  induction j as [|j IH]; intros n c addrs acc; cbn [cr_entries trav_entries].
  - destruct (n <=? 0); reflexivity.
  - destruct (n <=? 0); [reflexivity|]. cbv zeta.
    destruct (trav_level be b fuel l cl
                {| lv_start := c; lv_level := c; lv_bl := bl; lv_end := lvend |}
                (if is_empty_level l cl then c + bl else c) (EEntry c :: acc)) as [acc' c'| |];
      [apply IH|reflexivity|reflexivity].
Qed.
Print Assumptions cr_entries_is_trav_entries.

(* the accumulators are only appended to *)
Lemma cr_entries_acc be b fuel l cl bl lvend : forall j n c addrs acc,
  cr_entries be b fuel l cl bl lvend j n c addrs acc
  = cres_map (fun r => (fst r ++ addrs, snd r ++ acc))
             (cr_entries be b fuel l cl bl lvend j n c [] []).
Proof.
  induction j as [|j IH]; intros n c addrs acc; cbn [cr_entries].
  - destruct (n <=? 0); reflexivity.
  - destruct (n <=? 0); [reflexivity|]. cbv zeta.
    rewrite (trav_level_acc be b fuel l cl _ _ (EEntry c :: acc)),
      (trav_level_acc be b fuel l cl _ _ [EEntry c]).
    destruct (trav_level be b fuel l cl
                {| lv_start := c; lv_level := c; lv_bl := bl; lv_end := lvend |}
                (if is_empty_level l cl then c + bl else c) []) as [a1 c1| |];
      cbn [cres_app cres_map]; [|reflexivity|reflexivity].
    rewrite (IH (n - 1) c1 (c :: addrs) (a1 ++ EEntry c :: acc)),
      (IH (n - 1) c1 [c] (a1 ++ [EEntry c])).
    destruct (cr_entries be b fuel l cl bl lvend j (n - 1) c1 [] []) as [[a2 e2] c2| |];
      cbn [cres_map fst snd]; [|reflexivity|reflexivity].
    rewrite <- !app_assoc. reflexivity.
Qed.

Lemma group_at_inv be b d s g : group_at be b d s = Some g ->
  rd be b (s + d_bl_off d) (d_bl_t d) = Some (gv_bl g) /\
  rd be b (s + d_n_off d) (d_n_t d) = Some (gv_n g) /\ gv_pos g = s.
Proof.
  unfold group_at.
  destruct (rd be b (s + d_bl_off d) (d_bl_t d)) as [bl|]; [|discriminate].
  destruct (rd be b (s + d_n_off d) (d_n_t d)) as [n|]; [|discriminate].
  cbn [obind]. intros H. inversion H. repeat split; reflexivity.
Qed.

Theorem crange_all_in_trav_groups : stmt_crange_all_in_trav_groups.
Proof.
  unfold stmt_crange_all_in_trav_groups.
  intros be b fuel d cbl l rest cl crest v k first p c acc s g Hcg Hga.
  destruct (group_at_inv be b d s g Hga) as (Hbl & Hn & Hp).
  rewrite trav_groups_cons, Hcg, Hbl, Hn.
  rewrite (trav_entries_acc be b fuel l cl (gv_bl g) (lv_end v) fuel (gv_n g) (s + d_size d)
             (EGroup k s (gv_n g) :: acc)).
  rewrite <- (cr_entries_is_trav_entries be b fuel l cl (gv_bl g) (lv_end v) fuel (gv_n g)
                (s + d_size d) [] []).
  unfold run_crange_ev, crange_visit. cbn [crange_bounds crange_start]. rewrite Hp.
  destruct (cr_entries be b fuel l cl (gv_bl g) (lv_end v) fuel (gv_n g) (s + d_size d) [] [])
    as [[a e] c'| |]; cbn [cres_app cres_map fst snd]; [|reflexivity|reflexivity].
  cbv zeta. rewrite rev_involutive. reflexivity.
Qed.
Print Assumptions crange_all_in_trav_groups.

Lemma cr_entries_chunks be b fuel l cl bl lvend : forall j n c addrs acc addrs' acc' c',
  cr_entries be b fuel l cl bl lvend j n c addrs acc = COk (addrs', acc') c' ->
  exists chunks : list (Z * list event),
    addrs' = rev (map fst chunks) ++ addrs /\
    acc' = rev (concat (map chunk_events chunks)) ++ acc /\
    Forall (fun ch => exists cur',
              trav_level be b fuel l cl
                {| lv_start := fst ch; lv_level := fst ch; lv_bl := bl; lv_end := lvend |}
                (if is_empty_level l cl then fst ch + bl else fst ch) []
              = COk (rev (snd ch)) cur') chunks.
Proof.
  induction j as [|j IH]; intros n c addrs acc addrs' acc' c' H.
  - destruct (Z.leb_spec n 0) as [Hle|Hgt].
    + rewrite cr_entries_0 in H by exact Hle. inversion H; subst addrs' acc' c'.
      exists []. repeat split. constructor.
    + rewrite cr_entries_fuel0 in H by exact Hgt. discriminate H.
  - destruct (Z.leb_spec n 0) as [Hle|Hgt].
    + rewrite cr_entries_0 in H by exact Hle. inversion H; subst addrs' acc' c'.
      exists []. repeat split. constructor.
    + rewrite cr_entries_S in H by exact Hgt.
      rewrite (trav_level_acc be b fuel l cl _ _ (EEntry c :: acc)) in H.
      destruct (trav_level be b fuel l cl
                  {| lv_start := c; lv_level := c; lv_bl := bl; lv_end := lvend |}
                  (if is_empty_level l cl then c + bl else c) []) as [a1 c1| |] eqn:Ht;
        cbn [cres_app cres_map] in H; [|discriminate H|discriminate H].
      destruct (IH _ _ _ _ _ _ _ H) as (chunks & Ha & He & Hf).
      exists ((c, rev a1) :: chunks). split; [|split].
      * rewrite Ha. cbn [map fst rev]. rewrite <- app_assoc. reflexivity.
      * rewrite He. cbn [map concat]. unfold chunk_events at 2. cbn [fst snd].
        rewrite rev_app_distr. cbn [rev]. rewrite rev_involutive, <- !app_assoc. reflexivity.
      * constructor; [|exact Hf]. cbn [fst snd]. exists c1. rewrite rev_involutive. exact Ht.
Qed.

Theorem crange_events_shape : stmt_crange_events_shape.
Proof.
  unfold stmt_crange_events_shape, crange_visit.
  intros be b fuel l cl bl lvend count c addrs evs c' H.
  destruct (cr_entries be b fuel l cl bl lvend fuel count c [] []) as [[a e] c1| |] eqn:Hc;
    cbn [cres_map fst snd] in H; [|discriminate H|discriminate H].
  inversion H; subst addrs evs c'.
  destruct (cr_entries_chunks be b fuel l cl bl lvend _ _ _ _ _ _ _ _ Hc) as (chunks & Ha & He & Hf).
  exists chunks. rewrite Ha, He, !app_nil_r, !rev_involutive. repeat split. exact Hf.
Qed.
Print Assumptions crange_events_shape.

Theorem crange_all_events_enc : stmt_crange_all_events_enc.
Proof.
  unfold stmt_crange_all_events_enc. intros be d cbl l cl bg es b pre post fuel Hemb.
  set (addr := entry_addr be d l es (len pre)).
  pose proof (ecount_nonneg es) as Hn0.
  destruct (crange_enc be d cbl l cl bg es b pre post fuel CRAll 0 (ecount es) Hemb eq_refl
              ltac:(lia) Hn0) as (Hrun & _ & _ & Hend).
  fold addr in Hrun, Hend.
  unfold crange_embedded in Hemb.
  destruct Hemb as (Hb & Hwf & Hcl & Hff & Hcntf & Hfc & Hfuel & Hlt).
  unfold group_image in Hb. fold (wire_bl be d bg es) in Hb.
  rewrite wf_groups_cons in Hwf. cbv zeta in Hwf. fold (wire_bl be d bg es) in Hwf.
  set (bl := wire_bl be d bg es) in *.
  destruct Hwf as (Hd & Hlbg & _ & Hfbl & Hfn & Hall & _ & Hwe & _).
  set (D := dim_bytes be d bg bl (ecount es)) in *.
  assert (HlD : len D = d_size d) by (apply len_dim_bytes; assumption).
  assert (Hb3 : b = (pre ++ D) ++ enc_entries be l es ++ post)
    by (rewrite Hb; now rewrite <- !app_assoc).
  assert (Hj : ecount es <= Z.of_nat fuel).
  { destruct (is_flat l) eqn:Hfl; [apply Hcntf; reflexivity|].
    destruct (fuel_entries_b be l es b _ _ fuel Hwe Hb3 Hfuel) as [_ H]. apply H. exact Hfl. }
  (* the events: via trav_entries *)
  pose proof (proj2 (proj2 (T_all be b fuel Hfuel Hlt)) es l cl (pre ++ D) post bl (len b) fuel []
                Hwe Hcl Hff Hfc Hall Hb3 eq_refl Hj) as Htr.
  rewrite <- (cr_entries_is_trav_entries be b fuel l cl bl (len b) fuel (ecount es)
                (len (pre ++ D)) [] []) in Htr.
  rewrite len_app, HlD, app_nil_r in Htr.
  unfold run_crange in Hrun. unfold run_crange_ev in *.
  cbn [crange_bounds crange_start gv_n gv_pos gv_bl img_gview] in *. fold bl in Hrun |- *.
  unfold crange_visit in *.
  destruct (cr_entries be b fuel l cl bl (len b) fuel (ecount es) (len pre + d_size d) [] [])
    as [[a e] c'| |]; cbn [cres_map fst snd] in *; [|discriminate Hrun|discriminate Hrun].
  inversion Hrun as [[Ha Hc]]. inversion Htr as [[He Hc2]].
  rewrite ?rev_involutive. reflexivity.
Qed.
Print Assumptions crange_all_events_enc.

(* ================================================================== *)
(* (C) composition                                                     *)
(* ================================================================== *)

Lemma cr_entries_fuel_irrel be b fuel l cl bl lvend : forall j j' n c addrs acc,
  n <= Z.of_nat j -> n <= Z.of_nat j' ->
  cr_entries be b fuel l cl bl lvend j n c addrs acc
  = cr_entries be b fuel l cl bl lvend j' n c addrs acc.
Proof.
  induction j as [|j IH]; intros j' n c addrs acc H1 H2.
  - rewrite !cr_entries_0 by lia. reflexivity.
  - destruct (Z.leb_spec n 0) as [Hle|Hgt].
    + rewrite !cr_entries_0 by lia. reflexivity.
    + destruct j' as [|j']; [lia|]. rewrite !cr_entries_S by lia.
      destruct (trav_level be b fuel l cl
                  {| lv_start := c; lv_level := c; lv_bl := bl; lv_end := lvend |}
                  (if is_empty_level l cl then c + bl else c) (EEntry c :: acc)) as [acc' c'| |];
        [apply IH; lia|reflexivity|reflexivity].
Qed.

Lemma cr_entries_app be b fuel l cl bl lvend : forall k1 j2 n2 c addrs acc, 0 <= n2 ->
  cr_entries be b fuel l cl bl lvend (k1 + j2) (Z.of_nat k1 + n2) c addrs acc =
  match cr_entries be b fuel l cl bl lvend k1 (Z.of_nat k1) c addrs acc with
  | COk r c' => cr_entries be b fuel l cl bl lvend j2 n2 c' (fst r) (snd r)
  | CAssert => CAssert
  | COob => COob
  end.
Proof.
  induction k1 as [|k1 IH]; intros j2 n2 c addrs acc Hn2.
  - rewrite (cr_entries_0 be b fuel l cl bl lvend 0 (Z.of_nat 0)) by lia.
    cbn [Nat.add fst snd]. f_equal.
  - change (S k1 + j2)%nat with (S (k1 + j2)).
    rewrite !cr_entries_S by lia.
    destruct (trav_level be b fuel l cl
                {| lv_start := c; lv_level := c; lv_bl := bl; lv_end := lvend |}
                (if is_empty_level l cl then c + bl else c) (EEntry c :: acc)) as [acc' c'| |];
      [|reflexivity|reflexivity].
    replace (Z.of_nat (S k1) + n2 - 1) with (Z.of_nat k1 + n2) by lia.
    replace (Z.of_nat (S k1) - 1) with (Z.of_nat k1) by lia.
    apply IH. exact Hn2.
Qed.

Theorem crange_visit_compose : stmt_crange_visit_compose.
Proof.
  unfold stmt_crange_visit_compose, crange_visit.
  intros be b fuel l cl bl lvend c1 c2 c H1 H2 Hf.
  set (k1 := Z.to_nat c1). set (k2 := Z.to_nat c2).
  assert (Hk1 : c1 = Z.of_nat k1) by (unfold k1; lia).
  rewrite (cr_entries_fuel_irrel be b fuel l cl bl lvend fuel (k1 + k2) (c1 + c2)) by lia.
  rewrite (cr_entries_fuel_irrel be b fuel l cl bl lvend fuel k1 c1) by lia.
  rewrite Hk1 at 1 2. rewrite cr_entries_app by exact H2. rewrite <- Hk1.
  destruct (cr_entries be b fuel l cl bl lvend k1 c1 c [] []) as [[a e] c'| |];
    cbn [cres_map fst snd]; [|reflexivity|reflexivity].
  rewrite (cr_entries_fuel_irrel be b fuel l cl bl lvend fuel k2 c2) by lia.
  rewrite (cr_entries_acc be b fuel l cl bl lvend k2 c2 c' a e).
  destruct (cr_entries be b fuel l cl bl lvend k2 c2 c' [] []) as [[a2 e2] c''| |];
    cbn [cres_map fst snd]; [|reflexivity|reflexivity].
  rewrite !rev_app_distr. reflexivity.
Qed.
Print Assumptions crange_visit_compose.

Theorem crange_compose_enc : stmt_crange_compose_enc.
Proof.
  unfold stmt_crange_compose_enc.
  intros be d cbl l cl bg es b pre post fuel pos c1 c2 Hemb Hp H1 H2 Hlt Hle.
  set (g := img_gview be d bg es (len pre)). set (addr := entry_addr be d l es (len pre)).
  set (n := ecount es) in *.
  assert (B1 : crange_bounds n (CRFromCount pos c1) = Some (pos, c1))
    by (apply (proj1 (crange_bounds_spec n (CRFromCount pos c1))); lia).
  assert (B2 : crange_bounds n (CRFromCount (pos + c1) c2) = Some (pos + c1, c2))
    by (apply (proj1 (crange_bounds_spec n (CRFromCount (pos + c1) c2))); lia).
  assert (B3 : crange_bounds n (CRFromCount pos (c1 + c2)) = Some (pos, c1 + c2))
    by (apply (proj1 (crange_bounds_spec n (CRFromCount pos (c1 + c2)))); lia).
  destruct (crange_enc be d cbl l cl bg es b pre post fuel _ _ _ Hemb B1 Hp H1)
    as (R1 & Hep & _ & _).
  destruct (crange_enc be d cbl l cl bg es b pre post fuel _ _ _ Hemb B2 ltac:(lia) H2)
    as (R2 & _ & _ & _).
  destruct (crange_enc be d cbl l cl bg es b pre post fuel _ _ _ Hemb B3 Hp ltac:(lia))
    as (R3 & _ & _ & _).
  fold g addr in R1, R2, R3, Hep.
  exists (map addr (seq (Z.to_nat pos) (Z.to_nat c1))),
         (map addr (seq (Z.to_nat (pos + c1)) (Z.to_nat c2))),
         (addr (Z.to_nat (pos + c1))), (addr (Z.to_nat (pos + c1 + c2))).
  split; [exact R1|]. split; [apply Hep; fold n; lia|]. split; [exact R2|].
  rewrite R3. rewrite Z.add_assoc.
  rewrite (Z2Nat.inj_add c1 c2) by lia. rewrite seq_app, map_app.
  rewrite (Z2Nat.inj_add pos c1) by lia. reflexivity.
Qed.
Print Assumptions crange_compose_enc.

(* ================================================================== *)
(* (E) non-vacuity: a concrete message                                 *)
(* ================================================================== *)
Module CRangeEx.
  (* dimension: blockLength u16 @0, numInGroup u16 @2 *)
  Definition d : dim :=
    {| d_size := 4; d_bl_off := 0; d_bl_t := U16; d_n_off := 2; d_n_t := U16; d_fills := [] |}.
  Definition lflat : level := Level [ {| f_off := 0; f_size := 2 |} ] GNil [].
  Definition linner : level := Level [ {| f_off := 0; f_size := 1 |} ] GNil [].
  (* entries of the nested group: a field, an inner flat group, a <data> *)
  Definition lnested : level :=
    Level [ {| f_off := 0; f_size := 1 |} ] (GCons d 1 linner GNil) [U8].
  Definition m : message :=
    {| m_hdr_size := 8; m_bl_off := 0; m_bl_t := U16; m_cbl := 1; m_fills := [];
       m_level := Level [ {| f_off := 0; f_size := 1 |} ]
                        (GCons d 2 lflat (GCons d 1 lnested GNil)) [] |}.
  Definition acc1 (abs sz : Z) : cacc :=
    {| ca_rel := 0; ca_abs := abs; ca_size := sz; ca_last := true; ca_view := false |}.
  Definition cl : clevel :=
    CLevel [acc1 8 1]
      (CGCons (CLevel [acc1 0 2] CGNil)
      (CGCons (CLevel [acc1 0 1] (CGCons (CLevel [acc1 0 1] CGNil) CGNil)) CGNil)).
  Definition hdrbg : list Z := [0;0;0;0;0;0;0;0].
  Definition dbg : list Z := [5;0;0;0].
  (* flat group: 3 entries *)
  Definition flat3 : ventries :=
    VECons (VLevel [1;2] VGNil [])
   (VECons (VLevel [3;4] VGNil [])
   (VECons (VLevel [5;6] VGNil []) VENil)).
  Definition inner2 : ventries :=
    VECons (VLevel [20] VGNil []) (VECons (VLevel [21] VGNil []) VENil).
  (* nested group: 2 entries with an inner group (2 / 0 entries) and inner data *)
  Definition nested2 : ventries :=
    VECons (VLevel [9] (VGCons dbg inner2 VGNil) [[10;11]])
   (VECons (VLevel [12] (VGCons dbg VENil VGNil) [[13]]) VENil).
  Definition v : vlevel := VLevel [7] (VGCons dbg flat3 (VGCons dbg nested2 VGNil)) [].
  Definition pre : list Z := [255;255].
  Definition post : list Z := [238].
  Definition b : list Z := pre ++ enc_message false m hdrbg v ++ post.

  Example buffer :
    b = [255; 255;  1; 0; 0; 0; 0; 0; 0; 0;  7;
         2; 0; 3; 0;  1; 2;  3; 4;  5; 6;
         1; 0; 2; 0;
           9;  1; 0; 2; 0;  20; 21;  2; 10; 11;
           12; 5; 0; 0; 0;  1; 13;
         238].
  Proof. vm_compute. reflexivity. Qed.

  (* the complete traversal, for comparison: the flat group is at 11 with
     entries at 15, 17, 19; the nested group at 21 with entries at 25, 35 *)
  Example complete_traversal :
    trav_message false b m cl 2 =
    COk [EField 0 10; EGroup 0 11 3; EEntry 15; EField 0 15; EEntry 17; EField 0 17;
         EEntry 19; EField 0 19;
         EGroup 1 21 2; EEntry 25; EField 0 25; EGroup 0 26 2; EEntry 30; EField 0 30;
         EEntry 31; EField 0 31; EData 0 32 2; EEntry 35; EField 0 35; EGroup 0 36 0;
         EData 0 40 1] 42.
  Proof. vm_compute. reflexivity. Qed.

  (* flat group (3 entries) *)
  Example flat_all : run_crange_at false b m cl 2 [] 0 CRAll = COk [15; 17; 19] 21.
  Proof. vm_compute. reflexivity. Qed.
  Example flat_from_1 : run_crange_at false b m cl 2 [] 0 (CRFrom 1) = COk [17; 19] 21.
  Proof. vm_compute. reflexivity. Qed.
  Example flat_from_1_count_1 :
    run_crange_at false b m cl 2 [] 0 (CRFromCount 1 1) = COk [17] 19.
  Proof. vm_compute. reflexivity. Qed.
  Example flat_from_1_count_0 :
    run_crange_at false b m cl 2 [] 0 (CRFromCount 1 0) = COk [] 17.
  Proof. vm_compute. reflexivity. Qed.
  (* failing preconditions *)
  Example flat_pos_eq_size : run_crange_at false b m cl 2 [] 0 (CRFromCount 3 0) = CAssert.
  Proof. vm_compute. reflexivity. Qed.
  Example flat_count_too_big : run_crange_at false b m cl 2 [] 0 (CRFromCount 1 3) = CAssert.
  Proof. vm_compute. reflexivity. Qed.

  (* nested group (2 entries, inner group and data) *)
  Example nested_all : run_crange_at false b m cl 2 [] 1 CRAll = COk [25; 35] 42.
  Proof. vm_compute. reflexivity. Qed.
  Example nested_from_1 : run_crange_at false b m cl 2 [] 1 (CRFrom 1) = COk [35] 42.
  Proof. vm_compute. reflexivity. Qed.
  Example nested_pos_eq_size : run_crange_at false b m cl 2 [] 1 (CRFrom 2) = CAssert.
  Proof. vm_compute. reflexivity. Qed.
  (* groups inside entries of the nested group *)
  Example inner_all : run_crange_at false b m cl 2 [SGroup 1 0] 0 CRAll = COk [30; 31] 32.
  Proof. vm_compute. reflexivity. Qed.
  Example inner_from_1_count_1 :
    run_crange_at false b m cl 2 [SGroup 1 0] 0 (CRFromCount 1 1) = COk [31] 32.
  Proof. vm_compute. reflexivity. Qed.
  Example inner_empty_all : run_crange_at false b m cl 2 [SGroup 1 1] 0 CRAll = COk [] 40.
  Proof. vm_compute. reflexivity. Qed.
  Example inner_empty_from_0 :
    run_crange_at false b m cl 2 [SGroup 1 1] 0 (CRFrom 0) = CAssert.
  Proof. vm_compute. reflexivity. Qed.
  (* no such group; truncated buffers: the size check of a field of entry 1
     fires / the dimension of the inner group of entry 1 is outside *)
  Example no_group : run_crange_at false b m cl 2 [] 2 CRAll = COob.
  Proof. vm_compute. reflexivity. Qed.
  Example truncated_assert : run_crange_at false (firstn 35 b) m cl 2 [] 1 CRAll = CAssert.
  Proof. vm_compute. reflexivity. Qed.
  Example truncated_oob : run_crange_at false (firstn 37 b) m cl 2 [] 1 CRAll = COob.
  Proof. vm_compute. reflexivity. Qed.

  (* the hypotheses of stmt_run_crange_at_enc hold for this message ... *)
  Lemma hyps :
    wf_message false m hdrbg v /\ wf_clevel (m_hdr_size m) (m_level m) cl /\
    fields_fit (m_level m) v /\ len b < 2 ^ 64 /\ flat_blocks_pos (m_level m) v.
  Proof.
    unfold wf_message, wf_dim, fits, is_unsigned_ity. cbn.
    repeat split; try lia; try reflexivity; try (vm_compute; congruence);
      try (left; vm_compute; congruence); repeat constructor; cbn; lia.
  Qed.

  (* ... so the theorems apply to it; their right-hand sides (computed from the
     value tree only) evaluate to what the model computed above *)
  Example theorem_instance_inner :
    run_crange_at false b m cl (len pre) [SGroup 1 0] 0 (CRFromCount 1 1) = COk [31] 32.
  Proof.
    destruct hyps as (H1 & H2 & H3 & H4 & H5).
    pose proof (run_crange_at_enc false m cl hdrbg v pre post [SGroup 1 0] 0%nat
                  lnested (VLevel [9] (VGCons dbg inner2 VGNil) [[10;11]]) 15
                  d 1 linner dbg inner2 (CRFromCount 1 1) 1 1
                  H1 H2 H3 H4 H5 eq_refl eq_refl eq_refl eq_refl ltac:(lia) ltac:(lia)) as H.
    cbv zeta in H. destruct H as (_ & Hrun & _).
    unfold b. rewrite Hrun. vm_compute. reflexivity.
  Qed.

  Example theorem_instance_nested :
    run_crange_at false b m cl (len pre) [] 1 CRAll = COk [25; 35] 42.
  Proof.
    destruct hyps as (H1 & H2 & H3 & H4 & H5).
    pose proof (run_crange_at_enc false m cl hdrbg v pre post [] 1%nat
                  (m_level m) v 0 d 1 lnested dbg nested2 CRAll 0 2
                  H1 H2 H3 H4 H5 eq_refl eq_refl eq_refl eq_refl ltac:(lia) ltac:(lia)) as H.
    cbv zeta in H. destruct H as (_ & Hrun & _).
    unfold b. rewrite Hrun. vm_compute. reflexivity.
  Qed.

  Example theorem_instance_flat :
    run_crange_at false b m cl (len pre) [] 0 (CRFrom 1) = COk [17; 19] 21.
  Proof.
    destruct hyps as (H1 & H2 & H3 & H4 & H5).
    pose proof (run_crange_at_enc false m cl hdrbg v pre post [] 0%nat
                  (m_level m) v 0 d 2 lflat dbg flat3 (CRFrom 1) 1 2
                  H1 H2 H3 H4 H5 eq_refl eq_refl eq_refl eq_refl ltac:(lia) ltac:(lia)) as H.
    cbv zeta in H. destruct H as (_ & Hrun & _).
    unfold b. rewrite Hrun. vm_compute. reflexivity.
  Qed.

  (* (C) without the side condition pos + c1 < numInGroup: subrange(1, 2)
     succeeds and ends the group, but "continuing" with subrange(3, 0) violates
     the precondition pos < size(), while subrange(1, 2 + 0) is fine *)
  Definition gflat : gview := {| gv_pos := 11; gv_bl := 2; gv_n := 3 |}.
  Definition clflat : clevel := CLevel [acc1 0 2] CGNil.
  Example compose_first :
    run_crange false b (default_fuel b) d lflat clflat (len b) gflat (CRFromCount 1 2)
    = COk [17; 19] 21.
  Proof. vm_compute. reflexivity. Qed.
  Example compose_second :
    run_crange false b (default_fuel b) d lflat clflat (len b) gflat (CRFromCount (1 + 2) 0)
    = CAssert.
  Proof. vm_compute. reflexivity. Qed.
  Example compose_whole :
    run_crange false b (default_fuel b) d lflat clflat (len b) gflat (CRFromCount 1 (2 + 0))
    = COk [17; 19] 21.
  Proof. vm_compute. reflexivity. Qed.
End CRangeEx.

Theorem crange_compose_naive_false : ~ stmt_crange_compose_naive.
Proof.
  intros H.
  specialize (H false CRangeEx.b (default_fuel CRangeEx.b) CRangeEx.d CRangeEx.lflat
                CRangeEx.clflat (len CRangeEx.b) CRangeEx.gflat 1 2 0 [17; 19] 21
                ltac:(lia) ltac:(lia) ltac:(lia) CRangeEx.compose_first).
  rewrite CRangeEx.compose_whole, CRangeEx.compose_second in H. discriminate H.
Qed.
Print Assumptions crange_compose_naive_false.
