(* Properties_C20.v — C20: sbeppc's exit status is truthful.  Only statements
   closed by [exact]; definitions are in IoModel.v, proofs in IoModelProofs.v.
   [run] is the repaired fs_provider::write_file (stream state checked after
   close()); the unrepaired code is [IoModel.Legacy.run], refuted by
   [IoModelProofs.legacy_exit0_complete_refuted].  "Same schema => byte
   identical files" is [run x = run x] in a functional model: it has no proof
   content here and is decided by the correspondence alone. *)
From Coq Require Import ZArith List.
From Sbepp Require Import IoModel IoModelProofs.
Import ListNotations.

(* for every plan, every behaviour of the operating system and every initial
   disk: exit status 0 => each path holds exactly what the plan asks for (the
   last planned content for a planned path, the old content otherwise) *)
Theorem C20_exit0_complete : forall (pl : plan) (orc : oracle) (d0 : disk),
  status (run pl orc d0) = 0 ->
  forall p, file_of (final (run pl orc d0)) p = lookup (planned pl (files d0)) p.
Proof. exact exit0_complete. Qed.
Print Assumptions C20_exit0_complete.

(* ... so when no path is planned twice every planned file exists with exactly
   its full content *)
Theorem C20_exit0_every_file : forall (pl : plan) (orc : oracle) (d0 : disk),
  NoDup (map fst (plan_files pl)) ->
  status (run pl orc d0) = 0 ->
  forall p c, In (p, c) (plan_files pl) -> file_of (final (run pl orc d0)) p = Some c.
Proof. exact exit0_every_file. Qed.
Print Assumptions C20_exit0_every_file.

(* the plan schema_compiler::compile() makes from the generated files: type
   and message names are unique (schema_parser rejects duplicates) => exit
   status 0 means every generated header is on the disk, complete *)
Theorem C20_exit0_complete_sbeppc : forall (g : generated) (orc : oracle) (d0 : disk),
  NoDup (map fst (type_files g)) -> NoDup (map fst (message_files g)) ->
  status (run (plan_of g) orc d0) = 0 ->
  let base := out_dir g ++ [schema_name g] in
  let d := final (run (plan_of g) orc d0) in
  (forall n c, In (n, c) (type_files g) -> file_of d (base ++ [s_types; n ++ s_hpp]) = Some c) /\
  file_of d (base ++ [s_schema; s_schema ++ s_hpp]) = Some (schema_hdr g) /\
  (forall n c, In (n, c) (message_files g) -> file_of d (base ++ [s_messages; n ++ s_hpp]) = Some c) /\
  file_of d (base ++ [schema_name g ++ s_hpp]) = Some (top_hdr g).
Proof. exact exit0_complete_sbeppc. Qed.
Print Assumptions C20_exit0_complete_sbeppc.

(* any primitive call (mkdir, open, write, close) that was made and failed =>
   non-zero exit status and a diagnostic *)
Theorem C20_fault_reported : forall (pl : plan) (orc : oracle) (d0 : disk),
  (exists k, k < ncalls (run pl orc d0) /\ fails (orc k) = true) ->
  status (run pl orc d0) <> 0 /\ diagnostic (run pl orc d0) <> None.
Proof. exact fault_reported. Qed.
Print Assumptions C20_fault_reported.

(* a non-zero exit status is never spurious *)
Theorem C20_error_only_on_fault : forall (pl : plan) (orc : oracle) (d0 : disk),
  status (run pl orc d0) <> 0 ->
  exists k, k < ncalls (run pl orc d0) /\ fails (orc k) = true.
Proof. exact error_only_on_fault. Qed.
Print Assumptions C20_error_only_on_fault.

(* no call that is made fails (short writes are allowed) => exit status 0, no
   diagnostic, disk = plan *)
Theorem C20_no_fault_ok : forall (pl : plan) (orc : oracle) (d0 : disk),
  (forall k, k < ncalls (run pl orc d0) -> fails (orc k) = false) ->
  status (run pl orc d0) = 0 /\ diagnostic (run pl orc d0) = None /\
  forall p, file_of (final (run pl orc d0)) p = lookup (planned pl (files d0)) p.
Proof. exact no_fault_ok. Qed.
Print Assumptions C20_no_fault_ok.

(* compiling again into the directory a successful run populated leaves every
   file as it was (whatever the two environments did, as long as both exit 0) *)
Theorem C20_rerun_same_files : forall (pl : plan) (orc1 orc2 : oracle) (d0 : disk),
  status (run pl orc1 d0) = 0 ->
  status (run pl orc2 (final (run pl orc1 d0))) = 0 ->
  forall p, file_of (final (run pl orc2 (final (run pl orc1 d0)))) p
            = file_of (final (run pl orc1 d0)) p.
Proof. exact rerun_same_files. Qed.
Print Assumptions C20_rerun_same_files.
