(* CheckedAccessProofs.v — C10 about the explicit size checks of the library
   (CheckedAccess.v) for ALL buffers, tables and paths.

   (a) no silent out-of-bounds: every byte range an operation touches -- also
       the ranges touched before an assertion fires -- lies inside the buffer;
   (c) agreement: a returned value is the value of the unchecked Msg.v function
       (whose reads are bounds-tested);
   (b) no spurious report: when the message lies inside the buffer and the
       unchecked function returns a value, no check fires and the same value is
       returned; every report of a size check names an extent that leaves the
       buffer.

   Statements first; proofs below. *)
From Coq Require Import ZArith List Bool Lia.
From Sbepp Require Import CInt CIntFacts Bytes BytesFacts Msg MsgSpec MsgProofs Cursor SizeCheck
  CursorProofs ScriptSpec CheckedProofs CheckedAccess.
Import ListNotations.
Local Open Scope Z_scope.

(* ================================================================== *)
(* Statements                                                          *)
(* ================================================================== *)

(* the operations the C10 check exercises *)
Inductive op :=
| OField (path : list step) (k : nat)
| OArrayElem (path : list step) (k : nat) (i : Z)
| OArray (path : list step) (k : nat)
| OCompMember (path : list step) (k : nat) (moff msize : Z)
| OGroupInfo (path : list step) (k : nat)
| OGroupSize (path : list step) (k : nat)
| OEntrySize (path : list step)
| OMsgSize
| ODataInfo (path : list step) (k : nat)
| OData (path : list step) (k : nat).

(* result values, made comparable across operations *)
Inductive oval :=
| VBytes (bs : list Z)
| VNum (z : Z)
| VGroup (g : gview) (d : dim) (cbl : Z) (sub : level)
| VPair (p n : Z).

Definition amap {A B} (f : A -> B) (r : ares A) : ares B :=
  match r with AOk a t => AOk (f a) t | AAssert t w => AAssert t w end.

(* the checked operation ... *)
Definition run_checked (be : bool) (b : list Z) (m : message) (base : Z) (o : op) : ares oval :=
  match o with
  | OField p k => amap VBytes (cget_field be b m base p k)
  | OArrayElem p k i => amap VBytes (cget_array_elem be b m base p k i)
  | OArray p k => amap VBytes (cget_array be b m base p k)
  | OCompMember p k moff msize => amap VBytes (cget_comp_member be b m base p k moff msize)
  | OGroupInfo p k => amap (fun q => let '(g, d, cbl, sub) := q in VGroup g d cbl sub)
                           (cgroup_info be b m base p k)
  | OGroupSize p k => amap VNum (cgroup_size_bytes be b m base p k)
  | OEntrySize p => amap VNum (centry_size_bytes be b m base p)
  | OMsgSize => amap VNum (cmsg_size_bytes be b m base)
  | ODataInfo p k => amap (fun q => VPair (fst q) (snd q)) (cdata_info be b m base p k)
  | OData p k => amap VBytes (cget_data be b m base p k)
  end.

(* size_bytes of the view a path leads to: the message for the empty path *)
Definition entry_or_msg_size (be : bool) (b : list Z) (m : message) (base : Z) (path : list step)
  : option Z :=
  match path with
  | [] => msg_size_bytes be b m base
  | _ => entry_size_bytes be b m base path
  end.

(* ... and its unchecked counterpart: the Msg.v function (bounds-tested reads) *)
Definition run_unchecked (be : bool) (b : list Z) (m : message) (base : Z) (o : op) : option oval :=
  match o with
  | OField p k => option_map VBytes (get_field be b m base p k)
  | OArrayElem p k i => option_map VBytes (get_array_elem be b m base p k i)
  | OArray p k => option_map VBytes (get_field be b m base p k)
  | OCompMember p k moff msize => option_map VBytes (get_comp_member be b m base p k moff msize)
  | OGroupInfo p k => option_map (fun q => let '(g, d, cbl, sub) := q in VGroup g d cbl sub)
                                 (locate_group be b m base p k)
  | OGroupSize p k => option_map VNum (group_size_bytes be b m base p k)
  | OEntrySize p => option_map VNum (entry_or_msg_size be b m base p)
  | OMsgSize => option_map VNum (msg_size_bytes be b m base)
  | ODataInfo p k => option_map (fun q => VPair (fst q) (snd q)) (data_info be b m base p k)
  | OData p k => option_map VBytes (get_data be b m base p k)
  end.

(* the table is well formed: the header member read by the runtime lies inside
   the header, offsets and sizes are not negative, dimension members lie inside
   the dimension (ScriptSpec.wf_table_level) *)
Definition wf_msg (m : message) : Prop :=
  0 <= m_bl_off m /\ m_bl_off m + tbytes (m_bl_t m) <= m_hdr_size m /\
  wf_table_level (m_level m).

(* the buffer holds bytes, is addressable, the message view starts inside the
   address space *)
Definition env_ok (b : list Z) (base : Z) : Prop :=
  bytes_ok b = true /\ len b < 2 ^ 64 /\ 0 <= base.

Definition inside (b : list Z) (r : Z * Z) : Prop :=
  0 <= fst r /\ 0 <= snd r /\ fst r + snd r <= len b.

(* composite member arguments are those of a member inside the composite *)
Definition op_args_ok (o : op) : Prop :=
  match o with OCompMember _ _ moff msize => 0 <= moff /\ 0 <= msize | _ => True end.

(* (a) no silent out-of-bounds.  [trace_of] is the list of touched ranges of an
   AOk result and the list touched BEFORE the assertion of an AAssert result. *)
Definition stmt_checked_touches_inside : Prop :=
  forall be b m base o,
    wf_msg m -> env_ok b base -> op_args_ok o ->
    Forall (inside b) (trace_of (run_checked be b m base o)).

(* (a'), the literal property text, for ANY table, buffer, base and arguments:
   no byte at or beyond the end of the view is touched *)
Definition stmt_checked_nothing_beyond_end : Prop :=
  forall be b m base o,
    Forall (fun r => fst r + snd r <= len b) (trace_of (run_checked be b m base o)).

(* (c) agreement with Msg.v *)
Definition stmt_checked_agrees : Prop :=
  forall be b m base o v tr,
    wf_msg m -> env_ok b base -> op_args_ok o ->
    run_checked be b m base o = AOk v tr -> run_unchecked be b m base o = Some v.

(* (b1) a size-check report is justified: the extent [begin+off, begin+off+size)
   the failing SBEPP_SIZE_CHECK claims is not inside the buffer *)
Definition stmt_checked_report_justified : Prop :=
  forall be b m base o tr begin off size,
    wf_msg m -> env_ok b base -> op_args_ok o ->
    run_checked be b m base o = AAssert tr (WCheck begin off size) ->
    0 <= begin /\ 0 <= off /\ ~ (begin + off + size <= len b).

(* no 64-bit wrap-around in the size_t arithmetic of flat sizes (true for every
   header whose blockLength / numInGroup have at most 32 bits) *)
Definition dim_nowrap (d : dim) : Prop :=
  d_size d + (2 ^ bits (d_n_t d)) * (2 ^ bits (d_bl_t d)) <= 2 ^ 64.

Fixpoint nowrap_level (l : level) {struct l} : Prop :=
  match l with Level _ gs _ => nowrap_groups gs end
with nowrap_groups (gs : groups) {struct gs} : Prop :=
  match gs with
  | GNil => True
  | GCons d _ l rest => dim_nowrap d /\ nowrap_level l /\ nowrap_groups rest
  end.

Definition msg_nowrap (m : message) : Prop :=
  m_hdr_size m + 2 ^ bits (m_bl_t m) <= 2 ^ 64 /\ nowrap_level (m_level m).

(* (b2) no spurious report: the message (as its own size_bytes describes it)
   lies inside the buffer and the documented preconditions hold (the unchecked
   function returns a value): the checked operation returns that value *)
Definition stmt_checked_no_spurious : Prop :=
  forall be b m base o s v,
    wf_msg m -> msg_nowrap m -> env_ok b base -> op_args_ok o ->
    msg_size_bytes be b m base = Some s -> base + s <= len b ->
    run_unchecked be b m base o = Some v ->
    exists tr, run_checked be b m base o = AOk v tr.

(* (b0) the naive criterion "every byte the unchecked function READS lies
   inside the buffer => no report" does NOT hold for the library: get_header
   checks the whole dimension / header composite although only blockLength and
   numInGroup are read, and a forward-iterator step checks the whole entry it
   steps over.  Refuted below by a 12-byte buffer that ends inside a 6-byte
   dimension, after its blockLength and numInGroup. *)
Definition stmt_read_extent_criterion : Prop :=
  forall be b m base o v,
    wf_msg m -> msg_nowrap m -> env_ok b base -> op_args_ok o ->
    run_unchecked be b m base o = Some v ->
    exists tr, run_checked be b m base o = AOk v tr.

(* ================================================================== *)
(* Generic facts                                                       *)
(* ================================================================== *)

Lemma obind_some' {A B} (o : option A) (f : A -> option B) r :
  obind o f = Some r -> exists a, o = Some a /\ f a = Some r.
Proof. destruct o as [a|]; cbn [obind]; [|discriminate]. intros H. exists a. auto. Qed.

Lemma uac_size_t t : uac SIZE_T t = U64.
Proof. destruct t; reflexivity. Qed.

Lemma flat_group_size_nonneg d n bl s : flat_group_size d n bl = Some s -> 0 <= s.
Proof.
  unfold flat_group_size, cmul, cadd, cbin. rewrite uac_size_t.
  unfold arith. cbn [is_signed obind]. change (uac SIZE_T SIZE_T) with U64. cbn [is_signed].
  intros H. injection H as <-. unfold wrap. cbn [is_signed bits].
  apply Z.mod_pos_bound. reflexivity.
Qed.

Lemma flat_level_size_nonneg h bl s : flat_level_size h bl = Some s -> 0 <= s.
Proof.
  unfold flat_level_size, cadd, cbin. change (uac SIZE_T SIZE_T) with U64.
  unfold arith. cbn [is_signed]. intros H. injection H as <-. unfold wrap. cbn [is_signed bits].
  apply Z.mod_pos_bound. reflexivity.
Qed.

Lemma slice_zero b off : slice b off 0 = [].
Proof. unfold slice. reflexivity. Qed.

Lemma skipn_add {A} (l : list A) : forall y x, skipn x (skipn y l) = skipn (y + x) l.
Proof.
  induction l as [|a l IH]; intros y x.
  - rewrite !skipn_nil. reflexivity.
  - destruct y as [|y]; [reflexivity|]. cbn [skipn Nat.add]. apply IH.
Qed.

Lemma nth_error_Forall {A} (P : A -> Prop) l k x :
  Forall P l -> nth_error l k = Some x -> P x.
Proof. intros HF Hn. apply nth_error_In in Hn. rewrite Forall_forall in HF. auto. Qed.

Lemma groups_end_single be b fuel d cbl l rest p :
  groups_end be b fuel (GCons d cbl l rest) p =
  obind (groups_end be b fuel (GCons d cbl l GNil) p) (fun p' => groups_end be b fuel rest p').
Proof.
  rewrite !groups_end_cons.
  destruct (rd be b (p + d_bl_off d) (d_bl_t d)) as [bl|]; cbn [obind]; [|reflexivity].
  destruct (rd be b (p + d_n_off d) (d_n_t d)) as [n|]; cbn [obind]; [|reflexivity].
  destruct (if is_flat l then _ else _) as [p'|]; cbn [obind groups_end]; reflexivity.
Qed.

(* ================================================================== *)
(* Soundness: (a) and (c)                                              *)
(* ================================================================== *)

Section Sound.
  Variables (be : bool) (b : list Z).
  Hypothesis Hok : bytes_ok b = true.
  Hypothesis Hlen : len b < 2 ^ 64.

  Definition inb (r : Z * Z) : Prop := in_buf b (fst r) (snd r) = true.

  (* [r] extends the trace [tr] by ranges inside the buffer and, when it is a
     value, the value satisfies Q *)
  (* a size-check report names an extent that is not inside the buffer *)
  Definition why_ok (w : why) : Prop :=
    match w with
    | WCheck g o s => 0 <= g /\ 0 <= o /\ ~ (g + o + s <= len b)
    | WPre => True
    end.

  Definition sound {A} (tr : trace) (r : ares A) (Q : A -> Prop) : Prop :=
    exists delta, trace_of r = tr ++ delta /\ Forall inb delta /\
      match r with AOk x _ => Q x | AAssert _ w => why_ok w end.

  Lemma sound_ret {A} tr (x : A) (Q : A -> Prop) : Q x -> sound tr (AOk x tr) Q.
  Proof. intros H. exists []. cbn [trace_of]. rewrite app_nil_r. auto. Qed.

  Lemma sound_assert {A} tr w (Q : A -> Prop) : why_ok w -> sound tr (AAssert tr w) Q.
  Proof. intros H. exists []. cbn [trace_of]. rewrite app_nil_r. auto. Qed.

  Lemma sound_assert_pre {A} tr (Q : A -> Prop) : sound tr (AAssert tr WPre) Q.
  Proof. apply sound_assert. exact I. Qed.

  Lemma sound_bind {A B} tr (r : ares A) (f : A -> trace -> ares B) (Q : A -> Prop)
    (Q' : B -> Prop) :
    sound tr r Q -> (forall x tr1, Q x -> sound tr1 (f x tr1) Q') -> sound tr (abind r f) Q'.
  Proof.
    intros (d1 & Ht & Hd1 & Hq) Hf. destruct r as [x t|t w]; cbn [abind trace_of] in *.
    - subst t. destruct (Hf x (tr ++ d1) Hq) as (d2 & Ht2 & Hd2 & Hq2).
      exists (d1 ++ d2). rewrite app_assoc. split; [exact Ht2|]. split; [|exact Hq2].
      apply Forall_app. auto.
    - exists d1. auto.
  Qed.

  Lemma sound_weaken {A} tr (r : ares A) (Q Q' : A -> Prop) :
    sound tr r Q -> (forall x, Q x -> Q' x) -> sound tr r Q'.
  Proof.
    intros (d & Ht & Hd & Hq) H. exists d. split; [exact Ht|]. split; [exact Hd|].
    destruct r; auto.
  Qed.

  Lemma sound_pre tr c : sound tr (pre c tr) (fun _ => c = true).
  Proof. unfold pre. destruct c; [apply sound_ret; reflexivity|apply sound_assert_pre]. Qed.

  Lemma sound_alift {A} tr (o : option A) : sound tr (alift o tr) (fun x => o = Some x).
  Proof. unfold alift. destruct o; [apply sound_ret; reflexivity|apply sound_assert_pre]. Qed.

  Lemma check_bounds begin off size :
    0 <= begin -> size_check begin (len b) off size = true ->
    begin <= len b /\ begin + off + size <= len b.
  Proof. intros Hb H. apply size_check_sound in H; [exact H|lia]. Qed.

  Lemma sound_chk tr begin off size : 0 <= begin -> 0 <= off -> 0 <= size ->
    sound tr (chk b begin off size tr) (fun _ => begin <= len b /\ begin + off + size <= len b).
  Proof.
    intros Hb Ho Hs. unfold chk. destruct (size_check begin (len b) off size) eqn:E.
    - apply sound_ret. apply check_bounds; assumption.
    - apply sound_assert. cbn [why_ok]. split; [exact Hb|]. split; [exact Ho|]. intros Hle.
      rewrite size_check_complete in E; [discriminate E|lia|lia|exact Hle].
  Qed.

  Lemma val_nonneg off w : 0 <= dec be (slice b off w).
  Proof. apply dec_nonneg, bytes_ok_slice, Hok. Qed.

  Lemma rd_in off t : 0 <= off -> off + tbytes t <= len b ->
    rd be b off t = Some (dec be (slice b off (tbytes t))).
  Proof.
    intros H1 H2. unfold rd.
    replace (in_buf b off (tbytes t)) with true; [reflexivity|].
    symmetry. apply in_buf_iff. pose proof (tbytes_pos t). lia.
  Qed.

  Lemma rd_some off t v : rd be b off t = Some v ->
    0 <= off /\ off + tbytes t <= len b /\ v = dec be (slice b off (tbytes t)) /\ 0 <= v.
  Proof.
    unfold rd. destruct (in_buf b off (tbytes t)) eqn:E; [|discriminate].
    intros H. injection H as <-. apply in_buf_iff in E. pose proof (val_nonneg off (tbytes t)). lia.
  Qed.

  Lemma sound_touch_bytes tr off n : 0 <= off -> 0 <= n -> off + n <= len b ->
    sound tr (touch_bytes b off n tr) (fun x => rd_bytes b off n = Some x).
  Proof.
    intros H1 H2 H3. exists [(off, n)]. cbn [touch_bytes trace_of]. split; [reflexivity|].
    assert (E : in_buf b off n = true) by (apply in_buf_iff; lia).
    split; [constructor; [exact E|constructor]|]. unfold rd_bytes. rewrite E. reflexivity.
  Qed.

  Lemma sound_touch_val tr off t : 0 <= off -> off + tbytes t <= len b ->
    sound tr (touch_val be b off t tr) (fun x => rd be b off t = Some x /\ 0 <= x).
  Proof.
    intros H1 H2. exists [(off, tbytes t)]. cbn [touch_val trace_of]. split; [reflexivity|].
    pose proof (tbytes_pos t).
    assert (E : in_buf b off (tbytes t) = true) by (apply in_buf_iff; lia).
    split; [constructor; [exact E|constructor]|]. split; [apply rd_in; assumption|apply val_nonneg].
  Qed.

  Lemma sound_get_value tr begin off t : 0 <= begin -> 0 <= off ->
    sound tr (cget_value be b begin off t tr)
      (fun x => rd be b (begin + off) t = Some x /\ 0 <= x /\ begin + off + tbytes t <= len b).
  Proof.
    intros Hb Ho. unfold cget_value. pose proof (tbytes_pos t) as Htp.
    eapply sound_bind; [apply sound_chk; [exact Hb|exact Ho|lia]|].
    intros ? tr1 [_ H]. eapply sound_weaken; [apply sound_touch_val; lia|].
    cbn beta. intros y [H1 H2]. auto.
  Qed.

  Lemma sound_get_bytes tr begin off n : 0 <= begin -> 0 <= off -> 0 <= n ->
    sound tr (cget_bytes b begin off n tr)
      (fun x => rd_bytes b (begin + off) n = Some x /\ begin + off + n <= len b).
  Proof.
    intros Hb Ho Hn. unfold cget_bytes. eapply sound_bind; [apply sound_chk; assumption|].
    intros ? tr1 [_ H]. eapply sound_weaken; [apply sound_touch_bytes; lia|].
    cbn beta. intros y H1. auto.
  Qed.

  (* ---- group headers ---- *)
  Lemma sound_group_header tr d g : wf_dim d -> 0 <= g ->
    sound tr (cgroup_header b d g tr) (fun _ => g + d_size d <= len b).
  Proof.
    intros Hd Hg. unfold cgroup_header. pose proof (wf_dim_size_pos d Hd) as Hsz.
    eapply sound_weaken; [apply sound_chk; [exact Hg|lia|lia]|].
    cbn beta. intros _ [_ H]. lia.
  Qed.

  Lemma sound_group_num tr d g : wf_dim d -> 0 <= g ->
    sound tr (cgroup_num be b d g tr)
      (fun n => rd be b (g + d_n_off d) (d_n_t d) = Some n /\ 0 <= n /\ g + d_size d <= len b).
  Proof.
    intros Hd Hg. unfold cgroup_num. eapply sound_bind; [apply sound_group_header; assumption|].
    intros ? tr1 Hh. eapply sound_weaken; [apply sound_get_value; [exact Hg|apply Hd]|].
    cbn beta. intros y (H1 & H2 & _). auto.
  Qed.

  Lemma sound_group_bl tr d g : wf_dim d -> 0 <= g ->
    sound tr (cgroup_bl be b d g tr)
      (fun bl => rd be b (g + d_bl_off d) (d_bl_t d) = Some bl /\ 0 <= bl /\ g + d_size d <= len b).
  Proof.
    intros Hd Hg. unfold cgroup_bl. eapply sound_bind; [apply sound_group_header; assumption|].
    intros ? tr1 Hh. eapply sound_weaken; [apply sound_get_value; [exact Hg|apply Hd]|].
    cbn beta. intros y (H1 & H2 & _). auto.
  Qed.

  (* ---- data ---- *)
  Lemma sound_data_len tr t p : 0 <= p ->
    sound tr (cdata_len be b t p tr)
      (fun n => rd be b p t = Some n /\ 0 <= n /\ p + tbytes t <= len b).
  Proof.
    intros Hp. unfold cdata_len. eapply sound_weaken; [apply sound_get_value; lia|].
    cbn beta. rewrite Z.add_0_r. auto.
  Qed.

  Lemma sound_data_size_bytes tr t p : 0 <= p ->
    sound tr (cdata_size_bytes be b t p tr)
      (fun s => exists n, rd be b p t = Some n /\ s = tbytes t + n /\ 0 <= n).
  Proof.
    intros Hp. unfold cdata_size_bytes. eapply sound_bind; [apply sound_data_len; exact Hp|].
    intros n tr1 (H1 & H2 & _). apply sound_ret. exists n. auto.
  Qed.

  Lemma sound_datas_end : forall ds tr p, 0 <= p ->
    sound tr (cdatas_end be b ds p tr) (fun e => datas_end be b ds p = Some e /\ p <= e).
  Proof.
    induction ds as [|t ds IH]; intros tr p Hp; cbn [cdatas_end datas_end].
    - apply sound_ret. split; [reflexivity|lia].
    - eapply sound_bind; [apply sound_data_size_bytes; exact Hp|].
      intros s tr1 (n & Hr & -> & Hn). rewrite Hr. cbn [obind].
      pose proof (tbytes_pos t).
      eapply sound_weaken; [apply IH; lia|]. cbn beta.
      rewrite Z.add_assoc. intros e [H1 H2]. split; [exact H1|lia].
  Qed.

  (* ---- iterator steps; [L] is the unchecked end-of-entry function ---- *)
  Definition lend_spec (lend : Z -> trace -> ares Z) (L : Z -> option Z) : Prop :=
    forall q tr, 0 <= q -> sound tr (lend q tr) (fun e => L q = Some e /\ q <= e).

  Lemma sound_incr lend L tr ptr : lend_spec lend L -> 0 <= ptr ->
    sound tr (cincr b lend ptr tr) (fun e => L ptr = Some e /\ ptr <= e).
  Proof.
    intros HL Hp. unfold cincr, chk_begin.
    eapply sound_bind; [apply sound_chk; [exact Hp|lia|lia]|]. intros ? tr1 _.
    eapply sound_bind; [apply HL; exact Hp|]. cbn beta. intros e tr2 [_ He].
    eapply sound_bind; [apply sound_chk; [exact Hp|lia|lia]|]. intros ? tr3 _.
    apply HL. exact Hp.
  Qed.

  Lemma sound_walk lend fuel l bl :
    lend_spec lend (fun q => level_end be b fuel l q bl) ->
    forall k tr n ptr, 0 <= ptr ->
    sound tr (cwalk b lend k n ptr tr)
      (fun e => entries_walk be b fuel l bl k n ptr = Some e /\ ptr <= e).
  Proof.
    intros HL. induction k as [|k IH]; intros tr n ptr Hp; cbn [cwalk entries_walk].
    - destruct (n <=? 0); [apply sound_ret; split; [reflexivity|lia]|apply sound_assert_pre].
    - destruct (n <=? 0); [apply sound_ret; split; [reflexivity|lia]|].
      eapply sound_bind; [apply (sound_incr _ _ _ _ HL Hp)|]. cbn beta.
      intros p' tr1 [H1 H2]. rewrite H1. cbn [obind].
      eapply sound_weaken; [apply IH; lia|]. cbn beta. intros e [H3 H4]. split; [exact H3|lia].
  Qed.

  Lemma sound_sum lend fuel l bl :
    lend_spec lend (fun q => level_end be b fuel l q bl) ->
    forall k tr n ptr, 0 <= ptr ->
    sound tr (csum b lend k n ptr tr)
      (fun e => entries_walk be b fuel l bl k n ptr = Some e /\ ptr <= e).
  Proof.
    intros HL. induction k as [|k IH]; intros tr n ptr Hp; cbn [csum entries_walk].
    - destruct (n <=? 0); [apply sound_ret; split; [reflexivity|lia]|apply sound_assert_pre].
    - destruct (n <=? 0); [apply sound_ret; split; [reflexivity|lia]|].
      eapply sound_bind; [apply HL; exact Hp|]. intros ? tr0 _.
      eapply sound_bind; [apply (sound_incr _ _ _ _ HL Hp)|]. cbn beta.
      intros p' tr1 [H1 H2]. rewrite H1. cbn [obind].
      eapply sound_weaken; [apply IH; lia|]. cbn beta. intros e [H3 H4]. split; [exact H3|lia].
  Qed.

  (* ---- group sizes ---- *)
  Lemma sound_flat_group_end tr d g : wf_dim d -> 0 <= g ->
    sound tr (cflat_group_end be b d g tr)
      (fun e => exists bl n s, rd be b (g + d_bl_off d) (d_bl_t d) = Some bl /\
                rd be b (g + d_n_off d) (d_n_t d) = Some n /\
                flat_group_size d n bl = Some s /\ e = g + s /\ g <= e).
  Proof.
    intros Hd Hg. unfold cflat_group_end.
    eapply sound_bind; [apply sound_group_header; assumption|]. intros ? tr1 _.
    eapply sound_bind; [apply sound_get_value; [exact Hg|apply Hd]|]. intros n tr2 (Hn & _ & _).
    eapply sound_bind; [apply sound_get_value; [exact Hg|apply Hd]|]. intros bl tr3 (Hbl & _ & _).
    eapply sound_bind; [apply sound_alift|]. cbn beta. intros s tr4 Hs.
    apply sound_ret. exists bl, n, s. pose proof (flat_group_size_nonneg _ _ _ _ Hs).
    repeat split; try assumption; lia.
  Qed.

  Lemma sound_nested_group_end lend fuel l tr d g : wf_dim d -> 0 <= g ->
    (forall bl, 0 <= bl -> lend_spec (lend bl) (fun q => level_end be b fuel l q bl)) ->
    sound tr (cnested_group_end be b lend fuel d g tr)
      (fun e => exists bl n, rd be b (g + d_bl_off d) (d_bl_t d) = Some bl /\
                rd be b (g + d_n_off d) (d_n_t d) = Some n /\
                entries_walk be b fuel l bl fuel n (g + d_size d) = Some e /\ g <= e).
  Proof.
    intros Hd Hg HL. unfold cnested_group_end.
    eapply sound_bind; [apply sound_group_header; assumption|]. intros ? tr1 _.
    eapply sound_bind; [apply sound_group_bl; assumption|]. intros bl tr2 (Hbl & Hbl0 & _).
    eapply sound_bind; [apply sound_group_num; assumption|]. intros n tr3 (Hn & _ & _).
    eapply sound_bind; [apply sound_group_bl; assumption|]. intros ? tr4 _.
    pose proof (wf_dim_size_pos d Hd).
    eapply sound_weaken; [apply (sound_sum _ fuel l bl (HL bl Hbl0)); lia|].
    cbn beta. intros e [H1 H2]. exists bl, n. repeat split; try assumption; lia.
  Qed.

  Definition S_level (l : level) : Prop :=
    forall fuel tr pos bl, wf_table_level l -> 0 <= pos -> 0 <= bl ->
      sound tr (clevel_end be b fuel l pos bl tr)
        (fun e => level_end be b fuel l pos bl = Some e /\ pos + bl <= e).

  Definition S_groups (gs : groups) : Prop :=
    forall fuel tr p, wf_table_groups gs -> 0 <= p ->
      sound tr (cgroups_end be b fuel gs p tr)
        (fun e => groups_end be b fuel gs p = Some e /\ p <= e).

  Lemma S_level_step fs gs ds : S_groups gs -> S_level (Level fs gs ds).
  Proof.
    intros IH fuel tr pos bl Hwf Hp Hbl. cbn [clevel_end]. rewrite level_end_eq.
    cbn [wf_table_level] in Hwf. destruct Hwf as (_ & _ & Hg).
    eapply sound_bind; [apply IH; [exact Hg|lia]|]. cbn beta. intros p tr1 [H1 H2].
    rewrite H1. cbn [obind].
    eapply sound_weaken; [apply sound_datas_end; lia|]. cbn beta. intros e [H3 H4].
    split; [exact H3|lia].
  Qed.

  Lemma S_groups_nil : S_groups GNil.
  Proof. intros fuel tr p _ Hp. cbn [cgroups_end groups_end]. apply sound_ret. split; [reflexivity|lia]. Qed.

  Lemma S_groups_step d cbl l rest : S_level l -> S_groups rest -> S_groups (GCons d cbl l rest).
  Proof.
    intros IHl IHr fuel tr p Hwf Hp. cbn [cgroups_end]. rewrite groups_end_cons.
    cbn [wf_table_groups] in Hwf. destruct Hwf as (Hd & _ & Hwl & Hwr).
    destruct (is_flat l) eqn:Hfl.
    - eapply sound_bind; [apply sound_flat_group_end; assumption|]. cbn beta.
      intros p' tr1 (bl & n & s & Hbl & Hn & Hs & -> & Hle).
      rewrite Hbl. cbn [obind]. rewrite Hn. cbn [obind]. rewrite Hs. cbn [obind].
      eapply sound_weaken; [apply IHr; [exact Hwr|lia]|]. cbn beta. intros e [H1 H2].
      split; [exact H1|lia].
    - eapply sound_bind.
      + apply (sound_nested_group_end _ fuel l); [exact Hd|exact Hp|].
        intros bl Hbl q tr1 Hq. eapply sound_weaken; [apply IHl; assumption|].
        cbn beta. intros e [H1 H2]. split; [exact H1|lia].
      + cbn beta. intros p' tr1 (bl & n & Hbl & Hn & Hw & Hle).
        rewrite Hbl. cbn [obind]. rewrite Hn. cbn [obind]. rewrite Hw. cbn [obind].
        eapply sound_weaken; [apply IHr; [exact Hwr|lia]|]. cbn beta. intros e [H1 H2].
        split; [exact H1|lia].
  Qed.

  Lemma S_all : (forall l, S_level l) /\ (forall gs, S_groups gs).
  Proof.
    split.
    - apply (level_mind S_level S_groups).
      + intros fs gs IH ds. apply S_level_step, IH.
      + exact S_groups_nil.
      + intros d cbl l IHl rest IHr. apply S_groups_step; assumption.
    - apply (groups_mind S_level S_groups).
      + intros fs gs IH ds. apply S_level_step, IH.
      + exact S_groups_nil.
      + intros d cbl l IHl rest IHr. apply S_groups_step; assumption.
  Qed.


  (* ================================================================ *)
  (* navigation                                                        *)
  (* ================================================================ *)
  Variable m : message.
  Hypothesis Hm : wf_msg m.

  Lemma hdr_pos : 1 <= m_hdr_size m.
  Proof. destruct Hm as (H1 & H2 & _). pose proof (tbytes_pos (m_bl_t m)). lia. Qed.

  (* block position and wire blockLength a view stands for *)
  Definition vlevel (v : cview) : Z := view_start v + view_hoff m v.
  Definition vbl (v : cview) : Z :=
    match v with
    | CVMsg base => dec be (slice b (base + m_bl_off m) (tbytes (m_bl_t m)))
    | CVEntry _ bl => bl
    end.
  Definition vhdr_ok (v : cview) : Prop :=
    match v with CVMsg base => base + m_hdr_size m <= len b | CVEntry _ _ => True end.
  Definition vnonneg (v : cview) : Prop := 0 <= view_start v /\ 0 <= vbl v.

  Lemma vnonneg_msg base : 0 <= base -> vnonneg (CVMsg base).
  Proof. intros H. split; [exact H|apply val_nonneg]. Qed.

  Lemma view_hoff_nonneg v : 0 <= view_hoff m v.
  Proof. pose proof hdr_pos. destruct v; cbn [view_hoff]; lia. Qed.

  Lemma vhdr_from_bound v x : vnonneg v -> 0 <= x -> vlevel v + x <= len b -> vhdr_ok v.
  Proof. unfold vlevel. destruct v; cbn [vhdr_ok view_start view_hoff]; [lia|trivial]. Qed.

  Lemma msg_block_length_ok base : 0 <= base -> base + m_hdr_size m <= len b ->
    msg_block_length be b m base = Some (vbl (CVMsg base)).
  Proof.
    intros Hb Hh. unfold msg_block_length. cbn [vbl]. destruct Hm as (H1 & H2 & _).
    apply rd_in; lia.
  Qed.

  Lemma msg_resolve_ok base path : 0 <= base -> vhdr_ok (CVMsg base) ->
    msg_resolve be b m base path =
    resolve be b (default_fuel b) path (m_level m) (vlevel (CVMsg base)) (vbl (CVMsg base)).
  Proof.
    intros Hb Hh. unfold msg_resolve. rewrite (msg_block_length_ok base Hb Hh). reflexivity.
  Qed.

  Lemma sound_msg_bl tr base : 0 <= base ->
    sound tr (cmsg_bl be b m base tr)
      (fun bl => bl = vbl (CVMsg base) /\ base + m_hdr_size m <= len b).
  Proof.
    intros Hb. unfold cmsg_bl, cmsg_header. destruct Hm as (H1 & H2 & _).
    pose proof hdr_pos as Hhp.
    eapply sound_bind; [apply sound_chk; [exact Hb|lia|lia]|]. intros ? tr1 [_ Hh].
    eapply sound_weaken; [apply sound_get_value; assumption|]. cbn beta.
    intros y (Hr & _ & _). apply rd_some in Hr. cbn [vbl]. split; [apply Hr|lia].
  Qed.

  Lemma sound_first_dyn tr v : vnonneg v ->
    sound tr (cfirst_dyn be b m v tr) (fun p0 => p0 = vlevel v + vbl v /\ vhdr_ok v).
  Proof.
    intros [Hs Hb]. destruct v as [base|pos bl]; cbn [cfirst_dyn].
    - cbn [view_start] in Hs. unfold cmsg_header.
      pose proof hdr_pos as Hhp.
      eapply sound_bind; [apply sound_chk; [exact Hs|lia|lia]|]. intros ? tr1 _.
      eapply sound_bind; [apply sound_msg_bl; exact Hs|]. cbn beta. intros bl tr2 [-> Hh].
      apply sound_ret. split; [reflexivity|exact Hh].
    - apply sound_ret. split; [unfold vlevel; cbn [view_start view_hoff vbl]; lia|exact I].
  Qed.

  Lemma sound_nth_group fuel : forall gs k tr p, wf_table_groups gs -> 0 <= p ->
    sound tr (cnth_group be b fuel gs k p tr)
      (fun r => let '(g, d, cbl, l) := r in
                nth_group_pos be b fuel gs k p = Some r /\ 0 <= g /\ wf_dim d /\ wf_table_level l /\
                0 <= cbl).
  Proof.
    induction gs as [|d cbl l rest IH]; intros k tr p Hwf Hp; cbn [cnth_group nth_group_pos].
    - apply sound_assert_pre.
    - cbn [wf_table_groups] in Hwf. destruct Hwf as (Hd & Hc & Hl & Hr).
      destruct k as [|k'].
      + apply sound_ret. auto.
      + eapply sound_bind.
        * apply (proj2 (S_all)). { cbn [wf_table_groups]. auto. } exact Hp.
        * cbn beta. intros p' tr1 [H1 H2]. rewrite H1. cbn [obind]. apply IH; [exact Hr|lia].
  Qed.

  Lemma sound_nth_data : forall ds k tr p, 0 <= p ->
    sound tr (cnth_data be b ds k p tr)
      (fun r => nth_data_pos be b ds k p = Some r /\ 0 <= fst r).
  Proof.
    induction ds as [|t ds IH]; intros k tr p Hp; cbn [cnth_data nth_data_pos].
    - apply sound_assert_pre.
    - destruct k as [|k'].
      + apply sound_ret. auto.
      + eapply sound_bind; [apply sound_data_size_bytes; exact Hp|]. cbn beta.
        intros s0 tr1 (n & Hr & -> & Hn). rewrite Hr. cbn [obind]. pose proof (tbytes_pos t).
        rewrite Z.add_assoc. apply IH. lia.
  Qed.

  Lemma sound_entry_at fuel tr d l g i : wf_dim d -> wf_table_level l -> 0 <= g -> 0 <= i ->
    sound tr (centry_at be b fuel d l g i tr)
      (fun e => exists bl, rd be b (g + d_bl_off d) (d_bl_t d) = Some bl /\ snd e = bl /\
                0 <= bl /\ 0 <= fst e /\
                (if is_flat l then fst e = g + d_size d + i * bl
                 else entries_walk be b fuel l bl fuel i (g + d_size d) = Some (fst e))).
  Proof.
    intros Hd Hl Hg Hi. unfold centry_at. pose proof (wf_dim_size_pos d Hd).
    destruct (is_flat l) eqn:Hfl.
    - eapply sound_bind; [apply sound_group_num; assumption|]. intros n tr1 _.
      eapply sound_bind; [apply sound_pre|]. intros ? tr2 _.
      eapply sound_bind; [apply sound_group_bl; assumption|]. cbn beta. intros bl tr3 (Hbl & Hbl0 & _).
      apply sound_ret. exists bl. cbn [fst snd].
      assert (0 <= i * bl) by (apply Z.mul_nonneg_nonneg; assumption).
      repeat split; try assumption; try reflexivity; lia.
    - eapply sound_bind; [apply sound_group_bl; assumption|]. cbn beta. intros bl tr1 (Hbl & Hbl0 & _).
      eapply sound_bind.
      + apply (sound_walk _ fuel l bl); [|lia].
        intros q tr2 Hq. eapply sound_weaken; [apply (proj1 S_all); assumption|].
        cbn beta. intros e [H1 H2]. split; [exact H1|lia].
      + cbn beta. intros p tr2 [H1 H2]. apply sound_ret. exists bl. cbn [fst snd].
        repeat split; try assumption; try reflexivity; lia.
  Qed.

  Lemma sound_step fuel tr v l k i : vnonneg v -> wf_table_level l ->
    sound tr (cstep be b m fuel v l k i tr)
      (fun r => vhdr_ok v /\ exists p' bl', fst r = CVEntry p' bl' /\ 0 <= p' /\ 0 <= bl' /\
                wf_table_level (snd r) /\
                forall rest, resolve be b fuel (SGroup k i :: rest) l (vlevel v) (vbl v) =
                             resolve be b fuel rest (snd r) p' bl').
  Proof.
    intros Hv Hl. unfold cstep.
    eapply sound_bind; [apply sound_first_dyn; exact Hv|]. cbn beta. intros p0 tr1 [-> Hh].
    destruct l as [fs gs ds]. cbn [level_groups]. cbn [wf_table_level] in Hl.
    destruct Hl as (_ & _ & Hg).
    assert (Hp0 : 0 <= vlevel v + vbl v).
    { destruct Hv as [H1 H2]. unfold vlevel. pose proof (view_hoff_nonneg v). lia. }
    eapply sound_bind; [apply sound_nth_group; [exact Hg|exact Hp0]|]. cbn beta.
    intros [[[g d] cbl] sub] tr2 (Hnth & Hg0 & Hd & Hsub & _).
    eapply sound_bind; [apply sound_group_num; assumption|]. cbn beta. intros n tr3 (Hn & Hn0 & _).
    eapply sound_bind; [apply sound_pre|]. cbn beta. intros ? tr4 Hrange.
    apply negb_true_iff in Hrange.
    assert (Hi : 0 <= i).
    { apply orb_false_iff in Hrange. destruct Hrange as [H1 _]. apply Z.ltb_ge in H1. exact H1. }
    eapply sound_bind; [apply sound_entry_at; assumption|]. cbn beta.
    intros e tr5 (bl & Hbl & Hsnd & Hbl0 & Hfst & Hpos).
    apply sound_ret. split; [exact Hh|]. exists (fst e), (snd e). cbn [fst snd].
    split; [reflexivity|]. split; [exact Hfst|]. split; [lia|]. split; [exact Hsub|].
    intros rest. cbn [resolve level_groups]. rewrite Hnth. cbn [obind].
    unfold group_at. rewrite Hbl. cbn [obind]. rewrite Hn. cbn [obind].
    unfold entry_pos. cbn [gv_n gv_bl gv_pos]. rewrite Hrange.
    destruct (is_flat sub).
    - cbn [obind]. rewrite <- Hpos, Hsnd. reflexivity.
    - rewrite Hpos. cbn [obind]. rewrite Hsnd. reflexivity.
  Qed.

  Lemma sound_resolve fuel : forall path tr v l, vnonneg v -> wf_table_level l ->
    sound tr (cresolve be b m fuel path v l tr)
      (fun r => resolve be b fuel path l (vlevel v) (vbl v)
                = Some (vlevel (fst r), vbl (fst r), snd r) /\
                vnonneg (fst r) /\ wf_table_level (snd r) /\
                ((path <> [] \/ vhdr_ok (fst r)) -> vhdr_ok v) /\
                match path with [] => r = (v, l) | _ => exists p bl, fst r = CVEntry p bl end).
  Proof.
    induction path as [|[k i] rest IH]; intros tr v l Hv Hl; cbn [cresolve].
    - apply sound_ret. cbn [fst snd resolve]. split; [reflexivity|]. split; [exact Hv|].
      split; [exact Hl|]. split; [|reflexivity].
      intros [H|H]; [contradiction H; reflexivity|exact H].
    - eapply sound_bind; [apply sound_step; assumption|]. cbn beta.
      intros [v1 l1] tr1 (Hh & p' & bl' & Hv1 & Hp' & Hbl' & Hl1 & Hres).
      cbn [fst snd] in *. subst v1.
      eapply sound_weaken; [apply IH; [split; cbn [view_start vbl]; assumption|exact Hl1]|].
      cbn beta. intros r (H1 & H2 & H3 & _ & H5). rewrite Hres.
      unfold vlevel in H1 at 1. cbn [view_start view_hoff vbl] in H1. rewrite Z.add_0_r in H1.
      split; [exact H1|]. split; [exact H2|]. split; [exact H3|]. split; [intros _; exact Hh|].
      destruct rest; [rewrite H5; cbn [fst]; eauto|exact H5].
  Qed.

  Lemma sound_msg_resolve tr base path : 0 <= base ->
    sound tr (cmsg_resolve be b m base path tr)
      (fun r => vnonneg (fst r) /\ wf_table_level (snd r) /\
                ((path <> [] \/ vhdr_ok (fst r)) ->
                 msg_resolve be b m base path = Some (vlevel (fst r), vbl (fst r), snd r)) /\
                match path with
                | [] => r = (CVMsg base, m_level m)
                | _ => exists p bl, fst r = CVEntry p bl
                end).
  Proof.
    intros Hb. unfold cmsg_resolve.
    eapply sound_weaken; [apply sound_resolve; [apply vnonneg_msg; exact Hb|apply Hm]|].
    cbn beta. intros r (H1 & H2 & H3 & H4 & H5). split; [exact H2|]. split; [exact H3|].
    split; [|exact H5].
    intros H. rewrite msg_resolve_ok; [exact H1|exact Hb|apply H4; exact H].
  Qed.

  (* ================================================================ *)
  (* operations                                                        *)
  (* ================================================================ *)
  Lemma sound_amap {A B} (f : A -> B) tr (r : ares A) (Q : B -> Prop) :
    sound tr r (fun x => Q (f x)) -> sound tr (amap f r) Q.
  Proof.
    intros (d & Ht & Hd & Hq). exists d. destruct r; cbn [amap trace_of] in *; auto.
  Qed.

  Lemma sound_field tr l k : wf_table_level l ->
    sound tr (cfield l k tr)
      (fun f => nth_error (level_fields l) k = Some f /\ 0 <= f_off f /\ 0 <= f_size f).
  Proof.
    intros Hl. unfold cfield. eapply sound_weaken; [apply sound_alift|]. cbn beta.
    intros f Hf. split; [exact Hf|]. destruct l as [fs gs ds]. cbn [level_fields] in Hf.
    cbn [wf_table_level] in Hl. destruct Hl as (Hfs & _ & _).
    apply (nth_error_Forall _ _ _ _ Hfs Hf).
  Qed.

  Lemma sound_get_field base path k : 0 <= base ->
    sound [] (cget_field be b m base path k) (fun x => get_field be b m base path k = Some x).
  Proof.
    intros Hb. unfold cget_field.
    eapply sound_bind; [apply sound_msg_resolve; exact Hb|]. cbn beta.
    intros [v l] tr1 (Hv & Hl & Hres & Hshape). cbn [fst snd] in *.
    eapply sound_bind; [apply sound_field; exact Hl|]. cbn beta. intros f tr2 (Hf & Ho & Hs).
    pose proof (view_hoff_nonneg v).
    eapply sound_weaken; [apply sound_get_bytes; [apply Hv|lia|exact Hs]|]. cbn beta.
    intros y [Hr Hbound]. unfold get_field.
    rewrite Hres.
    - cbn [obind]. rewrite Hf. unfold vlevel. rewrite <- Z.add_assoc. exact Hr.
    - right. apply (vhdr_from_bound v (f_off f + f_size f) Hv); [lia|unfold vlevel; lia].
  Qed.

  Lemma sound_static_view tr v f : vnonneg v -> 0 <= f_off f ->
    sound tr (cstatic_view b m v f tr)
      (fun a => a = vlevel v + f_off f /\ a <= len b).
  Proof.
    intros Hv Ho. unfold cstatic_view. pose proof (view_hoff_nonneg v).
    eapply sound_bind; [apply sound_chk; [apply Hv|lia|lia]|]. cbn beta. intros ? tr1 [_ Hc].
    apply sound_ret. unfold vlevel. split; lia.
  Qed.

  Lemma sound_array_elem tr a n i : 0 <= a -> 0 <= n ->
    sound tr (carray_elem b a n i tr)
      (fun x => x = slice b (a + i) 1 /\ 0 <= i < n /\ a + n <= len b).
  Proof.
    intros Ha Hn. unfold carray_elem.
    eapply sound_bind; [apply sound_pre|]. cbn beta. intros ? tr1 Hi.
    apply andb_true_iff in Hi. destruct Hi as [Hi1 Hi2]. apply Z.leb_le in Hi1. apply Z.ltb_lt in Hi2.
    eapply sound_bind; [apply sound_chk; [exact Ha|lia|exact Hn]|]. cbn beta. intros ? tr2 [_ Hc].
    eapply sound_weaken; [apply sound_touch_bytes; lia|]. cbn beta.
    intros y Hy. unfold rd_bytes in Hy. destruct (in_buf b (a + i) 1); [|discriminate].
    injection Hy as <-. split; [reflexivity|lia].
  Qed.

  Lemma firstn_cons_skip {A} (l : list A) c :
    firstn 1 l ++ firstn c (skipn 1 l) = firstn (S c) l.
  Proof. destruct l; [destruct c; reflexivity|reflexivity]. Qed.

  Lemma slice_snoc p c : 0 <= p -> 0 <= c ->
    slice b p 1 ++ slice b (p + 1) c = slice b p (1 + c).
  Proof.
    intros Hp Hc. unfold slice.
    replace (Z.to_nat (p + 1)) with (Z.to_nat p + 1)%nat by lia.
    rewrite <- skipn_add. replace (Z.to_nat (1 + c)) with (S (Z.to_nat c)) by lia.
    change (Z.to_nat 1) with 1%nat. apply firstn_cons_skip.
  Qed.

  Lemma sound_array_elems a n : 0 <= a -> 0 <= n ->
    forall cnt tr i acc, 0 <= i ->
    sound tr (carray_elems b a n cnt i acc tr)
      (fun x => x = acc ++ slice b (a + i) (Z.of_nat cnt) /\ (cnt <> O -> a + n <= len b)).
  Proof.
    intros Ha Hn. induction cnt as [|c IH]; intros tr i acc Hi; cbn [carray_elems].
    - apply sound_ret. rewrite slice_zero, app_nil_r. split; [reflexivity|intros H; contradiction H; reflexivity].
    - eapply sound_bind; [apply sound_array_elem; assumption|]. cbn beta.
      intros y tr1 (-> & Hin & Hb).
      eapply sound_weaken; [apply IH; lia|]. cbn beta. intros z [-> _].
      split; [|intros _; exact Hb]. rewrite <- app_assoc. f_equal.
      replace (a + (i + 1)) with (a + i + 1) by lia.
      rewrite slice_snoc by lia. f_equal. lia.
  Qed.

  Lemma slice_slice a n i k : 0 <= a -> 0 <= i -> 0 <= k -> i + k <= n ->
    slice (slice b a n) i k = slice b (a + i) k.
  Proof.
    intros Ha Hi Hk Hle. unfold slice.
    rewrite skipn_firstn_comm, skipn_add, firstn_firstn.
    replace (Z.to_nat a + Z.to_nat i)%nat with (Z.to_nat (a + i)) by lia.
    f_equal. lia.
  Qed.

  Lemma resolved_field base path v l k f :
    msg_resolve be b m base path = Some (vlevel v, vbl v, l) ->
    nth_error (level_fields l) k = Some f ->
    get_field be b m base path k = rd_bytes b (vlevel v + f_off f) (f_size f).
  Proof. intros Hr Hf. unfold get_field. rewrite Hr. cbn [obind]. rewrite Hf. reflexivity. Qed.

  Lemma rd_bytes_in off n : 0 <= off -> 0 <= n -> off + n <= len b ->
    rd_bytes b off n = Some (slice b off n).
  Proof.
    intros H1 H2 H3. unfold rd_bytes.
    replace (in_buf b off n) with true; [reflexivity|]. symmetry. apply in_buf_iff. lia.
  Qed.

  Lemma len_slice_in off n : 0 <= off -> 0 <= n -> off + n <= len b -> len (slice b off n) = n.
  Proof.
    intros H1 H2 H3. unfold len. rewrite length_slice by (apply in_buf_iff; lia). lia.
  Qed.

  Lemma sound_get_array_elem base path k i : 0 <= base ->
    sound [] (cget_array_elem be b m base path k i)
      (fun x => get_array_elem be b m base path k i = Some x).
  Proof.
    intros Hb. unfold cget_array_elem.
    eapply sound_bind; [apply sound_msg_resolve; exact Hb|]. cbn beta.
    intros [v l] tr1 (Hv & Hl & Hres & Hshape). cbn [fst snd] in *.
    eapply sound_bind; [apply sound_field; exact Hl|]. cbn beta. intros f tr2 (Hf & Ho & Hs).
    eapply sound_bind; [apply sound_static_view; assumption|]. cbn beta. intros a tr3 [-> Hle].
    assert (Ha : 0 <= vlevel v + f_off f).
    { unfold vlevel. pose proof (view_hoff_nonneg v). destruct Hv. lia. }
    eapply sound_weaken; [apply sound_array_elem; assumption|]. cbn beta.
    intros y (-> & Hi & Hbound). unfold get_array_elem.
    rewrite (resolved_field base path v l k f); [|apply Hres|exact Hf].
    - rewrite rd_bytes_in by lia. cbn [obind]. rewrite len_slice_in by lia.
      replace ((0 <=? i) && (i <? f_size f)) with true
        by (symmetry; apply andb_true_iff; split; [apply Z.leb_le|apply Z.ltb_lt]; lia).
      rewrite slice_slice by lia. reflexivity.
    - right. apply (vhdr_from_bound v (f_off f + f_size f) Hv); lia.
  Qed.

  Lemma sound_get_array base path k : 0 <= base ->
    sound [] (cget_array be b m base path k) (fun x => get_field be b m base path k = Some x).
  Proof.
    intros Hb. unfold cget_array.
    eapply sound_bind; [apply sound_msg_resolve; exact Hb|]. cbn beta.
    intros [v l] tr1 (Hv & Hl & Hres & Hshape). cbn [fst snd] in *.
    eapply sound_bind; [apply sound_field; exact Hl|]. cbn beta. intros f tr2 (Hf & Ho & Hs).
    eapply sound_bind; [apply sound_static_view; assumption|]. cbn beta. intros a tr3 [-> Hle].
    assert (Ha : 0 <= vlevel v + f_off f).
    { unfold vlevel. pose proof (view_hoff_nonneg v). destruct Hv. lia. }
    eapply sound_weaken; [apply sound_array_elems; [exact Ha|exact Hs|lia]|]. cbn beta.
    intros y [-> Hbound]. rewrite Z.add_0_r, Z2Nat.id by exact Hs. cbn [app].
    assert (Hin : vlevel v + f_off f + f_size f <= len b).
    { destruct (Z.eq_dec (f_size f) 0) as [E|E]; [lia|]. apply Hbound. lia. }
    rewrite (resolved_field base path v l k f); [|apply Hres|exact Hf].
    - apply rd_bytes_in; lia.
    - right. apply (vhdr_from_bound v (f_off f + f_size f) Hv); lia.
  Qed.

  Lemma sound_get_comp_member base path k moff msize : 0 <= base -> 0 <= moff -> 0 <= msize ->
    sound [] (cget_comp_member be b m base path k moff msize)
      (fun x => get_comp_member be b m base path k moff msize = Some x).
  Proof.
    intros Hb Hmo Hms. unfold cget_comp_member.
    eapply sound_bind; [apply sound_msg_resolve; exact Hb|]. cbn beta.
    intros [v l] tr1 (Hv & Hl & Hres & Hshape). cbn [fst snd] in *.
    eapply sound_bind; [apply sound_field; exact Hl|]. cbn beta. intros f tr2 (Hf & Ho & Hs).
    eapply sound_bind; [apply sound_static_view; assumption|]. cbn beta. intros a tr3 [-> Hle].
    assert (Ha : 0 <= vlevel v + f_off f).
    { unfold vlevel. pose proof (view_hoff_nonneg v). destruct Hv. lia. }
    eapply sound_weaken; [apply sound_get_bytes; assumption|]. cbn beta.
    intros y [Hr Hbound]. unfold get_comp_member. rewrite Hres.
    - cbn [obind]. rewrite Hf. exact Hr.
    - right. apply (vhdr_from_bound v (f_off f + moff + msize) Hv); lia.
  Qed.

  Lemma sound_group_at_path tr base path k : 0 <= base ->
    sound tr (cgroup_at_path be b m base path k tr)
      (fun q => let '(g, d, cbl, sub) := q in
                0 <= g /\ wf_dim d /\ wf_table_level sub /\ 0 <= cbl /\
                exists pos bl l, msg_resolve be b m base path = Some (pos, bl, l) /\
                  nth_group_pos be b (default_fuel b) (level_groups l) k (pos + bl) = Some q).
  Proof.
    intros Hb. unfold cgroup_at_path.
    eapply sound_bind; [apply sound_msg_resolve; exact Hb|]. cbn beta.
    intros [v l] tr1 (Hv & Hl & Hres & Hshape). cbn [fst snd] in *.
    eapply sound_bind; [apply sound_first_dyn; exact Hv|]. cbn beta. intros p0 tr2 [-> Hh].
    destruct l as [fs gs ds]. cbn [level_groups]. cbn [wf_table_level] in Hl.
    destruct Hl as (_ & _ & Hg).
    assert (Hp0 : 0 <= vlevel v + vbl v).
    { destruct Hv as [H1 H2]. unfold vlevel. pose proof (view_hoff_nonneg v). lia. }
    eapply sound_weaken; [apply sound_nth_group; [exact Hg|exact Hp0]|]. cbn beta.
    intros [[[g d] cbl] sub] (Hnth & Hg0 & Hd & Hsub & Hcbl).
    split; [exact Hg0|]. split; [exact Hd|]. split; [exact Hsub|]. split; [exact Hcbl|].
    exists (vlevel v), (vbl v), (Level fs gs ds). split; [apply Hres; right; exact Hh|exact Hnth].
  Qed.

  Lemma sound_group_info base path k : 0 <= base ->
    sound [] (cgroup_info be b m base path k) (fun x => locate_group be b m base path k = Some x).
  Proof.
    intros Hb. unfold cgroup_info.
    eapply sound_bind; [apply sound_group_at_path; exact Hb|]. cbn beta.
    intros [[[g d] cbl] sub] tr1 (Hg & Hd & Hsub & _ & pos & bl0 & l & Hres & Hnth).
    eapply sound_bind; [apply sound_group_bl; assumption|]. cbn beta. intros bl tr2 (Hbl & _ & _).
    eapply sound_bind; [apply sound_group_num; assumption|]. cbn beta. intros n tr3 (Hn & _ & _).
    apply sound_ret. unfold locate_group. rewrite Hres. cbn [obind]. rewrite Hnth. cbn [obind].
    unfold group_at. rewrite Hbl. cbn [obind]. rewrite Hn. cbn [obind]. reflexivity.
  Qed.

  Lemma sound_group_size_bytes base path k : 0 <= base ->
    sound [] (cgroup_size_bytes be b m base path k)
      (fun x => group_size_bytes be b m base path k = Some x).
  Proof.
    intros Hb. unfold cgroup_size_bytes.
    eapply sound_bind; [apply sound_group_at_path; exact Hb|]. cbn beta.
    intros [[[g d] cbl] sub] tr1 (Hg & Hd & Hsub & Hcbl & pos & bl0 & l & Hres & Hnth).
    eapply sound_bind.
    - apply (proj2 S_all); [|exact Hg]. cbn [wf_table_groups]. auto.
    - cbn beta. intros e tr2 [He _]. apply sound_ret.
      unfold group_size_bytes, locate_group. rewrite Hres. cbn [obind]. rewrite Hnth. cbn [obind].
      pose proof He as He'. rewrite groups_end_cons in He'. unfold group_at.
      destruct (rd be b (g + d_bl_off d) (d_bl_t d)) as [bl|]; cbn [obind] in *; [|discriminate].
      destruct (rd be b (g + d_n_off d) (d_n_t d)) as [n|]; cbn [obind] in *; [|discriminate].
      cbn [gv_pos]. rewrite He. reflexivity.
  Qed.

  Lemma sound_view_end fuel tr v l : vnonneg v -> wf_table_level l ->
    sound tr (cview_end be b m fuel v l tr)
      (fun e => vhdr_ok v /\ level_end be b fuel l (vlevel v) (vbl v) = Some e).
  Proof.
    intros Hv Hl. unfold cview_end.
    eapply sound_bind; [apply sound_first_dyn; exact Hv|]. cbn beta. intros p0 tr1 [-> Hh].
    destruct l as [fs gs ds]. cbn [level_groups level_datas]. cbn [wf_table_level] in Hl.
    destruct Hl as (_ & _ & Hg).
    assert (Hp0 : 0 <= vlevel v + vbl v).
    { destruct Hv as [H1 H2]. unfold vlevel. pose proof (view_hoff_nonneg v). lia. }
    eapply sound_bind; [apply (proj2 S_all); [exact Hg|exact Hp0]|]. cbn beta. intros p tr2 [H1 H2].
    eapply sound_weaken; [apply sound_datas_end; lia|]. cbn beta. intros e [H3 H4].
    split; [exact Hh|]. rewrite level_end_eq. rewrite H1. cbn [obind]. exact H3.
  Qed.

  (* size_bytes of a view *)
  Lemma sound_view_size_bytes tr v l : vnonneg v -> wf_table_level l ->
    sound tr (cview_size_bytes be b m v l tr)
      (fun s => (is_flat l = false \/ (exists base, v = CVMsg base) -> vhdr_ok v) /\
                level_size_bytes be b (default_fuel b) l (view_start v) (view_hoff m v) (vbl v)
                = Some s).
  Proof.
    intros Hv Hl. unfold cview_size_bytes, level_size_bytes. destruct (is_flat l) eqn:Hfl.
    - destruct v as [base|pos bl]; cbn [view_start view_hoff vbl].
      + eapply sound_bind; [apply sound_msg_bl; apply Hv|]. cbn beta. intros bl tr1 [-> Hh].
        eapply sound_weaken; [apply sound_alift|]. cbn beta. intros s Hs. split; [intros _; exact Hh|exact Hs].
      + eapply sound_weaken; [apply sound_alift|]. cbn beta. intros s Hs.
        split; [|exact Hs]. intros [H|[base H]]; discriminate H.
    - eapply sound_bind; [apply sound_view_end; assumption|]. cbn beta. intros e tr1 [Hh He].
      apply sound_ret. split; [intros _; exact Hh|]. unfold vlevel in He. rewrite He. reflexivity.
  Qed.

  Lemma sound_entry_size_bytes base path : 0 <= base ->
    sound [] (centry_size_bytes be b m base path)
      (fun x => entry_or_msg_size be b m base path = Some x).
  Proof.
    intros Hb. unfold centry_size_bytes.
    eapply sound_bind; [apply sound_msg_resolve; exact Hb|]. cbn beta.
    intros [v l] tr1 (Hv & Hl & Hres & Hshape). cbn [fst snd] in *.
    eapply sound_weaken; [apply sound_view_size_bytes; assumption|]. cbn beta.
    intros s0 [Hh Hs]. unfold entry_or_msg_size. destruct path as [|st rest].
    - injection Hshape as -> ->. unfold msg_size_bytes.
      rewrite msg_block_length_ok; [exact Hs|exact Hb|].
      apply Hh. right. eauto.
    - destruct Hshape as (p & bl & ->). unfold entry_size_bytes.
      rewrite Hres by (left; discriminate). cbn [obind]. unfold vlevel.
      cbn [view_start view_hoff vbl] in *. rewrite Z.add_0_r. exact Hs.
  Qed.

  Lemma sound_msg_size_bytes base : 0 <= base ->
    sound [] (cmsg_size_bytes be b m base) (fun x => msg_size_bytes be b m base = Some x).
  Proof.
    intros Hb. unfold cmsg_size_bytes.
    eapply sound_weaken; [apply sound_view_size_bytes; [apply vnonneg_msg; exact Hb|apply Hm]|].
    cbn beta. intros s0 [Hh Hs]. unfold msg_size_bytes.
    rewrite msg_block_length_ok; [exact Hs|exact Hb|]. apply Hh. right. eauto.
  Qed.

  Lemma sound_data_at_path tr base path k : 0 <= base ->
    sound tr (cdata_at_path be b m base path k tr)
      (fun q => 0 <= fst q /\ locate_data be b m base path k = Some q).
  Proof.
    intros Hb. unfold cdata_at_path.
    eapply sound_bind; [apply sound_msg_resolve; exact Hb|]. cbn beta.
    intros [v l] tr1 (Hv & Hl & Hres & Hshape). cbn [fst snd] in *.
    eapply sound_bind; [apply sound_first_dyn; exact Hv|]. cbn beta. intros p0 tr2 [-> Hh].
    destruct l as [fs gs ds]. cbn [level_groups level_datas]. cbn [wf_table_level] in Hl.
    destruct Hl as (_ & _ & Hg).
    assert (Hp0 : 0 <= vlevel v + vbl v).
    { destruct Hv as [H1 H2]. unfold vlevel. pose proof (view_hoff_nonneg v). lia. }
    eapply sound_bind; [apply (proj2 S_all); [exact Hg|exact Hp0]|]. cbn beta. intros p tr3 [H1 H2].
    eapply sound_weaken; [apply sound_nth_data; lia|]. cbn beta. intros q [H3 H4].
    split; [exact H4|]. unfold locate_data. rewrite Hres by (right; exact Hh).
    cbn [obind level_groups level_datas]. rewrite H1. cbn [obind]. exact H3.
  Qed.

  Lemma sound_data_info base path k : 0 <= base ->
    sound [] (cdata_info be b m base path k) (fun x => data_info be b m base path k = Some x).
  Proof.
    intros Hb. unfold cdata_info.
    eapply sound_bind; [apply sound_data_at_path; exact Hb|]. cbn beta.
    intros [p t] tr1 [Hp Hloc]. cbn [fst snd] in *.
    eapply sound_bind; [apply sound_data_len; exact Hp|]. cbn beta. intros n tr2 (Hn & _ & _).
    apply sound_ret. unfold data_info. rewrite Hloc. cbn [obind fst snd]. rewrite Hn. reflexivity.
  Qed.

  Lemma sound_get_data base path k : 0 <= base ->
    sound [] (cget_data be b m base path k) (fun x => get_data be b m base path k = Some x).
  Proof.
    intros Hb. unfold cget_data.
    eapply sound_bind; [apply sound_data_at_path; exact Hb|]. cbn beta.
    intros [p t] tr1 [Hp Hloc]. cbn [fst snd] in *.
    eapply sound_bind; [apply sound_data_len; exact Hp|]. cbn beta. intros n tr2 (Hn & Hn0 & Hle).
    pose proof (tbytes_pos t) as Htp.
    destruct (Z.eqb_spec n 0) as [->|Hne].
    - apply sound_ret. unfold get_data. rewrite Hloc. cbn [obind]. rewrite Hn. cbn [obind].
      rewrite rd_bytes_in by lia. rewrite slice_zero. reflexivity.
    - unfold chk_begin.
      eapply sound_bind; [apply sound_chk; [exact Hp|lia|lia]|]. cbn beta. intros ? tr3 _.
      eapply sound_bind; [apply sound_data_len; exact Hp|]. cbn beta. intros n' tr4 (Hn' & _ & _).
      assert (n' = n) by congruence. subst n'.
      eapply sound_bind; [apply sound_chk; [exact Hp|lia|lia]|]. cbn beta. intros ? tr5 [_ Hc].
      eapply sound_bind; [apply sound_chk; [exact Hp|lia|lia]|]. cbn beta. intros ? tr6 _.
      eapply sound_weaken; [apply sound_touch_bytes; lia|]. cbn beta. intros y Hy.
      unfold get_data. rewrite Hloc. cbn [obind]. rewrite Hn. cbn [obind]. exact Hy.
  Qed.

  (* ---- the operations together ---- *)
  Lemma sound_run base o : 0 <= base -> op_args_ok o ->
    sound [] (run_checked be b m base o) (fun v => run_unchecked be b m base o = Some v).
  Proof.
    intros Hb Ha. destruct o; cbn [run_checked run_unchecked]; apply sound_amap.
    - eapply sound_weaken; [apply sound_get_field; exact Hb|]. cbn beta. intros y ->. reflexivity.
    - eapply sound_weaken; [apply sound_get_array_elem; exact Hb|]. cbn beta. intros y ->. reflexivity.
    - eapply sound_weaken; [apply sound_get_array; exact Hb|]. cbn beta. intros y ->. reflexivity.
    - cbn [op_args_ok] in Ha.
      eapply sound_weaken; [apply sound_get_comp_member; [exact Hb|apply Ha|apply Ha]|].
      cbn beta. intros y ->. reflexivity.
    - eapply sound_weaken; [apply sound_group_info; exact Hb|]. cbn beta.
      intros [[[g d] cbl] sub] ->. reflexivity.
    - eapply sound_weaken; [apply sound_group_size_bytes; exact Hb|]. cbn beta. intros y ->. reflexivity.
    - eapply sound_weaken; [apply sound_entry_size_bytes; exact Hb|]. cbn beta. intros y ->. reflexivity.
    - eapply sound_weaken; [apply sound_msg_size_bytes; exact Hb|]. cbn beta. intros y ->. reflexivity.
    - eapply sound_weaken; [apply sound_data_info; exact Hb|]. cbn beta. intros y ->. reflexivity.
    - eapply sound_weaken; [apply sound_get_data; exact Hb|]. cbn beta. intros y ->. reflexivity.
  Qed.
End Sound.

(* ================================================================== *)
(* (a), (c), (b1)                                                      *)
(* ================================================================== *)

Theorem checked_touches_inside : stmt_checked_touches_inside.
Proof.
  intros be b m base o Hm (Hok & Hlen & Hb) Ha.
  destruct (sound_run be b Hok Hlen m Hm base o Hb Ha) as (d & Ht & Hd & _).
  rewrite Ht. cbn [app]. eapply Forall_impl; [|exact Hd].
  intros r H. unfold inb in H. apply in_buf_iff in H. exact H.
Qed.
Print Assumptions checked_touches_inside.

Theorem checked_agrees : stmt_checked_agrees.
Proof.
  intros be b m base o v tr Hm (Hok & Hlen & Hb) Ha Hrun.
  destruct (sound_run be b Hok Hlen m Hm base o Hb Ha) as (d & _ & _ & Hq).
  rewrite Hrun in Hq. exact Hq.
Qed.
Print Assumptions checked_agrees.

Theorem checked_report_justified : stmt_checked_report_justified.
Proof.
  intros be b m base o tr begin off size Hm (Hok & Hlen & Hb) Ha Hrun.
  destruct (sound_run be b Hok Hlen m Hm base o Hb Ha) as (d & _ & _ & Hq).
  rewrite Hrun in Hq. exact Hq.
Qed.
Print Assumptions checked_report_justified.

(* ================================================================== *)
(* (a'): nothing at or beyond the end, without any hypothesis          *)
(* ================================================================== *)

Section Upper.
  Variables (be : bool) (b : list Z).

  Definition below (r : Z * Z) : Prop := fst r + snd r <= len b.

  Definition ub {A} (tr : trace) (r : ares A) (Q : A -> Prop) : Prop :=
    exists delta, trace_of r = tr ++ delta /\ Forall below delta /\
      match r with AOk x _ => Q x | AAssert _ _ => True end.

  Definition ubt {A} (tr : trace) (r : ares A) : Prop := ub tr r (fun _ => True).

  Lemma ub_ret {A} tr (x : A) (Q : A -> Prop) : Q x -> ub tr (AOk x tr) Q.
  Proof. intros H. exists []. cbn [trace_of]. rewrite app_nil_r. auto. Qed.

  Lemma ub_assert {A} tr w (Q : A -> Prop) : ub tr (AAssert tr w) Q.
  Proof. exists []. cbn [trace_of]. rewrite app_nil_r. auto. Qed.

  Lemma ub_bind {A B} tr (r : ares A) (f : A -> trace -> ares B) (Q : A -> Prop)
    (Q' : B -> Prop) :
    ub tr r Q -> (forall x tr1, Q x -> ub tr1 (f x tr1) Q') -> ub tr (abind r f) Q'.
  Proof.
    intros (d1 & Ht & Hd1 & Hq) Hf. destruct r as [x t|t w]; cbn [abind trace_of] in *.
    - subst t. destruct (Hf x (tr ++ d1) Hq) as (d2 & Ht2 & Hd2 & Hq2).
      exists (d1 ++ d2). rewrite app_assoc. split; [exact Ht2|]. split; [|exact Hq2].
      apply Forall_app. auto.
    - exists d1. auto.
  Qed.

  Lemma ub_weaken {A} tr (r : ares A) (Q Q' : A -> Prop) :
    ub tr r Q -> (forall x, Q x -> Q' x) -> ub tr r Q'.
  Proof.
    intros (d & Ht & Hd & Hq) H. exists d. split; [exact Ht|]. split; [exact Hd|].
    destruct r; auto.
  Qed.

  Lemma ubt_of {A} tr (r : ares A) Q : ub tr r Q -> ubt tr r.
  Proof. intros H. eapply ub_weaken; [exact H|]. auto. Qed.

  Lemma ubt_ret {A} tr (x : A) : ubt tr (AOk x tr).
  Proof. apply ub_ret. exact I. Qed.

  Lemma ubt_bind {A B} tr (r : ares A) (f : A -> trace -> ares B) :
    ubt tr r -> (forall x tr1, ubt tr1 (f x tr1)) -> ubt tr (abind r f).
  Proof. intros H Hf. eapply ub_bind; [exact H|]. intros x tr1 _. apply Hf. Qed.

  Lemma ubt_pre tr c : ubt tr (pre c tr).
  Proof. unfold pre. destruct c; [apply ubt_ret|apply ub_assert]. Qed.

  Lemma ub_pre tr c : ub tr (pre c tr) (fun _ => c = true).
  Proof. unfold pre. destruct c; [apply ub_ret; reflexivity|apply ub_assert]. Qed.

  Lemma ubt_alift {A} tr (o : option A) : ubt tr (alift o tr).
  Proof. unfold alift. destruct o; [apply ubt_ret|apply ub_assert]. Qed.

  (* a passed check bounds the extent from above wherever the view starts *)
  Lemma check_upper begin off size :
    size_check begin (len b) off size = true -> begin + off + size <= len b.
  Proof.
    unfold size_check. intros H. apply andb_true_iff in H. destruct H as [H1 H2].
    apply Z.leb_le in H1, H2.
    assert ((len b - begin) mod 2 ^ 64 <= len b - begin) by (apply Z.mod_le; lia). lia.
  Qed.

  Lemma ub_chk tr begin off size :
    ub tr (chk b begin off size tr) (fun _ => begin + off + size <= len b).
  Proof.
    unfold chk. destruct (size_check begin (len b) off size) eqn:E.
    - apply ub_ret. apply check_upper. exact E.
    - apply ub_assert.
  Qed.

  Lemma ubt_chk tr begin off size : ubt tr (chk b begin off size tr).
  Proof. eapply ubt_of, ub_chk. Qed.

  Lemma ub_touch_bytes tr off n : off + n <= len b ->
    ub tr (touch_bytes b off n tr) (fun x => x = slice b off n).
  Proof.
    intros H. exists [(off, n)]. cbn [touch_bytes trace_of]. split; [reflexivity|].
    split; [constructor; [exact H|constructor]|reflexivity].
  Qed.

  Lemma ub_get_value tr begin off t :
    ub tr (cget_value be b begin off t tr) (fun x => x = dec be (slice b (begin + off) (tbytes t))).
  Proof.
    unfold cget_value. eapply ub_bind; [apply ub_chk|]. cbn beta. intros ? tr1 H.
    exists [(begin + off, tbytes t)]. cbn [touch_val trace_of]. split; [reflexivity|].
    split; [constructor; [unfold below; cbn [fst snd]; lia|constructor]|reflexivity].
  Qed.

  Lemma ubt_get_value tr begin off t : ubt tr (cget_value be b begin off t tr).
  Proof. eapply ubt_of, ub_get_value. Qed.

  Lemma ubt_get_bytes tr begin off n : ubt tr (cget_bytes b begin off n tr).
  Proof.
    unfold cget_bytes. eapply ub_bind; [apply ub_chk|]. cbn beta. intros ? tr1 H.
    eapply ubt_of. apply ub_touch_bytes. lia.
  Qed.

  Lemma ubt_group_header tr d g : ubt tr (cgroup_header b d g tr).
  Proof. apply ubt_chk. Qed.

  Lemma ubt_group_num tr d g : ubt tr (cgroup_num be b d g tr).
  Proof. unfold cgroup_num. apply ubt_bind; [apply ubt_group_header|]. intros. apply ubt_get_value. Qed.

  Lemma ubt_group_bl tr d g : ubt tr (cgroup_bl be b d g tr).
  Proof. unfold cgroup_bl. apply ubt_bind; [apply ubt_group_header|]. intros. apply ubt_get_value. Qed.

  Lemma ub_data_len tr t p :
    ub tr (cdata_len be b t p tr) (fun x => x = dec be (slice b (p + 0) (tbytes t))).
  Proof. apply ub_get_value. Qed.

  Lemma ubt_data_size_bytes tr t p : ubt tr (cdata_size_bytes be b t p tr).
  Proof.
    unfold cdata_size_bytes. apply ubt_bind; [eapply ubt_of, ub_data_len|]. intros. apply ubt_ret.
  Qed.

  Lemma ubt_datas_end : forall ds tr p, ubt tr (cdatas_end be b ds p tr).
  Proof.
    induction ds as [|t ds IH]; intros tr p; cbn [cdatas_end]; [apply ubt_ret|].
    apply ubt_bind; [apply ubt_data_size_bytes|]. intros. apply IH.
  Qed.

  Definition lend_ubt (lend : Z -> trace -> ares Z) : Prop := forall q tr, ubt tr (lend q tr).

  Lemma ubt_incr lend tr ptr : lend_ubt lend -> ubt tr (cincr b lend ptr tr).
  Proof.
    intros HL. unfold cincr, chk_begin.
    apply ubt_bind; [apply ubt_chk|]. intros.
    apply ubt_bind; [apply HL|]. intros.
    apply ubt_bind; [apply ubt_chk|]. intros. apply HL.
  Qed.

  Lemma ubt_walk lend : lend_ubt lend -> forall k tr n ptr, ubt tr (cwalk b lend k n ptr tr).
  Proof.
    intros HL. induction k as [|k IH]; intros tr n ptr; cbn [cwalk];
      (destruct (n <=? 0); [apply ubt_ret|]); [apply ub_assert|].
    apply ubt_bind; [apply ubt_incr; exact HL|]. intros. apply IH.
  Qed.

  Lemma ubt_sum lend : lend_ubt lend -> forall k tr n ptr, ubt tr (csum b lend k n ptr tr).
  Proof.
    intros HL. induction k as [|k IH]; intros tr n ptr; cbn [csum];
      (destruct (n <=? 0); [apply ubt_ret|]); [apply ub_assert|].
    apply ubt_bind; [apply HL|]. intros.
    apply ubt_bind; [apply ubt_incr; exact HL|]. intros. apply IH.
  Qed.

  Lemma ubt_flat_group_end tr d g : ubt tr (cflat_group_end be b d g tr).
  Proof.
    unfold cflat_group_end.
    apply ubt_bind; [apply ubt_group_header|]. intros.
    apply ubt_bind; [apply ubt_get_value|]. intros.
    apply ubt_bind; [apply ubt_get_value|]. intros.
    apply ubt_bind; [apply ubt_alift|]. intros. apply ubt_ret.
  Qed.

  Lemma ubt_nested_group_end lend fuel tr d g : (forall bl, lend_ubt (lend bl)) ->
    ubt tr (cnested_group_end be b lend fuel d g tr).
  Proof.
    intros HL. unfold cnested_group_end.
    apply ubt_bind; [apply ubt_group_header|]. intros.
    apply ubt_bind; [apply ubt_group_bl|]. intros.
    apply ubt_bind; [apply ubt_group_num|]. intros.
    apply ubt_bind; [apply ubt_group_bl|]. intros. apply ubt_sum. apply HL.
  Qed.

  Lemma U_all :
    (forall l fuel tr pos bl, ubt tr (clevel_end be b fuel l pos bl tr)) /\
    (forall gs fuel tr p, ubt tr (cgroups_end be b fuel gs p tr)).
  Proof.
    assert (Hl : forall fs gs ds,
      (forall fuel tr p, ubt tr (cgroups_end be b fuel gs p tr)) ->
      forall fuel tr pos bl, ubt tr (clevel_end be b fuel (Level fs gs ds) pos bl tr)).
    { intros fs gs ds IH fuel tr pos bl. cbn [clevel_end].
      apply ubt_bind; [apply IH|]. intros. apply ubt_datas_end. }
    assert (Hn : forall fuel tr p, ubt tr (cgroups_end be b fuel GNil p tr)).
    { intros. cbn [cgroups_end]. apply ubt_ret. }
    assert (Hc : forall d cbl l rest,
      (forall fuel tr pos bl, ubt tr (clevel_end be b fuel l pos bl tr)) ->
      (forall fuel tr p, ubt tr (cgroups_end be b fuel rest p tr)) ->
      forall fuel tr p, ubt tr (cgroups_end be b fuel (GCons d cbl l rest) p tr)).
    { intros d cbl l rest IHl IHr fuel tr p. cbn [cgroups_end].
      apply ubt_bind; [|intros; apply IHr].
      destruct (is_flat l); [apply ubt_flat_group_end|].
      apply ubt_nested_group_end. intros bl q t. apply IHl. }
    split.
    - apply (level_mind (fun l => forall fuel tr pos bl, ubt tr (clevel_end be b fuel l pos bl tr))
                        (fun gs => forall fuel tr p, ubt tr (cgroups_end be b fuel gs p tr)));
        [intros fs gs IH ds; apply Hl, IH|exact Hn|intros d cbl l IHl rest IHr; apply Hc; assumption].
    - apply (groups_mind (fun l => forall fuel tr pos bl, ubt tr (clevel_end be b fuel l pos bl tr))
                         (fun gs => forall fuel tr p, ubt tr (cgroups_end be b fuel gs p tr)));
        [intros fs gs IH ds; apply Hl, IH|exact Hn|intros d cbl l IHl rest IHr; apply Hc; assumption].
  Qed.

  Lemma ubt_nth_group fuel : forall gs k tr p, ubt tr (cnth_group be b fuel gs k p tr).
  Proof.
    induction gs as [|d cbl l rest IH]; intros k tr p; cbn [cnth_group]; [apply ub_assert|].
    destruct k; [apply ubt_ret|]. apply ubt_bind; [apply (proj2 U_all)|]. intros. apply IH.
  Qed.

  Lemma ubt_nth_data : forall ds k tr p, ubt tr (cnth_data be b ds k p tr).
  Proof.
    induction ds as [|t ds IH]; intros k tr p; cbn [cnth_data]; [apply ub_assert|].
    destruct k; [apply ubt_ret|]. apply ubt_bind; [apply ubt_data_size_bytes|]. intros. apply IH.
  Qed.

  Lemma ubt_entry_at fuel tr d l g i : ubt tr (centry_at be b fuel d l g i tr).
  Proof.
    unfold centry_at. destruct (is_flat l).
    - apply ubt_bind; [apply ubt_group_num|]. intros.
      apply ubt_bind; [apply ubt_pre|]. intros.
      apply ubt_bind; [apply ubt_group_bl|]. intros. apply ubt_ret.
    - apply ubt_bind; [apply ubt_group_bl|]. intros.
      apply ubt_bind; [apply ubt_walk; intros q t; apply (proj1 U_all)|]. intros. apply ubt_ret.
  Qed.

  Variable m : message.

  Lemma ubt_msg_bl tr base : ubt tr (cmsg_bl be b m base tr).
  Proof. unfold cmsg_bl, cmsg_header. apply ubt_bind; [apply ubt_chk|]. intros. apply ubt_get_value. Qed.

  Lemma ubt_first_dyn tr v : ubt tr (cfirst_dyn be b m v tr).
  Proof.
    destruct v; cbn [cfirst_dyn]; [|apply ubt_ret]. unfold cmsg_header.
    apply ubt_bind; [apply ubt_chk|]. intros.
    apply ubt_bind; [apply ubt_msg_bl|]. intros. apply ubt_ret.
  Qed.

  Lemma ubt_view_end fuel tr v l : ubt tr (cview_end be b m fuel v l tr).
  Proof.
    unfold cview_end. apply ubt_bind; [apply ubt_first_dyn|]. intros.
    apply ubt_bind; [apply (proj2 U_all)|]. intros. apply ubt_datas_end.
  Qed.

  Lemma ubt_step fuel tr v l k i : ubt tr (cstep be b m fuel v l k i tr).
  Proof.
    unfold cstep. apply ubt_bind; [apply ubt_first_dyn|]. intros.
    apply ubt_bind; [apply ubt_nth_group|]. intros [[[g d] cbl] sub] tr2.
    apply ubt_bind; [apply ubt_group_num|]. intros.
    apply ubt_bind; [apply ubt_pre|]. intros.
    apply ubt_bind; [apply ubt_entry_at|]. intros. apply ubt_ret.
  Qed.

  Lemma ubt_resolve fuel : forall path tr v l, ubt tr (cresolve be b m fuel path v l tr).
  Proof.
    induction path as [|[k i] rest IH]; intros tr v l; cbn [cresolve]; [apply ubt_ret|].
    apply ubt_bind; [apply ubt_step|]. intros. apply IH.
  Qed.

  Lemma ubt_msg_resolve tr base path : ubt tr (cmsg_resolve be b m base path tr).
  Proof. apply ubt_resolve. Qed.

  Lemma ubt_field tr l k : ubt tr (cfield l k tr).
  Proof. apply ubt_alift. Qed.

  Lemma ub_static_view tr v f :
    ub tr (cstatic_view b m v f tr) (fun _ => True).
  Proof.
    unfold cstatic_view. apply ubt_bind; [apply ubt_chk|]. intros. apply ubt_ret.
  Qed.

  Lemma ubt_array_elem tr a n i : ubt tr (carray_elem b a n i tr).
  Proof.
    unfold carray_elem. eapply ub_bind; [apply ub_pre|]. cbn beta. intros ? tr1 Hi.
    apply andb_true_iff in Hi. destruct Hi as [Hi1 Hi2]. apply Z.leb_le in Hi1. apply Z.ltb_lt in Hi2.
    eapply ub_bind; [apply ub_chk|]. cbn beta. intros ? tr2 Hc.
    eapply ubt_of. apply ub_touch_bytes. lia.
  Qed.

  Lemma ubt_array_elems a n : forall cnt tr i acc, ubt tr (carray_elems b a n cnt i acc tr).
  Proof.
    induction cnt as [|c IH]; intros tr i acc; cbn [carray_elems]; [apply ubt_ret|].
    apply ubt_bind; [apply ubt_array_elem|]. intros. apply IH.
  Qed.

  Lemma ubt_group_at_path tr base path k : ubt tr (cgroup_at_path be b m base path k tr).
  Proof.
    unfold cgroup_at_path. apply ubt_bind; [apply ubt_msg_resolve|]. intros.
    apply ubt_bind; [apply ubt_first_dyn|]. intros. apply ubt_nth_group.
  Qed.

  Lemma ubt_view_size_bytes tr v l : ubt tr (cview_size_bytes be b m v l tr).
  Proof.
    unfold cview_size_bytes. destruct (is_flat l).
    - destruct v; [|apply ubt_alift]. apply ubt_bind; [apply ubt_msg_bl|]. intros. apply ubt_alift.
    - apply ubt_bind; [apply ubt_view_end|]. intros. apply ubt_ret.
  Qed.

  Lemma ubt_data_at_path tr base path k : ubt tr (cdata_at_path be b m base path k tr).
  Proof.
    unfold cdata_at_path. apply ubt_bind; [apply ubt_msg_resolve|]. intros.
    apply ubt_bind; [apply ubt_first_dyn|]. intros.
    apply ubt_bind; [apply (proj2 U_all)|]. intros. apply ubt_nth_data.
  Qed.

  Lemma ubt_get_data base path k : ubt [] (cget_data be b m base path k).
  Proof.
    unfold cget_data. apply ubt_bind; [apply ubt_data_at_path|]. intros [p t] tr1.
    eapply ub_bind; [apply ub_data_len|]. cbn beta. intros n tr2 Hn.
    destruct (n =? 0); [apply ubt_ret|]. unfold chk_begin.
    apply ubt_bind; [apply ubt_chk|]. intros ? tr3.
    eapply ub_bind; [apply ub_data_len|]. cbn beta. intros n' tr4 Hn'.
    eapply ub_bind; [apply ub_chk|]. cbn beta. intros ? tr5 Hc.
    apply ubt_bind; [apply ubt_chk|]. intros ? tr6.
    eapply ubt_of. apply ub_touch_bytes. subst n n'. lia.
  Qed.

  Lemma ubt_amap {A B} (f : A -> B) tr (r : ares A) : ubt tr r -> ubt tr (amap f r).
  Proof.
    intros (d & Ht & Hd & _). exists d. destruct r; cbn [amap trace_of] in *; auto.
  Qed.

  Lemma ubt_run base o : ubt [] (run_checked be b m base o).
  Proof.
    destruct o; cbn [run_checked]; apply ubt_amap.
    - unfold cget_field. apply ubt_bind; [apply ubt_msg_resolve|]. intros.
      apply ubt_bind; [apply ubt_field|]. intros. apply ubt_get_bytes.
    - unfold cget_array_elem. apply ubt_bind; [apply ubt_msg_resolve|]. intros.
      apply ubt_bind; [apply ubt_field|]. intros.
      apply ubt_bind; [apply ub_static_view|]. intros. apply ubt_array_elem.
    - unfold cget_array. apply ubt_bind; [apply ubt_msg_resolve|]. intros.
      apply ubt_bind; [apply ubt_field|]. intros.
      apply ubt_bind; [apply ub_static_view|]. intros. apply ubt_array_elems.
    - unfold cget_comp_member. apply ubt_bind; [apply ubt_msg_resolve|]. intros.
      apply ubt_bind; [apply ubt_field|]. intros.
      apply ubt_bind; [apply ub_static_view|]. intros. apply ubt_get_bytes.
    - unfold cgroup_info. apply ubt_bind; [apply ubt_group_at_path|]. intros [[[g d] cbl] sub] tr1.
      apply ubt_bind; [apply ubt_group_bl|]. intros.
      apply ubt_bind; [apply ubt_group_num|]. intros. apply ubt_ret.
    - unfold cgroup_size_bytes. apply ubt_bind; [apply ubt_group_at_path|]. intros [[[g d] cbl] sub] tr1.
      apply ubt_bind; [apply (proj2 U_all)|]. intros. apply ubt_ret.
    - unfold centry_size_bytes. apply ubt_bind; [apply ubt_msg_resolve|]. intros.
      apply ubt_view_size_bytes.
    - apply ubt_view_size_bytes.
    - unfold cdata_info. apply ubt_bind; [apply ubt_data_at_path|]. intros.
      apply ubt_bind; [eapply ubt_of, ub_data_len|]. intros. apply ubt_ret.
    - apply ubt_get_data.
  Qed.
End Upper.

Theorem checked_nothing_beyond_end : stmt_checked_nothing_beyond_end.
Proof.
  intros be b m base o. destruct (ubt_run be b m base o) as (d & Ht & Hd & _).
  rewrite Ht. exact Hd.
Qed.
Print Assumptions checked_nothing_beyond_end.

(* ================================================================== *)
(* (b2): no spurious report when the message lies inside the buffer    *)
(* ================================================================== *)

Section Complete.
  Variables (be : bool) (b : list Z).
  Hypothesis Hok : bytes_ok b = true.
  Hypothesis Hlen : len b < 2 ^ 64.

  (* [r] is the value x, whatever the trace so far *)
  Definition okv {A} (f : trace -> ares A) (x : A) : Prop :=
    forall tr, exists tr', f tr = AOk x tr'.

  Lemma okv_bind {A B} (f : trace -> ares A) (g : A -> trace -> ares B) x y :
    okv f x -> okv (g x) y -> okv (fun tr => abind (f tr) g) y.
  Proof.
    intros Hf Hg tr. destruct (Hf tr) as [tr1 E]. rewrite E. cbn [abind]. apply Hg.
  Qed.

  Lemma okv_ret {A} (x : A) : okv (fun tr => AOk x tr) x.
  Proof. intros tr. eauto. Qed.

  Lemma okv_chk begin off size : 0 <= begin -> 0 <= off + size -> begin + off + size <= len b ->
    okv (chk b begin off size) tt.
  Proof.
    intros H1 H2 H3 tr. unfold chk. rewrite size_check_complete by lia. eauto.
  Qed.

  Lemma okv_pre c : c = true -> okv (pre c) tt.
  Proof. intros -> tr. cbn [pre]. eauto. Qed.

  Lemma okv_alift {A} (o : option A) x : o = Some x -> okv (alift o) x.
  Proof. intros -> tr. cbn [alift]. eauto. Qed.

  Lemma rd_some' off t v : rd be b off t = Some v ->
    0 <= off /\ off + tbytes t <= len b /\ v = dec be (slice b off (tbytes t)) /\ 0 <= v.
  Proof. apply rd_some. exact Hok. Qed.

  Lemma rd_bound off t v : rd be b off t = Some v -> 0 <= v < 2 ^ bits t.
  Proof.
    intros H. destruct (rd_some' _ _ _ H) as (H1 & H2 & -> & H4). split; [exact H4|].
    pose proof (tbytes_pos t) as Htp.
    assert (Hin : in_buf b off (tbytes t) = true) by (apply in_buf_iff; lia).
    assert (Hs : bytes_ok (slice b off (tbytes t)) = true) by (apply bytes_ok_slice, Hok).
    pose proof (length_slice _ _ _ Hin) as Hl. rewrite <- pow_tw. unfold tw.
    unfold dec. destruct be.
    - assert (Hr : bytes_ok (rev (slice b off (tbytes t))) = true) by (rewrite bytes_ok_rev; exact Hs).
      pose proof (dec_le_bound _ Hr) as Hb. rewrite rev_length, Hl in Hb. lia.
    - pose proof (dec_le_bound _ Hs) as Hb. rewrite Hl in Hb. lia.
  Qed.

  Lemma okv_get_value begin off t v : 0 <= begin -> 0 <= off ->
    rd be b (begin + off) t = Some v -> okv (cget_value be b begin off t) v.
  Proof.
    intros Hb Ho Hr. destruct (rd_some' _ _ _ Hr) as (H1 & H2 & -> & _).
    pose proof (tbytes_pos t). unfold cget_value.
    apply (okv_bind _ _ tt); [apply okv_chk; lia|]. intros tr. unfold touch_val. eexists. reflexivity.
  Qed.

  Lemma okv_get_bytes begin off n x : 0 <= begin -> 0 <= off ->
    rd_bytes b (begin + off) n = Some x -> okv (cget_bytes b begin off n) x.
  Proof.
    intros Hb Ho Hr. unfold rd_bytes in Hr.
    destruct (in_buf b (begin + off) n) eqn:E; [|discriminate]. injection Hr as <-.
    apply in_buf_iff in E. unfold cget_bytes.
    apply (okv_bind _ _ tt); [apply okv_chk; lia|]. intros tr. unfold touch_bytes. eexists. reflexivity.
  Qed.

  Lemma okv_group_header d g : wf_dim d -> 0 <= g -> g + d_size d <= len b ->
    okv (cgroup_header b d g) tt.
  Proof.
    intros Hd Hg Hle. unfold cgroup_header. pose proof (wf_dim_size_pos d Hd).
    apply okv_chk; lia.
  Qed.

  Lemma okv_group_num d g n : wf_dim d -> 0 <= g -> g + d_size d <= len b ->
    rd be b (g + d_n_off d) (d_n_t d) = Some n -> okv (cgroup_num be b d g) n.
  Proof.
    intros Hd Hg Hle Hr. unfold cgroup_num.
    apply (okv_bind _ _ tt); [apply okv_group_header; assumption|].
    apply okv_get_value; [exact Hg|apply Hd|exact Hr].
  Qed.

  Lemma okv_group_bl d g bl : wf_dim d -> 0 <= g -> g + d_size d <= len b ->
    rd be b (g + d_bl_off d) (d_bl_t d) = Some bl -> okv (cgroup_bl be b d g) bl.
  Proof.
    intros Hd Hg Hle Hr. unfold cgroup_bl.
    apply (okv_bind _ _ tt); [apply okv_group_header; assumption|].
    apply okv_get_value; [exact Hg|apply Hd|exact Hr].
  Qed.

  Lemma okv_data_len t p n : rd be b p t = Some n -> okv (cdata_len be b t p) n.
  Proof.
    intros Hr. destruct (rd_some' _ _ _ Hr) as (H1 & _). unfold cdata_len.
    apply okv_get_value; [exact H1|lia|rewrite Z.add_0_r; exact Hr].
  Qed.

  Lemma okv_data_size_bytes t p n : rd be b p t = Some n ->
    okv (cdata_size_bytes be b t p) (tbytes t + n).
  Proof.
    intros Hr. unfold cdata_size_bytes.
    apply (okv_bind _ _ n); [apply okv_data_len; exact Hr|apply okv_ret].
  Qed.

  Lemma okv_datas_end : forall ds p e, datas_end be b ds p = Some e ->
    okv (cdatas_end be b ds p) e.
  Proof.
    induction ds as [|t ds IH]; intros p e H; cbn [datas_end cdatas_end] in *.
    - injection H as <-. apply okv_ret.
    - apply obind_some' in H. destruct H as (n & Hr & H).
      apply (okv_bind _ _ (tbytes t + n)); [apply okv_data_size_bytes; exact Hr|].
      rewrite Z.add_assoc. apply IH. exact H.
  Qed.

  (* ---- monotonicity of the unchecked navigation ---- *)
  Lemma datas_end_mono : forall ds p e, datas_end be b ds p = Some e -> p <= e.
  Proof.
    induction ds as [|t ds IH]; intros p e H; cbn [datas_end] in H.
    - injection H as <-. lia.
    - apply obind_some' in H. destruct H as (n & Hr & H). apply IH in H.
      destruct (rd_some' _ _ _ Hr) as (_ & _ & _ & Hn). pose proof (tbytes_pos t). lia.
  Qed.

  Lemma walk_mono fuel l bl :
    (forall pos e, 0 <= pos -> level_end be b fuel l pos bl = Some e -> pos <= e) ->
    forall k n p e, 0 <= p -> entries_walk be b fuel l bl k n p = Some e -> p <= e.
  Proof.
    intros HL. induction k as [|k IH]; intros n p e Hp H; cbn [entries_walk] in H.
    - destruct (n <=? 0); [injection H as <-; lia|discriminate].
    - destruct (n <=? 0); [injection H as <-; lia|].
      apply obind_some' in H. destruct H as (p' & H1 & H2).
      apply HL in H1; [|exact Hp]. apply IH in H2; lia.
  Qed.

  Definition M_level (l : level) : Prop :=
    forall fuel pos bl e, wf_table_level l -> 0 <= pos -> 0 <= bl ->
      level_end be b fuel l pos bl = Some e -> pos + bl <= e.
  Definition M_groups (gs : groups) : Prop :=
    forall fuel p e, wf_table_groups gs -> 0 <= p -> groups_end be b fuel gs p = Some e -> p <= e.

  Lemma M_all : (forall l, M_level l) /\ (forall gs, M_groups gs).
  Proof.
    assert (Hl : forall fs gs ds, M_groups gs -> M_level (Level fs gs ds)).
    { intros fs gs ds IH fuel pos bl e Hwf Hp Hbl H. rewrite level_end_eq in H.
      cbn [wf_table_level] in Hwf. destruct Hwf as (_ & _ & Hg).
      apply obind_some' in H. destruct H as (p & H1 & H2).
      apply IH in H1; [|exact Hg|lia]. apply datas_end_mono in H2. lia. }
    assert (Hn : M_groups GNil).
    { intros fuel p e _ _ H. cbn [groups_end] in H. injection H as <-. lia. }
    assert (Hc : forall d cbl l rest, M_level l -> M_groups rest -> M_groups (GCons d cbl l rest)).
    { intros d cbl l rest IHl IHr fuel p e Hwf Hp H. rewrite groups_end_cons in H.
      cbn [wf_table_groups] in Hwf. destruct Hwf as (Hd & _ & Hwl & Hwr).
      apply obind_some' in H. destruct H as (bl & Hbl & H).
      apply obind_some' in H. destruct H as (n & Hn' & H).
      apply obind_some' in H. destruct H as (p1 & H1 & H2).
      destruct (rd_some' _ _ _ Hbl) as (_ & _ & _ & Hbl0).
      pose proof (wf_dim_size_pos d Hd).
      assert (Hp1 : p <= p1).
      { destruct (is_flat l).
        - apply obind_some' in H1. destruct H1 as (s & Hs & H1). injection H1 as <-.
          apply flat_group_size_nonneg in Hs. lia.
        - apply walk_mono in H1; [lia| |lia].
          intros pos e' Hpos He'. apply IHl in He'; try assumption. lia. }
      apply IHr in H2; [lia|exact Hwr|lia]. }
    split.
    - apply (level_mind M_level M_groups);
        [intros fs gs IH ds; apply Hl, IH|exact Hn|intros d cbl l IHl rest IHr; apply Hc; assumption].
    - apply (groups_mind M_level M_groups);
        [intros fs gs IH ds; apply Hl, IH|exact Hn|intros d cbl l IHl rest IHr; apply Hc; assumption].
  Qed.

  (* ---- completeness of the walks below a bound ---- *)
  Lemma okv_incr (lend : Z -> trace -> ares Z) ptr e :
    okv (lend ptr) e -> 0 <= ptr -> ptr <= e -> e <= len b -> okv (cincr b lend ptr) e.
  Proof.
    intros Hk Hp Hpe Hle. unfold cincr, chk_begin.
    apply (okv_bind _ _ tt); [apply okv_chk; lia|].
    apply (okv_bind _ _ e); [exact Hk|].
    apply (okv_bind _ _ tt); [apply okv_chk; lia|]. exact Hk.
  Qed.

  Definition C_level (l : level) : Prop :=
    forall fuel pos bl e, wf_table_level l -> nowrap_level l -> 0 <= pos -> 0 <= bl ->
      level_end be b fuel l pos bl = Some e -> e <= len b ->
      okv (clevel_end be b fuel l pos bl) e.
  Definition C_groups (gs : groups) : Prop :=
    forall fuel p e, wf_table_groups gs -> nowrap_groups gs -> 0 <= p ->
      groups_end be b fuel gs p = Some e -> e <= len b ->
      okv (cgroups_end be b fuel gs p) e.

  Lemma level_mono fuel l bl : wf_table_level l -> 0 <= bl ->
    forall pos e, 0 <= pos -> level_end be b fuel l pos bl = Some e -> pos <= e.
  Proof.
    intros Hwf Hbl pos e Hp H. apply (proj1 M_all) in H; try assumption. lia.
  Qed.

  Section Walks.
    Variables (fuel : nat) (l : level) (bl : Z).
    Hypothesis HC : C_level l.
    Hypothesis Hwf : wf_table_level l.
    Hypothesis Hnw : nowrap_level l.
    Hypothesis Hbl : 0 <= bl.

    Let lend := fun q t => clevel_end be b fuel l q bl t.

    Lemma okv_walk_step p p' e : 0 <= p -> level_end be b fuel l p bl = Some p' -> p' <= e ->
      e <= len b -> okv (cincr b lend p) p'.
    Proof.
      intros Hp H1 Hp' Hle.
      apply okv_incr; [apply HC; try assumption; lia|exact Hp| |lia].
      apply (level_mono fuel l bl Hwf Hbl) in H1; [exact H1|exact Hp].
    Qed.

    Lemma okv_sum : forall k n p e, 0 <= p ->
      entries_walk be b fuel l bl k n p = Some e -> e <= len b -> okv (csum b lend k n p) e.
    Proof.
      induction k as [|k IH]; intros n p e Hp H Hle; cbn [entries_walk csum] in *.
      - destruct (n <=? 0); [injection H as <-; apply okv_ret|discriminate].
      - destruct (n <=? 0); [injection H as <-; apply okv_ret|].
        apply obind_some' in H. destruct H as (p' & H1 & H2).
        assert (Hpp : p <= p') by (apply (level_mono fuel l bl Hwf Hbl) in H1; assumption).
        assert (Hp' : p' <= e).
        { apply (walk_mono fuel l bl) in H2; [exact H2| |lia]. apply level_mono; assumption. }
        apply (okv_bind _ _ p'); [apply HC; try assumption; lia|].
        apply (okv_bind _ _ p'); [apply (okv_walk_step p p' e); assumption|].
        apply IH; [lia|exact H2|exact Hle].
    Qed.

    Lemma okv_walk : forall k n p e, 0 <= p ->
      entries_walk be b fuel l bl k n p = Some e -> e <= len b -> okv (cwalk b lend k n p) e.
    Proof.
      induction k as [|k IH]; intros n p e Hp H Hle; cbn [entries_walk cwalk] in *.
      - destruct (n <=? 0); [injection H as <-; apply okv_ret|discriminate].
      - destruct (n <=? 0); [injection H as <-; apply okv_ret|].
        apply obind_some' in H. destruct H as (p' & H1 & H2).
        assert (Hpp : p <= p') by (apply (level_mono fuel l bl Hwf Hbl) in H1; assumption).
        assert (Hp' : p' <= e).
        { apply (walk_mono fuel l bl) in H2; [exact H2| |lia]. apply level_mono; assumption. }
        apply (okv_bind _ _ p'); [apply (okv_walk_step p p' e); assumption|].
        apply IH; [lia|exact H2|exact Hle].
    Qed.

    (* the walk to entry i is a prefix of the walk over all n entries *)
    Lemma walk_prefix : forall k n i p e1 epos, 0 <= p -> 0 <= i < n ->
      entries_walk be b fuel l bl k n p = Some e1 ->
      entries_walk be b fuel l bl k i p = Some epos ->
      0 <= epos /\ exists ei, level_end be b fuel l epos bl = Some ei /\ ei <= e1.
    Proof.
      induction k as [|k IH]; intros n i p e1 epos Hp Hi Hn Hi'; cbn [entries_walk] in *.
      - destruct (Z.leb_spec n 0); [lia|discriminate].
      - destruct (Z.leb_spec n 0); [lia|].
        apply obind_some' in Hn. destruct Hn as (p' & H1 & H2).
        assert (Hpp : p <= p') by (apply (level_mono fuel l bl Hwf Hbl) in H1; assumption).
        destruct (Z.leb_spec i 0).
        + injection Hi' as <-. split; [exact Hp|]. exists p'. split; [exact H1|].
          apply (walk_mono fuel l bl) in H2; [exact H2| |lia]. apply level_mono; assumption.
        + rewrite H1 in Hi'. cbn [obind] in Hi'.
          apply (IH (n - 1) (i - 1) p' e1 epos); [lia|lia|exact H2|exact Hi'].
    Qed.
  End Walks.

  Lemma flat_size_exact d n bl s : wf_dim d -> dim_nowrap d ->
    0 <= n < 2 ^ bits (d_n_t d) -> 0 <= bl < 2 ^ bits (d_bl_t d) ->
    flat_group_size d n bl = Some s -> s = d_size d + n * bl.
  Proof.
    intros Hd Hnw Hn Hbl Hs. pose proof (wf_dim_size_pos d Hd) as Hsz.
    pose proof (bits_le_64 (d_n_t d)). pose proof (bits_le_64 (d_bl_t d)).
    unfold dim_nowrap in Hnw.
    assert (n * bl < 2 ^ bits (d_n_t d) * 2 ^ bits (d_bl_t d)) by nia.
    rewrite flat_group_size_ok in Hs; [injection Hs as <-; reflexivity|apply Hd|lia|lia|lia|lia|lia|lia].
  Qed.

  Lemma group_part_mono fuel d l p bl n p1 : wf_dim d -> wf_table_level l -> 0 <= p -> 0 <= bl ->
    (if is_flat l then obind (flat_group_size d n bl) (fun s => Some (p + s))
     else entries_walk be b fuel l bl fuel n (p + d_size d)) = Some p1 -> p <= p1.
  Proof.
    intros Hd Hl Hp Hbl H. pose proof (wf_dim_size_pos d Hd). destruct (is_flat l).
    - apply obind_some' in H. destruct H as (s & Hs & H). injection H as <-.
      apply flat_group_size_nonneg in Hs. lia.
    - apply (walk_mono fuel l bl) in H; [lia| |lia]. apply level_mono; assumption.
  Qed.

  Lemma C_all : (forall l, C_level l) /\ (forall gs, C_groups gs).
  Proof.
    assert (Hl : forall fs gs ds, C_groups gs -> C_level (Level fs gs ds)).
    { intros fs gs ds IH fuel pos bl e Hwf Hnw Hp Hbl H Hle. rewrite level_end_eq in H.
      cbn [wf_table_level] in Hwf. destruct Hwf as (_ & _ & Hg). cbn [nowrap_level] in Hnw.
      apply obind_some' in H. destruct H as (ge & H1 & H2). cbn [clevel_end].
      pose proof (datas_end_mono _ _ _ H2).
      apply (okv_bind _ _ ge); [apply IH; try assumption; lia|]. apply okv_datas_end. exact H2. }
    assert (Hn : C_groups GNil).
    { intros fuel p e _ _ _ H _. cbn [groups_end cgroups_end] in *. injection H as <-. apply okv_ret. }
    assert (Hc : forall d cbl l rest, C_level l -> C_groups rest -> C_groups (GCons d cbl l rest)).
    { intros d cbl l rest IHl IHr fuel p e Hwf Hnw Hp H Hle. rewrite groups_end_cons in H.
      cbn [wf_table_groups] in Hwf. destruct Hwf as (Hd & _ & Hwl & Hwr).
      cbn [nowrap_groups] in Hnw. destruct Hnw as (Hnd & Hnl & Hnr).
      apply obind_some' in H. destruct H as (bl & Hbl & H).
      apply obind_some' in H. destruct H as (n & Hn' & H).
      apply obind_some' in H. destruct H as (p1 & H1 & H2).
      pose proof (rd_bound _ _ _ Hbl) as Hblb. pose proof (rd_bound _ _ _ Hn') as Hnb.
      pose proof (wf_dim_size_pos d Hd) as Hsz.
      assert (Hpp1 : p <= p1) by (apply (group_part_mono fuel d l p bl n p1); try assumption; lia).
      assert (Hp1e : p1 <= e) by (apply (proj2 M_all) in H2; [exact H2|exact Hwr|lia]).
      cbn [cgroups_end].
      apply (okv_bind _ _ p1); [|apply IHr; try assumption; lia].
      destruct (is_flat l) eqn:Hfl.
      - apply obind_some' in H1. destruct H1 as (s & Hs & H1). injection H1 as <-.
        pose proof (flat_size_exact d n bl s Hd Hnd Hnb Hblb Hs) as Hse.
        assert (0 <= n * bl) by (apply Z.mul_nonneg_nonneg; lia).
        unfold cflat_group_end.
        apply (okv_bind _ _ tt); [apply okv_group_header; [exact Hd|exact Hp|lia]|].
        apply (okv_bind _ _ n); [apply okv_get_value; [exact Hp|apply Hd|exact Hn']|].
        apply (okv_bind _ _ bl); [apply okv_get_value; [exact Hp|apply Hd|exact Hbl]|].
        apply (okv_bind _ _ s); [apply okv_alift; exact Hs|]. apply okv_ret.
      - assert (Hhd : p + d_size d <= p1).
        { apply (walk_mono fuel l bl) in H1; [exact H1| |lia]. apply level_mono; [exact Hwl|lia]. }
        unfold cnested_group_end.
        apply (okv_bind _ _ tt); [apply okv_group_header; [exact Hd|exact Hp|lia]|].
        apply (okv_bind _ _ bl); [apply okv_group_bl; [exact Hd|exact Hp|lia|exact Hbl]|].
        apply (okv_bind _ _ n); [apply okv_group_num; [exact Hd|exact Hp|lia|exact Hn']|].
        apply (okv_bind _ _ bl); [apply okv_group_bl; [exact Hd|exact Hp|lia|exact Hbl]|].
        apply (okv_sum fuel l bl IHl Hwl Hnl); [lia|lia|exact H1|lia]. }
    split.
    - apply (level_mind C_level C_groups);
        [intros fs gs IH ds; apply Hl, IH|exact Hn|intros d cbl l IHl rest IHr; apply Hc; assumption].
    - apply (groups_mind C_level C_groups);
        [intros fs gs IH ds; apply Hl, IH|exact Hn|intros d cbl l IHl rest IHr; apply Hc; assumption].
  Qed.

  (* the k-th group: every group before it lies below the end of all groups *)
  Lemma okv_nth_group fuel : forall gs k p ge g d cbl sub,
    wf_table_groups gs -> nowrap_groups gs -> 0 <= p ->
    groups_end be b fuel gs p = Some ge -> ge <= len b ->
    nth_group_pos be b fuel gs k p = Some (g, d, cbl, sub) ->
    okv (cnth_group be b fuel gs k p) (g, d, cbl, sub) /\
    0 <= g /\ wf_dim d /\ wf_table_level sub /\ nowrap_level sub /\ dim_nowrap d /\ 0 <= cbl /\
    exists e1, groups_end be b fuel (GCons d cbl sub GNil) g = Some e1 /\ e1 <= len b.
  Proof.
    induction gs as [|d0 cbl0 l0 rest IH]; intros k p ge g d cbl sub Hwf Hnw Hp Hge Hle Hnth;
      cbn [nth_group_pos cnth_group] in *; [discriminate|].
    pose proof Hwf as Hwf'. cbn [wf_table_groups] in Hwf'. destruct Hwf' as (Hd & Hc & Hwl & Hwr).
    pose proof Hnw as Hnw'. cbn [nowrap_groups] in Hnw'. destruct Hnw' as (Hnd & Hnl & Hnr).
    rewrite groups_end_single in Hge. apply obind_some' in Hge. destruct Hge as (p1 & H1 & H2).
    assert (Hwf1 : wf_table_groups (GCons d0 cbl0 l0 GNil)) by (cbn [wf_table_groups]; auto).
    assert (Hnw1 : nowrap_groups (GCons d0 cbl0 l0 GNil)) by (cbn [nowrap_groups]; auto).
    assert (Hpp1 : p <= p1) by (apply (proj2 M_all) in H1; assumption).
    assert (Hp1e : p1 <= ge) by (apply (proj2 M_all) in H2; [exact H2|exact Hwr|lia]).
    destruct k as [|k'].
    - injection Hnth as <- <- <- <-. split; [apply okv_ret|]. repeat (split; [assumption|]).
      exists p1. split; [exact H1|lia].
    - rewrite H1 in Hnth. cbn [obind] in Hnth.
      destruct (IH k' p1 ge g d cbl sub Hwr Hnr ltac:(lia) H2 Hle Hnth) as (Hk & Hrest).
      split; [|exact Hrest].
      apply (okv_bind _ _ p1); [apply (proj2 C_all); try assumption; lia|exact Hk].
  Qed.

  Lemma okv_nth_data : forall ds k p q t, 0 <= p ->
    nth_data_pos be b ds k p = Some (q, t) -> okv (cnth_data be b ds k p) (q, t) /\ 0 <= q.
  Proof.
    induction ds as [|t0 ds IH]; intros k p q t Hp H; cbn [nth_data_pos cnth_data] in *; [discriminate|].
    destruct k as [|k'].
    - injection H as <- <-. split; [apply okv_ret|exact Hp].
    - apply obind_some' in H. destruct H as (n & Hr & H).
      destruct (rd_some' _ _ _ Hr) as (_ & _ & _ & Hn). pose proof (tbytes_pos t0).
      destruct (IH k' (p + tbytes t0 + n) q t ltac:(lia) H) as [Hk Hq]. split; [|exact Hq].
      apply (okv_bind _ _ (tbytes t0 + n)); [apply okv_data_size_bytes; exact Hr|].
      rewrite Z.add_assoc. exact Hk.
  Qed.

  (* ---- paths ---- *)
  Variable m : message.
  Hypothesis Hm : wf_msg m.
  Let F := default_fuel b.

  (* the view v stands for the block at pos with wire blockLength bl *)
  Definition vrel (v : cview) (pos bl : Z) : Prop :=
    vlevel m v = pos /\ vbl be b m v = bl /\ 0 <= view_start v /\ 0 <= bl /\ vhdr_ok b m v.

  (* the level at (pos, bl) lies inside the buffer *)
  Definition Inv (l : level) (pos bl : Z) : Prop :=
    is_flat l = true \/ exists e, level_end be b F l pos bl = Some e /\ e <= len b.

  Lemma vrel_pos v pos bl : vrel v pos bl -> 0 <= pos.
  Proof.
    intros (<- & _ & Hs & _). unfold vlevel. pose proof (view_hoff_nonneg m Hm v). lia.
  Qed.

  Lemma okv_first_dyn v pos bl : vrel v pos bl -> okv (cfirst_dyn be b m v) (pos + bl).
  Proof.
    intros (Hl & Hb & Hs & Hbl & Hh). destruct v as [base|p bl0]; cbn [cfirst_dyn].
    - cbn [view_start vhdr_ok] in *. unfold vlevel in Hl. cbn [view_start view_hoff] in Hl.
      pose proof (hdr_pos m Hm) as Hhp. destruct Hm as (Hm1 & Hm2 & _).
      pose proof (msg_block_length_ok be b m Hm base Hs Hh) as Hr. rewrite Hb in Hr.
      unfold msg_block_length in Hr. unfold cmsg_header.
      apply (okv_bind _ _ tt); [apply okv_chk; lia|]. unfold cmsg_bl, cmsg_header.
      apply (okv_bind _ _ bl).
      + apply (okv_bind _ _ tt); [apply okv_chk; lia|].
        apply okv_get_value; [exact Hs|exact Hm1|exact Hr].
      + subst pos. apply okv_ret.
    - unfold vlevel in Hl. cbn [view_start view_hoff vbl] in *. subst pos bl0. intros tr.
      rewrite Z.add_0_r. eexists. reflexivity.
  Qed.

  Lemma nonflat_of_group l k p r : nth_group_pos be b F (level_groups l) k p = Some r ->
    is_flat l = false.
  Proof.
    destruct l as [fs gs ds]. cbn [level_groups]. unfold is_flat. cbn [level_groups].
    destruct gs; cbn [nth_group_pos groups_empty andb]; [discriminate|reflexivity].
  Qed.

  Lemma okv_step v l pos bl k i g d cbl sub gv epos :
    vrel v pos bl -> wf_table_level l -> nowrap_level l -> Inv l pos bl ->
    nth_group_pos be b F (level_groups l) k (pos + bl) = Some (g, d, cbl, sub) ->
    group_at be b d g = Some gv -> entry_pos be b F d sub gv i = Some epos ->
    okv (cstep be b m F v l k i) (CVEntry epos (gv_bl gv), sub) /\
    0 <= epos /\ 0 <= gv_bl gv /\ wf_table_level sub /\ nowrap_level sub /\
    Inv sub epos (gv_bl gv).
  Proof.
    intros Hv Hwf Hnw Hinv Hnth Hga Hep.
    pose proof (vrel_pos _ _ _ Hv) as Hpos. pose proof Hv as (_ & _ & _ & Hbl0 & _).
    destruct Hinv as [Hf|(e & He & Hle)]; [rewrite (nonflat_of_group _ _ _ _ Hnth) in Hf; discriminate|].
    destruct l as [fs gs ds]. rewrite level_end_eq in He. cbn [level_groups] in *.
    cbn [wf_table_level] in Hwf. destruct Hwf as (_ & _ & Hg). cbn [nowrap_level] in Hnw.
    apply obind_some' in He. destruct He as (ge & H1 & H2).
    pose proof (datas_end_mono _ _ _ H2) as Hgee.
    destruct (okv_nth_group F gs k (pos + bl) ge g d cbl sub Hg Hnw ltac:(lia) H1 ltac:(lia) Hnth)
      as (Hk & Hg0 & Hd & Hwsub & Hnsub & Hnd & Hc & e1 & He1 & He1le).
    unfold group_at in Hga. apply obind_some' in Hga. destruct Hga as (gbl & Hrbl & Hga).
    apply obind_some' in Hga. destruct Hga as (gn & Hrn & Hga). injection Hga as <-.
    cbn [gv_bl gv_n gv_pos] in *.
    pose proof (rd_bound _ _ _ Hrbl) as Hblb. pose proof (rd_bound _ _ _ Hrn) as Hnb.
    pose proof (wf_dim_size_pos d Hd) as Hsz.
    unfold entry_pos in Hep. cbn [gv_bl gv_n gv_pos] in Hep.
    destruct ((i <? 0) || (gn <=? i)) eqn:Hrange; [discriminate|].
    pose proof Hrange as Hrange'. apply orb_false_iff in Hrange'. destruct Hrange' as [Hi0 Hin].
    apply Z.ltb_ge in Hi0. apply Z.leb_gt in Hin.
    rewrite groups_end_cons in He1. rewrite Hrbl in He1. cbn [obind] in He1.
    rewrite Hrn in He1. cbn [obind] in He1.
    apply obind_some' in He1. destruct He1 as (p1 & Hp1 & He1). cbn [groups_end] in He1.
    injection He1 as ->.
    assert (Hhdr : g + d_size d <= len b /\ 0 <= epos /\ Inv sub epos gbl /\
                   okv (centry_at be b F d sub g i) (epos, gbl)).
    { unfold centry_at. destruct (is_flat sub) eqn:Hfs.
      - apply obind_some' in Hp1. destruct Hp1 as (s & Hs & Hp1). injection Hp1 as <-.
        pose proof (flat_size_exact d gn gbl s Hd Hnd Hnb Hblb Hs) as Hse.
        assert (0 <= gn * gbl) by (apply Z.mul_nonneg_nonneg; lia).
        assert (0 <= i * gbl) by (apply Z.mul_nonneg_nonneg; lia).
        injection Hep as <-.
        split; [lia|]. split; [lia|]. split; [left; exact Hfs|].
        apply (okv_bind _ _ gn); [apply okv_group_num; [exact Hd|exact Hg0|lia|exact Hrn]|].
        apply (okv_bind _ _ tt); [apply okv_pre; apply Z.ltb_lt; lia|].
        apply (okv_bind _ _ gbl); [apply okv_group_bl; [exact Hd|exact Hg0|lia|exact Hrbl]|].
        apply okv_ret.
      - assert (Hhd : g + d_size d <= e1).
        { apply (walk_mono F sub gbl) in Hp1; [exact Hp1| |lia]. apply level_mono; [exact Hwsub|lia]. }
        destruct (walk_prefix F sub gbl Hwsub ltac:(lia) F gn i (g + d_size d) e1 epos
                    ltac:(lia) ltac:(lia) Hp1 Hep) as (Hepos & ei & Hei & Heile).
        pose proof (level_mono F sub gbl Hwsub ltac:(lia) epos ei Hepos Hei) as Hepei.
        split; [lia|]. split; [exact Hepos|]. split; [right; exists ei; split; [exact Hei|lia]|].
        apply (okv_bind _ _ gbl); [apply okv_group_bl; [exact Hd|exact Hg0|lia|exact Hrbl]|].
        apply (okv_bind _ _ epos); [|apply okv_ret].
        apply (okv_walk F sub gbl (proj1 C_all sub) Hwsub Hnsub); [lia|lia|exact Hep|lia]. }
    destruct Hhdr as (Hhdr & Hepos & Hinv' & Hka).
    split; [|repeat (split; [first [assumption|lia]|]); exact Hinv'].
    unfold cstep.
    apply (okv_bind _ _ (pos + bl)); [apply okv_first_dyn; exact Hv|].
    apply (okv_bind _ _ (g, d, cbl, sub)); [exact Hk|]. cbn beta iota.
    apply (okv_bind _ _ gn); [apply okv_group_num; [exact Hd|exact Hg0|exact Hhdr|exact Hrn]|].
    apply (okv_bind _ _ tt); [apply okv_pre; rewrite Hrange; reflexivity|].
    apply (okv_bind _ _ (epos, gbl)); [exact Hka|]. cbn [fst snd]. apply okv_ret.
  Qed.

  Lemma okv_resolve : forall path v l pos bl pos' bl' l',
    vrel v pos bl -> wf_table_level l -> nowrap_level l -> Inv l pos bl ->
    resolve be b F path l pos bl = Some (pos', bl', l') ->
    exists v', okv (cresolve be b m F path v l) (v', l') /\ vrel v' pos' bl' /\
               wf_table_level l' /\ nowrap_level l' /\ Inv l' pos' bl' /\
               match path with [] => v' = v | _ => exists p bl0, v' = CVEntry p bl0 end.
  Proof.
    induction path as [|[k i] rest IH]; intros v l pos bl pos' bl' l' Hv Hwf Hnw Hinv Hres;
      cbn [resolve cresolve] in *.
    - injection Hres as <- <- <-. exists v. split; [apply okv_ret|]. auto 6.
    - apply obind_some' in Hres. destruct Hres as ([[[g d] cbl] sub] & Hnth & Hres).
      apply obind_some' in Hres. destruct Hres as (gv & Hga & Hres).
      apply obind_some' in Hres. destruct Hres as (epos & Hep & Hres).
      destruct (okv_step v l pos bl k i g d cbl sub gv epos Hv Hwf Hnw Hinv Hnth Hga Hep)
        as (Hk & Hepos & Hgbl & Hwsub & Hnsub & Hinv').
      assert (Hv1 : vrel (CVEntry epos (gv_bl gv)) epos (gv_bl gv)).
      { unfold vrel, vlevel. cbn [view_start view_hoff vbl vhdr_ok]. repeat split; try lia. }
      destruct (IH (CVEntry epos (gv_bl gv)) sub epos (gv_bl gv) pos' bl' l' Hv1 Hwsub Hnsub Hinv' Hres)
        as (v' & Hk' & Hr1 & Hr2 & Hr3 & Hr4 & Hshape).
      exists v'. split; [|repeat (split; [assumption|]); destruct rest; [subst v'|]; eauto].
      apply (okv_bind _ _ (CVEntry epos (gv_bl gv), sub)); [exact Hk|]. cbn [fst snd]. exact Hk'.
  Qed.

  (* ---- the message lies inside the buffer ---- *)
  Hypothesis Hmnw : msg_nowrap m.

  Lemma root_inv base s : 0 <= base ->
    msg_size_bytes be b m base = Some s -> base + s <= len b ->
    exists bl, msg_block_length be b m base = Some bl /\
               vrel (CVMsg base) (base + m_hdr_size m) bl /\
               Inv (m_level m) (base + m_hdr_size m) bl.
  Proof.
    intros Hb Hs Hle. unfold msg_size_bytes in Hs. apply obind_some' in Hs.
    destruct Hs as (bl & Hr & Hs). exists bl. split; [exact Hr|].
    pose proof Hr as Hr'. unfold msg_block_length in Hr'. pose proof (rd_bound _ _ _ Hr') as Hblb.
    pose proof (hdr_pos m Hm) as Hhp. destruct Hmnw as [Hnw1 Hnw2].
    pose proof Hm as (_ & _ & Hwl).
    assert (Hhdr : base + m_hdr_size m <= len b /\ Inv (m_level m) (base + m_hdr_size m) bl).
    { unfold level_size_bytes in Hs. unfold Inv. destruct (is_flat (m_level m)) eqn:Hfl.
      - assert (Hsum : m_hdr_size m + bl < 2 ^ 64).
        { clear - Hblb Hnw1. generalize dependent (2 ^ bits (m_bl_t m)). intros P HP1 HP2. lia. }
        assert (Hh0 : 0 <= m_hdr_size m) by (clear - Hhp; lia).
        rewrite (flat_level_size_ok _ _ Hh0 (proj1 Hblb) Hsum) in Hs. injection Hs as <-.
        split; [clear - Hle Hblb; lia|left; reflexivity].
      - destruct Hblb as [Hbl0 _]. clear Hnw1 Hmnw.
        apply obind_some' in Hs. destruct Hs as (e & He & Hs). injection Hs as <-.
        pose proof (level_mono F (m_level m) bl Hwl ltac:(lia) (base + m_hdr_size m) e ltac:(lia) He).
        split; [lia|]. right. exists e. split; [exact He|lia]. }
    destruct Hhdr as [Hhdr Hinv]. split; [|exact Hinv].
    pose proof (msg_block_length_ok be b m Hm base Hb Hhdr) as Hr2. rewrite Hr in Hr2.
    injection Hr2 as Hr2. unfold vrel, vlevel. cbn [view_start view_hoff vhdr_ok].
    split; [reflexivity|]. split; [symmetry; exact Hr2|]. split; [exact Hb|].
    split; [exact (proj1 Hblb)|exact Hhdr].
  Qed.

  Section Inside.
    Variables (base s : Z).
    Hypothesis Hb : 0 <= base.
    Hypothesis Hs : msg_size_bytes be b m base = Some s.
    Hypothesis Hsle : base + s <= len b.

    Lemma okv_msg_resolve path pos bl l :
      msg_resolve be b m base path = Some (pos, bl, l) ->
      exists v, okv (cmsg_resolve be b m base path) (v, l) /\ vrel v pos bl /\
                wf_table_level l /\ nowrap_level l /\ Inv l pos bl /\
                match path with [] => v = CVMsg base | _ => exists p bl0, v = CVEntry p bl0 end.
    Proof.
      intros Hres. destruct (root_inv base s Hb Hs Hsle) as (bl0 & Hr & Hv & Hinv).
      unfold msg_resolve in Hres. rewrite Hr in Hres. cbn [obind] in Hres.
      destruct Hmnw as [_ Hnw]. pose proof Hm as (_ & _ & Hwl).
      apply (okv_resolve path (CVMsg base) (m_level m) _ _ _ _ _ Hv Hwl Hnw Hinv Hres).
    Qed.

    Lemma vrel_static v pos bl x : vrel v pos bl ->
      view_start v + (view_hoff m v + x) = pos + x.
    Proof. intros (<- & _). unfold vlevel. lia. Qed.

    Lemma field_bounds l k f : wf_table_level l -> nth_error (level_fields l) k = Some f ->
      0 <= f_off f /\ 0 <= f_size f.
    Proof.
      intros Hl Hf. destruct l as [fs gs ds]. cbn [level_fields] in Hf.
      cbn [wf_table_level] in Hl. destruct Hl as (Hfs & _ & _).
      apply (nth_error_Forall _ _ _ _ Hfs Hf).
    Qed.

    Lemma okv_field l k f : nth_error (level_fields l) k = Some f -> okv (cfield l k) f.
    Proof. intros H. unfold cfield. apply okv_alift. exact H. Qed.

    Lemma rd_bytes_some off n x : rd_bytes b off n = Some x ->
      0 <= off /\ 0 <= n /\ off + n <= len b /\ x = slice b off n.
    Proof.
      unfold rd_bytes. destruct (in_buf b off n) eqn:E; [|discriminate].
      intros H. injection H as <-. apply in_buf_iff in E. destruct E as (E1 & E2 & E3).
      repeat split; assumption || reflexivity.
    Qed.

    Lemma complete_get_field path k x : get_field be b m base path k = Some x ->
      exists tr, cget_field be b m base path k = AOk x tr.
    Proof.
      intros H. unfold get_field in H. apply obind_some' in H.
      destruct H as ([[pos bl] l] & Hres & H).
      destruct (nth_error (level_fields l) k) as [f|] eqn:Hf; [|discriminate].
      destruct (okv_msg_resolve path pos bl l Hres) as (v & Hk & Hv & Hwl & _).
      destruct (field_bounds l k f Hwl Hf) as [Ho Hsz].
      pose proof (view_hoff_nonneg m Hm v) as Hho. pose proof Hv as (_ & _ & Hst & _).
      unfold cget_field.
      refine (okv_bind _ _ (v, l) _ Hk _ []). cbn [fst snd].
      apply (okv_bind _ _ f); [apply okv_field; exact Hf|].
      apply okv_get_bytes; [exact Hst|lia|]. rewrite (vrel_static v pos bl _ Hv). exact H.
    Qed.

    Lemma okv_static_view v pos bl f : vrel v pos bl -> 0 <= f_off f -> pos + f_off f <= len b ->
      okv (cstatic_view b m v f) (pos + f_off f).
    Proof.
      intros Hv Ho Hle. pose proof (view_hoff_nonneg m Hm v) as Hho.
      pose proof Hv as (_ & _ & Hst & _). unfold cstatic_view.
      pose proof (vrel_static v pos bl (f_off f) Hv) as E.
      apply (okv_bind _ _ tt); [apply okv_chk; lia|]. rewrite E. apply okv_ret.
    Qed.

    Lemma okv_array_elem a n i : 0 <= a -> a + n <= len b -> 0 <= i < n ->
      okv (carray_elem b a n i) (slice b (a + i) 1).
    Proof.
      intros Ha Hle Hi. unfold carray_elem.
      apply (okv_bind _ _ tt).
      { apply okv_pre. apply andb_true_iff. split; [apply Z.leb_le|apply Z.ltb_lt]; lia. }
      apply (okv_bind _ _ tt); [apply okv_chk; lia|].
      intros tr. unfold touch_bytes. eexists. reflexivity.
    Qed.

    Lemma okv_array_elems a n : 0 <= a -> a + n <= len b ->
      forall cnt i acc, 0 <= i -> i + Z.of_nat cnt <= n ->
      okv (carray_elems b a n cnt i acc) (acc ++ slice b (a + i) (Z.of_nat cnt)).
    Proof.
      intros Ha Hle. induction cnt as [|c IH]; intros i acc Hi Hic; cbn [carray_elems].
      - cbn [Z.of_nat]. rewrite slice_zero, app_nil_r. apply okv_ret.
      - apply (okv_bind _ _ (slice b (a + i) 1)); [apply okv_array_elem; lia|].
        replace (acc ++ slice b (a + i) (Z.of_nat (S c)))
          with ((acc ++ slice b (a + i) 1) ++ slice b (a + (i + 1)) (Z.of_nat c)).
        + apply IH; lia.
        + rewrite <- app_assoc. f_equal. replace (a + (i + 1)) with (a + i + 1) by lia.
          rewrite slice_snoc by lia. f_equal. lia.
    Qed.

    Lemma complete_get_array path k x : get_field be b m base path k = Some x ->
      exists tr, cget_array be b m base path k = AOk x tr.
    Proof.
      intros H. unfold get_field in H. apply obind_some' in H.
      destruct H as ([[pos bl] l] & Hres & H).
      destruct (nth_error (level_fields l) k) as [f|] eqn:Hf; [|discriminate].
      destruct (okv_msg_resolve path pos bl l Hres) as (v & Hk & Hv & Hwl & _).
      destruct (field_bounds l k f Hwl Hf) as [Ho Hsz].
      destruct (rd_bytes_some _ _ _ H) as (Ha & _ & Hle & ->).
      unfold cget_array.
      refine (okv_bind _ _ (v, l) _ Hk _ []). cbn [fst snd].
      apply (okv_bind _ _ f); [apply okv_field; exact Hf|].
      apply (okv_bind _ _ (pos + f_off f)); [apply (okv_static_view v pos bl); [exact Hv|exact Ho|lia]|].
      pose proof (okv_array_elems (pos + f_off f) (f_size f) Ha Hle (Z.to_nat (f_size f)) 0 []
                    ltac:(lia) ltac:(lia)) as Hke.
      rewrite Z.add_0_r, Z2Nat.id in Hke by exact Hsz. exact Hke.
    Qed.

    Lemma complete_get_array_elem path k i x : get_array_elem be b m base path k i = Some x ->
      exists tr, cget_array_elem be b m base path k i = AOk x tr.
    Proof.
      intros H. unfold get_array_elem in H. apply obind_some' in H. destruct H as (bs & Hgf & H).
      unfold get_field in Hgf. apply obind_some' in Hgf.
      destruct Hgf as ([[pos bl] l] & Hres & Hgf).
      destruct (nth_error (level_fields l) k) as [f|] eqn:Hf; [|discriminate].
      destruct (okv_msg_resolve path pos bl l Hres) as (v & Hk & Hv & Hwl & _).
      destruct (field_bounds l k f Hwl Hf) as [Ho Hsz].
      destruct (rd_bytes_some _ _ _ Hgf) as (Ha & _ & Hle & ->).
      rewrite len_slice_in in H by lia.
      destruct ((0 <=? i) && (i <? f_size f)) eqn:Hi; [|discriminate]. injection H as <-.
      apply andb_true_iff in Hi. destruct Hi as [Hi1 Hi2]. apply Z.leb_le in Hi1. apply Z.ltb_lt in Hi2.
      rewrite slice_slice by lia.
      unfold cget_array_elem.
      refine (okv_bind _ _ (v, l) _ Hk _ []). cbn [fst snd].
      apply (okv_bind _ _ f); [apply okv_field; exact Hf|].
      apply (okv_bind _ _ (pos + f_off f)); [apply (okv_static_view v pos bl); [exact Hv|exact Ho|lia]|].
      apply okv_array_elem; lia.
    Qed.

    Lemma complete_get_comp_member path k moff msize x : 0 <= moff -> 0 <= msize ->
      get_comp_member be b m base path k moff msize = Some x ->
      exists tr, cget_comp_member be b m base path k moff msize = AOk x tr.
    Proof.
      intros Hmo Hms H. unfold get_comp_member in H. apply obind_some' in H.
      destruct H as ([[pos bl] l] & Hres & H).
      destruct (nth_error (level_fields l) k) as [f|] eqn:Hf; [|discriminate].
      destruct (okv_msg_resolve path pos bl l Hres) as (v & Hk & Hv & Hwl & _).
      destruct (field_bounds l k f Hwl Hf) as [Ho Hsz].
      destruct (rd_bytes_some _ _ _ H) as (Ha & _ & Hle & _).
      pose proof (vrel_pos v pos bl Hv) as Hpos.
      unfold cget_comp_member.
      refine (okv_bind _ _ (v, l) _ Hk _ []). cbn [fst snd].
      apply (okv_bind _ _ f); [apply okv_field; exact Hf|].
      apply (okv_bind _ _ (pos + f_off f)); [apply (okv_static_view v pos bl); [exact Hv|exact Ho|lia]|].
      apply okv_get_bytes; [lia|exact Hmo|exact H].
    Qed.

    (* the dimension of a group whose end lies inside the buffer lies inside *)
    Lemma single_group_hdr d cbl sub g e1 : wf_dim d -> dim_nowrap d -> wf_table_level sub ->
      0 <= g -> groups_end be b F (GCons d cbl sub GNil) g = Some e1 -> g + d_size d <= e1.
    Proof.
      intros Hd Hnd Hwsub Hg He1. rewrite groups_end_cons in He1.
      apply obind_some' in He1. destruct He1 as (gbl & Hrbl & He1).
      apply obind_some' in He1. destruct He1 as (gn & Hrn & He1).
      apply obind_some' in He1. destruct He1 as (p1 & Hp1 & He1). cbn [groups_end] in He1.
      injection He1 as ->.
      pose proof (rd_bound _ _ _ Hrbl) as Hblb. pose proof (rd_bound _ _ _ Hrn) as Hnb.
      destruct (is_flat sub).
      - apply obind_some' in Hp1. destruct Hp1 as (s0 & Hs0 & Hp1). injection Hp1 as <-.
        pose proof (flat_size_exact d gn gbl s0 Hd Hnd Hnb Hblb Hs0) as Hse.
        assert (0 <= gn * gbl) by (apply Z.mul_nonneg_nonneg; lia). lia.
      - pose proof (wf_dim_size_pos d Hd).
        apply (walk_mono F sub gbl) in Hp1; [exact Hp1| |lia]. apply level_mono; [exact Hwsub|lia].
    Qed.

    Lemma okv_group_at_path path k pos bl l g d cbl sub :
      msg_resolve be b m base path = Some (pos, bl, l) ->
      nth_group_pos be b F (level_groups l) k (pos + bl) = Some (g, d, cbl, sub) ->
      okv (cgroup_at_path be b m base path k) (g, d, cbl, sub) /\
      0 <= g /\ wf_dim d /\ wf_table_level sub /\ nowrap_level sub /\ dim_nowrap d /\ 0 <= cbl /\
      g + d_size d <= len b /\
      exists e1, groups_end be b F (GCons d cbl sub GNil) g = Some e1 /\ e1 <= len b.
    Proof.
      intros Hres Hnth.
      destruct (okv_msg_resolve path pos bl l Hres) as (v & Hk & Hv & Hwl & Hnl & Hinv & _).
      pose proof (vrel_pos v pos bl Hv) as Hpos. pose proof Hv as (_ & _ & _ & Hbl0 & _).
      destruct Hinv as [Hf|(e & He & Hle)]; [rewrite (nonflat_of_group _ _ _ _ Hnth) in Hf; discriminate|].
      destruct l as [fs gs ds]. rewrite level_end_eq in He. cbn [level_groups] in *.
      cbn [wf_table_level] in Hwl. destruct Hwl as (_ & _ & Hg). cbn [nowrap_level] in Hnl.
      apply obind_some' in He. destruct He as (ge & H1 & H2).
      pose proof (datas_end_mono _ _ _ H2) as Hgee.
      destruct (okv_nth_group F gs k (pos + bl) ge g d cbl sub Hg Hnl ltac:(lia) H1 ltac:(lia) Hnth)
        as (Hkn & Hg0 & Hd & Hwsub & Hnsub & Hnd & Hc & e1 & He1 & He1le).
      pose proof (single_group_hdr d cbl sub g e1 Hd Hnd Hwsub Hg0 He1) as Hhdr.
      split; [|repeat (split; [first [assumption|lia]|]); exists e1; split; assumption].
      unfold cgroup_at_path.
      apply (okv_bind _ _ (v, Level fs gs ds)); [exact Hk|]. cbn [fst snd level_groups].
      apply (okv_bind _ _ (pos + bl)); [apply okv_first_dyn; exact Hv|]. exact Hkn.
    Qed.

    Lemma complete_group_info path k x : locate_group be b m base path k = Some x ->
      exists tr, cgroup_info be b m base path k = AOk x tr.
    Proof.
      intros H. unfold locate_group in H. apply obind_some' in H.
      destruct H as ([[pos bl] l] & Hres & H). apply obind_some' in H.
      destruct H as ([[[g d] cbl] sub] & Hnth & H). apply obind_some' in H.
      destruct H as (gv & Hga & H). injection H as <-.
      destruct (okv_group_at_path path k pos bl l g d cbl sub Hres Hnth)
        as (Hk & Hg0 & Hd & _ & _ & _ & _ & Hhdr & _).
      unfold group_at in Hga. apply obind_some' in Hga. destruct Hga as (gbl & Hrbl & Hga).
      apply obind_some' in Hga. destruct Hga as (gn & Hrn & Hga). injection Hga as <-.
      unfold cgroup_info.
      refine (okv_bind _ _ (g, d, cbl, sub) _ Hk _ []). cbn beta iota.
      apply (okv_bind _ _ gbl); [apply okv_group_bl; assumption|].
      apply (okv_bind _ _ gn); [apply okv_group_num; assumption|]. apply okv_ret.
    Qed.

    Lemma complete_group_size_bytes path k x : group_size_bytes be b m base path k = Some x ->
      exists tr, cgroup_size_bytes be b m base path k = AOk x tr.
    Proof.
      intros H. unfold group_size_bytes in H. apply obind_some' in H.
      destruct H as ([[[gv d] cbl] sub] & Hloc & H). apply obind_some' in H.
      destruct H as (e & He & H). injection H as <-.
      unfold locate_group in Hloc. apply obind_some' in Hloc.
      destruct Hloc as ([[pos bl] l] & Hres & Hloc). apply obind_some' in Hloc.
      destruct Hloc as ([[[g d'] cbl'] sub'] & Hnth & Hloc). apply obind_some' in Hloc.
      destruct Hloc as (gv' & Hga & Hloc). injection Hloc as <- <- <- <-.
      destruct (okv_group_at_path path k pos bl l g d' cbl' sub' Hres Hnth)
        as (Hk & Hg0 & Hd & Hwsub & Hnsub & Hnd & Hc & Hhdr & e1 & He1 & He1le).
      unfold group_at in Hga. apply obind_some' in Hga. destruct Hga as (gbl & Hrbl & Hga).
      apply obind_some' in Hga. destruct Hga as (gn & Hrn & Hga). injection Hga as <-.
      cbn [gv_pos] in *. unfold F in *. rewrite He1 in He. injection He as <-.
      unfold cgroup_size_bytes.
      refine (okv_bind _ _ (g, d', cbl', sub') _ Hk _ []). cbn beta iota.
      apply (okv_bind _ _ e1); [|apply okv_ret].
      apply (proj2 C_all); [cbn [wf_table_groups]; auto|cbn [nowrap_groups]; auto|exact Hg0|exact He1|exact He1le].
    Qed.

    Lemma okv_view_size_bytes v l pos bl x : vrel v pos bl -> wf_table_level l -> nowrap_level l ->
      Inv l pos bl ->
      level_size_bytes be b F l (view_start v) (view_hoff m v) bl = Some x ->
      okv (cview_size_bytes be b m v l) x.
    Proof.
      intros Hv Hwl Hnl Hinv H. unfold level_size_bytes in H. unfold cview_size_bytes.
      pose proof (vrel_pos v pos bl Hv) as Hpos. pose proof Hv as (Hvl & Hvb & Hst & Hbl0 & Hh).
      destruct (is_flat l) eqn:Hfl.
      - destruct v as [base0|p bl0]; cbn [view_start view_hoff vbl vhdr_ok] in *.
        + pose proof (hdr_pos m Hm) as Hhp. destruct Hm as (Hm1 & Hm2 & _).
          pose proof (msg_block_length_ok be b m Hm base0 Hst Hh) as Hr. cbn [vbl] in Hr.
          rewrite Hvb in Hr. unfold msg_block_length in Hr.
          apply (okv_bind _ _ bl); [|apply okv_alift; exact H].
          unfold cmsg_bl, cmsg_header.
          apply (okv_bind _ _ tt); [apply okv_chk; lia|].
          apply okv_get_value; [exact Hst|exact Hm1|exact Hr].
        + subst bl0. apply okv_alift. exact H.
      - destruct Hinv as [Hf|(e & He & Hle)]; [rewrite Hf in Hfl; discriminate|].
        assert (Hp : view_start v + view_hoff m v = pos) by (rewrite <- Hvl; reflexivity).
        rewrite Hp, He in H. cbn [obind] in H. injection H as <-.
        apply (okv_bind _ _ e); [|apply okv_ret].
        destruct l as [fs gs ds]. rewrite level_end_eq in He.
        cbn [wf_table_level] in Hwl. destruct Hwl as (_ & _ & Hg). cbn [nowrap_level] in Hnl.
        apply obind_some' in He. destruct He as (ge & H1 & H2).
        pose proof (datas_end_mono _ _ _ H2) as Hgee.
        unfold cview_end. cbn [level_groups level_datas].
        apply (okv_bind _ _ (pos + bl)); [apply okv_first_dyn; exact Hv|].
        apply (okv_bind _ _ ge); [apply (proj2 C_all); try assumption; lia|].
        apply okv_datas_end. exact H2.
    Qed.

    Lemma complete_msg_size_bytes x : msg_size_bytes be b m base = Some x ->
      exists tr, cmsg_size_bytes be b m base = AOk x tr.
    Proof.
      intros H. destruct (root_inv base s Hb Hs Hsle) as (bl & Hr & Hv & Hinv).
      unfold msg_size_bytes in H. rewrite Hr in H. cbn [obind] in H.
      destruct Hmnw as [_ Hnw]. pose proof Hm as (_ & _ & Hwl).
      apply (okv_view_size_bytes (CVMsg base) (m_level m) _ bl x Hv Hwl Hnw Hinv H []).
    Qed.

    Lemma complete_entry_size_bytes path x : entry_or_msg_size be b m base path = Some x ->
      exists tr, centry_size_bytes be b m base path = AOk x tr.
    Proof.
      intros H. unfold entry_or_msg_size in H. destruct path as [|st rest].
      - destruct (complete_msg_size_bytes x H) as [tr E]. exists tr. exact E.
      - unfold entry_size_bytes in H. apply obind_some' in H.
        destruct H as ([[pos bl] l] & Hres & H).
        destruct (okv_msg_resolve (st :: rest) pos bl l Hres)
          as (v & Hk & Hv & Hwl & Hnl & Hinv & p & bl0 & ->).
        unfold centry_size_bytes.
        refine (okv_bind _ _ (CVEntry p bl0, l) _ Hk _ []). cbn [fst snd].
        apply (okv_view_size_bytes _ l pos bl x Hv Hwl Hnl Hinv).
        pose proof Hv as (Hvl & Hvb & _). unfold vlevel in Hvl.
        cbn [view_start view_hoff vbl] in *. rewrite Z.add_0_r in Hvl. subst p. exact H.
    Qed.

    Lemma nonflat_of_data l k p r : nth_data_pos be b (level_datas l) k p = Some r ->
      is_flat l = false.
    Proof.
      destruct l as [fs gs ds]. cbn [level_datas]. unfold is_flat. cbn [level_groups level_datas].
      destruct ds; cbn [nth_data_pos datas_empty]; [discriminate|].
      intros _. apply andb_false_r.
    Qed.

    Lemma okv_data_at_path path k q t : locate_data be b m base path k = Some (q, t) ->
      okv (cdata_at_path be b m base path k) (q, t) /\ 0 <= q.
    Proof.
      intros H. unfold locate_data in H. apply obind_some' in H.
      destruct H as ([[pos bl] l] & Hres & H). apply obind_some' in H.
      destruct H as (p & Hge & Hnd).
      destruct (okv_msg_resolve path pos bl l Hres) as (v & Hk & Hv & Hwl & Hnl & Hinv & _).
      pose proof (vrel_pos v pos bl Hv) as Hpos. pose proof Hv as (_ & _ & _ & Hbl0 & _).
      destruct Hinv as [Hf|(e & He & Hle)]; [rewrite (nonflat_of_data _ _ _ _ Hnd) in Hf; discriminate|].
      destruct l as [fs gs ds]. rewrite level_end_eq in He. cbn [level_groups level_datas] in *.
      cbn [wf_table_level] in Hwl. destruct Hwl as (_ & _ & Hg). cbn [nowrap_level] in Hnl.
      unfold F in *. rewrite Hge in He. cbn [obind] in He. pose proof (datas_end_mono _ _ _ He) as Hpe.
      assert (Hp : pos + bl <= p) by (apply (proj2 M_all) in Hge; [exact Hge|exact Hg|lia]).
      destruct (okv_nth_data ds k p q t ltac:(lia) Hnd) as [Hkd Hq]. split; [|exact Hq].
      unfold cdata_at_path.
      apply (okv_bind _ _ (v, Level fs gs ds)); [exact Hk|]. cbn [fst snd level_groups level_datas].
      apply (okv_bind _ _ (pos + bl)); [apply okv_first_dyn; exact Hv|].
      apply (okv_bind _ _ p); [apply (proj2 C_all); try assumption; lia|]. exact Hkd.
    Qed.

    Lemma complete_data_info path k x : data_info be b m base path k = Some x ->
      exists tr, cdata_info be b m base path k = AOk x tr.
    Proof.
      intros H. unfold data_info in H. apply obind_some' in H. destruct H as ([q t] & Hloc & H).
      cbn [fst snd] in H. apply obind_some' in H. destruct H as (n & Hr & H). injection H as <-.
      destruct (okv_data_at_path path k q t Hloc) as [Hk Hq].
      unfold cdata_info.
      refine (okv_bind _ _ (q, t) _ Hk _ []). cbn [fst snd].
      apply (okv_bind _ _ n); [apply okv_data_len; exact Hr|]. apply okv_ret.
    Qed.

    Lemma complete_get_data path k x : get_data be b m base path k = Some x ->
      exists tr, cget_data be b m base path k = AOk x tr.
    Proof.
      intros H. unfold get_data in H. apply obind_some' in H. destruct H as ([q t] & Hloc & H).
      apply obind_some' in H. destruct H as (n & Hr & H).
      destruct (okv_data_at_path path k q t Hloc) as [Hk Hq].
      destruct (rd_bytes_some _ _ _ H) as (Ha & Hn0 & Hle & ->).
      pose proof (tbytes_pos t) as Htp.
      unfold cget_data.
      refine (okv_bind _ _ (q, t) _ Hk _ []). cbn beta iota.
      apply (okv_bind _ _ n); [apply okv_data_len; exact Hr|].
      destruct (Z.eqb_spec n 0) as [->|Hne].
      - rewrite slice_zero. apply okv_ret.
      - unfold chk_begin.
        apply (okv_bind _ _ tt); [apply okv_chk; lia|].
        apply (okv_bind _ _ n); [apply okv_data_len; exact Hr|].
        apply (okv_bind _ _ tt); [apply okv_chk; lia|].
        apply (okv_bind _ _ tt); [apply okv_chk; lia|].
        intros tr. unfold touch_bytes. eexists. reflexivity.
    Qed.

    Lemma amap_ok {A B} (f : A -> B) (r : ares A) x :
      (exists tr, r = AOk x tr) -> exists tr, amap f r = AOk (f x) tr.
    Proof. intros [tr ->]. cbn [amap]. eauto. Qed.

    Lemma complete_run o v : op_args_ok o -> run_unchecked be b m base o = Some v ->
      exists tr, run_checked be b m base o = AOk v tr.
    Proof.
      intros Ha H. destruct o; cbn [run_checked run_unchecked] in *.
      - destruct (get_field be b m base path k) as [x|] eqn:E; [|discriminate].
        injection H as <-. apply amap_ok, complete_get_field, E.
      - destruct (get_array_elem be b m base path k i) as [x|] eqn:E; [|discriminate].
        injection H as <-. apply amap_ok, complete_get_array_elem, E.
      - destruct (get_field be b m base path k) as [x|] eqn:E; [|discriminate].
        injection H as <-. apply amap_ok, complete_get_array, E.
      - destruct (get_comp_member be b m base path k moff msize) as [x|] eqn:E; [|discriminate].
        injection H as <-. cbn [op_args_ok] in Ha.
        apply amap_ok, complete_get_comp_member; [apply Ha|apply Ha|exact E].
      - destruct (locate_group be b m base path k) as [[[[g d] cbl] sub]|] eqn:E; [|discriminate].
        injection H as <-.
        apply (amap_ok (fun q => let '(g, d, cbl, sub) := q in VGroup g d cbl sub) _ (g, d, cbl, sub)).
        apply complete_group_info, E.
      - destruct (group_size_bytes be b m base path k) as [x|] eqn:E; [|discriminate].
        injection H as <-. apply amap_ok, complete_group_size_bytes, E.
      - destruct (entry_or_msg_size be b m base path) as [x|] eqn:E; [|discriminate].
        injection H as <-. apply amap_ok, complete_entry_size_bytes, E.
      - rewrite Hs in H. cbn [option_map] in H. injection H as <-.
        apply amap_ok, complete_msg_size_bytes, Hs.
      - destruct (data_info be b m base path k) as [x|] eqn:E; [|discriminate].
        injection H as <-.
        apply (amap_ok (fun q => VPair (fst q) (snd q)) _ x). apply complete_data_info, E.
      - destruct (get_data be b m base path k) as [x|] eqn:E; [|discriminate].
        injection H as <-. apply amap_ok, complete_get_data, E.
    Qed.
  End Inside.
End Complete.

Theorem checked_no_spurious : stmt_checked_no_spurious.
Proof.
  intros be b m base o s v Hm Hnw (Hok & Hlen & Hb) Ha Hs Hle Hrun.
  apply (complete_run be b Hok Hlen m Hm Hnw base s Hb Hs Hle o v Ha Hrun).
Qed.
Print Assumptions checked_no_spurious.


(* ================================================================== *)
(* (b0): reads inside the buffer do not imply "no report"              *)
(* ================================================================== *)

Module Witness.
  (* dimension: blockLength uint16 @0, numInGroup uint16 @2, numGroups uint16 @4 *)
  Definition d : dim :=
    {| d_size := 6; d_bl_off := 0; d_bl_t := U16; d_n_off := 2; d_n_t := U16; d_fills := [] |}.
  Definition sub : level := Level [{| f_off := 0; f_size := 1 |}] GNil [].
  Definition m : message :=
    {| m_hdr_size := 8; m_bl_off := 0; m_bl_t := U16; m_cbl := 0; m_fills := [];
       m_level := Level [] (GCons d 1 sub GNil) [] |}.
  (* header (blockLength 0), then blockLength = 1 and numInGroup = 0 of the
     dimension; the buffer ends before the dimension's third member *)
  Definition b : list Z := [0; 0; 0; 0; 0; 0; 0; 0; 1; 0; 0; 0].
  Definition o : op := OGroupInfo [] 0.

  Lemma wf : wf_msg m.
  Proof.
    unfold wf_msg, m. cbn [m_bl_off m_bl_t m_hdr_size m_level wf_table_level wf_table_groups].
    unfold wf_dim, is_unsigned_ity, d, sub. cbn.
    repeat split; try lia; try reflexivity; try (left; lia); repeat constructor; cbn; lia.
  Qed.

  Lemma nowrap : msg_nowrap m.
  Proof. unfold msg_nowrap, m, dim_nowrap. cbn. repeat split; vm_compute; discriminate. Qed.

  Lemma env : env_ok b 0.
  Proof. unfold env_ok. repeat split; vm_compute; try reflexivity; discriminate. Qed.

  Lemma unchecked :
    run_unchecked false b m 0 o = Some (VGroup {| gv_pos := 8; gv_bl := 1; gv_n := 0 |} d 1 sub).
  Proof. vm_compute. reflexivity. Qed.

  Lemma checked : run_checked false b m 0 o = AAssert [(0, 2)] (WCheck 8 0 6).
  Proof. vm_compute. reflexivity. Qed.
End Witness.

Theorem read_extent_criterion_refuted : ~ stmt_read_extent_criterion.
Proof.
  intros H.
  destruct (H false Witness.b Witness.m 0 Witness.o _ Witness.wf Witness.nowrap Witness.env I
              Witness.unchecked) as [tr E].
  rewrite Witness.checked in E. discriminate E.
Qed.
Print Assumptions read_extent_criterion_refuted.
