(* Properties_C15.v — C15: set choices are independent bits for every
   encoding width.  Only statements closed by [exact]; proofs are in
   BitsetProofs.v. *)
From Coq Require Import ZArith List.
From Sbepp Require Import CInt Bitset BitsetProofs.
Local Open Scope Z_scope.

(* for every width, every index inside the width, every underlying value: the
   setter yields a defined, in-range value in which exactly bit n changed, and
   every getter afterwards reflects exactly its own bit *)
Theorem C15_bit_independent : forall T bits n b,
  is_set_type T = true -> 0 <= n < CInt.bits T -> in_range T bits = true ->
  exists bits', set_bit T bits n b = Some bits' /\ in_range T bits' = true /\
    forall m, 0 <= m < CInt.bits T ->
      get_bit T bits' m = Some (if m =? n then b else Z.testbit bits m).
Proof. exact bit_independent. Qed.
Print Assumptions C15_bit_independent.

Theorem C15_get_bit_is_testbit : forall T bits n,
  is_set_type T = true -> 0 <= n < CInt.bits T -> in_range T bits = true ->
  get_bit T bits n = Some (Z.testbit bits n).
Proof. exact get_bit_is_testbit. Qed.
Print Assumptions C15_get_bit_is_testbit.

Theorem C15_set_bit_is_setclear : forall T bits n b,
  is_set_type T = true -> 0 <= n < CInt.bits T -> in_range T bits = true ->
  set_bit T bits n b = Some (spec_set bits n b) /\
  in_range T (spec_set bits n b) = true.
Proof. exact set_bit_correct. Qed.
Print Assumptions C15_set_bit_is_setclear.

(* raw value access and equality are consistent with the choices *)
Theorem C15_raw_value_determined_by_bits : forall T x y,
  is_set_type T = true -> in_range T x = true -> in_range T y = true ->
  (forall n, 0 <= n < CInt.bits T -> get_bit T x n = get_bit T y n) -> x = y.
Proof. exact raw_value_determined_by_bits. Qed.
Print Assumptions C15_raw_value_determined_by_bits.

Theorem C15_visit_set_spec : forall T bits idx,
  is_set_type T = true -> in_range T bits = true ->
  Forall (fun n => 0 <= n < CInt.bits T) idx ->
  visit_set T bits idx = map (fun n => Some (Z.testbit bits n)) idx.
Proof. exact visit_set_spec. Qed.
Print Assumptions C15_visit_set_spec.

(* ---- the same statements about the expression trees REGENERATED on every
   run from clang's typed AST of /repo's current bitset_base<T>::operator()
   (SrcExprs.v, harness/srcexprs.py), for all four widths ---- *)
From Coq Require Import String.
From Sbepp Require Import CExpr SrcExprs SrcExprsProofs.
Import ListNotations.
Local Open Scope string_scope.

Theorem C15_source_bit_independent : forall T bits n b,
  is_set_type T = true -> 0 <= n < CInt.bits T -> in_range T bits = true ->
  exists bits',
    effs_eval [("bits", bits); ("n", n); ("b", b2z b)] (src_set_bit T) = Some [bits'] /\
    in_range T bits' = true /\
    forall m, 0 <= m < CInt.bits T ->
      effs_eval [("bits", bits'); ("n", m)] (src_get_bit T)
      = Some [zb (if (m =? n)%Z then b else Z.testbit bits m)].
Proof. exact src_bitset_bit_independent. Qed.
Print Assumptions C15_source_bit_independent.

Theorem C15_source_get_bit_is_testbit : forall T bits n,
  is_set_type T = true -> 0 <= n < CInt.bits T -> in_range T bits = true ->
  effs_eval [("bits", bits); ("n", n)] (src_get_bit T) = Some [zb (Z.testbit bits n)].
Proof. exact src_get_bit_is_testbit. Qed.
Print Assumptions C15_source_get_bit_is_testbit.

(* the regenerated setter/getter ARE the hand-written model (so every theorem
   above applies to them), and they store into / return what the model says *)
Theorem C15_source_is_the_model : forall T bits n b,
  is_set_type T = true -> in_range T bits = true -> in_range U8 n = true ->
  effs_eval [("bits", bits); ("n", n)] (src_get_bit T) = option_map (fun b => [zb b]) (get_bit T bits n) /\
  effs_eval [("bits", bits); ("n", n); ("b", b2z b)] (src_set_bit T) = option_map (fun v => [v]) (set_bit T bits n b) /\
  map eff_target (src_get_bit T) = ["return"] /\ map eff_target (src_set_bit T) = ["bits="].
Proof.
  intros T bits n b HT Hb Hn. split; [|split].
  - exact (src_get_bit_is_model T bits n HT Hb Hn).
  - exact (src_set_bit_is_model T bits n b HT Hb Hn).
  - exact (src_bit_targets T HT).
Qed.
Print Assumptions C15_source_is_the_model.

(* equality (friend operator== / != as clang types them) compares the underlying values, hence is
   consistent with the choice getters *)
Theorem C15_source_equality_consistent : forall T a b,
  is_set_type T = true -> in_range T a = true -> in_range T b = true ->
  (effs_eval [("lhs.bits", a); ("rhs.bits", b)] (src_set_eq T) = Some [1] <->
   forall n, 0 <= n < CInt.bits T ->
     effs_eval [("bits", a); ("n", n)] (src_get_bit T) = effs_eval [("bits", b); ("n", n)] (src_get_bit T)).
Proof. exact src_set_equality_consistent. Qed.
Print Assumptions C15_source_equality_consistent.

Theorem C15_source_equality_is_value_equality : forall T a b,
  is_set_type T = true -> in_range T a = true -> in_range T b = true ->
  effs_eval [("lhs.bits", a); ("rhs.bits", b)] (src_set_eq T) = Some [zb (a =? b)%Z] /\
  effs_eval [("lhs.bits", a); ("rhs.bits", b)] (src_set_ne T) = Some [zb (negb (a =? b)%Z)].
Proof. exact src_set_eq_is_value_eq. Qed.
Print Assumptions C15_source_equality_is_value_equality.
