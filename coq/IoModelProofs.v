(* IoModelProofs.v — lemmas about IoModel.v (C20). *)
From Coq Require Import ZArith List Bool Arith Lia.
From Sbepp Require Import IoModel.
Import ListNotations.

(* ------------------------------------------------------------ equality *)
Lemma list_eqb_eq {A : Type} (eqb : A -> A -> bool) :
  (forall x y, eqb x y = true <-> x = y) ->
  forall a b, list_eqb eqb a b = true <-> a = b.
Proof.
  intros H a. induction a as [|x a IH]; intros [|y b]; simpl; split; intro E;
    try reflexivity; try discriminate.
  - apply andb_true_iff in E. destruct E as [E1 E2].
    apply H in E1. apply IH in E2. congruence.
  - inversion E; subst. apply andb_true_iff. split; [now apply H | now apply IH].
Qed.

Lemma name_eqb_eq a b : name_eqb a b = true <-> a = b.
Proof. apply list_eqb_eq. intros x y. apply Z.eqb_eq. Qed.

Lemma path_eqb_eq a b : path_eqb a b = true <-> a = b.
Proof. apply list_eqb_eq. apply name_eqb_eq. Qed.

Lemma path_eqb_refl p : path_eqb p p = true.
Proof. now apply path_eqb_eq. Qed.

Lemma path_eqb_neq a b : path_eqb a b = false <-> a <> b.
Proof.
  split.
  - intros E H. apply path_eqb_eq in H. congruence.
  - intros H. destruct (path_eqb a b) eqn:E; [|reflexivity].
    apply path_eqb_eq in E. contradiction.
Qed.

Lemma path_eqb_sym a b : path_eqb a b = path_eqb b a.
Proof.
  destruct (path_eqb a b) eqn:E.
  - apply path_eqb_eq in E. subst. symmetry. apply path_eqb_refl.
  - symmetry. apply path_eqb_neq. apply path_eqb_neq in E. congruence.
Qed.

(* ------------------------------------------------------------ file maps *)
Definition same_files (a b : list (path * content)) : Prop :=
  forall p, lookup a p = lookup b p.

Lemma same_files_refl a : same_files a a.
Proof. intro p. reflexivity. Qed.

Lemma same_files_trans a b c : same_files a b -> same_files b c -> same_files a c.
Proof. intros H1 H2 p. now rewrite H1. Qed.

Lemma lookup_set_file fs p c q :
  lookup (set_file fs p c) q = if path_eqb p q then Some c else lookup fs q.
Proof.
  induction fs as [|[r d] fs IH]; simpl.
  - reflexivity.
  - destruct (path_eqb r p) eqn:E; simpl.
    + apply path_eqb_eq in E. subst r. destruct (path_eqb p q); reflexivity.
    + destruct (path_eqb r q) eqn:E2.
      * apply path_eqb_eq in E2. subst q.
        rewrite path_eqb_sym, E. reflexivity.
      * apply IH.
Qed.

Lemma set_file_same a b p c :
  same_files a b -> same_files (set_file a p c) (set_file b p c).
Proof. intros H q. rewrite !lookup_set_file. now rewrite H. Qed.

Lemma planned_same pl : forall a b, same_files a b -> same_files (planned pl a) (planned pl b).
Proof.
  induction pl as [|[p|p c] r IH]; intros a b H; simpl.
  - exact H.
  - now apply IH.
  - apply IH. now apply set_file_same.
Qed.

(* the last planned write to q, if any *)
Fixpoint last_write (pl : plan) (q : path) : option content :=
  match pl with
  | [] => None
  | Mkdir _ :: r => last_write r q
  | WriteFile p c :: r =>
    match last_write r q with
    | Some c' => Some c'
    | None => if path_eqb p q then Some c else None
    end
  end.

Lemma planned_lookup pl : forall fs q,
  lookup (planned pl fs) q =
  match last_write pl q with Some c => Some c | None => lookup fs q end.
Proof.
  induction pl as [|[p|p c] r IH]; intros fs q; simpl.
  - reflexivity.
  - apply IH.
  - rewrite IH. destruct (last_write r q); [reflexivity|].
    rewrite lookup_set_file. destruct (path_eqb p q); reflexivity.
Qed.

Lemma last_write_in pl q c : last_write pl q = Some c -> In (q, c) (plan_files pl).
Proof.
  induction pl as [|[p|p d] r IH]; simpl; intro H.
  - discriminate.
  - now apply IH.
  - destruct (last_write r q) eqn:E.
    + right. apply IH. exact H.
    + destruct (path_eqb p q) eqn:E2; [|discriminate].
      apply path_eqb_eq in E2. left. congruence.
Qed.

Lemma last_write_none pl q : last_write pl q = None -> ~ In q (map fst (plan_files pl)).
Proof.
  induction pl as [|[p|p d] r IH]; simpl; intros H.
  - tauto.
  - now apply IH.
  - destruct (last_write r q) eqn:E; [discriminate|].
    destruct (path_eqb p q) eqn:E2; [discriminate|].
    apply path_eqb_neq in E2. intros [H1|H1]; [contradiction|].
    now apply IH in H1.
Qed.

Lemma last_write_nodup pl : NoDup (map fst (plan_files pl)) ->
  forall q c, In (q, c) (plan_files pl) -> last_write pl q = Some c.
Proof.
  induction pl as [|[p|p d] r IH]; simpl; intros ND q c H.
  - contradiction.
  - now apply IH.
  - inversion ND as [|x l Hnin ND']; subst.
    destruct H as [H|H].
    + inversion H; subst q c.
      destruct (last_write r p) eqn:E.
      * exfalso. apply Hnin. apply last_write_in in E.
        change p with (fst (p, c)). now apply in_map.
      * now rewrite path_eqb_refl.
    + rewrite (IH ND' q c H). reflexivity.
Qed.

(* ------------------------------------------------------------ the runs  *)
Definition wf_st (s : st) : Prop := next s = length (log s).

Definition clean_in (orc : oracle) (a b : nat) : Prop :=
  forall k, a <= k < b -> fails (orc k) = false.
Definition failed_in (orc : oracle) (a b : nat) : Prop :=
  exists k, a <= k < b /\ fails (orc k) = true.

Lemma clean_in_empty orc a : clean_in orc a a.
Proof. intros k H. lia. Qed.

Lemma clean_in_app orc a b c :
  clean_in orc a b -> clean_in orc b c -> clean_in orc a c.
Proof.
  intros H1 H2 k H. destruct (Nat.lt_ge_cases k b); [apply H1|apply H2]; lia.
Qed.

Lemma clean_in_one orc a : fails (orc a) = false -> clean_in orc a (S a).
Proof. intros H k Hk. assert (k = a) by lia. now subst. Qed.

Lemma failed_in_weaken orc a b a' b' :
  failed_in orc a b -> a' <= a -> b <= b' -> failed_in orc a' b'.
Proof. intros [k [H1 H2]] Ha Hb. exists k. split; [lia|exact H2]. Qed.

Lemma wf_tick s d c f : wf_st s -> wf_st (tick s d c f).
Proof. unfold wf_st, tick. simpl. intro H. now rewrite H. Qed.

Lemma add_dir_files d p : files (add_dir d p) = files d.
Proof. unfold add_dir. destruct (is_dir d p); reflexivity. Qed.

(* --- create_directories *)
Lemma mkdirs_spec orc target : forall ps s,
  wf_st s ->
  match mkdirs orc s target ps with
  | Done s' => wf_st s' /\ next s <= next s' /\ clean_in orc (next s) (next s') /\
               files (dk s') = files (dk s)
  | Thrown s' _ => wf_st s' /\ next s <= next s' /\ failed_in orc (next s) (next s') /\
                   files (dk s') = files (dk s)
  end.
Proof.
  induction ps as [|q r IH]; intros s W; simpl.
  - repeat split; auto. apply clean_in_empty.
  - destruct (orc (next s)) eqn:E.
    + specialize (IH (tick s (add_dir (dk s) q) (CMkdir q) NoFault)
                     (wf_tick _ _ _ _ W)).
      destruct (mkdirs orc _ target r) as [s'|s' d]; simpl in IH;
        destruct IH as [W' [L [C F]]]; rewrite add_dir_files in F.
      * repeat split; auto; [lia|].
        apply clean_in_app with (S (next s)); [|exact C].
        apply clean_in_one. now rewrite E.
      * repeat split; auto; [lia|]. eapply failed_in_weaken; [exact C|lia|lia].
    + simpl. repeat split; auto; [now apply wf_tick|].
      exists (next s). split; [lia|]. now rewrite E.
    + specialize (IH (tick s (add_dir (dk s) q) (CMkdir q) (Short m))
                     (wf_tick _ _ _ _ W)).
      destruct (mkdirs orc _ target r) as [s'|s' d]; simpl in IH;
        destruct IH as [W' [L [C F]]]; rewrite add_dir_files in F.
      * repeat split; auto; [lia|].
        apply clean_in_app with (S (next s)); [|exact C].
        apply clean_in_one. now rewrite E.
      * repeat split; auto; [lia|]. eapply failed_in_weaken; [exact C|lia|lia].
Qed.

(* --- the write loop *)
Lemma accepted_bounds f n w : 1 <= n -> accepted f n = Some w -> 1 <= w <= n.
Proof.
  intros Hn. destruct f as [|e|m]; unfold accepted; intro H.
  - inversion H; subst. lia.
  - discriminate.
  - destruct (2 <=? n) eqn:E; inversion H; subst; clear H.
    + apply Nat.leb_le in E. unfold short_len.
      pose proof (Nat.le_max_l 1 (Nat.min m (n - 1))) as H1.
      pose proof (Nat.le_min_r m (n - 1)) as H2.
      assert (H3 : Nat.max 1 (Nat.min m (n - 1)) <= n) by (apply Nat.max_lub; lia).
      lia.
    + lia.
Qed.

Lemma accepted_none f n : accepted f n = None -> fails f = true.
Proof. destruct f; simpl; intro H; try discriminate; reflexivity. Qed.

Lemma accepted_some f n w : accepted f n = Some w -> fails f = false.
Proof. destruct f; simpl; intro H; try discriminate; reflexivity. Qed.

Lemma file_of_put d p c q :
  file_of (put_file d p c) q = if path_eqb p q then Some c else file_of d q.
Proof. unfold file_of, put_file. simpl. apply lookup_set_file. Qed.

Lemma file_of_append d p pre bytes :
  file_of d p = Some pre -> file_of (append_file d p bytes) p = Some (pre ++ bytes).
Proof.
  intro H. unfold append_file. rewrite file_of_put, path_eqb_refl, H. reflexivity.
Qed.

Lemma file_of_append_other d p bytes q :
  path_eqb p q = false -> file_of (append_file d p bytes) q = file_of d q.
Proof. intro H. unfold append_file. now rewrite file_of_put, H. Qed.

Lemma write_loop_cons fuel orc s p b rest' :
  write_loop (S fuel) orc s p (b :: rest') =
  let rest := b :: rest' in
  match accepted (orc (next s)) (length rest) with
  | None => (tick s (dk s) (CWrite p (length rest) 0) (orc (next s)), false)
  | Some w =>
    write_loop fuel orc
      (tick s (append_file (dk s) p (firstn w rest)) (CWrite p (length rest) w) (orc (next s)))
      p (skipn w rest)
  end.
Proof. reflexivity. Qed.

Lemma write_loop_spec orc p : forall fuel s rest pre,
  length rest <= fuel -> wf_st s -> file_of (dk s) p = Some pre ->
  let r := write_loop fuel orc s p rest in
  wf_st (fst r) /\ next s <= next (fst r) /\
  dirs (dk (fst r)) = dirs (dk s) /\
  (forall q, path_eqb p q = false -> file_of (dk (fst r)) q = file_of (dk s) q) /\
  (snd r = true -> clean_in orc (next s) (next (fst r)) /\
                   file_of (dk (fst r)) p = Some (pre ++ rest)) /\
  (snd r = false -> failed_in orc (next s) (next (fst r))).
Proof.
  induction fuel as [|fuel IH]; intros s rest pre Hf W Hp.
  - destruct rest as [|b rest]; [|simpl in Hf; lia].
    simpl. repeat split; auto; try discriminate.
    + apply clean_in_empty.
    + now rewrite app_nil_r.
  - destruct rest as [|b rest'].
    + simpl. repeat split; auto; try discriminate.
      * apply clean_in_empty.
      * now rewrite app_nil_r.
    + cbv zeta. rewrite write_loop_cons. cbv zeta.
      remember (b :: rest') as rest eqn:Hrest.
      assert (Hn : 1 <= length rest) by (subst rest; simpl; lia).
      destruct (accepted (orc (next s)) (length rest)) as [w|] eqn:Ea.
      * pose proof (accepted_bounds _ _ _ Hn Ea) as Hw.
        pose proof (accepted_some _ _ _ Ea) as Hok.
        set (s1 := tick s (append_file (dk s) p (firstn w rest))
                        (CWrite p (length rest) w) (orc (next s))).
        assert (W1 : wf_st s1) by (apply wf_tick; exact W).
        assert (Hp1 : file_of (dk s1) p = Some (pre ++ firstn w rest))
          by (simpl; apply file_of_append; exact Hp).
        assert (Hl : length (skipn w rest) <= fuel)
          by (rewrite skipn_length; lia).
        specialize (IH s1 (skipn w rest) (pre ++ firstn w rest) Hl W1 Hp1).
        cbv zeta in IH.
        destruct IH as [W2 [L2 [D2 [O2 [T2 F2]]]]].
        cbv zeta. simpl next in L2. simpl next in T2. simpl next in F2.
        repeat split.
        -- exact W2.
        -- lia.
        -- rewrite D2. reflexivity.
        -- intros q Hq. rewrite (O2 q Hq). simpl. now apply file_of_append_other.
        -- apply clean_in_app with (S (next s)).
           ++ now apply clean_in_one.
           ++ apply T2. assumption.
        -- destruct (T2 H) as [_ T]. rewrite T. rewrite <- app_assoc.
           now rewrite firstn_skipn.
        -- intro H. eapply failed_in_weaken; [apply F2; exact H|lia|lia].
      * pose proof (accepted_none _ _ Ea) as Hbad.
        cbv zeta. simpl. repeat split; auto; try discriminate.
        -- now apply wf_tick.
        -- intros _. exists (next s). split; [lia|exact Hbad].
Qed.

(* --- fs_provider::write_file, repaired code *)
Lemma write_file_spec orc s p c :
  wf_st s ->
  match write_file orc s p c with
  | Done s' => wf_st s' /\ next s <= next s' /\ clean_in orc (next s) (next s') /\
               same_files (files (dk s')) (set_file (files (dk s)) p c)
  | Thrown s' _ => wf_st s' /\ next s <= next s' /\ failed_in orc (next s) (next s')
  end.
Proof.
  intro W. unfold write_file, write_file_gen.
  assert (Hopen : forall f, fails f = false -> orc (next s) = f ->
    match
      (let s1 := tick s (put_file (dk s) p []) (COpen p) f in
       let (s2, wok) := write_loop (length c) orc s1 p c in
       let fc := orc (next s2) in
       let s3 := tick s2 (dk s2) (CClose p) fc in
       if true && negb (wok && negb (fails fc)) then Thrown s3 (DWrite p) else Done s3)
    with
    | Done s' => wf_st s' /\ next s <= next s' /\ clean_in orc (next s) (next s') /\
                 same_files (files (dk s')) (set_file (files (dk s)) p c)
    | Thrown s' _ => wf_st s' /\ next s <= next s' /\ failed_in orc (next s) (next s')
    end).
  { intros f Hf Ef. cbv zeta.
    set (s1 := tick s (put_file (dk s) p []) (COpen p) f).
    assert (W1 : wf_st s1) by (apply wf_tick; exact W).
    assert (Hp1 : file_of (dk s1) p = Some [])
      by (simpl; rewrite file_of_put, path_eqb_refl; reflexivity).
    pose proof (write_loop_spec orc p (length c) s1 c [] (le_n _) W1 Hp1) as H.
    cbv zeta in H.
    destruct (write_loop (length c) orc s1 p c) as [s2 wok]. simpl fst in H. simpl snd in H.
    destruct H as [W2 [L2 [D2 [O2 [T2 F2]]]]]. simpl next in L2, T2, F2.
    assert (C0 : clean_in orc (next s) (S (next s)))
      by (apply clean_in_one; now rewrite Ef).
    destruct wok.
    - destruct (T2 eq_refl) as [C2 P2].
      destruct (fails (orc (next s2))) eqn:Ec; simpl.
      + repeat split; [now apply wf_tick|lia|].
        exists (next s2). split; [lia|exact Ec].
      + repeat split; [now apply wf_tick|lia| |].
        * apply clean_in_app with (S (next s)); [exact C0|].
          apply clean_in_app with (next s2); [exact C2|].
          now apply clean_in_one.
        * intro q. rewrite lookup_set_file.
          destruct (path_eqb p q) eqn:Eq.
          -- apply path_eqb_eq in Eq. subst q. exact P2.
          -- change (file_of (dk s2) q = lookup (files (dk s)) q).
             rewrite (O2 q Eq). simpl. rewrite file_of_put, Eq. reflexivity.
    - simpl. repeat split; [now apply wf_tick|lia|].
      eapply failed_in_weaken; [apply F2; reflexivity|lia|lia]. }
  destruct (orc (next s)) as [|e|m] eqn:E.
  - apply (Hopen NoFault); auto.
  - simpl. repeat split; [now apply wf_tick|lia|].
    exists (next s). split; [lia|]. now rewrite E.
  - apply (Hopen (Short m)); auto.
Qed.

Lemma exec_spec orc : forall pl s,
  wf_st s ->
  match exec_gen true orc s pl with
  | Done s' => wf_st s' /\ next s <= next s' /\ clean_in orc (next s) (next s') /\
               same_files (files (dk s')) (planned pl (files (dk s)))
  | Thrown s' _ => wf_st s' /\ next s <= next s' /\ failed_in orc (next s) (next s')
  end.
Proof.
  induction pl as [|x r IH]; intros s W; simpl.
  - repeat split; auto. apply clean_in_empty.
  - destruct x as [p|p c]; simpl.
    + unfold create_directories.
      pose proof (mkdirs_spec orc p (missing (dk s) p) s W) as H.
      destruct (mkdirs orc s p (missing (dk s) p)) as [s1|s1 d].
      * destruct H as [W1 [L1 [C1 F1]]].
        specialize (IH s1 W1).
        destruct (exec_gen true orc s1 r) as [s2|s2 d2].
        -- destruct IH as [W2 [L2 [C2 S2]]]. repeat split; auto; [lia| |].
           ++ eapply clean_in_app; eauto.
           ++ now rewrite <- F1.
        -- destruct IH as [W2 [L2 C2]]. repeat split; auto; [lia|].
           eapply failed_in_weaken; [exact C2|lia|lia].
      * destruct H as [W1 [L1 [C1 F1]]]. repeat split; auto.
    + pose proof (write_file_spec orc s p c W) as H.
      unfold write_file in H.
      destruct (write_file_gen true orc s p c) as [s1|s1 d].
      * destruct H as [W1 [L1 [C1 S1]]].
        specialize (IH s1 W1).
        destruct (exec_gen true orc s1 r) as [s2|s2 d2].
        -- destruct IH as [W2 [L2 [C2 S2]]]. repeat split; auto; [lia| |].
           ++ eapply clean_in_app; eauto.
           ++ eapply same_files_trans; [exact S2|]. now apply planned_same.
        -- destruct IH as [W2 [L2 C2]]. repeat split; auto; [lia|].
           eapply failed_in_weaken; [exact C2|lia|lia].
      * destruct H as [W1 [L1 C1]]. repeat split; auto.
Qed.

(* ------------------------------------------------------- run: summary   *)
Lemma run_cases pl orc d0 :
  let r := run pl orc d0 in
  (status r = 0 /\ diagnostic r = None /\ clean_in orc 0 (ncalls r) /\
   same_files (files (final r)) (planned pl (files d0)))
  \/
  (status r = 1 /\ (exists d, diagnostic r = Some d) /\ failed_in orc 0 (ncalls r)).
Proof.
  unfold run, run_gen, ncalls.
  assert (W0 : wf_st (mkSt 0 d0 [])) by reflexivity.
  pose proof (exec_spec orc pl (mkSt 0 d0 []) W0) as H.
  destruct (exec_gen true orc (mkSt 0 d0 []) pl) as [s|s d]; simpl in *.
  - destruct H as [W [_ [C S]]]. left. rewrite rev_length, <- W. auto.
  - destruct H as [W [_ C]]. right. rewrite rev_length, <- W. eauto.
Qed.

(* ================================================= the property lemmas  *)

(* exit status 0 => the files on the disk are exactly what the plan asks for *)
Lemma exit0_complete pl orc d0 :
  status (run pl orc d0) = 0 ->
  forall p, file_of (final (run pl orc d0)) p = lookup (planned pl (files d0)) p.
Proof.
  intros H p. destruct (run_cases pl orc d0) as [[_ [_ [_ S]]]|[E _]].
  - apply S.
  - rewrite E in H. discriminate.
Qed.

(* ... in particular every planned file is there with exactly its content *)
Lemma exit0_every_file pl orc d0 :
  NoDup (map fst (plan_files pl)) ->
  status (run pl orc d0) = 0 ->
  forall p c, In (p, c) (plan_files pl) -> file_of (final (run pl orc d0)) p = Some c.
Proof.
  intros ND H p c Hin. rewrite (exit0_complete pl orc d0 H).
  rewrite planned_lookup, (last_write_nodup pl ND p c Hin). reflexivity.
Qed.

(* ... and nothing else was touched *)
Lemma exit0_others_untouched pl orc d0 :
  status (run pl orc d0) = 0 ->
  forall p, ~ In p (map fst (plan_files pl)) ->
  file_of (final (run pl orc d0)) p = file_of d0 p.
Proof.
  intros H p Hn. rewrite (exit0_complete pl orc d0 H), planned_lookup.
  destruct (last_write pl p) eqn:E; [|reflexivity].
  exfalso. apply Hn. apply last_write_in in E.
  change p with (fst (p, c)). now apply in_map.
Qed.

(* a primitive call that was made failed => non-zero status and a diagnostic *)
Lemma fault_reported pl orc d0 :
  (exists k, k < ncalls (run pl orc d0) /\ fails (orc k) = true) ->
  status (run pl orc d0) <> 0 /\ diagnostic (run pl orc d0) <> None.
Proof.
  intros [k [Hk Hf]]. destruct (run_cases pl orc d0) as [[_ [_ [C _]]]|[E [[d D] _]]].
  - rewrite (C k) in Hf; [discriminate|lia].
  - rewrite E, D. split; discriminate.
Qed.

(* conversely a non-zero status is never spurious *)
Lemma error_only_on_fault pl orc d0 :
  status (run pl orc d0) <> 0 ->
  exists k, k < ncalls (run pl orc d0) /\ fails (orc k) = true.
Proof.
  intros H. destruct (run_cases pl orc d0) as [[E _]|[_ [_ [k [Hk Hf]]]]].
  - contradiction.
  - exists k. split; [lia|exact Hf].
Qed.

(* no call that is made fails (short writes allowed) => status 0, no
   diagnostic, disk = plan *)
Lemma no_fault_ok pl orc d0 :
  (forall k, k < ncalls (run pl orc d0) -> fails (orc k) = false) ->
  status (run pl orc d0) = 0 /\ diagnostic (run pl orc d0) = None /\
  forall p, file_of (final (run pl orc d0)) p = lookup (planned pl (files d0)) p.
Proof.
  intros H. destruct (run_cases pl orc d0) as [[E [D [_ S]]]|[_ [_ [k [Hk Hf]]]]].
  - auto.
  - rewrite H in Hf; [discriminate|lia].
Qed.

(* status is 0 or 1 and the diagnostic is there exactly when it is 1 *)
Lemma status_diag pl orc d0 :
  (status (run pl orc d0) = 0 /\ diagnostic (run pl orc d0) = None) \/
  (status (run pl orc d0) = 1 /\ exists d, diagnostic (run pl orc d0) = Some d).
Proof.
  destruct (run_cases pl orc d0) as [[E [D _]]|[E [D _]]]; auto.
Qed.

(* compiling again into the populated directory asks for the same files *)
Lemma planned_idempotent pl fs :
  forall p, lookup (planned pl (planned pl fs)) p = lookup (planned pl fs) p.
Proof.
  intro p. rewrite !planned_lookup. destruct (last_write pl p); reflexivity.
Qed.

Lemma rerun_same_files pl orc1 orc2 d0 :
  status (run pl orc1 d0) = 0 ->
  status (run pl orc2 (final (run pl orc1 d0))) = 0 ->
  forall p, file_of (final (run pl orc2 (final (run pl orc1 d0)))) p
            = file_of (final (run pl orc1 d0)) p.
Proof.
  intros H1 H2 p.
  rewrite (exit0_complete _ _ _ H2), (exit0_complete _ _ _ H1).
  rewrite !planned_lookup.
  destruct (last_write pl p) eqn:E; [reflexivity|].
  change (file_of (final (run pl orc1 d0)) p = lookup (files d0) p).
  rewrite (exit0_complete _ _ _ H1), planned_lookup, E. reflexivity.
Qed.

(* ---------------------------------------------- sbeppc's own plan       *)
Lemma plan_files_app a b : plan_files (a ++ b) = plan_files a ++ plan_files b.
Proof.
  induction a as [|[p|p c] a IH]; simpl; auto. now rewrite IH.
Qed.

Lemma plan_files_map (f : name * content -> path) l :
  plan_files (map (fun nc => WriteFile (f nc) (snd nc)) l) = map (fun nc => (f nc, snd nc)) l.
Proof. induction l as [|x l IH]; simpl; auto. now rewrite IH. Qed.

Lemma NoDup_app' {A} (l1 l2 : list A) :
  NoDup l1 -> NoDup l2 -> (forall x, In x l1 -> ~ In x l2) -> NoDup (l1 ++ l2).
Proof.
  induction l1 as [|a l1 IH]; simpl; intros H1 H2 H; [exact H2|].
  inversion H1; subst. constructor.
  - rewrite in_app_iff. intros [X|X]; [contradiction|]. apply (H a); auto.
  - apply IH; auto.
Qed.

Lemma NoDup_map_inj {A B C} (f : A -> B) (g : A -> C) l :
  (forall x y, g x = g y -> f x = f y) -> NoDup (map f l) -> NoDup (map g l).
Proof.
  intros Hinj. induction l as [|a l IH]; simpl; intro H; [constructor|].
  inversion H; subst. constructor; [|now apply IH].
  rewrite in_map_iff. intros [y [E Hy]]. apply H2.
  rewrite in_map_iff. exists y. split; [|exact Hy]. now apply Hinj.
Qed.

Lemma plan_of_files g :
  map fst (plan_files (plan_of g)) =
  let base := out_dir g ++ [schema_name g] in
  map (fun nc => base ++ [s_types; fst nc ++ s_hpp]) (type_files g)
  ++ [base ++ [s_schema; s_schema ++ s_hpp]]
  ++ map (fun nc => base ++ [s_messages; fst nc ++ s_hpp]) (message_files g)
  ++ [base ++ [schema_name g ++ s_hpp]].
Proof.
  unfold plan_of. cbv zeta.
  rewrite !plan_files_app.
  rewrite (plan_files_map (fun nc => (out_dir g ++ [schema_name g]) ++ [s_types; fst nc ++ s_hpp])).
  rewrite (plan_files_map (fun nc => (out_dir g ++ [schema_name g]) ++ [s_messages; fst nc ++ s_hpp])).
  cbn [plan_files app].
  repeat first [rewrite map_app | rewrite map_map | progress (cbn [map fst app])].
  reflexivity.
Qed.

Lemma plan_of_nodup g :
  NoDup (map fst (type_files g)) -> NoDup (map fst (message_files g)) ->
  NoDup (map fst (plan_files (plan_of g))).
Proof.
  intros HT HM. rewrite plan_of_files. cbv zeta.
  set (base := out_dir g ++ [schema_name g]).
  assert (Ht : NoDup (map (fun nc : name * content => base ++ [s_types; fst nc ++ s_hpp]) (type_files g))).
  { apply (NoDup_map_inj fst); [|exact HT].
    intros x y E. apply app_inv_head in E. inversion E as [E1].
    now apply app_inv_tail in E1. }
  assert (Hm : NoDup (map (fun nc : name * content => base ++ [s_messages; fst nc ++ s_hpp]) (message_files g))).
  { apply (NoDup_map_inj fst); [|exact HM].
    intros x y E. apply app_inv_head in E. inversion E as [E1].
    now apply app_inv_tail in E1. }
  apply NoDup_app'; [exact Ht| |].
  - apply (NoDup_app' [_]); [repeat constructor; simpl; tauto| |].
    + apply NoDup_app'; [exact Hm|repeat constructor; simpl; tauto|].
      intros x Hx [Hy|[]]. subst x. apply in_map_iff in Hx.
      destruct Hx as [nc [E _]]. apply app_inv_head in E. discriminate.
    + intros x [Hx|[]] Hy. subst x. apply in_app_iff in Hy. destruct Hy as [Hy|[Hy|[]]].
      * apply in_map_iff in Hy. destruct Hy as [nc [E _]].
        apply app_inv_head in E. discriminate.
      * apply app_inv_head in Hy. discriminate.
  - intros x Hx Hy. apply in_map_iff in Hx. destruct Hx as [nc [E _]]. subst x.
    apply in_app_iff in Hy. destruct Hy as [[Hy|[]]|Hy].
    + apply app_inv_head in Hy. discriminate.
    + apply in_app_iff in Hy. destruct Hy as [Hy|[Hy|[]]].
      * apply in_map_iff in Hy. destruct Hy as [nc' [E _]].
        apply app_inv_head in E. discriminate.
      * apply app_inv_head in Hy. discriminate.
Qed.

Lemma plan_of_in_files g :
  let base := out_dir g ++ [schema_name g] in
  (forall n c, In (n, c) (type_files g) ->
     In (base ++ [s_types; n ++ s_hpp], c) (plan_files (plan_of g))) /\
  In (base ++ [s_schema; s_schema ++ s_hpp], schema_hdr g) (plan_files (plan_of g)) /\
  (forall n c, In (n, c) (message_files g) ->
     In (base ++ [s_messages; n ++ s_hpp], c) (plan_files (plan_of g))) /\
  In (base ++ [schema_name g ++ s_hpp], top_hdr g) (plan_files (plan_of g)).
Proof.
  cbv zeta. unfold plan_of. cbv zeta. rewrite !plan_files_app.
  rewrite (plan_files_map (fun nc => (out_dir g ++ [schema_name g]) ++ [s_types; fst nc ++ s_hpp])).
  rewrite (plan_files_map (fun nc => (out_dir g ++ [schema_name g]) ++ [s_messages; fst nc ++ s_hpp])).
  cbn [plan_files app].
  repeat split.
  - intros n c H. apply in_app_iff. left. apply in_map_iff. exists (n, c). auto.
  - apply in_app_iff. right. left. reflexivity.
  - intros n c H. apply in_app_iff. right. right. apply in_app_iff. left.
    apply in_map_iff. exists (n, c). auto.
  - apply in_app_iff. right. right. apply in_app_iff. right. left. reflexivity.
Qed.

(* exit 0 => every header sbeppc generates is on the disk, complete *)
Lemma exit0_complete_sbeppc g orc d0 :
  NoDup (map fst (type_files g)) -> NoDup (map fst (message_files g)) ->
  status (run (plan_of g) orc d0) = 0 ->
  let base := out_dir g ++ [schema_name g] in
  let d := final (run (plan_of g) orc d0) in
  (forall n c, In (n, c) (type_files g) -> file_of d (base ++ [s_types; n ++ s_hpp]) = Some c) /\
  file_of d (base ++ [s_schema; s_schema ++ s_hpp]) = Some (schema_hdr g) /\
  (forall n c, In (n, c) (message_files g) -> file_of d (base ++ [s_messages; n ++ s_hpp]) = Some c) /\
  file_of d (base ++ [schema_name g ++ s_hpp]) = Some (top_hdr g).
Proof.
  intros HT HM H. cbv zeta.
  pose proof (plan_of_nodup g HT HM) as ND.
  pose proof (exit0_every_file (plan_of g) orc d0 ND H) as A.
  destruct (plan_of_in_files g) as [I1 [I2 [I3 I4]]].
  repeat split.
  - intros n c Hin. apply A. now apply I1.
  - apply A. exact I2.
  - intros n c Hin. apply A. now apply I3.
  - apply A. exact I4.
Qed.

(* every file is opened in a directory the plan itself asked for (or the
   parent of one): a missing parent is never the plan's own doing *)
Lemma plan_of_parents g :
  forall p c, In (p, c) (plan_files (plan_of g)) ->
  exists d f, p = d ++ [f] /\
    (In d (plan_dirs (plan_of g)) \/ exists x, In (d ++ [x]) (plan_dirs (plan_of g))).
Proof.
  intros p c H.
  assert (HD : plan_dirs (plan_of g) =
               [ (out_dir g ++ [schema_name g]) ++ [s_schema];
                 (out_dir g ++ [schema_name g]) ++ [s_types];
                 (out_dir g ++ [schema_name g]) ++ [s_messages] ]).
  { unfold plan_of. cbv zeta. cbn [app plan_dirs].
    assert (A : forall (f : name * content -> path) l r,
              plan_dirs (map (fun nc => WriteFile (f nc) (snd nc)) l ++ r) = plan_dirs r).
    { intros f l r. induction l as [|x l IH]; simpl; auto. }
    rewrite (A (fun nc => (out_dir g ++ [schema_name g]) ++ [s_types; fst nc ++ s_hpp])).
    cbn [app plan_dirs].
    rewrite (A (fun nc => (out_dir g ++ [schema_name g]) ++ [s_messages; fst nc ++ s_hpp])).
    reflexivity. }
  rewrite HD. clear HD.
  unfold plan_of in H. cbv zeta in H.
  rewrite !plan_files_app in H.
  rewrite (plan_files_map (fun nc => (out_dir g ++ [schema_name g]) ++ [s_types; fst nc ++ s_hpp])) in H.
  rewrite (plan_files_map (fun nc => (out_dir g ++ [schema_name g]) ++ [s_messages; fst nc ++ s_hpp])) in H.
  cbn [plan_files app] in H.
  set (base := out_dir g ++ [schema_name g]) in *.
  apply in_app_iff in H. destruct H as [H|[H|H]].
  - apply in_map_iff in H. destruct H as [nc [E _]]. inversion E; subst.
    exists (base ++ [s_types]), (fst nc ++ s_hpp). split.
    + now rewrite <- app_assoc.
    + left. simpl. auto.
  - inversion H; subst. exists (base ++ [s_schema]), (s_schema ++ s_hpp). split.
    + now rewrite <- app_assoc.
    + left. simpl. auto.
  - apply in_app_iff in H. destruct H as [H|[H|[]]].
    + apply in_map_iff in H. destruct H as [nc [E _]]. inversion E; subst.
      exists (base ++ [s_messages]), (fst nc ++ s_hpp). split.
      * now rewrite <- app_assoc.
      * left. simpl. auto.
    + inversion H; subst. exists base, (schema_name g ++ s_hpp). split; [reflexivity|].
      right. exists s_schema. simpl. auto.
Qed.

(* ------------------------------------------------ the unrepaired code   *)
(* one file of three bytes, the write(2) fails with ENOSPC: exit status 0,
   no diagnostic, and the file is there but empty *)
Definition w_path : path := [[111%Z]; [97%Z]].
Definition w_plan : plan := [WriteFile w_path [1%Z; 2%Z; 3%Z]].
Definition w_orc : oracle := fun k => if k =? 1 then Fail ENOSPC else NoFault.

Example legacy_exit0_complete_refuted :
  status (Legacy.run w_plan w_orc empty_disk) = 0 /\
  diagnostic (Legacy.run w_plan w_orc empty_disk) = None /\
  file_of (final (Legacy.run w_plan w_orc empty_disk)) w_path = Some [] /\
  In (w_path, [1%Z; 2%Z; 3%Z]) (plan_files w_plan) /\
  fails (w_orc 1) = true /\ 1 < ncalls (Legacy.run w_plan w_orc empty_disk).
Proof. vm_compute. repeat split; auto. Qed.

(* a short write followed by a failing one leaves a truncated file, still exit 0 *)
Definition w_orc2 : oracle :=
  fun k => if k =? 1 then Short 2 else if k =? 2 then Fail EIO else NoFault.
Example legacy_truncated_refuted :
  status (Legacy.run w_plan w_orc2 empty_disk) = 0 /\
  file_of (final (Legacy.run w_plan w_orc2 empty_disk)) w_path = Some [1%Z; 2%Z].
Proof. vm_compute. auto. Qed.

(* a failing close (deferred write error, e.g. NFS/quota) is not seen either *)
Definition w_orc3 : oracle := fun k => if k =? 2 then Fail EIO else NoFault.
Example legacy_close_refuted :
  status (Legacy.run w_plan w_orc3 empty_disk) = 0 /\
  diagnostic (Legacy.run w_plan w_orc3 empty_disk) = None.
Proof. vm_compute. auto. Qed.

(* the repaired code on the same inputs *)
Example fixed_on_witness :
  status (run w_plan w_orc empty_disk) = 1 /\
  diagnostic (run w_plan w_orc empty_disk) = Some (DWrite w_path) /\
  status (run w_plan w_orc2 empty_disk) = 1 /\
  status (run w_plan w_orc3 empty_disk) = 1.
Proof. vm_compute. auto. Qed.

(* ------------------------------------------------------ non-vacuity     *)
Definition g0 : generated :=
  mkGenerated [[111%Z]] [115%Z]
    [([104%Z], [1%Z; 2%Z; 3%Z; 4%Z; 5%Z]); ([103%Z], [6%Z])]
    [7%Z; 8%Z] [([109%Z], [9%Z; 10%Z; 11%Z])] [12%Z].

(* short writes everywhere (every call is answered Short 1) *)
Definition all_short : oracle := fun _ => Short 1.

Example exit0_complete_nonvacuous :
  status (run (plan_of g0) all_short empty_disk) = 0 /\
  NoDup (map fst (plan_files (plan_of g0))) /\
  ncalls (run (plan_of g0) all_short empty_disk) = 27.
Proof.
  vm_compute. split; [reflexivity|]. split; [|reflexivity].
  repeat (constructor; [simpl; intuition discriminate|]). constructor.
Qed.

Example exit0_complete_sbeppc_nonvacuous :
  NoDup (map fst (type_files g0)) /\ NoDup (map fst (message_files g0)) /\
  status (run (plan_of g0) no_fault empty_disk) = 0.
Proof.
  vm_compute. split; [|split; [|reflexivity]];
  repeat (constructor; [simpl; intuition discriminate|]); constructor.
Qed.

(* the 7th call (index 6: the write of the first type header) fails *)
Definition fail6 : oracle := fun k => if k =? 6 then Fail ENOSPC else NoFault.
Example fault_reported_nonvacuous :
  6 < ncalls (run (plan_of g0) fail6 empty_disk) /\ fails (fail6 6) = true /\
  status (run (plan_of g0) fail6 empty_disk) = 1.
Proof. vm_compute. repeat split; auto. Qed.

Example no_fault_ok_nonvacuous :
  (forall k, k < ncalls (run (plan_of g0) all_short empty_disk) -> fails (all_short k) = false) /\
  ncalls (run (plan_of g0) no_fault empty_disk) = 20.
Proof. split; [reflexivity|vm_compute; reflexivity]. Qed.

Example rerun_nonvacuous :
  let d1 := final (run (plan_of g0) no_fault empty_disk) in
  status (run (plan_of g0) no_fault d1) = 0 /\
  ncalls (run (plan_of g0) no_fault d1) = 15.   (* no mkdir the second time *)
Proof. vm_compute. auto. Qed.
