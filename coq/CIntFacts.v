(* CIntFacts.v — basic lemmas about CInt. *)
From Coq Require Import ZArith Bool Lia.
From Sbepp Require Import CInt.
Local Open Scope Z_scope.

Lemma bits_pos t : 0 < bits t.
Proof. destruct t; cbn; lia. Qed.

Lemma in_range_iff t z : in_range t z = true <-> tmin t <= z <= tmax t.
Proof. unfold in_range. rewrite andb_true_iff, !Z.leb_le. tauto. Qed.

Lemma wrap_id t z : in_range t z = true -> wrap t z = z.
Proof.
  intros H. apply in_range_iff in H. unfold wrap, tmin, tmax in *.
  destruct t; cbn in *; try (apply Z.mod_small; lia);
  match goal with |- (?a + ?c) mod ?m - ?c = _ =>
    rewrite (Z.mod_small (a + c) m) by lia; lia end.
Qed.

Lemma wrap_range t z : in_range t (wrap t z) = true.
Proof.
  apply in_range_iff. unfold wrap, tmin, tmax.
  destruct t; cbn;
  match goal with
  | |- _ <= ?a mod ?m <= _ => pose proof (Z.mod_pos_bound a m ltac:(lia)); lia
  | |- _ <= ?a mod ?m - _ <= _ => pose proof (Z.mod_pos_bound a m ltac:(lia)); lia
  end.
Qed.

Lemma unsigned_range t z :
  is_signed t = false -> (in_range t z = true <-> 0 <= z < 2 ^ bits t).
Proof.
  intros Hs. rewrite in_range_iff. unfold tmin, tmax. rewrite Hs. lia.
Qed.

(* a & (b mod 2^w) = a & b when a fits in w bits *)
Lemma land_mod_r a b w : 0 <= w -> 0 <= a < 2 ^ w ->
  Z.land a (b mod 2 ^ w) = Z.land a b.
Proof.
  intros Hw Ha. rewrite <- (Z.land_ones b w) by lia.
  rewrite (Z.land_comm b), Z.land_assoc, Z.land_ones by lia.
  rewrite Z.mod_small by lia. reflexivity.
Qed.

Lemma testbit_above a w m : 0 <= a < 2 ^ w -> w <= m -> Z.testbit a m = false.
Proof.
  intros Ha Hm. destruct (Z.eq_dec a 0) as [->|Hne]; [apply Z.bits_0|].
  apply Z.bits_above_log2; [lia|].
  assert (Z.log2 a < w) by (apply Z.log2_lt_pow2; lia). lia.
Qed.

Lemma bound_of_bits a w : 0 <= w -> 0 <= a ->
  (forall m, w <= m -> Z.testbit a m = false) -> a < 2 ^ w.
Proof.
  intros Hw Ha H. destruct (Z.eq_dec a 0) as [->|Hne].
  - apply Z.pow_pos_nonneg; lia.
  - apply Z.log2_lt_pow2; [lia|].
    destruct (Z_lt_le_dec (Z.log2 a) w) as [?|Hle]; [assumption|].
    specialize (H (Z.log2 a) Hle). rewrite Z.bit_log2 in H by lia. discriminate.
Qed.

Lemma land_bound a b w : 0 <= w -> 0 <= a < 2 ^ w -> 0 <= Z.land a b < 2 ^ w.
Proof.
  intros Hw Ha.
  assert (H0 : 0 <= Z.land a b) by (apply Z.land_nonneg; left; lia).
  split; [exact H0|]. apply bound_of_bits; [lia|exact H0|].
  intros m Hm. rewrite Z.land_spec, (testbit_above a w) by lia. reflexivity.
Qed.
