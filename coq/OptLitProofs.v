(* OptLitProofs.v — proofs about OptLit.v: the generator's default literal
   tables denote the SBE defaults, explicit integer attribute values are
   reproduced exactly. *)
From Coq Require Import ZArith Bool List Lia Ascii String.
From Sbepp Require Import CInt CIntFacts Fp Optional OptLit.
Import IEEE Opt Lit ListNotations.
Local Open Scope Z_scope.

(* ------------------------------------------------------------------------ *)
(* the 33-entry table *)

Lemma defaults_table w p : denote p (default_lit w p) = Ok (builtin_val w p).
Proof. destruct w, p; vm_compute; reflexivity. Qed.

(* the same statement as one boolean over the finite table *)
Definition res_is (r : res Z) (z : Z) : bool :=
  match r with Ok v => v =? z | _ => false end.

Definition table_ok : bool :=
  forallb (fun p => forallb (fun w => res_is (denote p (default_lit w p)) (builtin_val w p))
                            [WMin; WMax; WNull]) all_prims.

Lemma table_ok_true : table_ok = true.
Proof. vm_compute. reflexivity. Qed.

Lemma all_prims_complete p : In p all_prims.
Proof. destruct p; cbn; tauto. Qed.

Lemma defaults_table_via_forallb w p : res_is (denote p (default_lit w p)) (builtin_val w p) = true.
Proof.
  pose proof table_ok_true as H. unfold table_ok in H.
  rewrite forallb_forall in H. specialize (H p (all_prims_complete p)).
  rewrite forallb_forall in H. apply H. destruct w; cbn; tauto.
Qed.

(* a generated type without minValue/maxValue/nullValue has exactly the
   descriptor of the built-in type *)
Lemma defaults_are_builtin p :
  denote p (gen_value WMin p None) = Ok (td_min (builtin p)) /\
  denote p (gen_value WMax p None) = Ok (td_max (builtin p)) /\
  denote p (gen_value WNull p None) = Ok (td_null (builtin p)).
Proof.
  repeat split; [apply (defaults_table WMin)|apply (defaults_table WMax)|apply (defaults_table WNull)].
Qed.

Example legacy_int16_null_refuted :
  (* `return {-327678};` in a function returning std::int16_t: narrowing, the
     generated header does not compile *)
  denote PInt16 (LegacyGen.gen_value WNull PInt16 None) = IllFormed.
Proof. vm_compute. reflexivity. Qed.

Example legacy_leading_zero_refuted :
  (* minValue="010" is accepted as 10 by the validator and printed as the octal
     literal 010 = 8; minValue="08" gives a header that does not compile *)
  from_chars PInt32 (list_ascii_of_string "010") = Some 10 /\
  denote PInt32 (LegacyGen.gen_value WMin PInt32 (Some "010"%string)) = Ok 8 /\
  from_chars PInt8 (list_ascii_of_string "-010") = Some (-10) /\
  denote PInt8 (LegacyGen.gen_value WMin PInt8 (Some "-010"%string)) = Ok (-8) /\
  from_chars PUint8 (list_ascii_of_string "08") = Some 8 /\
  denote PUint8 (LegacyGen.gen_value WMax PUint8 (Some "08"%string)) = Unsupported.
Proof. vm_compute. repeat split; reflexivity. Qed.

(* the floating-point special values of XML (NaN, INF, +INF, -INF) *)
Lemma explicit_fp_specials :
  denote PFloat (gen_value WNull PFloat (Some "NaN"%string)) = Ok (fl_qnan F32) /\
  denote PFloat (gen_value WMax PFloat (Some "INF"%string)) = Ok (fl_inf F32) /\
  denote PFloat (gen_value WMax PFloat (Some "+INF"%string)) = Ok (fl_inf F32) /\
  denote PFloat (gen_value WMin PFloat (Some "-INF"%string)) = Ok (fneg F32 (fl_inf F32)) /\
  denote PDouble (gen_value WNull PDouble (Some "NaN"%string)) = Ok (fl_qnan F64) /\
  denote PDouble (gen_value WMax PDouble (Some "INF"%string)) = Ok (fl_inf F64) /\
  denote PDouble (gen_value WMax PDouble (Some "+INF"%string)) = Ok (fl_inf F64) /\
  denote PDouble (gen_value WMin PDouble (Some "-INF"%string)) = Ok (fneg F64 (fl_inf F64)).
Proof. vm_compute. repeat split; reflexivity. Qed.

(* ------------------------------------------------------------------------ *)
(* explicit integer values *)

Definition dvalue (ds : chars) : Z := value_of 10 (map digit_val ds).

Lemma is_digit_code c : is_digit c = true -> 48 <= code c <= 57.
Proof. unfold is_digit. rewrite andb_true_iff, !Z.leb_le. tauto. Qed.

Lemma span_app (p : ascii -> bool) ds rest :
  forallb p ds = true ->
  match rest with [] => True | c :: _ => p c = false end ->
  span p (ds ++ rest) = (ds, rest).
Proof.
  intros Hds Hrest. induction ds as [|c ds IH]; cbn.
  - destruct rest as [|c r]; [reflexivity|]. cbn. rewrite Hrest. reflexivity.
  - cbn in Hds. apply andb_true_iff in Hds as [Hc Hds]. rewrite Hc, (IH Hds). reflexivity.
Qed.

Lemma fold_value_nonneg ds acc :
  0 <= acc -> forallb is_digit ds = true ->
  0 <= fold_left (fun a d => a * 10 + d) (map digit_val ds) acc.
Proof.
  revert acc. induction ds as [|c ds IH]; intros acc Hacc Hds; cbn; [exact Hacc|].
  cbn in Hds. apply andb_true_iff in Hds as [Hc Hds]. apply is_digit_code in Hc.
  apply IH; [|exact Hds]. unfold digit_val. lia.
Qed.

Lemma dvalue_nonneg ds : forallb is_digit ds = true -> 0 <= dvalue ds.
Proof. intros H. apply (fold_value_nonneg ds 0); [lia|exact H]. Qed.

(* ---- from_chars ---- *)

Inductive accepted (p : prim) (s : chars) (z : Z) : Prop :=
  | acc_pos t ds :
      kind p = KInt t -> s = ds -> ds <> [] -> forallb is_digit ds = true ->
      z = dvalue ds -> CInt.in_range t z = true -> accepted p s z
  | acc_neg t c ds :
      kind p = KInt t -> is_signed t = true -> code c = 45 -> s = c :: ds -> ds <> [] ->
      forallb is_digit ds = true -> z = - dvalue ds -> CInt.in_range t z = true ->
      accepted p s z.

Lemma from_chars_inv p s z : from_chars p s = Some z -> accepted p s z.
Proof.
  unfold from_chars. destruct (kind p) as [t|f] eqn:Hk; [|discriminate].
  destruct s as [|c r]; [discriminate|].
  destruct ((code c =? 45) && is_signed t) eqn:Hsign; cbn [fst snd].
  - apply andb_true_iff in Hsign as [Hc Hs]. apply Z.eqb_eq in Hc.
    destruct r as [|d r']; [discriminate|].
    destruct (forallb is_digit (d :: r')) eqn:Hd; [|discriminate].
    destruct (CInt.in_range t (- value_of 10 (map digit_val (d :: r')))) eqn:Hr; [|discriminate].
    intros [= <-]. eapply acc_neg; eauto. discriminate.
  - destruct (forallb is_digit (c :: r)) eqn:Hd; [|discriminate].
    destruct (CInt.in_range t (value_of 10 (map digit_val (c :: r)))) eqn:Hr; [|discriminate].
    intros [= <-]. eapply acc_pos; eauto. discriminate.
Qed.

Lemma from_chars_pos p t ds :
  kind p = KInt t -> ds <> [] -> forallb is_digit ds = true ->
  CInt.in_range t (dvalue ds) = true -> from_chars p ds = Some (dvalue ds).
Proof.
  intros Hk Hne Hd Hr. unfold from_chars. rewrite Hk.
  destruct ds as [|c r]; [congruence|].
  assert (Hc : (code c =? 45) = false).
  { cbn in Hd. apply andb_true_iff in Hd as [Hc _]. apply is_digit_code in Hc.
    apply Z.eqb_neq. lia. }
  rewrite Hc. cbn [andb fst snd]. rewrite Hd. fold (dvalue (c :: r)). rewrite Hr. reflexivity.
Qed.

Lemma from_chars_neg p t c ds :
  kind p = KInt t -> is_signed t = true -> code c = 45 -> ds <> [] ->
  forallb is_digit ds = true -> CInt.in_range t (- dvalue ds) = true ->
  from_chars p (c :: ds) = Some (- dvalue ds).
Proof.
  intros Hk Hs Hc Hne Hd Hr. unfold from_chars. rewrite Hk, Hs, Hc. cbn [Z.eqb Pos.eqb andb fst snd].
  destruct ds as [|d r]; [congruence|]. rewrite Hd. fold (dvalue (d :: r)). rewrite Hr. reflexivity.
Qed.

(* ---- strip_leading_zeros ---- *)

(* canonical decimal digits: a single digit, or no leading zero *)
Definition canonical (ds : chars) : Prop :=
  match ds with
  | [] => False
  | [_] => True
  | z :: _ => code z <> 48
  end.

Lemma strip_zeros_cons z d r :
  strip_zeros (z :: d :: r) =
  if (code z =? 48) && is_digit d then strip_zeros (d :: r) else z :: d :: r.
Proof. reflexivity. Qed.

Lemma strip_zeros_spec ds :
  ds <> [] -> forallb is_digit ds = true ->
  strip_zeros ds <> [] /\ forallb is_digit (strip_zeros ds) = true /\
  dvalue (strip_zeros ds) = dvalue ds /\ canonical (strip_zeros ds).
Proof.
  induction ds as [|z r IH]; [congruence|]. intros _ Hd.
  destruct r as [|d r'].
  - cbn [strip_zeros]. repeat split; try assumption; discriminate.
  - rewrite strip_zeros_cons.
    destruct ((code z =? 48) && is_digit d) eqn:Hz.
    + apply andb_true_iff in Hz as [Hz _]. apply Z.eqb_eq in Hz.
      cbn [forallb] in Hd. apply andb_true_iff in Hd as [_ Hd].
      destruct (IH ltac:(discriminate) Hd) as (H1 & H2 & H3 & H4).
      repeat split; try assumption.
      rewrite H3. unfold dvalue, value_of. cbn [map fold_left]. unfold digit_val.
      rewrite Hz. reflexivity.
    + repeat split; try assumption; try discriminate.
      cbn. apply andb_false_iff in Hz as [Hz|Hz].
      * apply Z.eqb_neq in Hz. exact Hz.
      * cbn [forallb] in Hd. apply andb_true_iff in Hd as [_ Hd].
        apply andb_true_iff in Hd as [Hd _]. congruence.
Qed.

Lemma strip_pos ds :
  ds <> [] -> forallb is_digit ds = true -> strip_leading_zeros ds = strip_zeros ds.
Proof.
  intros Hne Hd. destruct ds as [|c r]; [congruence|]. unfold strip_leading_zeros.
  cbn [forallb] in Hd. apply andb_true_iff in Hd as [Hc _]. apply is_digit_code in Hc.
  replace (code c =? 45) with false by (symmetry; apply Z.eqb_neq; lia).
  replace (code c =? 43) with false by (symmetry; apply Z.eqb_neq; lia).
  reflexivity.
Qed.

Lemma strip_neg c ds : code c = 45 -> strip_leading_zeros (c :: ds) = c :: strip_zeros ds.
Proof. intros Hc. unfold strip_leading_zeros. rewrite Hc. reflexivity. Qed.

(* ---- lexing canonical digits ---- *)

Lemma lex_dec_canon ds (sfx : bool) :
  ds <> [] -> forallb is_digit ds = true ->
  lex_dec (ds ++ (if sfx then ul else [])) = Some (TInt (dvalue ds) true sfx, []).
Proof.
  intros Hne Hd. unfold lex_dec.
  rewrite (span_app is_digit ds (if sfx then ul else []) Hd)
    by (destruct sfx; [vm_compute; reflexivity|exact I]).
  destruct ds as [|c r]; [congruence|]. fold (dvalue (c :: r)).
  destruct sfx; vm_compute; reflexivity.
Qed.

Lemma lex_int_canon ds (sfx : bool) :
  canonical ds -> forallb is_digit ds = true ->
  lex_int (ds ++ (if sfx then ul else [])) = Some (TInt (dvalue ds) true sfx, []).
Proof.
  intros Hc Hd.
  assert (Hne : ds <> []) by (destruct ds; [contradiction|discriminate]).
  rewrite <- (lex_dec_canon ds sfx Hne Hd).
  destruct ds as [|z r]; [contradiction|].
  destruct r as [|x r'].
  - (* a single digit *)
    destruct sfx; cbn [app ul]; [|reflexivity].
    unfold lex_int. change (([z] ++ ul)%list) with (z :: "U"%char :: ["L"%char]).
    destruct (code z =? 48); reflexivity.
  - cbn in Hc. unfold lex_int. cbn [app].
    replace (code z =? 48) with false by (symmetry; apply Z.eqb_neq; exact Hc). reflexivity.
Qed.

Lemma tokenize_digits ds (sfx : bool) :
  canonical ds -> forallb is_digit ds = true ->
  let s := (ds ++ (if sfx then ul else []))%list in
  tokenize (S (List.length s)) s = Some [TInt (dvalue ds) true sfx].
Proof.
  intros Hc Hd s.
  pose proof (lex_int_canon ds sfx Hc Hd) as Hlex. fold s in Hlex.
  destruct ds as [|c r]; [contradiction|].
  assert (Hcode : 48 <= code c <= 57).
  { cbn [forallb] in Hd. apply andb_true_iff in Hd as [H _]. apply is_digit_code; exact H. }
  assert (Hdig : is_digit c = true).
  { cbn [forallb] in Hd. apply andb_true_iff in Hd as [H _]. exact H. }
  subst s. cbn [app List.length] in *. cbn [tokenize].
  replace (code c =? 32) with false by (symmetry; apply Z.eqb_neq; lia).
  replace (code c =? 45) with false by (symmetry; apply Z.eqb_neq; lia).
  replace (code c =? 43) with false by (symmetry; apply Z.eqb_neq; lia).
  rewrite Hdig, Hlex. reflexivity.
Qed.

Lemma tokenize_neg_digits c ds (sfx : bool) :
  code c = 45 -> canonical ds -> forallb is_digit ds = true ->
  let s := (c :: ds ++ (if sfx then ul else []))%list in
  tokenize (S (List.length s)) s = Some [TMinus; TInt (dvalue ds) true sfx].
Proof.
  intros Hc Hcan Hd s. subst s. cbn [List.length].
  change (tokenize (S (S ?n)) (c :: ?r)) with
    (if code c =? 32 then tokenize (S n) r
     else if code c =? 45 then option_map (cons TMinus) (tokenize (S n) r)
     else if code c =? 43 then option_map (cons TPlus) (tokenize (S n) r)
     else if is_digit c then
       match lex_int (c :: r) with
       | Some (t, r') => option_map (cons t) (tokenize (S n) r')
       | None => None
       end
     else
       match match_lim lim_names (c :: r) with
       | Some (f, w, r') => option_map (cons (TLim f w)) (tokenize (S n) r')
       | None => None
       end).
  rewrite Hc. cbn [Z.eqb Pos.eqb].
  rewrite (tokenize_digits ds sfx Hcan Hd). reflexivity.
Qed.

(* ---- evaluation ---- *)

Lemma range_bounds t z : CInt.in_range t z = true -> - 2 ^ 63 <= z <= 2 ^ 64 - 1.
Proof. rewrite in_range_iff. unfold tmin, tmax. destruct t; cbn; lia. Qed.

Lemma denote_pos p t ds :
  kind p = KInt t -> canonical ds -> forallb is_digit ds = true ->
  CInt.in_range t (dvalue ds) = true -> dvalue ds <= max_signed_literal ->
  denote_chars p ds = Ok (dvalue ds).
Proof.
  intros Hk Hc Hd Hr Hmax. unfold denote_chars.
  pose proof (tokenize_digits ds false Hc Hd) as Ht. cbn zeta in Ht.
  rewrite app_nil_r in Ht. rewrite Ht.
  pose proof (dvalue_nonneg ds Hd) as H0.
  unfold parse_expr, parse_unary, type_of_int_literal. unfold max_signed_literal in Hmax.
  destruct (CInt.in_range I32 (dvalue ds)) eqn:H32.
  - cbn. unfold convert. rewrite Hk, Hr. reflexivity.
  - replace (CInt.in_range I64 (dvalue ds)) with true
      by (symmetry; apply in_range_iff; unfold tmin, tmax; cbn; lia).
    cbn. unfold convert. rewrite Hk, Hr. reflexivity.
Qed.

Lemma denote_pos_ul ds :
  canonical ds -> forallb is_digit ds = true ->
  CInt.in_range U64 (dvalue ds) = true ->
  denote_chars PUint64 (ds ++ ul) = Ok (dvalue ds).
Proof.
  intros Hc Hd Hr. unfold denote_chars.
  pose proof (tokenize_digits ds true Hc Hd) as Ht. cbn zeta in Ht. rewrite Ht.
  unfold parse_expr, parse_unary, type_of_int_literal. rewrite Hr.
  cbn. unfold convert. cbn [kind]. rewrite Hr. reflexivity.
Qed.

Lemma denote_neg p t c ds :
  kind p = KInt t -> code c = 45 -> canonical ds -> forallb is_digit ds = true ->
  CInt.in_range t (- dvalue ds) = true -> dvalue ds <= max_signed_literal ->
  denote_chars p (c :: ds) = Ok (- dvalue ds).
Proof.
  intros Hk Hc Hcan Hd Hr Hmax. unfold denote_chars.
  pose proof (tokenize_neg_digits c ds false Hc Hcan Hd) as Ht. cbn zeta in Ht.
  rewrite app_nil_r in Ht. rewrite Ht.
  pose proof (dvalue_nonneg ds Hd) as H0.
  unfold parse_expr. cbn [parse_unary]. unfold type_of_int_literal. unfold max_signed_literal in Hmax.
  destruct (CInt.in_range I32 (dvalue ds)) eqn:H32.
  - cbn [bind fst snd c_neg]. unfold cneg, arith. cbn [promote is_signed].
    replace (CInt.in_range I32 (- dvalue ds)) with true
      by (symmetry; apply in_range_iff; apply in_range_iff in H32; unfold tmin, tmax in *; cbn in *; lia).
    cbn. unfold convert. rewrite Hk, Hr. reflexivity.
  - replace (CInt.in_range I64 (dvalue ds)) with true
      by (symmetry; apply in_range_iff; unfold tmin, tmax; cbn; lia).
    cbn [bind fst snd c_neg]. unfold cneg, arith. cbn [promote is_signed].
    replace (CInt.in_range I64 (- dvalue ds)) with true
      by (symmetry; apply in_range_iff; unfold tmin, tmax; cbn; lia).
    cbn. unfold convert. rewrite Hk, Hr. reflexivity.
Qed.

(* ---- the theorem ---- *)

Lemma signed_range_small p t z :
  kind p = KInt t -> p <> PUint64 -> CInt.in_range t z = true -> 0 <= z -> z <= max_signed_literal.
Proof.
  intros Hk Hp Hr H0. apply in_range_iff in Hr. unfold max_signed_literal.
  destruct p; cbn in Hk; try discriminate; injection Hk as <-; unfold tmin, tmax in Hr; cbn in Hr;
    try lia; congruence.
Qed.

Lemma explicit_int_exact p s z :
  from_chars p s = Some z ->
  denote_chars p (numeric_literal_to_value p s) = Ok z.
Proof.
  intros Hfc. apply from_chars_inv in Hfc.
  unfold numeric_literal_to_value, render_value.
  destruct Hfc as [t ds Hk -> Hne Hd -> Hr | t c ds Hk Hs Hc -> Hne Hd -> Hr]; rewrite Hk.
  - (* no sign *)
    rewrite (strip_pos ds Hne Hd).
    destruct (strip_zeros_spec ds Hne Hd) as (Hne' & Hd' & Hv & Hcan).
    set (ds' := strip_zeros ds) in *.
    rewrite <- Hv in Hr |- *.
    pose proof (dvalue_nonneg ds' Hd') as H0.
    assert (Hfc' : from_chars p ds' = Some (dvalue ds')) by (eapply from_chars_pos; eauto).
    unfold to_integer_literal.
    assert (Hgen : p <> PUint64 -> denote_chars p ds' = Ok (dvalue ds')).
    { intros Hp. apply (denote_pos p t ds' Hk Hcan Hd' Hr).
      apply (signed_range_small p t _ Hk Hp Hr H0). }
    destruct p; try discriminate Hk; try (apply Hgen; discriminate).
    + (* int64: the text does not start with '-' *)
      destruct ds' as [|c r] eqn:E; [congruence|].
      assert (Hc : (code c =? 45) = false).
      { cbn [forallb] in Hd'. apply andb_true_iff in Hd' as [Hc _]. apply is_digit_code in Hc.
        apply Z.eqb_neq. lia. }
      rewrite Hc. apply Hgen. discriminate.
    + (* uint64 *)
      rewrite Hfc'. cbn in Hk. injection Hk as <-.
      destruct (dvalue ds' >? max_signed_literal) eqn:Hbig.
      * apply denote_pos_ul; assumption.
      * apply (denote_pos PUint64 U64 ds' eq_refl Hcan Hd' Hr).
        rewrite Z.gtb_ltb in Hbig. apply Z.ltb_ge in Hbig. exact Hbig.
  - (* minus sign, signed type *)
    rewrite (strip_neg c ds Hc).
    destruct (strip_zeros_spec ds Hne Hd) as (Hne' & Hd' & Hv & Hcan).
    set (ds' := strip_zeros ds) in *.
    rewrite <- Hv in Hr |- *.
    pose proof (dvalue_nonneg ds' Hd') as H0.
    assert (Hfc' : from_chars p (c :: ds') = Some (- dvalue ds')) by (eapply from_chars_neg; eauto).
    assert (Hsmall : p <> PInt64 -> dvalue ds' <= max_signed_literal).
    { intros Hp. apply in_range_iff in Hr. unfold max_signed_literal.
      destruct p; cbn in Hk; try discriminate; injection Hk as <-; unfold tmin, tmax in Hr;
        cbn in Hr; try lia; try discriminate; congruence. }
    assert (Hgen : p <> PInt64 -> denote_chars p (c :: ds') = Ok (- dvalue ds')).
    { intros Hp. apply (denote_neg p t c ds' Hk Hc Hcan Hd' Hr). apply Hsmall. exact Hp. }
    unfold to_integer_literal.
    destruct p; try discriminate Hk; try (apply Hgen; discriminate).
    + (* int64 *)
      rewrite Hfc'. replace (code c =? 45) with true by (symmetry; apply Z.eqb_eq; exact Hc).
      cbn in Hk. injection Hk as <-.
      destruct (- dvalue ds' <? min_signed_literal) eqn:Hmin.
      * apply Z.ltb_lt in Hmin. apply in_range_iff in Hr. unfold min_signed_literal in Hmin.
        unfold tmin, tmax in Hr. cbn in Hr.
        replace (- dvalue ds') with (-9223372036854775808) by lia.
        vm_compute. reflexivity.
      * apply Z.ltb_ge in Hmin. unfold min_signed_literal in Hmin.
        apply (denote_neg PInt64 I64 c ds' eq_refl Hc Hcan Hd' Hr). unfold max_signed_literal. lia.
    + (* uint64 is not signed *)
      cbn in Hk. injection Hk as <-. discriminate.
Qed.

(* the string-level and the character-list-level generator agree *)
Lemma gen_value_chars_agree w p e :
  list_ascii_of_string (gen_value w p e) = gen_value_chars w p (option_map list_ascii_of_string e) /\
  list_ascii_of_string (LegacyGen.gen_value w p e) =
    LegacyGen.gen_value_chars w p (option_map list_ascii_of_string e).
Proof.
  destruct e as [s|]; cbn [option_map gen_value gen_value_chars LegacyGen.gen_value
                           LegacyGen.gen_value_chars].
  - rewrite !list_ascii_of_string_of_list_ascii. split; reflexivity.
  - destruct w, p; split; reflexivity.
Qed.

Lemma explicit_int_exact_string p w s z :
  from_chars p (list_ascii_of_string s) = Some z ->
  denote p (gen_value w p (Some s)) = Ok z.
Proof.
  intros H. unfold denote, gen_value. rewrite list_ascii_of_string_of_list_ascii.
  apply explicit_int_exact. exact H.
Qed.

Example explicit_int_exact_nonvacuous :
  from_chars PInt64 (list_ascii_of_string "-9223372036854775808") = Some (- 2 ^ 63) /\
  gen_value WNull PInt64 (Some "-9223372036854775808"%string) = "-9223372036854775807 -1"%string /\
  from_chars PUint64 (list_ascii_of_string "18446744073709551615") = Some (2 ^ 64 - 1) /\
  gen_value WMax PUint64 (Some "18446744073709551615"%string) = "18446744073709551615UL"%string /\
  from_chars PInt32 (list_ascii_of_string "-0010") = Some (-10) /\
  gen_value WMin PInt32 (Some "-0010"%string) = "-10"%string /\
  from_chars PChar (list_ascii_of_string "65") = Some 65 /\
  from_chars PUint8 (list_ascii_of_string "256") = None /\
  from_chars PUint8 (list_ascii_of_string "-1") = None /\
  from_chars PInt8 (list_ascii_of_string "+1") = None.
Proof. vm_compute. repeat split; reflexivity. Qed.

Example defaults_table_nonvacuous :
  denote PInt64 (default_lit WNull PInt64) = Ok (- 2 ^ 63) /\
  denote PInt16 (default_lit WNull PInt16) = Ok (-32768) /\
  denote PChar (default_lit WMax PChar) = Ok 126 /\
  denote PDouble (default_lit WNull PDouble) = Ok 9221120237041090560.
Proof. vm_compute. repeat split; reflexivity. Qed.
