(* ConstnessProofs.v — lemmas about the capability model Constness.v (C11). *)
From Coq Require Import Bool List Relations.
From Sbepp Require Import Constness.
Import ListNotations.
Import C11.

(* case analysis over every index type that occurs inside [op] *)
Ltac destruct_kinds :=
  repeat match goal with
  | x : vkind |- _ => destruct x
  | x : rkind |- _ => destruct x
  | x : mkind |- _ => destruct x
  | x : ckind |- _ => destruct x
  | x : access |- _ => destruct x
  | x : saccess |- _ => destruct x
  | x : cform |- _ => destruct x
  | x : group_reader |- _ => destruct x
  | x : group_cursor_op |- _ => destruct x
  | x : arr_reader |- _ => destruct x
  | x : elem_way |- _ => destruct x
  | x : sarr_mut |- _ => destruct x
  | x : darr_mut |- _ => destruct x
  | x : arr_class |- _ => destruct x
  | x : bool |- _ => destruct x
  end.

Ltac destruct_op o := destruct o; destruct_kinds.

(* ------------------------------------------------------------------ *)
(* the guards                                                          *)
(* ------------------------------------------------------------------ *)
Lemma ptr_convertible_spec f t :
  ptr_convertible f t = true <-> (f = true -> t = true).
Proof. destruct f, t; cbn; intuition congruence. Qed.

Lemma writable_rejects_const c : eval_req ReqWritable ByteConst c = false.
Proof. reflexivity. Qed.

Lemma cursor_writeable_rejects_const_byte c : eval_req ReqCursorWriteable ByteConst c = false.
Proof. destruct c; reflexivity. Qed.

Lemma cursor_writeable_rejects_const_cursor b : eval_req ReqCursorWriteable b CursorConst = false.
Proof. destruct b; reflexivity. Qed.

Lemma cursor_compatible_spec b c :
  eval_req ReqCompatible b c = true <-> const_le b (byte_of_cursor c) = true.
Proof. destruct b, c; cbn; intuition congruence. Qed.

(* ------------------------------------------------------------------ *)
(* every mutator carries a guard that rejects const                    *)
(* ------------------------------------------------------------------ *)
(* the declaration-level guard of a mutator is one of the two writable
   guards, except when the caller overrides the guard's template argument *)
Lemma mutator_guard o :
  is_mutator o = true ->
  (exists k, o = CapSetExplicitArgs k) \/
  (uses_cursor o = false /\ guard_of o = ReqWritable) \/
  (uses_cursor o = true /\ guard_of o = ReqCursorWriteable).
Proof.
  destruct o; cbn; intros H; try discriminate H; eauto.
Qed.

(* and behind the guard, the body of every mutator needs a non-const byte or
   cursor too: bypassing the declaration does not help *)
Lemma mutator_body_rejects_const o :
  is_mutator o = true ->
  (forall c, eval_req (body_of o) ByteConst c = false) \/
  (uses_cursor o = true /\ forall b, eval_req (body_of o) b CursorConst = false).
Proof.
  destruct_op o; cbn; intros H; try discriminate H;
    try (left; intros []; reflexivity);
    try (right; split; [reflexivity | intros []; reflexivity]).
Qed.

(* the call does not compile *)
Lemma mutators_rejected o :
  is_mutator o = true ->
  (forall c, can_call ByteConst c o = false) /\
  (uses_cursor o = true -> forall b, can_call b CursorConst o = false).
Proof.
  intros Hm; split.
  - intros c. destruct_op o; try discriminate Hm; destruct c; reflexivity.
  - intros Hc b. destruct_op o; try discriminate Hm; try discriminate Hc; destruct b; reflexivity.
Qed.

(* overload resolution / is_invocable already says no (nothing to instantiate),
   unless the caller explicitly supplied the guard's template argument *)
Lemma mutators_sfinae_rejected o :
  is_mutator o = true -> (forall k, o <> CapSetExplicitArgs k) ->
  (forall c, viable ByteConst c o = false) /\
  (uses_cursor o = true -> forall b, viable b CursorConst o = false).
Proof.
  intros Hm Hne.
  destruct (mutator_guard o Hm) as [[k ->] | [[Hu Hg] | [Hu Hg]]].
  - exfalso. exact (Hne k eq_refl).
  - unfold viable. rewrite Hg, Hu. split; [intros c; apply writable_rejects_const | discriminate].
  - unfold viable. rewrite Hg. split; intros.
    + apply cursor_writeable_rejects_const_byte.
    + apply cursor_writeable_rejects_const_cursor.
Qed.

(* the overridden guard is the only mutator the declaration lets through, and
   its body is still rejected *)
Lemma unguarded_mutator_is_explicit o :
  is_mutator o = true -> req_is_true (guard_of o) = true -> exists k, o = CapSetExplicitArgs k.
Proof.
  intros Hm Hg.
  destruct (mutator_guard o Hm) as [H | [[_ H] | [_ H]]]; [exact H | |]; rewrite H in Hg; discriminate.
Qed.

(* with a mutable byte type and a mutable cursor every mutator is available
   (except the cursor setter through skip(), which does not exist) *)
Lemma mutators_available_on_mut o :
  is_mutator o = true -> (forall k a, o <> CapCurSet k a CurSkip) ->
  can_call ByteMut CursorMut o = true.
Proof.
  intros Hm Hne. destruct_op o; try discriminate Hm; try reflexivity;
    exfalso; eapply Hne; reflexivity.
Qed.

(* const views stay fully readable with a const cursor *)
Lemma readers_available_on_const o :
  is_mutator o = false -> can_call ByteConst CursorConst o = true.
Proof. destruct_op o; cbn; intros H; try discriminate H; reflexivity. Qed.

(* a cursor that is less const than the view is rejected even for reading *)
Lemma mut_cursor_on_const_view_rejected o :
  uses_cursor o = true -> can_call ByteConst CursorMut o = false.
Proof. destruct_op o; cbn; intros H; try discriminate H; reflexivity. Qed.

(* ------------------------------------------------------------------ *)
(* results never lose const                                            *)
(* ------------------------------------------------------------------ *)
Lemma result_at_least_as_const o b c r :
  can_call b c o = true -> result_byte o b c = Some r -> const_le b r = true.
Proof.
  destruct_op o; destruct b, c; cbn; intros Hc Hr; try discriminate Hc; try discriminate Hr;
    injection Hr as <-; reflexivity.
Qed.

(* a client that holds only const views and const cursors can compile no
   mutator and only ever obtains const views / cursors / pointers *)
Lemma const_client_safe o c :
  (uses_cursor o = true -> c = CursorConst) ->
  can_call ByteConst c o = true ->
  is_mutator o = false /\ forall r, result_byte o ByteConst c = Some r -> r = ByteConst.
Proof.
  intros Hu Hc. split.
  - destruct (is_mutator o) eqn:Hm; [|reflexivity].
    destruct (mutators_rejected o Hm) as [H _]. rewrite H in Hc. discriminate.
  - intros r Hr. pose proof (result_at_least_as_const o ByteConst c r Hc Hr) as Hle.
    destruct r; [discriminate Hle | reflexivity].
Qed.

(* ------------------------------------------------------------------ *)
(* conversions                                                         *)
(* ------------------------------------------------------------------ *)
Lemma view_conv_iff v f a b : view_conv v f a b = true <-> const_le a b = true.
Proof. reflexivity. Qed.

Lemma cursor_conv_iff f a b :
  cursor_conv f a b = true <-> const_le (byte_of_cursor a) (byte_of_cursor b) = true.
Proof. destruct a, b; cbn; intuition. Qed.

Lemma const_le_refl a : const_le a a = true.
Proof. destruct a; reflexivity. Qed.

Lemma const_le_trans a b c : const_le a b = true -> const_le b c = true -> const_le a c = true.
Proof. destruct a, b, c; cbn; congruence. Qed.

Lemma const_le_antisym a b : const_le a b = true -> const_le b a = true -> a = b.
Proof. destruct a, b; cbn; congruence. Qed.

Lemma const_le_const b : const_le ByteConst b = true -> b = ByteConst.
Proof. destruct b; cbn; congruence. Qed.

(* one step: any implicit / explicit conversion or assignment between two
   instances of any view template, or of the cursor template *)
Definition conv_step (a b : byte_const) : Prop :=
  (exists v f, view_conv v f a b = true) \/
  (exists f, cursor_conv f (cursor_of_byte a) (cursor_of_byte b) = true).

Lemma conv_step_le a b : conv_step a b -> const_le a b = true.
Proof.
  intros [[v [f H]] | [f H]]; [exact H|]. destruct a, b; cbn in *; congruence.
Qed.

Lemma conv_path_le a b : clos_refl_trans _ conv_step a b -> const_le a b = true.
Proof.
  induction 1 as [a b H | a | a b c _ IH1 _ IH2].
  - apply conv_step_le; exact H.
  - apply const_le_refl.
  - eapply const_le_trans; eassumption.
Qed.

Lemma conversions_monotone :
  (* a conversion exists exactly towards an at-least-as-const byte type *)
  (forall v f a b, view_conv v f a b = true <-> const_le a b = true) /\
  (forall f a b, cursor_conv f a b = true <-> const_le (byte_of_cursor a) (byte_of_cursor b) = true) /\
  (* composition is transitive *)
  (forall v f a b c, view_conv v f a b = true -> view_conv v f b c = true -> view_conv v f a c = true) /\
  (forall f a b c, cursor_conv f a b = true -> cursor_conv f b c = true -> cursor_conv f a c = true) /\
  (* the two directions that matter *)
  (forall v f, view_conv v f ByteMut ByteConst = true /\ view_conv v f ByteConst ByteMut = false) /\
  (forall f, cursor_conv f CursorMut CursorConst = true /\ cursor_conv f CursorConst CursorMut = false) /\
  (* no chain of conversions leads from const to mutable *)
  (forall b, clos_refl_trans _ conv_step ByteConst b -> b = ByteConst).
Proof.
  repeat split.
  - intros H; exact H.
  - intros H; exact H.
  - apply cursor_conv_iff.
  - apply cursor_conv_iff.
  - intros v f a b c. unfold view_conv. apply (const_le_trans a b c).
  - intros f a b c. destruct a, b, c; cbn; congruence.
  - intros b H. apply const_le_const. apply conv_path_le. exact H.
Qed.

(* ------------------------------------------------------------------ *)
(* the enumeration is complete and duplicate free                      *)
(* ------------------------------------------------------------------ *)
(* membership by the structure of the list (++ / map / flat_map / ::) keeps the
   proof term small *)
Ltac solve_in :=
  lazymatch goal with
  | |- In _ (_ ++ _) => apply in_or_app; first [ left; solve [solve_in] | right; solve [solve_in] ]
  | |- In _ (map _ _) => apply in_map; solve_in
  | |- In _ (flat_map _ _) =>
      apply in_flat_map; eexists; split; cycle 1; [ cbv beta; solve [solve_in] | solve [solve_in] ]
  | |- In _ (_ :: _) => first [ apply in_eq | apply in_cons; solve_in ]
  end.

Lemma all_ops_complete o : In o all_ops.
Proof.
  cbv delta [all_ops all_vkind all_rkind all_mkind all_ckind all_access all_saccess all_cform
             all_group_reader all_group_cursor_op all_arr_reader all_elem_way all_sarr_mut all_darr_mut
             all_arr_class].
  destruct_op o; solve_in.
Qed.

Lemma all_vclass_complete v : In v all_vclass.
Proof. destruct v; cbv; tauto. Qed.

(* ------------------------------------------------------------------ *)
(* the code before the repair                                          *)
(* ------------------------------------------------------------------ *)
(* the call was already a compile error ... *)
Lemma legacy_mutators_rejected o :
  is_mutator o = true ->
  (forall c, Legacy.can_call ByteConst c o = false) /\
  (uses_cursor o = true -> forall b, Legacy.can_call b CursorConst o = false).
Proof.
  intros Hm; split.
  - intros c. destruct_op o; try discriminate Hm; destruct c; reflexivity.
  - intros Hc b. destruct_op o; try discriminate Hm; try discriminate Hc; destruct b; reflexivity.
Qed.

(* ... but [resize]/[clear] of a const group were offered by overload
   resolution: is_invocable / a requires-expression answered "yes" and the
   error only surfaced inside the library *)
Example legacy_group_resize_viable_refuted :
  ~ (forall o, is_mutator o = true -> (forall k, o <> CapSetExplicitArgs k) ->
       forall c, Legacy.viable ByteConst c o = false).
Proof.
  intros H. specialize (H CapGroupResize eq_refl (fun k e => ltac:(discriminate e)) CursorMut).
  vm_compute in H. discriminate H.
Qed.

Example legacy_group_clear_viable_refuted :
  Legacy.viable ByteConst CursorMut CapGroupClear = true /\ Legacy.can_call ByteConst CursorMut CapGroupClear = false.
Proof. vm_compute. split; reflexivity. Qed.

(* the repair changes nothing else *)
Lemma legacy_differs_only_on_group_resize_clear o b c :
  o <> CapGroupResize -> o <> CapGroupClear ->
  Legacy.viable b c o = viable b c o /\ Legacy.can_call b c o = can_call b c o.
Proof.
  intros H1 H2. destruct o; try (split; reflexivity); congruence.
Qed.

Lemma legacy_same_can_call o b c : Legacy.can_call b c o = can_call b c o.
Proof. destruct_op o; destruct b, c; reflexivity. Qed.

(* ------------------------------------------------------------------ *)
(* non-vacuity                                                         *)
(* ------------------------------------------------------------------ *)
Example mutators_rejected_nonvacuous :
  is_mutator (CapSetV ValScalar SetAccDirect) = true /\
  can_call ByteMut CursorMut (CapSetV ValScalar SetAccDirect) = true /\
  can_call ByteConst CursorMut (CapSetV ValScalar SetAccDirect) = false /\
  is_mutator (CapCurSet ValEnum AccByTag CurInit) = true /\ uses_cursor (CapCurSet ValEnum AccByTag CurInit) = true /\
  can_call ByteMut CursorMut (CapCurSet ValEnum AccByTag CurInit) = true /\
  can_call ByteMut CursorConst (CapCurSet ValEnum AccByTag CurInit) = false /\
  can_call ByteMut CursorConst (CapCurGet (CMemValue ValEnum) AccByTag CurInit) = true.
Proof. vm_compute. repeat split. Qed.

Example mutators_sfinae_rejected_nonvacuous :
  is_mutator CapGroupResize = true /\ (forall k, CapGroupResize <> CapSetExplicitArgs k) /\
  viable ByteMut CursorMut CapGroupResize = true /\ viable ByteConst CursorMut CapGroupResize = false /\
  viable ByteConst CursorMut (CapSetExplicitArgs ValSet) = true /\
  can_call ByteConst CursorMut (CapSetExplicitArgs ValSet) = false.
Proof. vm_compute. repeat split; discriminate. Qed.

Example conversions_monotone_nonvacuous :
  view_conv ViewMessage ConvImplicit ByteMut ByteConst = true /\ view_conv ViewEntry ConvAssign ByteConst ByteMut = false /\
  cursor_conv ConvConstruct CursorMut CursorConst = true /\ cursor_conv ConvImplicit CursorConst CursorMut = false /\
  clos_refl_trans _ conv_step ByteMut ByteConst.
Proof.
  vm_compute. repeat split. apply rt_step. left. exists ViewMessage, ConvImplicit. reflexivity.
Qed.

Example const_client_safe_nonvacuous :
  can_call ByteConst CursorConst (CapCurGet (CMemRef RefGroup) AccDirect CurPlain) = true /\
  result_byte (CapCurGet (CMemRef RefGroup) AccDirect CurPlain) ByteConst CursorConst = Some ByteConst /\
  can_call ByteMut CursorConst (CapCurGet (CMemRef RefGroup) AccDirect CurPlain) = true /\
  result_byte (CapCurGet (CMemRef RefGroup) AccDirect CurPlain) ByteMut CursorConst = Some ByteConst /\
  result_byte (CapGet (MemRef RefData) AccByTag) ByteMut CursorMut = Some ByteMut.
Proof. vm_compute. repeat split. Qed.

Example all_ops_count : length all_ops = 228.
Proof. vm_compute. reflexivity. Qed.
