(* Properties_C17.v — C17: header fillers.  Extended when FillProofs.v lands. *)
From Coq Require Import ZArith List.
From Sbepp Require Import CInt Bytes BytesFacts Msg Layout Wire MsgSpec LayoutProofs.
Import ListNotations.
Local Open Scope Z_scope.

(* header / dimension composite members are laid out by the SBE rule and stay
   inside the composite, whatever their order, custom offsets or extra members *)
Theorem C17_header_members_in_order : stmt_member_offsets_in_order.
Proof. exact member_offsets_in_order. Qed.
Print Assumptions C17_header_members_in_order.

From Sbepp Require Import Cursor CursorSpec Checked ScriptSpec FillProofs.

(* the filler (the generated sequence of member assignments) writes exactly the
   listed members into the header bytes and nothing else *)
Theorem C17_filler_is_put_fills_on_header : stmt_do_fills_spec.
Proof. exact do_fills_spec. Qed.
Print Assumptions C17_filler_is_put_fills_on_header.

(* no byte outside the header changes *)
Theorem C17_filler_frame : stmt_do_fills_frame.
Proof. exact do_fills_frame. Qed.
Print Assumptions C17_filler_frame.

(* afterwards every filled member reads back as the schema's value (schemaId,
   templateId, version, compiled blockLength, numInGroup argument, counters) *)
Theorem C17_filled_members_hold_schema_values : stmt_do_fills_values.
Proof. exact do_fills_values. Qed.
Print Assumptions C17_filled_members_hold_schema_values.

From Sbepp Require Import Compile CompileSpec CompileProofs.

(* for every header composite the compiled filler assignments stay inside the
   header and target unsigned members *)
Theorem C17_compiled_fills_inside_header : stmt_compile_fills_inside.
Proof. exact compile_fills_inside. Qed.
Print Assumptions C17_compiled_fills_inside_header.
