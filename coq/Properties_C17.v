(* Properties_C17.v — C17: header fillers.  Extended when FillProofs.v lands. *)
From Coq Require Import ZArith List.
From Sbepp Require Import CInt Bytes BytesFacts Msg Layout Wire MsgSpec LayoutProofs.
Import ListNotations.
Local Open Scope Z_scope.

(* header / dimension composite members are laid out by the SBE rule and stay
   inside the composite, whatever their order, custom offsets or extra members *)
Theorem C17_header_members_in_order : stmt_member_offsets_in_order.
Proof. exact member_offsets_in_order. Qed.
Print Assumptions C17_header_members_in_order.
