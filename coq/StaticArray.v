(* StaticArray.v — model of sbepp::detail::static_array_ref<Byte, Value, N, Tag>
   (sbepp.hpp): assign_string (both overloads), assign_range, assign (count /
   iterator pair / initializer list), fill, strlen, strlen_r and the private
   pad().

   Memory is a [list Z] (one element per byte); pointers are [Z] offsets from
   the start of that list.  The array view is described by
     off   = begin pointer of the byte_range (array element 0),
     vend  = end pointer stored in the byte_range (only read by
             SBEPP_SIZE_CHECK, and only when checks are enabled),
     N     = the template parameter.
   [checks] is SBEPP_SIZE_CHECKS_ENABLED (= SBEPP_ASSERT active).

   The operations are written as the C++ executes them: element-by-element
   stores/loads through [wr]/[rd] (an access outside the list is a memory
   fault), the assertions in source order.  An assertion failure carries the
   memory as it is at that moment, so "the copy happens before the assertion"
   is visible in the outcome.

   The main definitions model the code AFTER fix_c14.diff (strlen() under
   constant evaluation is bounded by size()); [Legacy.strlen] is the code
   before it (string_length(data()), an unbounded scan).

   The specification functions ([padding], [spec_*]) are at the end; they are
   plain list algebra over the array alone and do not mention memory,
   pointers or loops.  Lemmas are in StaticArrayProofs.v. *)
From Coq Require Import ZArith List Bool.
Import ListNotations.
Local Open Scope Z_scope.

(* everything lives in one inner module so that the extracted OCaml names
   (SArr.fill, SArr.Ok, SArr.Legacy.strlen, ...) cannot collide with the models
   of other properties in the single extracted model.ml *)
Module SArr.

Inductive eos_null := EosNone | EosSingle | EosAll.

Inductive outcome (A : Type) : Type :=
| Ok (a : A)
| AssertFail (mem : list Z)   (* sbepp::assertion_failed called; memory at that point *)
| Fault.                      (* access outside the underlying buffer / undefined *)
Arguments Ok {A} a.
Arguments AssertFail {A} mem.
Arguments Fault {A}.

Definition bind {A B} (o : outcome A) (f : A -> outcome B) : outcome B :=
  match o with
  | Ok a => f a
  | AssertFail m => AssertFail m
  | Fault => Fault
  end.

Definition lift {A} (o : option A) : outcome A :=
  match o with Some a => Ok a | None => Fault end.

Notation "x <- e1 ;; e2" := (bind e1 (fun x => e2))
  (at level 61, e1 at next level, right associativity).

(* ---- memory ------------------------------------------------------------ *)

Definition rd (mem : list Z) (p : Z) : option Z :=
  if p <? 0 then None else nth_error mem (Z.to_nat p).

Fixpoint upd_nat (mem : list Z) (i : nat) (v : Z) : option (list Z) :=
  match mem, i with
  | [], _ => None
  | _ :: t, O => Some (v :: t)
  | x :: t, S j =>
      match upd_nat t j v with Some t' => Some (x :: t') | None => None end
  end.

Definition wr (mem : list Z) (p : Z) (v : Z) : option (list Z) :=
  if p <? 0 then None else upd_nat mem (Z.to_nat p) v.

(* std::copy / std::copy_n / std::ranges::copy into a raw pointer: one store
   per source element, returns the memory and the advanced output pointer *)
Fixpoint copy_loop (mem : list Z) (out : Z) (src : list Z) : option (list Z * Z) :=
  match src with
  | [] => Some (mem, out)
  | x :: xs =>
      match wr mem out x with
      | None => None
      | Some mem' => copy_loop mem' (out + 1) xs
      end
  end.

(* std::fill_n *)
Fixpoint fill_n_loop (mem : list Z) (out : Z) (n : nat) (v : Z) : option (list Z * Z) :=
  match n with
  | O => Some (mem, out)
  | S k =>
      match wr mem out v with
      | None => None
      | Some mem' => fill_n_loop mem' (out + 1) k v
      end
  end.

(* std::fill(first, last, v) on pointers; [last] before [first] is undefined *)
Definition std_fill (mem : list Z) (first last : Z) (v : Z) : option (list Z) :=
  if last <? first then None
  else option_map fst (fill_n_loop mem first (Z.to_nat (last - first)) v).

(* std::strlen / the constant-evaluation loop of detail::string_length on the
   object [s] the pointer points into: index of the first NUL; running off the
   end of the object is undefined *)
Fixpoint c_strlen (s : list Z) : option nat :=
  match s with
  | [] => None
  | c :: t => if c =? 0 then Some O else option_map S (c_strlen t)
  end.

(* ---- assertions -------------------------------------------------------- *)

Definition assert_ (checks : bool) (mem : list Z) (cond : bool) : outcome unit :=
  if checks && negb cond then AssertFail mem else Ok tt.

(* static_cast<std::size_t>(end - begin) on LP64.  Equal to
   [CInt.ccast U64 d] for every ptrdiff_t value (lemma
   size_t_of_ptrdiff_is_ccast); written without [mod] so that no 2^64 bound
   on the list length leaks into the theorems *)
Definition size_t_of_ptrdiff (d : Z) : Z := if d <? 0 then d + 2 ^ 64 else d.

(* SBEPP_SIZE_CHECK(begin, end, 0, N):
     begin && begin <= end && N <= size_t(end - begin)
   (the begin <= end conjunct was added by the C10 "fix:" commit); the
   byte_range begin pointer is non-null in this model *)
Definition size_check (off vend : Z) (N : nat) : bool :=
  (off <=? vend) && (Z.of_nat N <=? size_t_of_ptrdiff (vend - off)).

(* data(): size check, then the begin pointer *)
Definition data (checks : bool) (mem : list Z) (off vend : Z) (N : nat) : outcome Z :=
  _ <- assert_ checks mem (size_check off vend N) ;; Ok off.

Definition begin_ := data.

Definition end_ (checks : bool) (mem : list Z) (off vend : Z) (N : nat) : outcome Z :=
  d <- data checks mem off vend N ;; Ok (d + Z.of_nat N).

(* ---- pad() ------------------------------------------------------------- *)

Definition pad (checks : bool) (mem : list Z) (off vend : Z) (N : nat)
    (mode : eos_null) (eos_pos : Z) : outcome (list Z) :=
  match mode with
  | EosAll =>
      e <- end_ checks mem off vend N ;;
      lift (std_fill mem eos_pos e 0)
  | EosSingle =>
      e <- end_ checks mem off vend N ;;
      if eos_pos =? e then Ok mem else lift (wr mem eos_pos 0)
  | EosNone => Ok mem   (* SBEPP_ASSERT(mode == eos_null::none) holds *)
  end.

(* ---- assign_string(const char* str, eos_mode) --------------------------
   [str] = None is the null pointer; Some s is the char object pointed to *)
Definition assign_string_ptr (checks : bool) (mem : list Z) (off vend : Z) (N : nat)
    (str : option (list Z)) (mode : eos_null) : outcome (list Z * Z) :=
  match str with
  | None => if checks then AssertFail mem else Fault
  | Some s =>
      len <- lift (c_strlen s) ;;
      _ <- assert_ checks mem (Nat.leb len N) ;;
      b <- begin_ checks mem off vend N ;;
      r <- lift (copy_loop mem b (firstn len s)) ;;
      let '(mem1, eos_pos) := r in
      mem2 <- pad checks mem1 off vend N mode eos_pos ;;
      Ok (mem2, eos_pos)
  end.

(* ---- assign_range(R&& r) ------------------------------------------------
   the copy is performed first, SBEPP_ASSERT(res <= end()) afterwards *)
Definition assign_range (checks : bool) (mem : list Z) (off vend : Z) (N : nat)
    (r : list Z) : outcome (list Z * Z) :=
  b <- begin_ checks mem off vend N ;;
  c <- lift (copy_loop mem b r) ;;
  let '(mem1, res) := c in
  e <- end_ checks mem1 off vend N ;;
  _ <- assert_ checks mem1 (res <=? e) ;;
  Ok (mem1, res).

(* ---- assign_string(R&& r, eos_mode) ------------------------------------ *)
Definition assign_string_range (checks : bool) (mem : list Z) (off vend : Z) (N : nat)
    (r : list Z) (mode : eos_null) : outcome (list Z * Z) :=
  c <- assign_range checks mem off vend N r ;;
  let '(mem1, eos_pos) := c in
  mem2 <- pad checks mem1 off vend N mode eos_pos ;;
  Ok (mem2, eos_pos).

(* ---- fill(value) -------------------------------------------------------- *)
Definition fill (checks : bool) (mem : list Z) (off vend : Z) (N : nat) (v : Z)
    : outcome (list Z) :=
  b <- begin_ checks mem off vend N ;;
  r <- lift (fill_n_loop mem b N v) ;;
  Ok (fst r).

(* ---- assign(count, value) ----------------------------------------------- *)
Definition assign_count (checks : bool) (mem : list Z) (off vend : Z) (N : nat)
    (count : nat) (v : Z) : outcome (list Z * Z) :=
  _ <- assert_ checks mem (Nat.leb count N) ;;
  b <- begin_ checks mem off vend N ;;
  lift (fill_n_loop mem b count v).

(* ---- assign(first, last): copy first, then
   SBEPP_ASSERT(static_cast<size_type>(last_out - begin()) <= size()) ------- *)
Definition assign_iter (checks : bool) (mem : list Z) (off vend : Z) (N : nat)
    (r : list Z) : outcome (list Z * Z) :=
  b <- begin_ checks mem off vend N ;;
  c <- lift (copy_loop mem b r) ;;
  let '(mem1, last_out) := c in
  b2 <- begin_ checks mem1 off vend N ;;
  _ <- assert_ checks mem1 (size_t_of_ptrdiff (last_out - b2) <=? Z.of_nat N) ;;
  Ok (mem1, last_out).

(* ---- assign(std::initializer_list) --------------------------------------- *)
Definition assign_ilist (checks : bool) (mem : list Z) (off vend : Z) (N : nat)
    (il : list Z) : outcome (list Z * Z) :=
  _ <- assert_ checks mem (Nat.leb (length il) N) ;;
  assign_iter checks mem off vend N il.

(* ---- strlen() ------------------------------------------------------------ *)

(* std::memchr(p, 0, n): pointer to the first NUL among n bytes, or null *)
Fixpoint memchr_loop (mem : list Z) (p : Z) (n : nat) : option (option Z) :=
  match n with
  | O => Some None
  | S k =>
      match rd mem p with
      | None => None
      | Some c => if c =? 0 then Some (Some p) else memchr_loop mem (p + 1) k
      end
  end.

(* constant evaluation (fixed code):
   for(; (length != size()) && (data()[length] != '\0'); length++) {}
   [rem] = size() - length *)
Fixpoint ce_scan (mem : list Z) (d : Z) (length : Z) (rem : nat) : option Z :=
  match rem with
  | O => Some length
  | S k =>
      match rd mem (d + length) with
      | None => None
      | Some c => if c =? 0 then Some length else ce_scan mem d (length + 1) k
      end
  end.

Definition strlen_rt (checks : bool) (mem : list Z) (off vend : Z) (N : nat) : outcome Z :=
  d <- data checks mem off vend N ;;
  r <- lift (memchr_loop mem d N) ;;
  match r with
  | Some first_null => d2 <- data checks mem off vend N ;; Ok (first_null - d2)
  | None => Ok (Z.of_nat N)
  end.

(* [ce] = the call is evaluated in a constant expression (C++20) *)
Definition strlen (ce checks : bool) (mem : list Z) (off vend : Z) (N : nat) : outcome Z :=
  if ce then
    d <- data checks mem off vend N ;;
    lift (ce_scan mem d 0 N)
  else strlen_rt checks mem off vend N.

(* ---- strlen_r() ----------------------------------------------------------
   std::find_if(rbegin(), rend(), != '\0'); the loop below walks the base
   pointer of the reverse iterator down from [re + i] to [re]; the element a
   reverse iterator with base p designates is p[-1] *)
Fixpoint find_if_rev (mem : list Z) (re : Z) (i : nat) : option Z :=
  match i with
  | O => Some re
  | S j =>
      match rd mem (re + Z.of_nat j) with
      | None => None
      | Some c => if negb (c =? 0) then Some (re + Z.of_nat i)
                  else find_if_rev mem re j
      end
  end.

Definition strlen_r (checks : bool) (mem : list Z) (off vend : Z) (N : nat) : outcome Z :=
  rb <- end_ checks mem off vend N ;;          (* rbegin().base() *)
  re <- begin_ checks mem off vend N ;;        (* rend().base()   *)
  it <- lift (find_if_rev mem re (Z.to_nat (rb - re))) ;;
  rb2 <- end_ checks mem off vend N ;;
  (* last_non_null - rbegin() == rbegin().base() - last_non_null.base(),
     0 <= it <= N so the size_t subtraction cannot wrap *)
  Ok (Z.of_nat N - (rb2 - it)).

Module Legacy.
  (* before fix_c14.diff: under constant evaluation strlen() returned
     string_length(data()), a scan that is not limited by size(): it runs into
     whatever follows the array and is not a constant expression when no NUL
     follows at all *)
  Definition strlen (ce checks : bool) (mem : list Z) (off vend : Z) (N : nat) : outcome Z :=
    if ce then
      d <- data checks mem off vend N ;;
      if d <? 0 then Fault
      else n <- lift (c_strlen (skipn (Z.to_nat d) mem)) ;; Ok (Z.of_nat n)
    else strlen_rt checks mem off vend N.
End Legacy.

(* ======================= specification ================================== *)

(* what the elements after the string become, given what they were *)
Definition padding (mode : eos_null) (old : list Z) : list Z :=
  match mode with
  | EosNone => old
  | EosSingle => match old with [] => [] | _ :: t => 0 :: t end
  | EosAll => map (fun _ => 0) old
  end.

(* new array content after assign_string(input, mode) on content [arr] *)
Definition spec_assign_string (arr input : list Z) (mode : eos_null) : list Z :=
  input ++ padding mode (skipn (length input) arr).

(* assign_range / assign(first,last) / assign(ilist) *)
Definition spec_assign (arr input : list Z) : list Z :=
  input ++ skipn (length input) arr.

(* index of the first NUL, or the length *)
Fixpoint spec_strlen (arr : list Z) : nat :=
  match arr with
  | [] => O
  | c :: t => if c =? 0 then O else S (spec_strlen t)
  end.

Fixpoint drop_nuls (l : list Z) : list Z :=
  match l with
  | [] => []
  | c :: t => if c =? 0 then drop_nuls t else l
  end.

(* index after the last non-NUL, or 0 *)
Definition spec_strlen_r (arr : list Z) : nat := length (drop_nuls (rev arr)).

(* ---- helpers for the line-protocol driver (not used in theorems) -------- *)
Definition split3 (mem : list Z) (off : nat) (N : nat) : list Z * list Z * list Z :=
  (firstn off mem, firstn N (skipn off mem), skipn (off + N) mem).

End SArr.
