Bitset.vo Bitset.glob Bitset.v.beautified Bitset.required_vo: Bitset.v CInt.vo
Bitset.vio: Bitset.v CInt.vio
Bitset.vos Bitset.vok Bitset.required_vos: Bitset.v CInt.vos
BitsetProofs.vo BitsetProofs.glob BitsetProofs.v.beautified BitsetProofs.required_vo: BitsetProofs.v CInt.vo CIntFacts.vo Bitset.vo
BitsetProofs.vio: BitsetProofs.v CInt.vio CIntFacts.vio Bitset.vio
BitsetProofs.vos BitsetProofs.vok BitsetProofs.required_vos: BitsetProofs.v CInt.vos CIntFacts.vos Bitset.vos
Bytes.vo Bytes.glob Bytes.v.beautified Bytes.required_vo: Bytes.v 
Bytes.vio: Bytes.v 
Bytes.vos Bytes.vok Bytes.required_vos: Bytes.v 
BytesFacts.vo BytesFacts.glob BytesFacts.v.beautified BytesFacts.required_vo: BytesFacts.v Bytes.vo
BytesFacts.vio: BytesFacts.v Bytes.vio
BytesFacts.vos BytesFacts.vok BytesFacts.required_vos: BytesFacts.v Bytes.vos
CInt.vo CInt.glob CInt.v.beautified CInt.required_vo: CInt.v 
CInt.vio: CInt.v 
CInt.vos CInt.vok CInt.required_vos: CInt.v 
CIntFacts.vo CIntFacts.glob CIntFacts.v.beautified CIntFacts.required_vo: CIntFacts.v CInt.vo
CIntFacts.vio: CIntFacts.v CInt.vio
CIntFacts.vos CIntFacts.vok CIntFacts.required_vos: CIntFacts.v CInt.vos
Checked.vo Checked.glob Checked.v.beautified Checked.required_vo: Checked.v CInt.vo Bytes.vo Msg.vo Layout.vo Cursor.vo
Checked.vio: Checked.v CInt.vio Bytes.vio Msg.vio Layout.vio Cursor.vio
Checked.vos Checked.vok Checked.required_vos: Checked.v CInt.vos Bytes.vos Msg.vos Layout.vos Cursor.vos
CheckedProofs.vo CheckedProofs.glob CheckedProofs.v.beautified CheckedProofs.required_vo: CheckedProofs.v CInt.vo CIntFacts.vo Bytes.vo BytesFacts.vo Msg.vo Layout.vo Wire.vo MsgSpec.vo LayoutProofs.vo MsgProofs.vo Cursor.vo CursorSpec.vo CursorProofs.vo Checked.vo ScriptSpec.vo
CheckedProofs.vio: CheckedProofs.v CInt.vio CIntFacts.vio Bytes.vio BytesFacts.vio Msg.vio Layout.vio Wire.vio MsgSpec.vio LayoutProofs.vio MsgProofs.vio Cursor.vio CursorSpec.vio CursorProofs.vio Checked.vio ScriptSpec.vio
CheckedProofs.vos CheckedProofs.vok CheckedProofs.required_vos: CheckedProofs.v CInt.vos CIntFacts.vos Bytes.vos BytesFacts.vos Msg.vos Layout.vos Wire.vos MsgSpec.vos LayoutProofs.vos MsgProofs.vos Cursor.vos CursorSpec.vos CursorProofs.vos Checked.vos ScriptSpec.vos
Compile.vo Compile.glob Compile.v.beautified Compile.required_vo: Compile.v CInt.vo Bytes.vo Msg.vo Layout.vo Cursor.vo
Compile.vio: Compile.v CInt.vio Bytes.vio Msg.vio Layout.vio Cursor.vio
Compile.vos Compile.vok Compile.required_vos: Compile.v CInt.vos Bytes.vos Msg.vos Layout.vos Cursor.vos
CompileProofs.vo CompileProofs.glob CompileProofs.v.beautified CompileProofs.required_vo: CompileProofs.v CInt.vo Bytes.vo Msg.vo Layout.vo Wire.vo MsgSpec.vo LayoutProofs.vo Cursor.vo CursorSpec.vo Checked.vo ScriptSpec.vo Compile.vo CompileSpec.vo
CompileProofs.vio: CompileProofs.v CInt.vio Bytes.vio Msg.vio Layout.vio Wire.vio MsgSpec.vio LayoutProofs.vio Cursor.vio CursorSpec.vio Checked.vio ScriptSpec.vio Compile.vio CompileSpec.vio
CompileProofs.vos CompileProofs.vok CompileProofs.required_vos: CompileProofs.v CInt.vos Bytes.vos Msg.vos Layout.vos Wire.vos MsgSpec.vos LayoutProofs.vos Cursor.vos CursorSpec.vos Checked.vos ScriptSpec.vos Compile.vos CompileSpec.vos
CompileSpec.vo CompileSpec.glob CompileSpec.v.beautified CompileSpec.required_vo: CompileSpec.v CInt.vo Bytes.vo Msg.vo Layout.vo Wire.vo MsgSpec.vo Cursor.vo CursorSpec.vo Checked.vo ScriptSpec.vo Compile.vo
CompileSpec.vio: CompileSpec.v CInt.vio Bytes.vio Msg.vio Layout.vio Wire.vio MsgSpec.vio Cursor.vio CursorSpec.vio Checked.vio ScriptSpec.vio Compile.vio
CompileSpec.vos CompileSpec.vok CompileSpec.required_vos: CompileSpec.v CInt.vos Bytes.vos Msg.vos Layout.vos Wire.vos MsgSpec.vos Cursor.vos CursorSpec.vos Checked.vos ScriptSpec.vos Compile.vos
Constness.vo Constness.glob Constness.v.beautified Constness.required_vo: Constness.v 
Constness.vio: Constness.v 
Constness.vos Constness.vok Constness.required_vos: Constness.v 
ConstnessProofs.vo ConstnessProofs.glob ConstnessProofs.v.beautified ConstnessProofs.required_vo: ConstnessProofs.v Constness.vo
ConstnessProofs.vio: ConstnessProofs.v Constness.vio
ConstnessProofs.vos ConstnessProofs.vok ConstnessProofs.required_vos: ConstnessProofs.v Constness.vos
Cursor.vo Cursor.glob Cursor.v.beautified Cursor.required_vo: Cursor.v CInt.vo Bytes.vo Msg.vo Layout.vo
Cursor.vio: Cursor.v CInt.vio Bytes.vio Msg.vio Layout.vio
Cursor.vos Cursor.vok Cursor.required_vos: Cursor.v CInt.vos Bytes.vos Msg.vos Layout.vos
CursorCounterexamples.vo CursorCounterexamples.glob CursorCounterexamples.v.beautified CursorCounterexamples.required_vo: CursorCounterexamples.v CInt.vo Bytes.vo Msg.vo Layout.vo Wire.vo MsgSpec.vo Cursor.vo CursorSpec.vo
CursorCounterexamples.vio: CursorCounterexamples.v CInt.vio Bytes.vio Msg.vio Layout.vio Wire.vio MsgSpec.vio Cursor.vio CursorSpec.vio
CursorCounterexamples.vos CursorCounterexamples.vok CursorCounterexamples.required_vos: CursorCounterexamples.v CInt.vos Bytes.vos Msg.vos Layout.vos Wire.vos MsgSpec.vos Cursor.vos CursorSpec.vos
CursorProofs.vo CursorProofs.glob CursorProofs.v.beautified CursorProofs.required_vo: CursorProofs.v CInt.vo CIntFacts.vo Bytes.vo BytesFacts.vo Msg.vo Layout.vo Wire.vo MsgSpec.vo MsgProofs.vo Cursor.vo CursorSpec.vo
CursorProofs.vio: CursorProofs.v CInt.vio CIntFacts.vio Bytes.vio BytesFacts.vio Msg.vio Layout.vio Wire.vio MsgSpec.vio MsgProofs.vio Cursor.vio CursorSpec.vio
CursorProofs.vos CursorProofs.vok CursorProofs.required_vos: CursorProofs.v CInt.vos CIntFacts.vos Bytes.vos BytesFacts.vos Msg.vos Layout.vos Wire.vos MsgSpec.vos MsgProofs.vos Cursor.vos CursorSpec.vos
CursorScript.vo CursorScript.glob CursorScript.v.beautified CursorScript.required_vo: CursorScript.v CInt.vo Bytes.vo Msg.vo Layout.vo Cursor.vo CursorSpec.vo
CursorScript.vio: CursorScript.v CInt.vio Bytes.vio Msg.vio Layout.vio Cursor.vio CursorSpec.vio
CursorScript.vos CursorScript.vok CursorScript.required_vos: CursorScript.v CInt.vos Bytes.vos Msg.vos Layout.vos Cursor.vos CursorSpec.vos
CursorScriptProofs.vo CursorScriptProofs.glob CursorScriptProofs.v.beautified CursorScriptProofs.required_vo: CursorScriptProofs.v CInt.vo CIntFacts.vo Bytes.vo BytesFacts.vo Msg.vo Layout.vo Wire.vo MsgSpec.vo MsgProofs.vo Cursor.vo CursorSpec.vo CursorProofs.vo CursorScript.vo
CursorScriptProofs.vio: CursorScriptProofs.v CInt.vio CIntFacts.vio Bytes.vio BytesFacts.vio Msg.vio Layout.vio Wire.vio MsgSpec.vio MsgProofs.vio Cursor.vio CursorSpec.vio CursorProofs.vio CursorScript.vio
CursorScriptProofs.vos CursorScriptProofs.vok CursorScriptProofs.required_vos: CursorScriptProofs.v CInt.vos CIntFacts.vos Bytes.vos BytesFacts.vos Msg.vos Layout.vos Wire.vos MsgSpec.vos MsgProofs.vos Cursor.vos CursorSpec.vos CursorProofs.vos CursorScript.vos
CursorSpec.vo CursorSpec.glob CursorSpec.v.beautified CursorSpec.required_vo: CursorSpec.v CInt.vo Bytes.vo Msg.vo Layout.vo Wire.vo MsgSpec.vo Cursor.vo
CursorSpec.vio: CursorSpec.v CInt.vio Bytes.vio Msg.vio Layout.vio Wire.vio MsgSpec.vio Cursor.vio
CursorSpec.vos CursorSpec.vok CursorSpec.required_vos: CursorSpec.v CInt.vos Bytes.vos Msg.vos Layout.vos Wire.vos MsgSpec.vos Cursor.vos
CursorStop.vo CursorStop.glob CursorStop.v.beautified CursorStop.required_vo: CursorStop.v CInt.vo Bytes.vo Msg.vo Layout.vo Cursor.vo
CursorStop.vio: CursorStop.v CInt.vio Bytes.vio Msg.vio Layout.vio Cursor.vio
CursorStop.vos CursorStop.vok CursorStop.required_vos: CursorStop.v CInt.vos Bytes.vos Msg.vos Layout.vos Cursor.vos
CursorStopProofs.vo CursorStopProofs.glob CursorStopProofs.v.beautified CursorStopProofs.required_vo: CursorStopProofs.v CInt.vo Bytes.vo Msg.vo Layout.vo Wire.vo MsgSpec.vo Cursor.vo CursorSpec.vo CursorProofs.vo CursorStop.vo
CursorStopProofs.vio: CursorStopProofs.v CInt.vio Bytes.vio Msg.vio Layout.vio Wire.vio MsgSpec.vio Cursor.vio CursorSpec.vio CursorProofs.vio CursorStop.vio
CursorStopProofs.vos CursorStopProofs.vok CursorStopProofs.required_vos: CursorStopProofs.v CInt.vos Bytes.vos Msg.vos Layout.vos Wire.vos MsgSpec.vos Cursor.vos CursorSpec.vos CursorProofs.vos CursorStop.vos
Dyn.vo Dyn.glob Dyn.v.beautified Dyn.required_vo: Dyn.v CInt.vo
Dyn.vio: Dyn.v CInt.vio
Dyn.vos Dyn.vok Dyn.required_vos: Dyn.v CInt.vos
DynProofs.vo DynProofs.glob DynProofs.v.beautified DynProofs.required_vo: DynProofs.v CInt.vo CIntFacts.vo Dyn.vo
DynProofs.vio: DynProofs.v CInt.vio CIntFacts.vio Dyn.vio
DynProofs.vos DynProofs.vok DynProofs.required_vos: DynProofs.v CInt.vos CIntFacts.vos Dyn.vos
EnumVisit.vo EnumVisit.glob EnumVisit.v.beautified EnumVisit.required_vo: EnumVisit.v 
EnumVisit.vio: EnumVisit.v 
EnumVisit.vos EnumVisit.vok EnumVisit.required_vos: EnumVisit.v 
ExtrStrings.vo ExtrStrings.glob ExtrStrings.v.beautified ExtrStrings.required_vo: ExtrStrings.v 
ExtrStrings.vio: ExtrStrings.v 
ExtrStrings.vos ExtrStrings.vok ExtrStrings.required_vos: ExtrStrings.v 
Extract.vo Extract.glob Extract.v.beautified Extract.required_vo: Extract.v CInt.vo Constness.vo GroupIter.vo Dyn.vo StaticArray.vo Bitset.vo Fp.vo Optional.vo OptLit.vo Bytes.vo Msg.vo Layout.vo Wire.vo Cursor.vo CursorStop.vo CursorScript.vo Compile.vo CursorSpec.vo Checked.vo IoModel.vo EnumVisit.vo Rules.vo Validate.vo Pipeline.vo ExtrStrings.vo Literals.vo Names.vo Traits.vo
Extract.vio: Extract.v CInt.vio Constness.vio GroupIter.vio Dyn.vio StaticArray.vio Bitset.vio Fp.vio Optional.vio OptLit.vio Bytes.vio Msg.vio Layout.vio Wire.vio Cursor.vio CursorStop.vio CursorScript.vio Compile.vio CursorSpec.vio Checked.vio IoModel.vio EnumVisit.vio Rules.vio Validate.vio Pipeline.vio ExtrStrings.vio Literals.vio Names.vio Traits.vio
Extract.vos Extract.vok Extract.required_vos: Extract.v CInt.vos Constness.vos GroupIter.vos Dyn.vos StaticArray.vos Bitset.vos Fp.vos Optional.vos OptLit.vos Bytes.vos Msg.vos Layout.vos Wire.vos Cursor.vos CursorStop.vos CursorScript.vos Compile.vos CursorSpec.vos Checked.vos IoModel.vos EnumVisit.vos Rules.vos Validate.vos Pipeline.vos ExtrStrings.vos Literals.vos Names.vos Traits.vos
FillProofs.vo FillProofs.glob FillProofs.v.beautified FillProofs.required_vo: FillProofs.v CInt.vo CIntFacts.vo Bytes.vo BytesFacts.vo Msg.vo Layout.vo Wire.vo MsgSpec.vo LayoutProofs.vo MsgProofs.vo Cursor.vo CursorSpec.vo Checked.vo ScriptSpec.vo
FillProofs.vio: FillProofs.v CInt.vio CIntFacts.vio Bytes.vio BytesFacts.vio Msg.vio Layout.vio Wire.vio MsgSpec.vio LayoutProofs.vio MsgProofs.vio Cursor.vio CursorSpec.vio Checked.vio ScriptSpec.vio
FillProofs.vos FillProofs.vok FillProofs.required_vos: FillProofs.v CInt.vos CIntFacts.vos Bytes.vos BytesFacts.vos Msg.vos Layout.vos Wire.vos MsgSpec.vos LayoutProofs.vos MsgProofs.vos Cursor.vos CursorSpec.vos Checked.vos ScriptSpec.vos
Fp.vo Fp.glob Fp.v.beautified Fp.required_vo: Fp.v 
Fp.vio: Fp.v 
Fp.vos Fp.vok Fp.required_vos: Fp.v 
FpFlocqCheck_C16.vo FpFlocqCheck_C16.glob FpFlocqCheck_C16.v.beautified FpFlocqCheck_C16.required_vo: FpFlocqCheck_C16.v Fp.vo
FpFlocqCheck_C16.vio: FpFlocqCheck_C16.v Fp.vio
FpFlocqCheck_C16.vos FpFlocqCheck_C16.vok FpFlocqCheck_C16.required_vos: FpFlocqCheck_C16.v Fp.vos
FpProofs.vo FpProofs.glob FpProofs.v.beautified FpProofs.required_vo: FpProofs.v Fp.vo
FpProofs.vio: FpProofs.v Fp.vio
FpProofs.vos FpProofs.vok FpProofs.required_vos: FpProofs.v Fp.vos
GroupIter.vo GroupIter.glob GroupIter.v.beautified GroupIter.required_vo: GroupIter.v CInt.vo
GroupIter.vio: GroupIter.v CInt.vio
GroupIter.vos GroupIter.vok GroupIter.required_vos: GroupIter.v CInt.vos
GroupIterProofs.vo GroupIterProofs.glob GroupIterProofs.v.beautified GroupIterProofs.required_vo: GroupIterProofs.v CInt.vo CIntFacts.vo GroupIter.vo
GroupIterProofs.vio: GroupIterProofs.v CInt.vio CIntFacts.vio GroupIter.vio
GroupIterProofs.vos GroupIterProofs.vok GroupIterProofs.required_vos: GroupIterProofs.v CInt.vos CIntFacts.vos GroupIter.vos
IoModel.vo IoModel.glob IoModel.v.beautified IoModel.required_vo: IoModel.v 
IoModel.vio: IoModel.v 
IoModel.vos IoModel.vok IoModel.required_vos: IoModel.v 
IoModelProofs.vo IoModelProofs.glob IoModelProofs.v.beautified IoModelProofs.required_vo: IoModelProofs.v IoModel.vo
IoModelProofs.vio: IoModelProofs.v IoModel.vio
IoModelProofs.vos IoModelProofs.vok IoModelProofs.required_vos: IoModelProofs.v IoModel.vos
Layout.vo Layout.glob Layout.v.beautified Layout.required_vo: Layout.v CInt.vo Bytes.vo Msg.vo
Layout.vio: Layout.v CInt.vio Bytes.vio Msg.vio
Layout.vos Layout.vok Layout.required_vos: Layout.v CInt.vos Bytes.vos Msg.vos
LayoutProofs.vo LayoutProofs.glob LayoutProofs.v.beautified LayoutProofs.required_vo: LayoutProofs.v CInt.vo Bytes.vo Msg.vo Layout.vo Wire.vo MsgSpec.vo
LayoutProofs.vio: LayoutProofs.v CInt.vio Bytes.vio Msg.vio Layout.vio Wire.vio MsgSpec.vio
LayoutProofs.vos LayoutProofs.vok LayoutProofs.required_vos: LayoutProofs.v CInt.vos Bytes.vos Msg.vos Layout.vos Wire.vos MsgSpec.vos
Literals.vo Literals.glob Literals.v.beautified Literals.required_vo: Literals.v CInt.vo Bytes.vo
Literals.vio: Literals.v CInt.vio Bytes.vio
Literals.vos Literals.vok Literals.required_vos: Literals.v CInt.vos Bytes.vos
LiteralsProofs.vo LiteralsProofs.glob LiteralsProofs.v.beautified LiteralsProofs.required_vo: LiteralsProofs.v CInt.vo CIntFacts.vo Bytes.vo Literals.vo
LiteralsProofs.vio: LiteralsProofs.v CInt.vio CIntFacts.vio Bytes.vio Literals.vio
LiteralsProofs.vos LiteralsProofs.vok LiteralsProofs.required_vos: LiteralsProofs.v CInt.vos CIntFacts.vos Bytes.vos Literals.vos
Msg.vo Msg.glob Msg.v.beautified Msg.required_vo: Msg.v CInt.vo Bytes.vo
Msg.vio: Msg.v CInt.vio Bytes.vio
Msg.vos Msg.vok Msg.required_vos: Msg.v CInt.vos Bytes.vos
MsgProofs.vo MsgProofs.glob MsgProofs.v.beautified MsgProofs.required_vo: MsgProofs.v CInt.vo CIntFacts.vo Bytes.vo BytesFacts.vo Msg.vo Layout.vo Wire.vo MsgSpec.vo
MsgProofs.vio: MsgProofs.v CInt.vio CIntFacts.vio Bytes.vio BytesFacts.vio Msg.vio Layout.vio Wire.vio MsgSpec.vio
MsgProofs.vos MsgProofs.vok MsgProofs.required_vos: MsgProofs.v CInt.vos CIntFacts.vos Bytes.vos BytesFacts.vos Msg.vos Layout.vos Wire.vos MsgSpec.vos
MsgSpec.vo MsgSpec.glob MsgSpec.v.beautified MsgSpec.required_vo: MsgSpec.v CInt.vo Bytes.vo Msg.vo Layout.vo Wire.vo
MsgSpec.vio: MsgSpec.v CInt.vio Bytes.vio Msg.vio Layout.vio Wire.vio
MsgSpec.vos MsgSpec.vok MsgSpec.required_vos: MsgSpec.v CInt.vos Bytes.vos Msg.vos Layout.vos Wire.vos
Names.vo Names.glob Names.v.beautified Names.required_vo: Names.v Literals.vo
Names.vio: Names.v Literals.vio
Names.vos Names.vok Names.required_vos: Names.v Literals.vos
NamesProofs.vo NamesProofs.glob NamesProofs.v.beautified NamesProofs.required_vo: NamesProofs.v Literals.vo LiteralsProofs.vo Names.vo
NamesProofs.vio: NamesProofs.v Literals.vio LiteralsProofs.vio Names.vio
NamesProofs.vos NamesProofs.vok NamesProofs.required_vos: NamesProofs.v Literals.vos LiteralsProofs.vos Names.vos
OptLit.vo OptLit.glob OptLit.v.beautified OptLit.required_vo: OptLit.v CInt.vo Fp.vo Optional.vo
OptLit.vio: OptLit.v CInt.vio Fp.vio Optional.vio
OptLit.vos OptLit.vok OptLit.required_vos: OptLit.v CInt.vos Fp.vos Optional.vos
OptLitProofs.vo OptLitProofs.glob OptLitProofs.v.beautified OptLitProofs.required_vo: OptLitProofs.v CInt.vo CIntFacts.vo Fp.vo Optional.vo OptLit.vo
OptLitProofs.vio: OptLitProofs.v CInt.vio CIntFacts.vio Fp.vio Optional.vio OptLit.vio
OptLitProofs.vos OptLitProofs.vok OptLitProofs.required_vos: OptLitProofs.v CInt.vos CIntFacts.vos Fp.vos Optional.vos OptLit.vos
Optional.vo Optional.glob Optional.v.beautified Optional.required_vo: Optional.v CInt.vo Fp.vo
Optional.vio: Optional.v CInt.vio Fp.vio
Optional.vos Optional.vok Optional.required_vos: Optional.v CInt.vos Fp.vos
OptionalProofs.vo OptionalProofs.glob OptionalProofs.v.beautified OptionalProofs.required_vo: OptionalProofs.v CInt.vo CIntFacts.vo Fp.vo Optional.vo OptLit.vo
OptionalProofs.vio: OptionalProofs.v CInt.vio CIntFacts.vio Fp.vio Optional.vio OptLit.vio
OptionalProofs.vos OptionalProofs.vok OptionalProofs.required_vos: OptionalProofs.v CInt.vos CIntFacts.vos Fp.vos Optional.vos OptLit.vos
Pipeline.vo Pipeline.glob Pipeline.v.beautified Pipeline.required_vo: Pipeline.v Bytes.vo Rules.vo Validate.vo
Pipeline.vio: Pipeline.v Bytes.vio Rules.vio Validate.vio
Pipeline.vos Pipeline.vok Pipeline.required_vos: Pipeline.v Bytes.vos Rules.vos Validate.vos
PipelineProofs.vo PipelineProofs.glob PipelineProofs.v.beautified PipelineProofs.required_vo: PipelineProofs.v Bytes.vo Rules.vo Validate.vo Pipeline.vo ValidateProofs.vo
PipelineProofs.vio: PipelineProofs.v Bytes.vio Rules.vio Validate.vio Pipeline.vio ValidateProofs.vio
PipelineProofs.vos PipelineProofs.vok PipelineProofs.required_vos: PipelineProofs.v Bytes.vos Rules.vos Validate.vos Pipeline.vos ValidateProofs.vos
Properties_C01.vo Properties_C01.glob Properties_C01.v.beautified Properties_C01.required_vo: Properties_C01.v CInt.vo Bytes.vo BytesFacts.vo Msg.vo Layout.vo Wire.vo MsgSpec.vo LayoutProofs.vo MsgProofs.vo Cursor.vo CursorSpec.vo Checked.vo ScriptSpec.vo ScriptProofs.vo Compile.vo CompileSpec.vo CompileProofs.vo
Properties_C01.vio: Properties_C01.v CInt.vio Bytes.vio BytesFacts.vio Msg.vio Layout.vio Wire.vio MsgSpec.vio LayoutProofs.vio MsgProofs.vio Cursor.vio CursorSpec.vio Checked.vio ScriptSpec.vio ScriptProofs.vio Compile.vio CompileSpec.vio CompileProofs.vio
Properties_C01.vos Properties_C01.vok Properties_C01.required_vos: Properties_C01.v CInt.vos Bytes.vos BytesFacts.vos Msg.vos Layout.vos Wire.vos MsgSpec.vos LayoutProofs.vos MsgProofs.vos Cursor.vos CursorSpec.vos Checked.vos ScriptSpec.vos ScriptProofs.vos Compile.vos CompileSpec.vos CompileProofs.vos
Properties_C02.vo Properties_C02.glob Properties_C02.v.beautified Properties_C02.required_vo: Properties_C02.v CInt.vo Bytes.vo BytesFacts.vo Msg.vo Layout.vo Wire.vo MsgSpec.vo LayoutProofs.vo MsgProofs.vo Cursor.vo CursorSpec.vo CursorProofs.vo
Properties_C02.vio: Properties_C02.v CInt.vio Bytes.vio BytesFacts.vio Msg.vio Layout.vio Wire.vio MsgSpec.vio LayoutProofs.vio MsgProofs.vio Cursor.vio CursorSpec.vio CursorProofs.vio
Properties_C02.vos Properties_C02.vok Properties_C02.required_vos: Properties_C02.v CInt.vos Bytes.vos BytesFacts.vos Msg.vos Layout.vos Wire.vos MsgSpec.vos LayoutProofs.vos MsgProofs.vos Cursor.vos CursorSpec.vos CursorProofs.vos
Properties_C03.vo Properties_C03.glob Properties_C03.v.beautified Properties_C03.required_vo: Properties_C03.v CInt.vo Bytes.vo BytesFacts.vo Msg.vo Layout.vo Wire.vo MsgSpec.vo LayoutProofs.vo MsgProofs.vo Cursor.vo CursorSpec.vo CursorProofs.vo
Properties_C03.vio: Properties_C03.v CInt.vio Bytes.vio BytesFacts.vio Msg.vio Layout.vio Wire.vio MsgSpec.vio LayoutProofs.vio MsgProofs.vio Cursor.vio CursorSpec.vio CursorProofs.vio
Properties_C03.vos Properties_C03.vok Properties_C03.required_vos: Properties_C03.v CInt.vos Bytes.vos BytesFacts.vos Msg.vos Layout.vos Wire.vos MsgSpec.vos LayoutProofs.vos MsgProofs.vos Cursor.vos CursorSpec.vos CursorProofs.vos
Properties_C04.vo Properties_C04.glob Properties_C04.v.beautified Properties_C04.required_vo: Properties_C04.v CInt.vo Bytes.vo BytesFacts.vo Msg.vo Layout.vo Wire.vo MsgSpec.vo LayoutProofs.vo Cursor.vo CursorSpec.vo CursorProofs.vo Compile.vo CompileSpec.vo CompileProofs.vo
Properties_C04.vio: Properties_C04.v CInt.vio Bytes.vio BytesFacts.vio Msg.vio Layout.vio Wire.vio MsgSpec.vio LayoutProofs.vio Cursor.vio CursorSpec.vio CursorProofs.vio Compile.vio CompileSpec.vio CompileProofs.vio
Properties_C04.vos Properties_C04.vok Properties_C04.required_vos: Properties_C04.v CInt.vos Bytes.vos BytesFacts.vos Msg.vos Layout.vos Wire.vos MsgSpec.vos LayoutProofs.vos Cursor.vos CursorSpec.vos CursorProofs.vos Compile.vos CompileSpec.vos CompileProofs.vos
Properties_C05.vo Properties_C05.glob Properties_C05.v.beautified Properties_C05.required_vo: Properties_C05.v CInt.vo Bytes.vo BytesFacts.vo Msg.vo Layout.vo Wire.vo MsgSpec.vo LayoutProofs.vo MsgProofs.vo Cursor.vo CursorSpec.vo CursorProofs.vo
Properties_C05.vio: Properties_C05.v CInt.vio Bytes.vio BytesFacts.vio Msg.vio Layout.vio Wire.vio MsgSpec.vio LayoutProofs.vio MsgProofs.vio Cursor.vio CursorSpec.vio CursorProofs.vio
Properties_C05.vos Properties_C05.vok Properties_C05.required_vos: Properties_C05.v CInt.vos Bytes.vos BytesFacts.vos Msg.vos Layout.vos Wire.vos MsgSpec.vos LayoutProofs.vos MsgProofs.vos Cursor.vos CursorSpec.vos CursorProofs.vos
Properties_C06.vo Properties_C06.glob Properties_C06.v.beautified Properties_C06.required_vo: Properties_C06.v CInt.vo Bytes.vo Msg.vo Layout.vo Cursor.vo Checked.vo Wire.vo MsgSpec.vo CursorSpec.vo ScriptSpec.vo CheckedProofs.vo WorkSpec.vo WorkProofs.vo
Properties_C06.vio: Properties_C06.v CInt.vio Bytes.vio Msg.vio Layout.vio Cursor.vio Checked.vio Wire.vio MsgSpec.vio CursorSpec.vio ScriptSpec.vio CheckedProofs.vio WorkSpec.vio WorkProofs.vio
Properties_C06.vos Properties_C06.vok Properties_C06.required_vos: Properties_C06.v CInt.vos Bytes.vos Msg.vos Layout.vos Cursor.vos Checked.vos Wire.vos MsgSpec.vos CursorSpec.vos ScriptSpec.vos CheckedProofs.vos WorkSpec.vos WorkProofs.vos
Properties_C07.vo Properties_C07.glob Properties_C07.v.beautified Properties_C07.required_vo: Properties_C07.v CInt.vo Bytes.vo Literals.vo LiteralsProofs.vo Names.vo NamesProofs.vo
Properties_C07.vio: Properties_C07.v CInt.vio Bytes.vio Literals.vio LiteralsProofs.vio Names.vio NamesProofs.vio
Properties_C07.vos Properties_C07.vok Properties_C07.required_vos: Properties_C07.v CInt.vos Bytes.vos Literals.vos LiteralsProofs.vos Names.vos NamesProofs.vos
Properties_C08.vo Properties_C08.glob Properties_C08.v.beautified Properties_C08.required_vo: Properties_C08.v Rules.vo Validate.vo ValidateProofs.vo
Properties_C08.vio: Properties_C08.v Rules.vio Validate.vio ValidateProofs.vio
Properties_C08.vos Properties_C08.vok Properties_C08.required_vos: Properties_C08.v Rules.vos Validate.vos ValidateProofs.vos
Properties_C09.vo Properties_C09.glob Properties_C09.v.beautified Properties_C09.required_vo: Properties_C09.v Rules.vo Validate.vo Pipeline.vo ValidateProofs.vo PipelineProofs.vo
Properties_C09.vio: Properties_C09.v Rules.vio Validate.vio Pipeline.vio ValidateProofs.vio PipelineProofs.vio
Properties_C09.vos Properties_C09.vok Properties_C09.required_vos: Properties_C09.v Rules.vos Validate.vos Pipeline.vos ValidateProofs.vos PipelineProofs.vos
Properties_C10.vo Properties_C10.glob Properties_C10.v.beautified Properties_C10.required_vo: Properties_C10.v Cursor.vo SizeCheck.vo CursorSpec.vo CursorProofs.vo
Properties_C10.vio: Properties_C10.v Cursor.vio SizeCheck.vio CursorSpec.vio CursorProofs.vio
Properties_C10.vos Properties_C10.vok Properties_C10.required_vos: Properties_C10.v Cursor.vos SizeCheck.vos CursorSpec.vos CursorProofs.vos
Properties_C11.vo Properties_C11.glob Properties_C11.v.beautified Properties_C11.required_vo: Properties_C11.v Constness.vo ConstnessProofs.vo
Properties_C11.vio: Properties_C11.v Constness.vio ConstnessProofs.vio
Properties_C11.vos Properties_C11.vok Properties_C11.required_vos: Properties_C11.v Constness.vos ConstnessProofs.vos
Properties_C12.vo Properties_C12.glob Properties_C12.v.beautified Properties_C12.required_vo: Properties_C12.v CInt.vo GroupIter.vo GroupIterProofs.vo
Properties_C12.vio: Properties_C12.v CInt.vio GroupIter.vio GroupIterProofs.vio
Properties_C12.vos Properties_C12.vok Properties_C12.required_vos: Properties_C12.v CInt.vos GroupIter.vos GroupIterProofs.vos
Properties_C13.vo Properties_C13.glob Properties_C13.v.beautified Properties_C13.required_vo: Properties_C13.v CInt.vo Dyn.vo DynProofs.vo
Properties_C13.vio: Properties_C13.v CInt.vio Dyn.vio DynProofs.vio
Properties_C13.vos Properties_C13.vok Properties_C13.required_vos: Properties_C13.v CInt.vos Dyn.vos DynProofs.vos
Properties_C14.vo Properties_C14.glob Properties_C14.v.beautified Properties_C14.required_vo: Properties_C14.v StaticArray.vo StaticArrayProofs.vo
Properties_C14.vio: Properties_C14.v StaticArray.vio StaticArrayProofs.vio
Properties_C14.vos Properties_C14.vok Properties_C14.required_vos: Properties_C14.v StaticArray.vos StaticArrayProofs.vos
Properties_C15.vo Properties_C15.glob Properties_C15.v.beautified Properties_C15.required_vo: Properties_C15.v CInt.vo Bitset.vo BitsetProofs.vo
Properties_C15.vio: Properties_C15.v CInt.vio Bitset.vio BitsetProofs.vio
Properties_C15.vos Properties_C15.vok Properties_C15.required_vos: Properties_C15.v CInt.vos Bitset.vos BitsetProofs.vos
Properties_C16.vo Properties_C16.glob Properties_C16.v.beautified Properties_C16.required_vo: Properties_C16.v CInt.vo Fp.vo Optional.vo OptLit.vo FpProofs.vo OptionalProofs.vo OptLitProofs.vo
Properties_C16.vio: Properties_C16.v CInt.vio Fp.vio Optional.vio OptLit.vio FpProofs.vio OptionalProofs.vio OptLitProofs.vio
Properties_C16.vos Properties_C16.vok Properties_C16.required_vos: Properties_C16.v CInt.vos Fp.vos Optional.vos OptLit.vos FpProofs.vos OptionalProofs.vos OptLitProofs.vos
Properties_C17.vo Properties_C17.glob Properties_C17.v.beautified Properties_C17.required_vo: Properties_C17.v CInt.vo Bytes.vo BytesFacts.vo Msg.vo Layout.vo Wire.vo MsgSpec.vo LayoutProofs.vo Cursor.vo CursorSpec.vo Checked.vo ScriptSpec.vo FillProofs.vo Compile.vo CompileSpec.vo CompileProofs.vo
Properties_C17.vio: Properties_C17.v CInt.vio Bytes.vio BytesFacts.vio Msg.vio Layout.vio Wire.vio MsgSpec.vio LayoutProofs.vio Cursor.vio CursorSpec.vio Checked.vio ScriptSpec.vio FillProofs.vio Compile.vio CompileSpec.vio CompileProofs.vio
Properties_C17.vos Properties_C17.vok Properties_C17.required_vos: Properties_C17.v CInt.vos Bytes.vos BytesFacts.vos Msg.vos Layout.vos Wire.vos MsgSpec.vos LayoutProofs.vos Cursor.vos CursorSpec.vos Checked.vos ScriptSpec.vos FillProofs.vos Compile.vos CompileSpec.vos CompileProofs.vos
Properties_C18.vo Properties_C18.glob Properties_C18.v.beautified Properties_C18.required_vo: Properties_C18.v CInt.vo Bytes.vo Msg.vo Layout.vo Traits.vo TraitsProofs.vo
Properties_C18.vio: Properties_C18.v CInt.vio Bytes.vio Msg.vio Layout.vio Traits.vio TraitsProofs.vio
Properties_C18.vos Properties_C18.vok Properties_C18.required_vos: Properties_C18.v CInt.vos Bytes.vos Msg.vos Layout.vos Traits.vos TraitsProofs.vos
Properties_C19.vo Properties_C19.glob Properties_C19.v.beautified Properties_C19.required_vo: Properties_C19.v CInt.vo Bytes.vo Msg.vo Layout.vo Wire.vo MsgSpec.vo Cursor.vo CursorSpec.vo CursorProofs.vo Bitset.vo BitsetProofs.vo EnumVisit.vo CursorStop.vo CursorStopProofs.vo
Properties_C19.vio: Properties_C19.v CInt.vio Bytes.vio Msg.vio Layout.vio Wire.vio MsgSpec.vio Cursor.vio CursorSpec.vio CursorProofs.vio Bitset.vio BitsetProofs.vio EnumVisit.vio CursorStop.vio CursorStopProofs.vio
Properties_C19.vos Properties_C19.vok Properties_C19.required_vos: Properties_C19.v CInt.vos Bytes.vos Msg.vos Layout.vos Wire.vos MsgSpec.vos Cursor.vos CursorSpec.vos CursorProofs.vos Bitset.vos BitsetProofs.vos EnumVisit.vos CursorStop.vos CursorStopProofs.vos
Properties_C20.vo Properties_C20.glob Properties_C20.v.beautified Properties_C20.required_vo: Properties_C20.v IoModel.vo IoModelProofs.vo
Properties_C20.vio: Properties_C20.v IoModel.vio IoModelProofs.vio
Properties_C20.vos Properties_C20.vok Properties_C20.required_vos: Properties_C20.v IoModel.vos IoModelProofs.vos
Rules.vo Rules.glob Rules.v.beautified Rules.required_vo: Rules.v Bytes.vo
Rules.vio: Rules.v Bytes.vio
Rules.vos Rules.vok Rules.required_vos: Rules.v Bytes.vos
ScriptCounterexamples.vo ScriptCounterexamples.glob ScriptCounterexamples.v.beautified ScriptCounterexamples.required_vo: ScriptCounterexamples.v CInt.vo Bytes.vo Msg.vo Layout.vo Wire.vo MsgSpec.vo Cursor.vo CursorSpec.vo Checked.vo ScriptSpec.vo
ScriptCounterexamples.vio: ScriptCounterexamples.v CInt.vio Bytes.vio Msg.vio Layout.vio Wire.vio MsgSpec.vio Cursor.vio CursorSpec.vio Checked.vio ScriptSpec.vio
ScriptCounterexamples.vos ScriptCounterexamples.vok ScriptCounterexamples.required_vos: ScriptCounterexamples.v CInt.vos Bytes.vos Msg.vos Layout.vos Wire.vos MsgSpec.vos Cursor.vos CursorSpec.vos Checked.vos ScriptSpec.vos
ScriptProofs.vo ScriptProofs.glob ScriptProofs.v.beautified ScriptProofs.required_vo: ScriptProofs.v CInt.vo CIntFacts.vo Bytes.vo BytesFacts.vo Msg.vo Layout.vo Wire.vo MsgSpec.vo LayoutProofs.vo MsgProofs.vo Cursor.vo CursorSpec.vo CursorProofs.vo Checked.vo ScriptSpec.vo FillProofs.vo
ScriptProofs.vio: ScriptProofs.v CInt.vio CIntFacts.vio Bytes.vio BytesFacts.vio Msg.vio Layout.vio Wire.vio MsgSpec.vio LayoutProofs.vio MsgProofs.vio Cursor.vio CursorSpec.vio CursorProofs.vio Checked.vio ScriptSpec.vio FillProofs.vio
ScriptProofs.vos ScriptProofs.vok ScriptProofs.required_vos: ScriptProofs.v CInt.vos CIntFacts.vos Bytes.vos BytesFacts.vos Msg.vos Layout.vos Wire.vos MsgSpec.vos LayoutProofs.vos MsgProofs.vos Cursor.vos CursorSpec.vos CursorProofs.vos Checked.vos ScriptSpec.vos FillProofs.vos
ScriptSpec.vo ScriptSpec.glob ScriptSpec.v.beautified ScriptSpec.required_vo: ScriptSpec.v CInt.vo Bytes.vo Msg.vo Layout.vo Wire.vo MsgSpec.vo Cursor.vo CursorSpec.vo Checked.vo
ScriptSpec.vio: ScriptSpec.v CInt.vio Bytes.vio Msg.vio Layout.vio Wire.vio MsgSpec.vio Cursor.vio CursorSpec.vio Checked.vio
ScriptSpec.vos ScriptSpec.vok ScriptSpec.required_vos: ScriptSpec.v CInt.vos Bytes.vos Msg.vos Layout.vos Wire.vos MsgSpec.vos Cursor.vos CursorSpec.vos Checked.vos
SizeCheck.vo SizeCheck.glob SizeCheck.v.beautified SizeCheck.required_vo: SizeCheck.v Cursor.vo
SizeCheck.vio: SizeCheck.v Cursor.vio
SizeCheck.vos SizeCheck.vok SizeCheck.required_vos: SizeCheck.v Cursor.vos
StaticArray.vo StaticArray.glob StaticArray.v.beautified StaticArray.required_vo: StaticArray.v 
StaticArray.vio: StaticArray.v 
StaticArray.vos StaticArray.vok StaticArray.required_vos: StaticArray.v 
StaticArrayProofs.vo StaticArrayProofs.glob StaticArrayProofs.v.beautified StaticArrayProofs.required_vo: StaticArrayProofs.v CInt.vo StaticArray.vo
StaticArrayProofs.vio: StaticArrayProofs.v CInt.vio StaticArray.vio
StaticArrayProofs.vos StaticArrayProofs.vok StaticArrayProofs.required_vos: StaticArrayProofs.v CInt.vos StaticArray.vos
Traits.vo Traits.glob Traits.v.beautified Traits.required_vo: Traits.v CInt.vo Bytes.vo Msg.vo Layout.vo
Traits.vio: Traits.v CInt.vio Bytes.vio Msg.vio Layout.vio
Traits.vos Traits.vok Traits.required_vos: Traits.v CInt.vos Bytes.vos Msg.vos Layout.vos
TraitsProofs.vo TraitsProofs.glob TraitsProofs.v.beautified TraitsProofs.required_vo: TraitsProofs.v CInt.vo Bytes.vo Msg.vo Layout.vo Traits.vo
TraitsProofs.vio: TraitsProofs.v CInt.vio Bytes.vio Msg.vio Layout.vio Traits.vio
TraitsProofs.vos TraitsProofs.vok TraitsProofs.required_vos: TraitsProofs.v CInt.vos Bytes.vos Msg.vos Layout.vos Traits.vos
Validate.vo Validate.glob Validate.v.beautified Validate.required_vo: Validate.v Bytes.vo Rules.vo
Validate.vio: Validate.v Bytes.vio Rules.vio
Validate.vos Validate.vok Validate.required_vos: Validate.v Bytes.vos Rules.vos
ValidateExamples.vo ValidateExamples.glob ValidateExamples.v.beautified ValidateExamples.required_vo: ValidateExamples.v Bytes.vo Rules.vo Validate.vo ValidateProofs.vo Pipeline.vo PipelineProofs.vo
ValidateExamples.vio: ValidateExamples.v Bytes.vio Rules.vio Validate.vio ValidateProofs.vio Pipeline.vio PipelineProofs.vio
ValidateExamples.vos ValidateExamples.vok ValidateExamples.required_vos: ValidateExamples.v Bytes.vos Rules.vos Validate.vos ValidateProofs.vos Pipeline.vos PipelineProofs.vos
ValidateProofs.vo ValidateProofs.glob ValidateProofs.v.beautified ValidateProofs.required_vo: ValidateProofs.v Bytes.vo Rules.vo Validate.vo
ValidateProofs.vio: ValidateProofs.v Bytes.vio Rules.vio Validate.vio
ValidateProofs.vos ValidateProofs.vok ValidateProofs.required_vos: ValidateProofs.v Bytes.vos Rules.vos Validate.vos
Wire.vo Wire.glob Wire.v.beautified Wire.required_vo: Wire.v CInt.vo Bytes.vo Msg.vo
Wire.vio: Wire.v CInt.vio Bytes.vio Msg.vio
Wire.vos Wire.vok Wire.required_vos: Wire.v CInt.vos Bytes.vos Msg.vos
WorkProofs.vo WorkProofs.glob WorkProofs.v.beautified WorkProofs.required_vo: WorkProofs.v CInt.vo CIntFacts.vo Bytes.vo BytesFacts.vo Msg.vo Layout.vo Wire.vo MsgSpec.vo LayoutProofs.vo MsgProofs.vo Cursor.vo CursorSpec.vo CursorProofs.vo Checked.vo ScriptSpec.vo CheckedProofs.vo WorkSpec.vo
WorkProofs.vio: WorkProofs.v CInt.vio CIntFacts.vio Bytes.vio BytesFacts.vio Msg.vio Layout.vio Wire.vio MsgSpec.vio LayoutProofs.vio MsgProofs.vio Cursor.vio CursorSpec.vio CursorProofs.vio Checked.vio ScriptSpec.vio CheckedProofs.vio WorkSpec.vio
WorkProofs.vos WorkProofs.vok WorkProofs.required_vos: WorkProofs.v CInt.vos CIntFacts.vos Bytes.vos BytesFacts.vos Msg.vos Layout.vos Wire.vos MsgSpec.vos LayoutProofs.vos MsgProofs.vos Cursor.vos CursorSpec.vos CursorProofs.vos Checked.vos ScriptSpec.vos CheckedProofs.vos WorkSpec.vos
WorkSpec.vo WorkSpec.glob WorkSpec.v.beautified WorkSpec.required_vo: WorkSpec.v CInt.vo Bytes.vo Msg.vo Layout.vo Cursor.vo CursorSpec.vo ScriptSpec.vo Checked.vo
WorkSpec.vio: WorkSpec.v CInt.vio Bytes.vio Msg.vio Layout.vio Cursor.vio CursorSpec.vio ScriptSpec.vio Checked.vio
WorkSpec.vos WorkSpec.vok WorkSpec.required_vos: WorkSpec.v CInt.vos Bytes.vos Msg.vos Layout.vos Cursor.vos CursorSpec.vos ScriptSpec.vos Checked.vos
