(* CompileSpec.v — statements: every schema the layout model accepts compiles
   to tables that satisfy the hypotheses of the runtime theorems (so those
   theorems apply to every accepted schema, not only to hand-picked tables). *)
From Coq Require Import ZArith List Bool.
From Sbepp Require Import CInt Bytes Msg Layout Wire MsgSpec Cursor CursorSpec Checked ScriptSpec Compile.
Import ListNotations.
Local Open Scope Z_scope.

(* schema-level side conditions sbeppc's parser guarantees: unsigned lengths /
   offsets / block lengths *)
Definition sdim_ok (d : sdim) : Prop :=
  stype_ok (TComposite (sd_members d)) /\ sd_bl_idx d <> sd_n_idx d.

Fixpoint slevel_ok (l : slevel) {struct l} : Prop :=
  match l with
  | SLevel fs gs _ => Forall sfield_ok fs /\ sgroups_ok gs
  end
with sgroups_ok (gs : sgroups) {struct gs} : Prop :=
  match gs with
  | SGNil => True
  | SGCons d bl l rest =>
    sdim_ok d /\ (match bl with Some b => 0 <= b | None => True end) /\ slevel_ok l /\ sgroups_ok rest
  end.

(* 1. the cursor table exists whenever the level compiles, and vice versa *)
Definition stmt_compile_clevel_total : Prop :=
  forall l hdr lv minbl, compile_level l = Some (lv, minbl) ->
    exists cl, compile_clevel l hdr = Some cl.

(* 2. ... and it is consistent with the compiled table: exactly the hypothesis
   [wf_clevel] of the cursor / traversal / checked theorems *)
Definition stmt_compile_clevel_wf : Prop :=
  forall l hdr lv minbl cl, slevel_ok l ->
    compile_level l = Some (lv, minbl) -> compile_clevel l hdr = Some cl ->
    wf_clevel hdr lv cl.

(* 3. compiled dimensions are well-formed (members inside the composite, the
   two members the runtime reads do not overlap, both unsigned) *)
Definition stmt_compile_dim_wf : Prop :=
  forall d cd, sdim_ok d -> compile_dim d = Some cd -> wf_dim cd /\ 0 <= d_size cd.

(* 4. the compiled level satisfies [wf_table_level] (hypothesis of C06's
   exactness theorem); its minimal block length is non-negative and every field
   lies inside it *)
Definition stmt_compile_level_table_wf : Prop :=
  forall l lv minbl, slevel_ok l -> compile_level l = Some (lv, minbl) ->
    wf_table_level lv /\ 0 <= minbl /\
    Forall (fun f => 0 <= f_off f /\ f_off f + f_size f <= minbl) (level_fields lv).

(* 5. header fills: every compiled fill stays inside the header composite *)
Definition stmt_compile_fills_inside : Prop :=
  forall ms fills cf sz, stype_ok (TComposite ms) ->
    type_size (TComposite ms) = Some sz -> compile_fills ms fills = Some cf ->
    fills_inside sz cf /\
    Forall (fun x => let '(_, t, _) := x in is_signed t = false) cf.

(* 6. the message: header geometry of the compiled table *)
Definition stmt_compile_message_header_ok : Prop :=
  forall sm m, stype_ok (TComposite (sm_header sm)) -> slevel_ok (sm_level sm) ->
    (match sm_block_length sm with Some b => 0 <= b | None => True end) ->
    compile_message sm = Some m ->
    is_signed (m_bl_t m) = false /\ 0 <= m_bl_off m /\
    m_bl_off m + tbytes (m_bl_t m) <= m_hdr_size m /\ 0 <= m_cbl m /\
    wf_table_level (m_level m) /\
    Forall (fun f => 0 <= f_off f /\ f_off f + f_size f <= m_cbl m) (level_fields (m_level m)).
