(* OptLit.v — the generator side of C16: which C++ expression sbeppc prints for
   min_value()/max_value()/null_value() of a <type>, and what that expression
   denotes once the generated `return {EXPR};` is compiled.

   * [default_min/max/null]: the literal tables of
     types_compiler.hpp get_min_value/get_max_value/get_null_value, transcribed
     character by character ([LegacyGen] keeps the int16 typo "-327678").
   * [numeric_literal_to_value]: utils.hpp numeric_literal_to_value /
     to_integer_literal applied to the text of an explicit
     minValue/maxValue/nullValue attribute, after the repair (leading zeros are
     stripped; [LegacyGen] pastes the text unchanged).
   * [from_chars]: what sbe_schema_validator accepts for an integer attribute
     (std::from_chars, base 10, whole string, in range).
   * [denote]: a small semantics of the C++ constant expressions that can occur:
     decimal / octal / hexadecimal integer literals with their C++ type (int,
     long, unsigned ... by the first-type-that-fits rule, optional UL suffix),
     unary and binary + and - with the usual arithmetic conversions (CInt; signed
     overflow in a constant expression is ill-formed), the
     ::std::numeric_limits<float|double>::min()/max()/quiet_NaN()/infinity()
     calls, and finally the list-initialisation `value_type{EXPR}` which is
     ill-formed when a constant does not fit (narrowing).
     Decimal floating literals (explicit float values such as "1.5") are NOT
     given a semantics ([Unsupported]); they are covered by the correspondence
     run only.

   Definitions only, stdlib only. *)
From Coq Require Import ZArith Bool List Ascii String.
From Sbepp Require Import CInt Fp Optional.
Import IEEE Opt ListNotations.
Local Open Scope Z_scope.

Module Lit.

Definition chars := list ascii.

Definition code (c : ascii) : Z := Z.of_N (N_of_ascii c).
Definition is_digit (c : ascii) : bool := (48 <=? code c) && (code c <=? 57).
Definition is_octal (c : ascii) : bool := (48 <=? code c) && (code c <=? 55).
Definition is_lower_hex (c : ascii) : bool := (97 <=? code c) && (code c <=? 102).
Definition is_upper_hex (c : ascii) : bool := (65 <=? code c) && (code c <=? 70).
Definition is_hex (c : ascii) : bool := is_digit c || is_lower_hex c || is_upper_hex c.
Definition is_alnum (c : ascii) : bool :=
  is_digit c || ((97 <=? code c) && (code c <=? 122)) || ((65 <=? code c) && (code c <=? 90))
  || (code c =? 95).
Definition digit_val (c : ascii) : Z := code c - 48.
Definition hex_val (c : ascii) : Z :=
  if is_digit c then code c - 48 else if is_lower_hex c then code c - 87 else code c - 55.

Fixpoint span (p : ascii -> bool) (s : chars) : chars * chars :=
  match s with
  | [] => ([], [])
  | c :: r => if p c then (let (a, b) := span p r in (c :: a, b)) else ([], s)
  end.

Definition value_of (base : Z) (ds : list Z) : Z :=
  fold_left (fun acc d => acc * base + d) ds 0.

Fixpoint starts_with (pre s : chars) : option chars :=
  match pre with
  | [] => Some s
  | c :: pre' =>
    match s with
    | [] => None
    | d :: s' => if Ascii.eqb c d then starts_with pre' s' else None
    end
  end.

Inductive lim := LMin | LMax | LQnan | LInf.

Inductive tok :=
  | TMinus
  | TPlus
  | TInt (v : Z) (dec : bool) (ul : bool)
  | TLim (f : fty) (w : lim).

Definition lit (s : string) : chars := list_ascii_of_string s.

(* string literals are reduced to character lists at definition time so that the
   extracted OCaml does not contain Coq's [string] type *)
Definition lim_names : list (chars * (fty * lim)) := Eval compute in
  [ (lit "::std::numeric_limits<float>::min()", (F32, LMin));
    (lit "::std::numeric_limits<float>::max()", (F32, LMax));
    (lit "::std::numeric_limits<float>::quiet_NaN()", (F32, LQnan));
    (lit "::std::numeric_limits<float>::infinity()", (F32, LInf));
    (lit "::std::numeric_limits<double>::min()", (F64, LMin));
    (lit "::std::numeric_limits<double>::max()", (F64, LMax));
    (lit "::std::numeric_limits<double>::quiet_NaN()", (F64, LQnan));
    (lit "::std::numeric_limits<double>::infinity()", (F64, LInf)) ].

Fixpoint match_lim (tbl : list (chars * (fty * lim))) (s : chars)
  : option (fty * lim * chars) :=
  match tbl with
  | [] => None
  | (name, (f, w)) :: tbl' =>
    match starts_with name s with
    | Some r => Some (f, w, r)
    | None => match_lim tbl' s
    end
  end.

(* the integer-suffix: none or UL (the only one sbeppc prints) *)
Definition lex_suffix (v : Z) (dec : bool) (r : chars) : option (tok * chars) :=
  let (suf, r') := span is_alnum r in
  match suf with
  | [] => Some (TInt v dec false, r')
  | [u; l] => if (code u =? 85) && (code l =? 76) then Some (TInt v dec true, r') else None
  | _ => None
  end.

Definition lex_dec (s : chars) : option (tok * chars) :=
  let (ds, r) := span is_digit s in
  match ds with
  | [] => None
  | _ => lex_suffix (value_of 10 (map digit_val ds)) true r
  end.

(* [s] starts with a digit *)
Definition lex_int (s : chars) : option (tok * chars) :=
  match s with
  | z :: x :: r =>
    if code z =? 48 then
      if (code x =? 120) || (code x =? 88) then          (* 0x / 0X *)
        let (ds, r') := span is_hex r in
        match ds with
        | [] => None
        | _ => lex_suffix (value_of 16 (map hex_val ds)) false r'
        end
      else if is_digit x then                              (* 0 digit...: octal *)
        let (ds, r') := span is_digit (x :: r) in
        if forallb is_octal ds then lex_suffix (value_of 8 (map digit_val ds)) false r'
        else None
      else lex_dec s
    else lex_dec s
  | _ => lex_dec s
  end.

Fixpoint tokenize (fuel : nat) (s : chars) : option (list tok) :=
  match fuel with
  | O => None
  | S k =>
    match s with
    | [] => Some []
    | c :: r =>
      if code c =? 32 then tokenize k r
      else if code c =? 45 then option_map (cons TMinus) (tokenize k r)
      else if code c =? 43 then option_map (cons TPlus) (tokenize k r)
      else if is_digit c then
        match lex_int s with
        | Some (t, r') => option_map (cons t) (tokenize k r')
        | None => None
        end
      else
        match match_lim lim_names s with
        | Some (f, w, r') => option_map (cons (TLim f w)) (tokenize k r')
        | None => None
        end
    end
  end.

(* ---- typed constant evaluation ---- *)
Inductive cval := CI (t : ity) (v : Z) | CF (f : fty) (b : Z).

Inductive res (A : Type) :=
  | Ok (a : A)
  | IllFormed       (* the program does not compile *)
  | Unsupported.    (* outside the modelled fragment *)
Arguments Ok {A} a.
Arguments IllFormed {A}.
Arguments Unsupported {A}.

Definition bind {A B} (r : res A) (f : A -> res B) : res B :=
  match r with
  | Ok a => f a
  | IllFormed => IllFormed
  | Unsupported => Unsupported
  end.

(* [lex.icon]: the type of an integer literal is the first in the list in which
   its value fits; LP64: int 32, long = long long 64 *)
Definition type_of_int_literal (v : Z) (dec ul : bool) : option ity :=
  if ul then (if in_range U64 v then Some U64 else None)
  else if dec then
    (if in_range I32 v then Some I32 else if in_range I64 v then Some I64 else None)
  else
    (if in_range I32 v then Some I32 else if in_range U32 v then Some U32
     else if in_range I64 v then Some I64 else if in_range U64 v then Some U64 else None).

Definition lim_bits (f : fty) (w : lim) : Z :=
  match w with
  | LMin => fl_min f
  | LMax => fl_max f
  | LQnan => fl_qnan f
  | LInf => fl_inf f
  end.

Definition c_neg (v : cval) : res cval :=
  match v with
  | CI t z => match cneg t z with
              | Some z' => Ok (CI (promote t) z')
              | None => IllFormed
              end
  | CF f b => Ok (CF f (fneg f b))
  end.

Definition c_pos (v : cval) : res cval :=
  match v with
  | CI t z => Ok (CI (promote t) z)
  | CF f b => Ok (CF f b)
  end.

Definition c_sub (a b : cval) : res cval :=
  match a, b with
  | CI ta x, CI tb y => match csub ta tb x y with
                        | Some z => Ok (CI (uac ta tb) z)
                        | None => IllFormed
                        end
  | _, _ => Unsupported
  end.

Definition c_add (a b : cval) : res cval :=
  match a, b with
  | CI ta x, CI tb y => match cadd ta tb x y with
                        | Some z => Ok (CI (uac ta tb) z)
                        | None => IllFormed
                        end
  | _, _ => Unsupported
  end.

Fixpoint parse_unary (ts : list tok) : res (cval * list tok) :=
  match ts with
  | [] => Unsupported
  | TMinus :: r =>
    bind (parse_unary r) (fun vr => bind (c_neg (fst vr)) (fun v' => Ok (v', snd vr)))
  | TPlus :: r =>
    bind (parse_unary r) (fun vr => bind (c_pos (fst vr)) (fun v' => Ok (v', snd vr)))
  | TInt v dec ul :: r =>
    match type_of_int_literal v dec ul with
    | Some t => Ok (CI t v, r)
    | None => IllFormed
    end
  | TLim f w :: r => Ok (CF f (lim_bits f w), r)
  end.

Fixpoint parse_rest (fuel : nat) (acc : cval) (ts : list tok) : res cval :=
  match ts with
  | [] => Ok acc
  | TMinus :: r =>
    match fuel with
    | O => Unsupported
    | S k => bind (parse_unary r) (fun vr =>
             bind (c_sub acc (fst vr)) (fun a => parse_rest k a (snd vr)))
    end
  | TPlus :: r =>
    match fuel with
    | O => Unsupported
    | S k => bind (parse_unary r) (fun vr =>
             bind (c_add acc (fst vr)) (fun a => parse_rest k a (snd vr)))
    end
  | _ => Unsupported
  end.

Definition parse_expr (ts : list tok) : res cval :=
  bind (parse_unary ts) (fun vr => parse_rest (List.length ts) (fst vr) (snd vr)).

Definition fty_eqb (a b : fty) : bool :=
  match a, b with F32, F32 | F64, F64 => true | _, _ => false end.

(* value_type{EXPR}: list-initialisation from a constant expression *)
Definition convert (p : prim) (v : cval) : res Z :=
  match kind p, v with
  | KInt t, CI _ z => if in_range t z then Ok z else IllFormed
  | KInt _, CF _ _ => IllFormed
  | KFp f, CF f' b => if fty_eqb f f' then Ok b else Unsupported
  | KFp _, CI _ _ => Unsupported
  end.

Definition denote_chars (p : prim) (s : chars) : res Z :=
  match tokenize (S (List.length s)) s with
  | None => Unsupported
  | Some ts => bind (parse_expr ts) (convert p)
  end.

Definition denote (p : prim) (s : string) : res Z :=
  denote_chars p (list_ascii_of_string s).

(* ---- the generator ---- *)

Inductive which := WMin | WMax | WNull.

(* types_compiler.hpp: built_in_min_values *)
Definition default_min (p : prim) : string :=
  match p with
  | PChar => "0x20"
  | PInt8 => "-127"
  | PInt16 => "-32767"
  | PInt32 => "-2147483647"
  | PInt64 => "-9223372036854775807"
  | PUint8 => "0"
  | PUint16 => "0"
  | PUint32 => "0"
  | PUint64 => "0"
  | PFloat => "::std::numeric_limits<float>::min()"
  | PDouble => "::std::numeric_limits<double>::min()"
  end.

(* built_in_max_values *)
Definition default_max (p : prim) : string :=
  match p with
  | PChar => "0x7e"
  | PInt8 => "127"
  | PInt16 => "32767"
  | PInt32 => "2147483647"
  | PInt64 => "9223372036854775807"
  | PUint8 => "254"
  | PUint16 => "65534"
  | PUint32 => "4294967294"
  | PUint64 => "18446744073709551614UL"
  | PFloat => "::std::numeric_limits<float>::max()"
  | PDouble => "::std::numeric_limits<double>::max()"
  end.

(* built_in_null_values, after the repair of the int16 entry *)
Definition default_null (p : prim) : string :=
  match p with
  | PChar => "0"
  | PInt8 => "-128"
  | PInt16 => "-32768"
  | PInt32 => "-2147483648"
  | PInt64 => "-9223372036854775807 - 1"
  | PUint8 => "255"
  | PUint16 => "65535"
  | PUint32 => "4294967295"
  | PUint64 => "18446744073709551615UL"
  | PFloat => "::std::numeric_limits<float>::quiet_NaN()"
  | PDouble => "::std::numeric_limits<double>::quiet_NaN()"
  end.

Definition default_lit (w : which) (p : prim) : string :=
  match w with
  | WMin => default_min p
  | WMax => default_max p
  | WNull => default_null p
  end.

Definition builtin_val (w : which) (p : prim) : Z :=
  match w with
  | WMin => builtin_min p
  | WMax => builtin_max p
  | WNull => builtin_null p
  end.

(* std::from_chars<T>(first, last, value) with the validator's "whole string"
   check: optional '-' (signed T only), at least one digit, only digits, value
   representable in T *)
Definition from_chars (p : prim) (s : chars) : option Z :=
  match kind p with
  | KFp _ => None
  | KInt t =>
    let sd := match s with
              | c :: r => if (code c =? 45) && is_signed t then (true, r) else (false, s)
              | [] => (false, s)
              end in
    match snd sd with
    | [] => None
    | ds =>
      if forallb is_digit ds then
        let m := value_of 10 (map digit_val ds) in
        let v := if fst sd then - m else m in
        if in_range t v then Some v else None
      else None
    end
  end.

(* utils::strip_leading_zeros (added by the repair) *)
Fixpoint strip_zeros (s : chars) : chars :=
  match s with
  | z :: ((d :: _) as r) => if (code z =? 48) && is_digit d then strip_zeros r else s
  | _ => s
  end.

Definition strip_leading_zeros (s : chars) : chars :=
  match s with
  | c :: r => if (code c =? 45) || (code c =? 43) then c :: strip_zeros r else strip_zeros s
  | [] => []
  end.

Definition ul : chars := Eval compute in lit "UL".
Definition int64_min_chars : chars := Eval compute in lit "-9223372036854775807 -1".

Definition min_signed_literal : Z := -9223372036854775807.
Definition max_signed_literal : Z := 9223372036854775807.

(* utils::to_integer_literal.  The first branch prints
   fmt::format("{} {}", min_signed_literal, v - min_signed_literal); [v] was
   accepted by from_chars<int64_t>, so the difference can only be -1 *)
Definition to_integer_literal (p : prim) (value : chars) : chars :=
  match p with
  | PInt64 =>
    match value with
    | c :: _ =>
      if code c =? 45 then
        match from_chars PInt64 value with
        | Some v => if v <? min_signed_literal
                    then int64_min_chars
                    else value
        | None => value
        end
      else value
    | [] => value
    end
  | PUint64 =>
    match from_chars PUint64 value with
    | Some v => if v >? max_signed_literal
                then (value ++ ul)%list
                else value
    | None => value
    end
  | _ => value
  end.

Fixpoint chars_eqb (a b : chars) : bool :=
  match a, b with
  | [], [] => true
  | x :: a', y :: b' => Ascii.eqb x y && chars_eqb a' b'
  | _, _ => false
  end.

Definition s_nan : chars := Eval compute in lit "NaN".
Definition s_inf : chars := Eval compute in lit "INF".
Definition s_pinf : chars := Eval compute in lit "+INF".
Definition s_ninf : chars := Eval compute in lit "-INF".

(* fmt::format("::std::numeric_limits<{}>::quiet_NaN()", type) etc. *)
Definition fp_qnan (p : prim) : chars := Eval compute in
  match p with
  | PFloat => lit "::std::numeric_limits<float>::quiet_NaN()"
  | _ => lit "::std::numeric_limits<double>::quiet_NaN()"
  end.
Definition fp_inf (p : prim) : chars := Eval compute in
  match p with
  | PFloat => lit "::std::numeric_limits<float>::infinity()"
  | _ => lit "::std::numeric_limits<double>::infinity()"
  end.
Definition fp_neg_inf (p : prim) : chars := Eval compute in
  match p with
  | PFloat => lit "-::std::numeric_limits<float>::infinity()"
  | _ => lit "-::std::numeric_limits<double>::infinity()"
  end.

Definition render_value (strip : bool) (p : prim) (raw : chars) : chars :=
  let value := if strip then strip_leading_zeros raw else raw in
  match kind p with
  | KFp _ =>
    if chars_eqb value s_nan then fp_qnan p
    else if chars_eqb value s_inf || chars_eqb value s_pinf then fp_inf p
    else if chars_eqb value s_ninf then fp_neg_inf p
    else value
  | KInt _ => to_integer_literal p value
  end.

(* utils::numeric_literal_to_value after the repair *)
Definition numeric_literal_to_value (p : prim) (raw : chars) : chars :=
  render_value true p raw.

(* the default tables as character lists (what is extracted) *)
Definition by_prim {A} (f : prim -> A) (p : prim) : A :=
  match p with
  | PChar => f PChar | PInt8 => f PInt8 | PInt16 => f PInt16 | PInt32 => f PInt32
  | PInt64 => f PInt64 | PUint8 => f PUint8 | PUint16 => f PUint16 | PUint32 => f PUint32
  | PUint64 => f PUint64 | PFloat => f PFloat | PDouble => f PDouble
  end.

Definition default_chars : which -> prim -> chars := Eval compute in
  fun w => match w with
           | WMin => by_prim (fun p => lit (default_lit WMin p))
           | WMax => by_prim (fun p => lit (default_lit WMax p))
           | WNull => by_prim (fun p => lit (default_lit WNull p))
           end.

(* get_min_value / get_max_value / get_null_value *)
Definition gen_value_chars (w : which) (p : prim) (explicit : option chars) : chars :=
  match explicit with
  | Some s => numeric_literal_to_value p s
  | None => default_chars w p
  end.

(* the same on Coq strings, for readable statements *)
Definition gen_value (w : which) (p : prim) (explicit : option string) : string :=
  match explicit with
  | Some s => string_of_list_ascii (numeric_literal_to_value p (list_ascii_of_string s))
  | None => default_lit w p
  end.

Module LegacyGen.
  Definition default_null (p : prim) : string :=
    match p with
    | PInt16 => "-327678"
    | _ => Lit.default_null p
    end.
  Definition default_lit (w : which) (p : prim) : string :=
    match w with
    | WNull => default_null p
    | _ => Lit.default_lit w p
    end.
  Definition numeric_literal_to_value (p : prim) (raw : chars) : chars :=
    render_value false p raw.
  Definition default_chars : which -> prim -> chars := Eval compute in
    fun w => match w with
             | WMin => by_prim (fun p => lit (default_lit WMin p))
             | WMax => by_prim (fun p => lit (default_lit WMax p))
             | WNull => by_prim (fun p => lit (default_lit WNull p))
             end.
  Definition gen_value_chars (w : which) (p : prim) (explicit : option chars) : chars :=
    match explicit with
    | Some s => numeric_literal_to_value p s
    | None => default_chars w p
    end.
  Definition gen_value (w : which) (p : prim) (explicit : option string) : string :=
    match explicit with
    | Some s => string_of_list_ascii (numeric_literal_to_value p (list_ascii_of_string s))
    | None => default_lit w p
    end.
End LegacyGen.

End Lit.
