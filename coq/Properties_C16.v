(* Properties_C16.v — C16: optional/required scalars: null, range, ordering and
   SBE defaults.  Only statements closed by [exact]; proofs are in
   OptionalProofs.v and OptLitProofs.v.  [pvalid p v] says that [v] is a value
   of primitive type [p] (an integer in the range of the C++ type, resp. a
   32/64-bit IEEE-754 bit pattern); it is the only kind of hypothesis used. *)
From Coq Require Import ZArith Bool List String.
From Sbepp Require Import CInt Fp Optional OptLit FpProofs OptionalProofs OptLitProofs.
Import IEEE Opt.
Local Open Scope Z_scope.

(* a default-constructed or nullopt-constructed optional is null, for every
   type descriptor whatsoever (also when the null value is NaN) *)
Theorem C16_default_is_null : forall d,
  has_value d (opt_default d) = false /\
  to_bool d (opt_default d) = false /\
  opt_nullopt d = opt_default d /\
  has_value d (opt_nullopt d) = false.
Proof. exact default_is_null. Qed.
Print Assumptions C16_default_is_null.

(* has_value / operator bool: "is not the null value" *)
Theorem C16_has_value_spec : forall d v,
  pvalid (td_prim d) v = true -> pvalid (td_prim d) (td_null d) = true ->
  has_value d v = negb (spec_null d v) /\ to_bool d v = negb (spec_null d v).
Proof. exact has_value_spec. Qed.
Print Assumptions C16_has_value_spec.

Theorem C16_value_or_spec : forall d v dflt,
  pvalid (td_prim d) v = true -> pvalid (td_prim d) (td_null d) = true ->
  value_or d v dflt = (if spec_null d v then dflt else v).
Proof. exact value_or_spec. Qed.
Print Assumptions C16_value_or_spec.

(* in_range of optional and required types is min <= v <= max in the
   underlying order *)
Theorem C16_in_range_spec : forall d v,
  pvalid (td_prim d) v = true ->
  pvalid (td_prim d) (td_min d) = true -> pvalid (td_prim d) (td_max d) = true ->
  opt_in_range d v = spec_in_range d v /\ Req.req_in_range d v = spec_in_range d v.
Proof. exact in_range_spec. Qed.
Print Assumptions C16_in_range_spec.

Theorem C16_in_range_spec_int : forall d v t,
  kind (td_prim d) = KInt t ->
  spec_in_range d v = (td_min d <=? v) && (v <=? td_max d).
Proof. exact spec_in_range_int. Qed.
Print Assumptions C16_in_range_spec_int.

(* ==, !=, <, <=, >, >= of optional types, in the pre-C++20 implementation and
   in the C++20 one (operator== + operator<=> and the rewritten candidates),
   are the documented order: null equals only null and precedes every value,
   otherwise the underlying values compare *)
Theorem C16_compare_spec : forall d l r,
  pvalid (td_prim d) l = true -> pvalid (td_prim d) r = true ->
  pvalid (td_prim d) (td_null d) = true ->
  Pre20.all d l r = Some (cmp6_of_ord (spec_cmp d l r)) /\
  Cxx20.all d l r = Some (cmp6_of_ord (spec_cmp d l r)) /\
  Cxx20.cmp3 d l r = Some (spec_cmp d l r).
Proof. exact compare_spec. Qed.
Print Assumptions C16_compare_spec.

Theorem C16_required_compare_spec : forall d l r,
  pvalid (td_prim d) l = true -> pvalid (td_prim d) r = true ->
  Req.Pre20.all d l r = Some (cmp6_of_ord (spec_val_cmp (td_prim d) l r)) /\
  Req.Cxx20.all d l r = Some (cmp6_of_ord (spec_val_cmp (td_prim d) l r)) /\
  Req.Cxx20.cmp3 d l r = Some (spec_val_cmp (td_prim d) l r).
Proof. exact required_compare_spec. Qed.
Print Assumptions C16_required_compare_spec.

(* the three documented rules read off the operators themselves *)
Theorem C16_null_equals_only_null : forall d l r,
  pvalid (td_prim d) l = true -> pvalid (td_prim d) r = true ->
  pvalid (td_prim d) (td_null d) = true ->
  has_value d l = false ->
  opt_eq d l r = negb (has_value d r) /\
  opt_eq d r l = negb (has_value d r) /\
  Pre20.ne d l r = has_value d r /\
  Pre20.ne d r l = has_value d r.
Proof. exact null_equals_only_null. Qed.
Print Assumptions C16_null_equals_only_null.

Theorem C16_null_before_every_value : forall d l r,
  has_value d l = false -> has_value d r = true ->
  Pre20.all d l r = Some (cmp6_of_ord Less) /\ Cxx20.all d l r = Some (cmp6_of_ord Less) /\
  Pre20.all d r l = Some (cmp6_of_ord Greater) /\ Cxx20.all d r l = Some (cmp6_of_ord Greater).
Proof. exact null_before_every_value. Qed.
Print Assumptions C16_null_before_every_value.

Theorem C16_values_compare_underlying : forall d l r,
  pvalid (td_prim d) l = true -> pvalid (td_prim d) r = true ->
  has_value d l = true -> has_value d r = true ->
  Pre20.all d l r = Some (cmp6_of_ord (spec_val_cmp (td_prim d) l r)) /\
  Cxx20.all d l r = Some (cmp6_of_ord (spec_val_cmp (td_prim d) l r)).
Proof. exact values_compare_underlying. Qed.
Print Assumptions C16_values_compare_underlying.

(* the repair of has_value/==/!=/<=> leaves every integer type unchanged *)
Theorem C16_repair_preserves_integers : forall d l r t,
  kind (td_prim d) = KInt t ->
  pvalid (td_prim d) l = true -> pvalid (td_prim d) r = true ->
  pvalid (td_prim d) (td_null d) = true ->
  Legacy.has_value d l = has_value d l /\
  Legacy.value_or d l r = value_or d l r /\
  Legacy.Pre20.all d l r = Pre20.all d l r /\
  Legacy.Cxx20.all d l r = Cxx20.all d l r.
Proof. exact legacy_same_on_integers. Qed.
Print Assumptions C16_repair_preserves_integers.

(* the generator's 33 default literals denote the values of the built-in types *)
Theorem C16_defaults_table : forall w p,
  Lit.denote p (Lit.default_lit w p) = Lit.Ok (Lit.builtin_val w p).
Proof. exact defaults_table. Qed.
Print Assumptions C16_defaults_table.

Theorem C16_defaults_are_builtin : forall p,
  Lit.denote p (Lit.gen_value Lit.WMin p None) = Lit.Ok (td_min (builtin p)) /\
  Lit.denote p (Lit.gen_value Lit.WMax p None) = Lit.Ok (td_max (builtin p)) /\
  Lit.denote p (Lit.gen_value Lit.WNull p None) = Lit.Ok (td_null (builtin p)).
Proof. exact defaults_are_builtin. Qed.
Print Assumptions C16_defaults_are_builtin.

(* every explicit integer minValue/maxValue/nullValue text the validator
   accepts (std::from_chars) is reproduced exactly by the generated constant *)
Theorem C16_explicit_int_exact : forall p w s z,
  Lit.from_chars p (list_ascii_of_string s) = Some z ->
  Lit.denote p (Lit.gen_value w p (Some s)) = Lit.Ok z.
Proof. exact explicit_int_exact_string. Qed.
Print Assumptions C16_explicit_int_exact.

Theorem C16_explicit_fp_specials :
  Lit.denote PFloat (Lit.gen_value Lit.WNull PFloat (Some "NaN"%string)) = Lit.Ok (fl_qnan F32) /\
  Lit.denote PFloat (Lit.gen_value Lit.WMax PFloat (Some "INF"%string)) = Lit.Ok (fl_inf F32) /\
  Lit.denote PFloat (Lit.gen_value Lit.WMax PFloat (Some "+INF"%string)) = Lit.Ok (fl_inf F32) /\
  Lit.denote PFloat (Lit.gen_value Lit.WMin PFloat (Some "-INF"%string)) = Lit.Ok (fneg F32 (fl_inf F32)) /\
  Lit.denote PDouble (Lit.gen_value Lit.WNull PDouble (Some "NaN"%string)) = Lit.Ok (fl_qnan F64) /\
  Lit.denote PDouble (Lit.gen_value Lit.WMax PDouble (Some "INF"%string)) = Lit.Ok (fl_inf F64) /\
  Lit.denote PDouble (Lit.gen_value Lit.WMax PDouble (Some "+INF"%string)) = Lit.Ok (fl_inf F64) /\
  Lit.denote PDouble (Lit.gen_value Lit.WMin PDouble (Some "-INF"%string)) = Lit.Ok (fneg F64 (fl_inf F64)).
Proof. exact explicit_fp_specials. Qed.
Print Assumptions C16_explicit_fp_specials.

(* the floating-point order used by the model and the specification (keys from
   biased exponent and mantissa) is the order of the real numbers the patterns
   denote ([fkey_real]: sign * |x| * 2^(bias+mbits) as an exact integer), for
   every pair of bit patterns *)
Theorem C16_float_order_is_real_order : forall f a b,
  (fkey f a ?= fkey f b) = (fkey_real f a ?= fkey_real f b).
Proof. exact fkey_order_is_real_order. Qed.
Print Assumptions C16_float_order_is_real_order.

From Sbepp Require Import SrcTables SrcTablesProofs.

(* The same statements about the tables AS THEY ARE WRITTEN IN /repo NOW:
   SrcTables.v is regenerated from types_compiler.hpp / sbepp.hpp on every run
   (harness/srctables.py), so an edited default literal or built-in definition
   breaks these theorems. *)
Theorem C16_source_default_literals_denote_sbe_defaults : stmt_src_defaults_denote.
Proof. exact src_defaults_denote. Qed.
Print Assumptions C16_source_default_literals_denote_sbe_defaults.

Theorem C16_source_default_literals_are_the_modelled_ones : stmt_src_defaults_are_model.
Proof. exact src_defaults_are_model. Qed.
Print Assumptions C16_source_default_literals_are_the_modelled_ones.

Theorem C16_source_builtin_types_expose_sbe_defaults : stmt_src_builtins.
Proof. exact src_builtins_ok. Qed.
Print Assumptions C16_source_builtin_types_expose_sbe_defaults.

Theorem C16_source_wrapper_of_each_primitive : stmt_src_wrappers.
Proof. exact src_wrappers. Qed.
Print Assumptions C16_source_wrapper_of_each_primitive.

(* ---- optional_base<T, Derived> of /repo's CURRENT sbepp.hpp as clang types it
   (SrcExprs.v, regenerated on every run by harness/srcexprs.py; every call
   inlined; Derived::min/max/null_value() are arbitrary values of T), for the
   eight integer types: has_value, in_range and the six pre-C++20 comparison
   operators follow the documented rules for ALL values ---- *)
From Coq Require Import String List.
From Sbepp Require Import CInt CExpr SrcExprs SrcExprsProofs.
Import ListNotations.

Theorem C16_source_optional_follows_documented_rules : forall f T v1 v2 null mn mx,
  in_range T v1 = true -> in_range T v2 = true -> in_range T null = true ->
  in_range T mn = true -> in_range T mx = true ->
  effs_eval (opt_env f v1 v2 null mn mx) (src_opt f T) = Some [zb (opt_spec f v1 v2 null mn mx)].
Proof. exact src_opt_is_spec. Qed.
Print Assumptions C16_source_optional_follows_documented_rules.

(* the rules, spelled out (what opt_spec says): null equals only null and orders before every value *)
Theorem C16_documented_rules_spelled_out : forall v1 v2 null mn mx,
  opt_spec FHas v1 v2 null mn mx = negb (Z.eqb v1 null) /\
  (Z.eqb v1 null = true -> Z.eqb v2 null = false ->
     opt_spec FEq v1 v2 null mn mx = false /\ opt_spec FLt v1 v2 null mn mx = true /\
     opt_spec FLe v1 v2 null mn mx = true /\ opt_spec FGt v1 v2 null mn mx = false /\
     opt_spec FGe v1 v2 null mn mx = false /\ opt_spec FNe v1 v2 null mn mx = true) /\
  (Z.eqb v1 null = true -> Z.eqb v2 null = true ->
     opt_spec FEq v1 v2 null mn mx = true /\ opt_spec FLt v1 v2 null mn mx = false /\
     opt_spec FLe v1 v2 null mn mx = true /\ opt_spec FGe v1 v2 null mn mx = true) /\
  (Z.eqb v1 null = false -> Z.eqb v2 null = false ->
     opt_spec FEq v1 v2 null mn mx = Z.eqb v1 v2 /\ opt_spec FLt v1 v2 null mn mx = Z.ltb v1 v2 /\
     opt_spec FLe v1 v2 null mn mx = Z.leb v1 v2 /\ opt_spec FGt v1 v2 null mn mx = Z.ltb v2 v1 /\
     opt_spec FGe v1 v2 null mn mx = Z.leb v2 v1 /\ opt_spec FNe v1 v2 null mn mx = negb (Z.eqb v1 v2)).
Proof.
  intros v1 v2 null mn mx. unfold opt_spec.
  split; [reflexivity|]. split; [|split]; intros E1 E2; rewrite E1, E2; cbn; repeat split; reflexivity.
Qed.
Print Assumptions C16_documented_rules_spelled_out.

(* required_base<T, Derived> (same translator): comparisons are the comparisons of the underlying values,
   in_range is min_value() <= value <= max_value(), for all values of the eight integer types *)
Local Open Scope string_scope.
Theorem C16_source_required_compares_values : forall o T v1 v2,
  in_range T v1 = true -> in_range T v2 = true ->
  effs_eval [("lhs.val", v1); ("rhs.val", v2)] (src_req_cmp o T) = Some [zb (ecmp o v1 v2)].
Proof. exact src_req_cmp_is_spec. Qed.
Print Assumptions C16_source_required_compares_values.

Theorem C16_source_required_in_range : forall T v mn mx,
  in_range T v = true -> in_range T mn = true -> in_range T mx = true ->
  effs_eval [("val", v); ("min_value()", mn); ("max_value()", mx)] (src_req_in_range T)
  = Some [zb ((mn <=? v)%Z && (v <=? mx)%Z)].
Proof. exact src_req_in_range_spec. Qed.
Print Assumptions C16_source_required_in_range.
