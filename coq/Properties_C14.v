(* Properties_C14.v — C14: fixed-length arrays: assignment, padding and string
   length are exact.  Only statements closed by [exact]; proofs are in
   StaticArrayProofs.v.

   Reading guide.  Memory is [pre ++ arr ++ post]: [arr] is the array
   (N = length arr, any N including 0 and 1), [pre]/[post] are whatever
   surrounds it (any length).  The array begins at offset [length pre]; [vend]
   is the end pointer stored in the view.  The only hypotheses are the
   documented preconditions: "the buffer can hold all N elements"
   (length pre + N <= vend) and "input length <= size()".  Results do not
   depend on whether assertions are compiled in ([checks]) nor, for strlen, on
   constant evaluation ([ce]). *)
From Coq Require Import ZArith List.
From Sbepp Require Import StaticArray StaticArrayProofs.
Import ListNotations.
Import SArr.
Local Open Scope Z_scope.

(* assign_string(const char*, eos): the characters before the first NUL of
   [str] are written, followed by the padding the mode prescribes; bytes
   outside the array are untouched; returns begin() + strlen(str) *)
Theorem C14_assign_string_ptr_exact : forall checks pre arr post vend s rest mode,
  Forall nonnul s ->
  (length s <= length arr)%nat ->
  Z.of_nat (length pre) + Z.of_nat (length arr) <= vend ->
  assign_string_ptr checks (pre ++ arr ++ post) (Z.of_nat (length pre)) vend
    (length arr) (Some (s ++ 0 :: rest)) mode
  = Ok (pre ++ spec_assign_string arr s mode ++ post,
        Z.of_nat (length pre) + Z.of_nat (length s)).
Proof. exact assign_string_ptr_exact. Qed.
Print Assumptions C14_assign_string_ptr_exact.

(* assign_string(range, eos): same for an arbitrary range (NULs allowed) *)
Theorem C14_assign_string_range_exact : forall checks pre arr post vend r mode,
  (length r <= length arr)%nat ->
  Z.of_nat (length pre) + Z.of_nat (length arr) <= vend ->
  assign_string_range checks (pre ++ arr ++ post) (Z.of_nat (length pre)) vend
    (length arr) r mode
  = Ok (pre ++ spec_assign_string arr r mode ++ post,
        Z.of_nat (length pre) + Z.of_nat (length r)).
Proof. exact assign_string_range_exact. Qed.
Print Assumptions C14_assign_string_range_exact.

(* assign_range: the elements, then the old tail *)
Theorem C14_assign_range_exact : forall checks pre arr post vend r,
  (length r <= length arr)%nat ->
  Z.of_nat (length pre) + Z.of_nat (length arr) <= vend ->
  assign_range checks (pre ++ arr ++ post) (Z.of_nat (length pre)) vend (length arr) r
  = Ok (pre ++ spec_assign arr r ++ post,
        Z.of_nat (length pre) + Z.of_nat (length r)).
Proof. exact assign_range_exact. Qed.
Print Assumptions C14_assign_range_exact.

(* assign(first, last) *)
Theorem C14_assign_iter_exact : forall checks pre arr post vend r,
  (length r <= length arr)%nat ->
  Z.of_nat (length pre) + Z.of_nat (length arr) <= vend ->
  assign_iter checks (pre ++ arr ++ post) (Z.of_nat (length pre)) vend (length arr) r
  = Ok (pre ++ spec_assign arr r ++ post,
        Z.of_nat (length pre) + Z.of_nat (length r)).
Proof. exact assign_iter_exact. Qed.
Print Assumptions C14_assign_iter_exact.

(* assign(initializer_list) *)
Theorem C14_assign_ilist_exact : forall checks pre arr post vend il,
  (length il <= length arr)%nat ->
  Z.of_nat (length pre) + Z.of_nat (length arr) <= vend ->
  assign_ilist checks (pre ++ arr ++ post) (Z.of_nat (length pre)) vend (length arr) il
  = Ok (pre ++ spec_assign arr il ++ post,
        Z.of_nat (length pre) + Z.of_nat (length il)).
Proof. exact assign_ilist_exact. Qed.
Print Assumptions C14_assign_ilist_exact.

(* assign(count, value) *)
Theorem C14_assign_count_exact : forall checks pre arr post vend count v,
  (count <= length arr)%nat ->
  Z.of_nat (length pre) + Z.of_nat (length arr) <= vend ->
  assign_count checks (pre ++ arr ++ post) (Z.of_nat (length pre)) vend (length arr) count v
  = Ok (pre ++ spec_assign arr (repeat v count) ++ post,
        Z.of_nat (length pre) + Z.of_nat count).
Proof. exact assign_count_exact. Qed.
Print Assumptions C14_assign_count_exact.

(* fill(value) *)
Theorem C14_fill_exact : forall checks pre arr post vend v,
  Z.of_nat (length pre) + Z.of_nat (length arr) <= vend ->
  fill checks (pre ++ arr ++ post) (Z.of_nat (length pre)) vend (length arr) v
  = Ok (pre ++ repeat v (length arr) ++ post).
Proof. exact fill_exact. Qed.
Print Assumptions C14_fill_exact.

(* the new content occupies exactly the N array elements (so, with the
   equations above, nothing at index >= N or < 0 is written) ... *)
Theorem C14_new_content_has_length_N : forall arr input mode,
  (length input <= length arr)%nat ->
  length (spec_assign_string arr input mode) = length arr /\
  length (spec_assign arr input) = length arr.
Proof. exact new_content_has_length_N. Qed.
Print Assumptions C14_new_content_has_length_N.

(* ... and, element by element, is: the input; then per mode the old byte
   (none), one NUL then old bytes (single), NULs (all) *)
Theorem C14_new_content_elementwise : forall arr input mode i,
  (length input <= length arr)%nat ->
  nth_error (spec_assign_string arr input mode) i =
    if (i <? length input)%nat then nth_error input i
    else if (i <? length arr)%nat then
      match mode with
      | EosNone => nth_error arr i
      | EosSingle => if (i =? length input)%nat then Some 0 else nth_error arr i
      | EosAll => Some 0
      end
    else None.
Proof. exact spec_assign_string_nth. Qed.
Print Assumptions C14_new_content_elementwise.

(* strlen(): index of the first NUL or N, at run time and under constant
   evaluation *)
Theorem C14_strlen_exact : forall ce checks pre arr post vend,
  Z.of_nat (length pre) + Z.of_nat (length arr) <= vend ->
  strlen ce checks (pre ++ arr ++ post) (Z.of_nat (length pre)) vend (length arr)
  = Ok (Z.of_nat (spec_strlen arr)).
Proof. exact strlen_exact. Qed.
Print Assumptions C14_strlen_exact.

(* independent characterisation of [spec_strlen] *)
Theorem C14_strlen_characterised : forall s n,
  spec_strlen s = n <->
  (n <= length s)%nat /\
  (forall i, (i < n)%nat -> exists c, nth_error s i = Some c /\ c <> 0) /\
  (n = length s \/ nth_error s n = Some 0).
Proof. exact spec_strlen_char. Qed.
Print Assumptions C14_strlen_characterised.

(* strlen_r(): index after the last non-NUL, or 0 *)
Theorem C14_strlen_r_exact : forall checks pre arr post vend,
  Z.of_nat (length pre) + Z.of_nat (length arr) <= vend ->
  strlen_r checks (pre ++ arr ++ post) (Z.of_nat (length pre)) vend (length arr)
  = Ok (Z.of_nat (spec_strlen_r arr)).
Proof. exact strlen_r_exact. Qed.
Print Assumptions C14_strlen_r_exact.

Theorem C14_strlen_r_characterised : forall s n,
  spec_strlen_r s = n <->
  (n <= length s)%nat /\
  (forall i, (n <= i < length s)%nat -> nth_error s i = Some 0) /\
  (n = O \/ exists c, nth_error s (n - 1) = Some c /\ c <> 0).
Proof. exact spec_strlen_r_char. Qed.
Print Assumptions C14_strlen_r_characterised.

(* a string without NULs written with eos_null::single or ::all is read back
   by strlen() with its own length; with ::all strlen_r() reads it back too *)
Theorem C14_strlen_reads_back_assign_string : forall arr s mode,
  Forall nonnul s -> (length s <= length arr)%nat -> mode <> EosNone ->
  spec_strlen (spec_assign_string arr s mode) = length s.
Proof. exact strlen_after_assign_string. Qed.
Print Assumptions C14_strlen_reads_back_assign_string.

Theorem C14_strlen_r_reads_back_assign_string_all : forall arr s,
  spec_strlen_r (spec_assign_string arr s EosAll) = spec_strlen_r s.
Proof. exact strlen_r_after_assign_string_all. Qed.
Print Assumptions C14_strlen_r_reads_back_assign_string_all.

(* over-long input, assertions enabled: the overloads that know the length
   up front report it before writing anything (any memory, any view) *)
Theorem C14_overlong_asserts_before_write : forall mem off vend N,
  (forall s rest mode, Forall nonnul s -> (N < length s)%nat ->
     assign_string_ptr true mem off vend N (Some (s ++ 0 :: rest)) mode = AssertFail mem) /\
  (forall mode, assign_string_ptr true mem off vend N None mode = AssertFail mem) /\
  (forall count v, (N < count)%nat ->
     assign_count true mem off vend N count v = AssertFail mem) /\
  (forall il, (N < length il)%nat ->
     assign_ilist true mem off vend N il = AssertFail mem).
Proof. exact overlong_asserts_before_write. Qed.
Print Assumptions C14_overlong_asserts_before_write.

(* over-long input, assertions enabled, range / iterator-pair overloads: the
   copy comes first.  All of the input is stored, the part that does not fit
   the array lands on the bytes after it ([post] is NOT preserved); the
   handler runs afterwards; if the input does not even fit the underlying
   buffer the copy faults before any assertion *)
Theorem C14_overlong_range_writes_then_asserts : forall pre arr post vend r,
  (length arr < length r)%nat ->
  Z.of_nat (length pre) + Z.of_nat (length arr) <= vend ->
  let bad := if (length r <=? length arr + length post)%nat
             then AssertFail (pre ++ r ++ skipn (length r - length arr) post)
             else Fault in
  assign_range true (pre ++ arr ++ post) (Z.of_nat (length pre)) vend (length arr) r = bad /\
  assign_iter true (pre ++ arr ++ post) (Z.of_nat (length pre)) vend (length arr) r = bad /\
  forall mode,
  assign_string_range true (pre ++ arr ++ post) (Z.of_nat (length pre)) vend (length arr) r mode
  = bad.
Proof. exact overlong_range_writes_then_asserts. Qed.
Print Assumptions C14_overlong_range_writes_then_asserts.

(* a view too short for N elements, assertions enabled: every operation
   reports it before touching memory *)
Theorem C14_short_view_asserts : forall mem off vend N,
  off <= vend < off + Z.of_nat N ->
  (forall v, fill true mem off vend N v = AssertFail mem) /\
  (forall r, assign_range true mem off vend N r = AssertFail mem) /\
  (forall r mode, assign_string_range true mem off vend N r mode = AssertFail mem) /\
  (forall r, assign_iter true mem off vend N r = AssertFail mem) /\
  (forall il, assign_ilist true mem off vend N il = AssertFail mem) /\
  (forall count v, assign_count true mem off vend N count v = AssertFail mem) /\
  (forall s rest mode, Forall nonnul s ->
     assign_string_ptr true mem off vend N (Some (s ++ 0 :: rest)) mode = AssertFail mem) /\
  (forall ce, strlen ce true mem off vend N = AssertFail mem) /\
  strlen_r true mem off vend N = AssertFail mem.
Proof. exact short_view_asserts. Qed.
Print Assumptions C14_short_view_asserts.
