(* SrcTables.v -- GENERATED on every run by harness/srctables.py from the current sources under /repo
   (types_compiler.hpp, utils.hpp, sbe_schema_validator.hpp, sbe_schema_cpp_validator.hpp, sbepp.hpp).
   Do not edit: statements about these tables are proved in SrcTablesProofs.v. *)
From Coq Require Import ZArith List String.
Import ListNotations.
Local Open Scope string_scope.

Inductive bty := BI8 | BU8 | BI16 | BU16 | BI32 | BU32 | BI64 | BU64 | BF32 | BF64.
Inductive blim := BMin | BMax | BQnan | BLowest.
Inductive bexpr := BLim (t : bty) (l : blim) | BPlus (e : bexpr) (n : Z) | BMinus (e : bexpr) (n : Z) | BLit (z : Z).

Definition src_min_values : list (string * string) :=
  [("char", "0x20");
   ("int8", "-127");
   ("int16", "-32767");
   ("int32", "-2147483647");
   ("int64", "-9223372036854775807");
   ("uint8", "0");
   ("uint16", "0");
   ("uint32", "0");
   ("uint64", "0");
   ("float", "::std::numeric_limits<float>::min()");
   ("double", "::std::numeric_limits<double>::min()")].

Definition src_max_values : list (string * string) :=
  [("char", "0x7e");
   ("int8", "127");
   ("int16", "32767");
   ("int32", "2147483647");
   ("int64", "9223372036854775807");
   ("uint8", "254");
   ("uint16", "65534");
   ("uint32", "4294967294");
   ("uint64", "18446744073709551614UL");
   ("float", "::std::numeric_limits<float>::max()");
   ("double", "::std::numeric_limits<double>::max()")].

Definition src_null_values : list (string * string) :=
  [("char", "0");
   ("int8", "-128");
   ("int16", "-32768");
   ("int32", "-2147483648");
   ("int64", "-9223372036854775807 - 1");
   ("uint8", "255");
   ("uint16", "65535");
   ("uint32", "4294967295");
   ("uint64", "18446744073709551615UL");
   ("float", "::std::numeric_limits<float>::quiet_NaN()");
   ("double", "::std::numeric_limits<double>::quiet_NaN()")].

Definition src_cpp_types : list (string * string) :=
  [("char", "char");
   ("int8", "::std::int8_t");
   ("int16", "::std::int16_t");
   ("int32", "::std::int32_t");
   ("int64", "::std::int64_t");
   ("uint8", "::std::uint8_t");
   ("uint16", "::std::uint16_t");
   ("uint32", "::std::uint32_t");
   ("uint64", "::std::uint64_t");
   ("float", "float");
   ("double", "double")].

Definition src_required_wrappers : list (string * string) :=
  [("char", "::sbepp::char_t");
   ("int8", "::sbepp::int8_t");
   ("int16", "::sbepp::int16_t");
   ("int32", "::sbepp::int32_t");
   ("int64", "::sbepp::int64_t");
   ("uint8", "::sbepp::uint8_t");
   ("uint16", "::sbepp::uint16_t");
   ("uint32", "::sbepp::uint32_t");
   ("uint64", "::sbepp::uint64_t");
   ("float", "::sbepp::float_t");
   ("double", "::sbepp::double_t")].

Definition src_optional_wrappers : list (string * string) :=
  [("char", "::sbepp::char_opt_t");
   ("int8", "::sbepp::int8_opt_t");
   ("int16", "::sbepp::int16_opt_t");
   ("int32", "::sbepp::int32_opt_t");
   ("int64", "::sbepp::int64_opt_t");
   ("uint8", "::sbepp::uint8_opt_t");
   ("uint16", "::sbepp::uint16_opt_t");
   ("uint32", "::sbepp::uint32_opt_t");
   ("uint64", "::sbepp::uint64_opt_t");
   ("float", "::sbepp::float_opt_t");
   ("double", "::sbepp::double_opt_t")].

(* sizeof evaluated for x86-64 *)
Definition src_underlying_sizes : list (string * Z) :=
  [("char", 1%Z);
   ("::std::int8_t", 1%Z);
   ("::std::int16_t", 2%Z);
   ("::std::int32_t", 4%Z);
   ("::std::int64_t", 8%Z);
   ("::std::uint8_t", 1%Z);
   ("::std::uint16_t", 2%Z);
   ("::std::uint32_t", 4%Z);
   ("::std::uint64_t", 8%Z);
   ("float", 4%Z);
   ("double", 8%Z)].

Definition src_prim_sizes : list (string * Z) :=
  [("char", 1%Z);
   ("int8", 1%Z);
   ("int16", 2%Z);
   ("int32", 4%Z);
   ("int64", 8%Z);
   ("uint8", 1%Z);
   ("uint16", 2%Z);
   ("uint32", 4%Z);
   ("uint64", 8%Z);
   ("float", 4%Z);
   ("double", 8%Z)].

Definition src_keywords : list string :=
  ["alignas";
   "alignof";
   "and";
   "and_eq";
   "asm";
   "auto";
   "bitand";
   "bitor";
   "bool";
   "break";
   "case";
   "catch";
   "char";
   "char8_t";
   "char16_t";
   "char32_t";
   "class";
   "compl";
   "concept";
   "const";
   "consteval";
   "constexpr";
   "constinit";
   "const_cast";
   "continue";
   "co_await";
   "co_return";
   "co_yield";
   "decltype";
   "default";
   "delete";
   "do";
   "double";
   "dynamic_cast";
   "else";
   "enum";
   "explicit";
   "export";
   "extern";
   "false";
   "float";
   "for";
   "friend";
   "goto";
   "if";
   "inline";
   "int";
   "long";
   "mutable";
   "namespace";
   "new";
   "noexcept";
   "not";
   "not_eq";
   "nullptr";
   "operator";
   "or";
   "or_eq";
   "private";
   "protected";
   "public";
   "register";
   "reinterpret_cast";
   "requires";
   "return";
   "short";
   "signed";
   "sizeof";
   "static";
   "static_assert";
   "static_cast";
   "struct";
   "switch";
   "template";
   "this";
   "thread_local";
   "throw";
   "true";
   "try";
   "typedef";
   "typeid";
   "typename";
   "union";
   "unsigned";
   "using";
   "virtual";
   "void";
   "volatile";
   "wchar_t";
   "while";
   "xor";
   "xor_eq"].

(* SBEPP_BUILT_IN_IMPL(NAME, TYPE, MIN, MAX, NULL) *)
Definition src_builtins : list (string * string * bexpr * bexpr * bexpr) :=
  [("char", "char", (BLit 32)%Z, (BLit 126)%Z, (BLit 0)%Z);
   ("int8", "std::int8_t", (BPlus (BLim BI8 BMin) 1)%Z, (BLim BI8 BMax)%Z, (BLim BI8 BMin)%Z);
   ("uint8", "std::uint8_t", (BLim BU8 BMin)%Z, (BMinus (BLim BU8 BMax) 1)%Z, (BLim BU8 BMax)%Z);
   ("int16", "std::int16_t", (BPlus (BLim BI16 BMin) 1)%Z, (BLim BI16 BMax)%Z, (BLim BI16 BMin)%Z);
   ("uint16", "std::uint16_t", (BLim BU16 BMin)%Z, (BMinus (BLim BU16 BMax) 1)%Z, (BLim BU16 BMax)%Z);
   ("int32", "std::int32_t", (BPlus (BLim BI32 BMin) 1)%Z, (BLim BI32 BMax)%Z, (BLim BI32 BMin)%Z);
   ("uint32", "std::uint32_t", (BLim BU32 BMin)%Z, (BMinus (BLim BU32 BMax) 1)%Z, (BLim BU32 BMax)%Z);
   ("int64", "std::int64_t", (BPlus (BLim BI64 BMin) 1)%Z, (BLim BI64 BMax)%Z, (BLim BI64 BMin)%Z);
   ("uint64", "std::uint64_t", (BLim BU64 BMin)%Z, (BMinus (BLim BU64 BMax) 1)%Z, (BLim BU64 BMax)%Z);
   ("float", "float", (BLim BF32 BMin)%Z, (BLim BF32 BMax)%Z, (BLim BF32 BQnan)%Z);
   ("double", "double", (BLim BF64 BMin)%Z, (BLim BF64 BMax)%Z, (BLim BF64 BQnan)%Z)].
