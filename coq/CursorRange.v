(* CursorRange.v — model of the user-level cursor ranges of a group:
     g.cursor_range(c)                  entries [0, size())
     g.cursor_subrange(c, pos)          entries [pos, size())      pre: pos < size()
     g.cursor_subrange(c, pos, count)   entries [pos, pos+count)   pre: pos < size(),
                                                                        count <= size() - pos
   (sbepp.hpp: detail::input_iterator, detail::cursor_range,
   flat_group_base / nested_group_base :: cursor_range / cursor_subrange) as
   exercised by the driver op `crange` (cpp/msg_harness.hpp, cursor_range_op).

   The range object only counts indices.  Every dereference of its iterator
   builds an entry view AT THE CURRENT CURSOR with the group's wire blockLength
   (for levels without non-constant fields, groups and data the entry
   constructor advances the cursor by blockLength: [Cursor.is_empty_level]);
   the user is expected to traverse the entry completely before the next
   dereference.  The driver does exactly that with the plain cursor
   (visit_children of the entry = [Cursor.trav_level]), so the entry loop below
   is the entry loop of [Cursor.trav_groups] with an additional log of the
   entry addresses.

   Checks are enabled: a failed SBEPP_ASSERT is [CAssert]; a read outside the
   buffer that no check caught, or an entry address that cannot be computed
   inside the buffer, is [COob].
   Definitions only (extracted).  Proofs: CursorRangeProofs.v. *)
From Coq Require Import ZArith List Bool.
From Sbepp Require Import CInt Bytes Msg Layout Cursor.
Import ListNotations.
Local Open Scope Z_scope.

Inductive crmode :=
| CRAll                              (* cursor_range(c) *)
| CRFrom (pos : Z)                   (* cursor_subrange(c, pos) *)
| CRFromCount (pos count : Z).       (* cursor_subrange(c, pos, count) *)

(* [crange_bounds n mode] = Some (start_pos, length) of the range object, or
   None when a precondition assertion fires; [n] = size() = numInGroup read from
   the dimension header.
   size_type arithmetic is unsigned arithmetic in the numInGroup type
   (`size() - pos`, `static_cast<size_type>(size() - pos)`); the driver only
   passes 0 <= pos, count that are representable in that type, and under the
   first assertion pos < size() the difference size() - pos does not wrap, so
   the comparisons are the plain comparisons over Z. *)
Definition crange_bounds (n : Z) (mode : crmode) : option (Z * Z) :=
  match mode with
  | CRAll => Some (0, n)
  | CRFrom pos => if pos <? n then Some (pos, n - pos) else None
  | CRFromCount pos count =>
    if pos <? n then (if count <=? n - pos then Some (pos, count) else None) else None
  end.

Definition cres_map {A B} (f : A -> B) (r : cres A) : cres B :=
  match r with COk a c => COk (f a) c | CAssert => CAssert | COob => COob end.

(* The entry loop.  It is the inner [fix loop] of [Cursor.trav_groups]
   (CursorProofs.trav_entries) plus the log [addrs] of the addresses of the
   entry views built by operator* (both accumulators in reverse order).
   [j]: fuel, one unit per entry; [n]: entries left; [c]: the cursor. *)
Fixpoint cr_entries (be : bool) (b : list Z) (fuel : nat) (l : level) (cl : clevel)
  (bl lvend : Z) (j : nat) (n c : Z) (addrs : list Z) (acc : list event) {struct j}
  : cres (list Z * list event) :=
  if n <=? 0 then COk (addrs, acc) c else
  match j with
  | O => COob
  | S j' =>
    let ev := {| lv_start := c; lv_level := c; lv_bl := bl; lv_end := lvend |} in
    (* empty entries advance the cursor in their constructor *)
    let c0 := if is_empty_level l cl then c + bl else c in
    match trav_level be b fuel l cl ev c0 (EEntry c :: acc) with
    | COk acc' c' => cr_entries be b fuel l cl bl lvend j' (n - 1) c' (c :: addrs) acc'
    | CAssert => CAssert
    | COob => COob
    end
  end.

(* `for(const auto e : range) visit_children(e, cur, visitor)` for a range of
   [count] entries with the cursor at [c]: (entry addresses, all events) in
   order, and the final cursor *)
Definition crange_visit (be : bool) (b : list Z) (fuel : nat) (l : level) (cl : clevel)
  (bl lvend : Z) (count c : Z) : cres (list Z * list event) :=
  cres_map (fun r => (rev (fst r), rev (snd r)))
           (cr_entries be b fuel l cl bl lvend fuel count c [] []).

(* where the driver puts the cursor before it builds the range:
   mode "r": init_cursor(g) = address of the group + size of its dimension;
   otherwise: the random-access address of entry [start] (g.begin() advanced
   [start] times), None if it cannot be computed *)
Definition crange_start (be : bool) (b : list Z) (fuel : nat) (d : dim) (l : level)
  (g : gview) (mode : crmode) (start : Z) : option Z :=
  match mode with
  | CRAll => Some (gv_pos g + d_size d)
  | _ => entry_pos be b fuel d l g start
  end.

(* the whole driver op, with the events of the entry traversals *)
Definition run_crange_ev (be : bool) (b : list Z) (fuel : nat) (d : dim) (l : level)
  (cl : clevel) (lvend : Z) (g : gview) (mode : crmode) : cres (list Z * list event) :=
  match crange_bounds (gv_n g) mode with
  | None => CAssert
  | Some (start, count) =>
    match crange_start be b fuel d l g mode start with
    | None => COob
    | Some c => crange_visit be b fuel l cl (gv_bl g) lvend count c
    end
  end.

(* addresses of the visited entries in order; final cursor *)
Definition run_crange (be : bool) (b : list Z) (fuel : nat) (d : dim) (l : level)
  (cl : clevel) (lvend : Z) (g : gview) (mode : crmode) : cres (list Z) :=
  cres_map fst (run_crange_ev be b fuel d l cl lvend g mode).

(* ---- message level ---- *)
Fixpoint cgroups_nth (cgs : cgroups) (k : nat) : option clevel :=
  match cgs, k with
  | CGNil, _ => None
  | CGCons cl _, O => Some cl
  | CGCons _ rest, S k' => cgroups_nth rest k'
  end.

(* cursor accessor table of the level found at [path] (entry indices are
   irrelevant: all entries of a group share the table) *)
Fixpoint clevel_at (cl : clevel) (path : list step) : option clevel :=
  match path with
  | [] => Some cl
  | SGroup k _ :: rest => obind (cgroups_nth (clevel_groups cl) k) (fun sub => clevel_at sub rest)
  end.

(* ... and of the entries of group [k] of that level *)
Definition group_clevel (cl_root : clevel) (path : list step) (k : nat) : option clevel :=
  obind (clevel_at cl_root path) (fun cl => cgroups_nth (clevel_groups cl) k).

(* `crange <path> <k> <mode>`: locate group [k] of the level at [path] by random
   access (as `ginfo`), end pointer = end of the buffer (the message view spans
   the buffer).  COob also when the group cannot be located inside the buffer
   or [cl_root] has no table for it (as [Cursor.trav_groups]). *)
Definition run_crange_at (be : bool) (b : list Z) (m : message) (cl_root : clevel) (base : Z)
  (path : list step) (k : nat) (mode : crmode) : cres (list Z) :=
  match locate_group be b m base path k, group_clevel cl_root path k with
  | Some (g, d, _, sub), Some cl => run_crange be b (default_fuel b) d sub cl (len b) g mode
  | _, _ => COob
  end.
