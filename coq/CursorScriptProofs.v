(* CursorScriptProofs.v — sequences of cursor calls on the members of one level
   view, executed with the real oracles (CursorScript.v), on encoded images. *)
From Coq Require Import ZArith List Bool Lia ZifyBool.
From Sbepp Require Import CInt CIntFacts Bytes BytesFacts Msg Layout Wire MsgSpec MsgProofs
  Cursor CursorSpec CursorProofs CursorScript.
Import ListNotations.
Local Open Scope Z_scope.

(* ================================================================== *)
(* 0. The embedding and the image-side (value tree only) positions     *)
(* ================================================================== *)

(* a level instance [v] of level [l] whose image sits at offset [len pre] of
   the buffer [b]; [lv] is the view the library has of it ([hdr] = size of the
   message header for the root level, 0 for entries); [al] the generated
   cursor accessors of its fields.  Same style as CursorProofs.T_level. *)
Definition embedded (be : bool) (l : level) (v : vlevel) (hdr : Z) (al : list cacc)
  (pre post b : list Z) (fuel : nat) (lv : lview) : Prop :=
  wf_level be l v /\
  accs_ok hdr 0 (level_fields l) al /\
  (* top conjunct of CursorSpec.fields_fit: field bytes inside the wire block *)
  Forall (fun f => 0 <= f_off f /\ f_off f + f_size f <= len (vblock v)) (level_fields l) /\
  b = pre ++ enc_level be l v ++ post /\
  len b < 2 ^ 64 /\ len b <= Z.of_nat fuel /\
  lv_level lv = len pre /\ lv_start lv + hdr = len pre /\ 0 <= lv_start lv /\ 0 <= hdr /\
  lv_bl lv = len (vblock v) /\ lv_end lv = len b.

(* bytes of data members 0..k-1 *)
Fixpoint datas_prefix_len (ds : list ity) (vds : list (list Z)) (k : nat) : Z :=
  match k, ds, vds with
  | S k', t :: ds', p :: vds' => tbytes t + len p + datas_prefix_len ds' vds' k'
  | _, _, _ => 0
  end.

(* end of the previous field (block-relative); 0 for the first field *)
Definition field_req (fs : list fld) (k : nat) : Z :=
  match k with
  | O => 0
  | S k' => match nth_error fs k' with Some f => f_off f + f_size f | None => 0 end
  end.

Definition fld_off (fs : list fld) (k : nat) : Z :=
  match nth_error fs k with Some f => f_off f | None => 0 end.
Definition fld_size (fs : list fld) (k : nat) : Z :=
  match nth_error fs k with Some f => f_size f | None => 0 end.

(* dimension size / whole image length of group k; total size of data k *)
Definition dim_size_nth (gs : groups) (k : nat) : Z :=
  match groups_nth gs k with Some (d, _, _) => d_size d | None => 0 end.
Definition group_len_nth (be : bool) (gs : groups) (vgs : vgroups) (k : nat) : Z :=
  match groups_nth gs k, vgroups_nth vgs k with
  | Some (d, cbl, sub), Some (bg, es) =>
    len (enc_groups be (GCons d cbl sub GNil) (VGCons bg es VGNil))
  | _, _ => 0
  end.
Definition data_len_nth (ds : list ity) (vds : list (list Z)) (k : nat) : Z :=
  match nth_error ds k, nth_error vds k with
  | Some t, Some p => tbytes t + len p
  | _, _ => 0
  end.

(* where the image puts the member; [base] = offset of the level's block *)
Definition img_addr (be : bool) (l : level) (v : vlevel) (base : Z) (o : lop) : Z :=
  match o with
  | LF k _ => base + fld_off (level_fields l) k
  | LG k _ => base + len (vblock v) + groups_prefix_len be (level_groups l) (vlevel_groups v) k
  | LD k _ => base + len (vblock v) + len (enc_groups be (level_groups l) (vlevel_groups v))
              + datas_prefix_len (level_datas l) (vlevel_datas v) k
  end.

(* the position the member requires *)
Definition img_req (be : bool) (l : level) (v : vlevel) (base : Z) (o : lop) : Z :=
  match o with
  | LF k _ => base + field_req (level_fields l) k
  | _ => img_addr be l v base o
  end.

(* the documented cursor after the call *)
Definition img_after (be : bool) (l : level) (v : vlevel) (base : Z) (o : lop) (c : Z) : Z :=
  let a := img_addr be l v base o in
  match o with
  | LF k w =>
    match w with
    | WPlain | WSkip | WInit =>
      match nth_error (level_fields l) (S k) with
      | None => base + len (vblock v)                 (* last field: block end *)
      | Some _ => a + fld_size (level_fields l) k
      end
    | WDontMove => c
    | WInitDontMove => base + field_req (level_fields l) k
    end
  | LG k w =>
    match w with
    | WPlain | WInit => a + dim_size_nth (level_groups l) k
    | WSkip => a + group_len_nth be (level_groups l) (vlevel_groups v) k
    | WDontMove => if is_first l o then a else c
    | WInitDontMove => a
    end
  | LD k w =>
    match w with
    | WPlain | WSkip | WInit => a + data_len_nth (level_datas l) (vlevel_datas v) k
    | WDontMove => if is_first l o then a else c
    | WInitDontMove => a
    end
  end.

Definition legal (be : bool) (b : list Z) (fuel : nat) (l : level) (al : list cacc)
  (lv : lview) (ops : list lop) (c : Z) : Prop :=
  legalb be b fuel l al lv ops c = true.

(* ================================================================== *)
(* Statements                                                          *)
(* ================================================================== *)

(* (A) one call on an image *)
Definition stmt_run_lop_image : Prop :=
  forall be l v hdr al pre post b fuel lv o c,
    embedded be l v hdr al pre post b fuel lv ->
    in_range l al o = true ->
    ra_addr be b fuel l al lv o = Some (img_addr be l v (len pre) o) /\
    req_pos be b fuel l al lv o
      = (if is_first l o then None else Some (img_req be l v (len pre) o)) /\
    doc_after be b fuel l al lv o c = Some (img_after be l v (len pre) o c) /\
    (is_init (lop_wrapper o) = true \/ is_first l o = true \/
     req_pos be b fuel l al lv o = Some c ->
     run_lop be b fuel l al lv o c
     = Some (COk (img_addr be l v (len pre) o) (img_after be l v (len pre) o c))) /\
    (is_init (lop_wrapper o) = false -> is_first l o = false ->
     req_pos be b fuel l al lv o <> Some c ->
     run_lop be b fuel l al lv o c = Some CAssert).


(* (B) chain lemmas: the documented cursor after a call that moves past member
   k is the position the next member in schema order requires *)

(* field k -> field k+1 (from accs_ok alone, on any buffer) *)
Definition stmt_chain_field_field : Prop :=
  forall be b fuel l al lv hdr k w w' c,
    accs_ok hdr 0 (level_fields l) al ->
    in_range l al (LF (S k) w') = true -> is_moving w = true ->
    doc_after be b fuel l al lv (LF k w) c = req_pos be b fuel l al lv (LF (S k) w').

(* last field -> block end ... *)
Definition stmt_chain_last_field : Prop :=
  forall be b fuel l al lv hdr k w c,
    accs_ok hdr 0 (level_fields l) al ->
    in_range l al (LF k w) = true -> in_range l al (LF (S k) w) = false ->
    is_moving w = true ->
    doc_after be b fuel l al lv (LF k w) c = Some (block_end lv).

(* ... which is where the random-access accessor finds the first
   variable-length member (which requires no position anyway) *)
Definition stmt_first_member_at_block_end : Prop :=
  forall be b fuel l al lv o,
    is_first l o = true -> in_range l al o = true ->
    ra_addr be b fuel l al lv o = Some (block_end lv).

(* group k (skip) -> group k+1 *)
Definition stmt_chain_group_group : Prop :=
  forall be l v hdr al pre post b fuel lv k w' c,
    embedded be l v hdr al pre post b fuel lv ->
    in_range l al (LG (S k) w') = true ->
    doc_after be b fuel l al lv (LG k WSkip) c = req_pos be b fuel l al lv (LG (S k) w').

(* last group (skip) -> data 0 *)
Definition stmt_chain_last_group_data : Prop :=
  forall be l v hdr al pre post b fuel lv k w' c,
    embedded be l v hdr al pre post b fuel lv ->
    in_range l al (LG k WSkip) = true -> in_range l al (LG (S k) WSkip) = false ->
    in_range l al (LD 0 w') = true ->
    doc_after be b fuel l al lv (LG k WSkip) c = req_pos be b fuel l al lv (LD 0 w').

(* data k (plain / skip / init) -> data k+1 *)
Definition stmt_chain_data_data : Prop :=
  forall be l v hdr al pre post b fuel lv k w w' c,
    embedded be l v hdr al pre post b fuel lv ->
    in_range l al (LD (S k) w') = true -> is_moving w = true ->
    doc_after be b fuel l al lv (LD k w) c = req_pos be b fuel l al lv (LD (S k) w').

(* a plain / init call on a group with numInGroup = 0 lands where skip lands,
   i.e. (by the two statements above) on the next member *)
Definition stmt_chain_empty_group : Prop :=
  forall be l v hdr al pre post b fuel lv k w bg c,
    embedded be l v hdr al pre post b fuel lv ->
    in_range l al (LG k w) = true ->
    vgroups_nth (vlevel_groups v) k = Some (bg, VENil) ->
    w = WPlain \/ w = WInit ->
    doc_after be b fuel l al lv (LG k w) c = doc_after be b fuel l al lv (LG k WSkip) c.

(* the last variable-length member -> end of the level's image *)
Definition stmt_chain_end_of_level : Prop :=
  forall be l v hdr al pre post b fuel lv k w c,
    embedded be l v hdr al pre post b fuel lv ->
    (in_range l al (LD k w) = true -> in_range l al (LD (S k) w) = false ->
     is_moving w = true ->
     doc_after be b fuel l al lv (LD k w) c = Some (len pre + len (enc_level be l v))) /\
    (level_datas l = [] ->
     in_range l al (LG k WSkip) = true -> in_range l al (LG (S k) WSkip) = false ->
     doc_after be b fuel l al lv (LG k WSkip) c = Some (len pre + len (enc_level be l v))).

(* (C) sequences.  [legal]: every index exists and every call is init-type, or
   on the first variable-length member, or made with the cursor (= the
   documented cursor after the calls before it / the start cursor) at the
   position the member requires. *)
Definition stmt_legal_cons : Prop :=
  forall be l v hdr al pre post b fuel lv o ops c,
    embedded be l v hdr al pre post b fuel lv ->
    (legal be b fuel l al lv (o :: ops) c <->
     in_range l al o = true /\
     (is_init (lop_wrapper o) = true \/ is_first l o = true \/
      req_pos be b fuel l al lv o = Some c) /\
     legal be b fuel l al lv ops (img_after be l v (len pre) o c)).

(* what a legal script returns, in terms of the value tree only *)
Fixpoint img_script (be : bool) (l : level) (v : vlevel) (base : Z) (ops : list lop) (c : Z)
  : list (lop * cres Z) :=
  match ops with
  | [] => []
  | o :: rest =>
    (o, COk (img_addr be l v base o) (img_after be l v base o c))
    :: img_script be l v base rest (img_after be l v base o c)
  end.

Definition stmt_run_script_legal : Prop :=
  forall be l v hdr al pre post b fuel lv ops c,
    embedded be l v hdr al pre post b fuel lv ->
    legal be b fuel l al lv ops c ->
    run_script be b fuel l al lv ops c = spec_script be b fuel l al lv ops c /\
    spec_script be b fuel l al lv ops c = img_script be l v (len pre) ops c /\
    map fst (run_script be b fuel l al lv ops c) = ops.

(* misuse after a legal prefix is reported, whatever follows *)
Definition stmt_run_script_misuse : Prop :=
  forall be l v hdr al pre post b fuel lv ops o rest c,
    embedded be l v hdr al pre post b fuel lv ->
    legal be b fuel l al lv ops c ->
    in_range l al o = true ->
    is_init (lop_wrapper o) = false -> is_first l o = false ->
    req_pos be b fuel l al lv o <> Some (end_cursor be b fuel l al lv ops c) ->
    run_script be b fuel l al lv (ops ++ o :: rest) c
    = spec_script be b fuel l al lv ops c ++ [(o, CAssert)].


(* (E) the "cur" command: the view built for the level at any path of an
   encoded message is an embedding, so (A)-(C) apply to it *)
Definition stmt_embedded_any_path : Prop :=
  forall be m hdrbg v pre post path l' v' off al,
    let b := pre ++ enc_message be m hdrbg v ++ post in
    wf_message be m hdrbg v -> len b < 2 ^ 64 ->
    vresolve be path (m_level m) v = Some (l', v', off) ->
    accs_ok (path_hdr m path) 0 (level_fields l') al ->
    Forall (fun f => 0 <= f_off f /\ f_off f + f_size f <= len (vblock v')) (level_fields l') ->
    exists pre' post',
      msg_resolve be b m (len pre) path = Some (len pre', len (vblock v'), l') /\
      len pre' = len pre + m_hdr_size m + off /\
      embedded be l' v' (path_hdr m path) al pre' post' b (default_fuel b)
               (path_lview b (len pre) path (len pre') (len (vblock v'))).

Definition stmt_run_cur_legal : Prop :=
  forall be m hdrbg v pre post path l' v' off al start ops,
    let b := pre ++ enc_message be m hdrbg v ++ post in
    let pos := len pre + m_hdr_size m + off in
    let c := match start with None => pos | Some o => len pre + o end in
    wf_message be m hdrbg v -> len b < 2 ^ 64 ->
    vresolve be path (m_level m) v = Some (l', v', off) ->
    accs_ok (path_hdr m path) 0 (level_fields l') al ->
    Forall (fun f => 0 <= f_off f /\ f_off f + f_size f <= len (vblock v')) (level_fields l') ->
    legal be b (default_fuel b) l' al (path_lview b (len pre) path pos (len (vblock v'))) ops c ->
    run_cur be b m (len pre) path al start ops = Some (img_script be l' v' pos ops c).


(* (F) run_lop is the glue of ocaml/drv_msg_cursor.ml.  The glue takes the
   dimension, compiled blockLength and entry level of group k from the result
   of nth_group_pos when that succeeds and from the schema otherwise;
   [glue_group] is that code, literally *)
Definition glue_group (be : bool) (b : list Z) (fuel : nat) (gs : groups) (lv : lview)
  (k : nat) (w : wrapper) (c : Z) : option (cres Z) :=
  let p := match nth_group_pos be b fuel gs k (lv_level lv + lv_bl lv) with
           | Some (gp, _, _, _) => Some gp
           | None => None
           end in
  match nth_group_pos be b fuel gs k (lv_level lv + lv_bl lv) with
  | Some (_, d, cbl, sub) =>
    let gsz at_ := match groups_end be b fuel (GCons d cbl sub GNil) at_ with
                   | Some e => Some (e - at_)
                   | None => None
                   end in
    Some (cur_group w (Nat.eqb k 0) lv p (d_size d) gsz c)
  | None =>
    match groups_nth gs k with
    | Some (d, cbl, sub) =>
      let gsz at_ := match groups_end be b fuel (GCons d cbl sub GNil) at_ with
                     | Some e => Some (e - at_)
                     | None => None
                     end in
      Some (cur_group w (Nat.eqb k 0) lv None (d_size d) gsz c)
    | None => None
    end
  end.

Definition glue_data (be : bool) (b : list Z) (fuel : nat) (gs : groups) (ds : list ity)
  (lv : lview) (k : nat) (w : wrapper) (c : Z) : option (cres Z) :=
  let first := Nat.eqb k 0 && groups_empty gs in
  match nth_error ds k with
  | None => None
  | Some t =>
    let p := match groups_end be b fuel gs (lv_level lv + lv_bl lv) with
             | Some ge => match nth_data_pos be b ds k ge with
                          | Some (dp, _) => Some dp
                          | None => None
                          end
             | None => None
             end in
    Some (cur_data w first lv p (data_size_at be b t) c)
  end.

Definition stmt_run_lop_is_glue : Prop :=
  forall be b fuel l al lv k w c,
    run_lop be b fuel l al lv (LG k w) c = glue_group be b fuel (level_groups l) lv k w c /\
    run_lop be b fuel l al lv (LD k w) c
    = glue_data be b fuel (level_groups l) (level_datas l) lv k w c.


(* (C') the chain lemmas at work: the schema-order script -- every field with
   the plain cursor, every group skipped, every data with the plain cursor --
   started at the block is legal (so by (C) every call returns the
   random-access address) and, unless the level has no member at all, leaves
   the cursor at the end of the level's image *)
Fixpoint groups_count (gs : groups) : nat :=
  match gs with GNil => O | GCons _ _ _ r => S (groups_count r) end.

Definition schema_script (l : level) (al : list cacc) : list lop :=
  map (fun k => LF k WPlain) (seq 0 (length al))
  ++ map (fun k => LG k WSkip) (seq 0 (groups_count (level_groups l)))
  ++ map (fun k => LD k WPlain) (seq 0 (length (level_datas l))).

Definition stmt_schema_script_legal : Prop :=
  forall be l v hdr al pre post b fuel lv,
    embedded be l v hdr al pre post b fuel lv ->
    legal be b fuel l al lv (schema_script l al) (len pre) /\
    (schema_script l al <> [] ->
     end_cursor be b fuel l al lv (schema_script l al) (len pre)
     = len pre + len (enc_level be l v)).

(* ================================================================== *)
(* 1. Helper lemmas                                                    *)
(* ================================================================== *)

Lemma op_ok_iff be b fuel l al lv o c :
  op_ok be b fuel l al lv o c = true <->
  (is_init (lop_wrapper o) = true \/ is_first l o = true \/
   req_pos be b fuel l al lv o = Some c).
Proof.
  unfold op_ok. rewrite !orb_true_iff.
  destruct (req_pos be b fuel l al lv o) as [p|].
  - split.
    + intros [[H|H]|H]; [left; exact H|right; left; exact H|].
      right; right. apply Z.eqb_eq in H. now subst.
    + intros [H|[H|H]]; [left; left; exact H|left; right; exact H|].
      right. inversion H. apply Z.eqb_refl.
  - split.
    + intros [[H|H]|H]; [left; exact H|right; left; exact H|discriminate].
    + intros [H|[H|H]]; [left; left; exact H|left; right; exact H|discriminate].
Qed.

(* ---- fields ---- *)
Lemma accs_ok_length hdr : forall fs al pos, accs_ok hdr pos fs al -> length fs = length al.
Proof.
  induction fs as [|f fs IH]; intros al pos H; destruct al as [|a al]; try contradiction.
  - reflexivity.
  - cbn [accs_ok] in H. destruct H as (_ & _ & _ & _ & _ & _ & Hr).
    cbn [length]. f_equal. exact (IH al _ Hr).
Qed.

Lemma accs_ok_nth hdr : forall fs al pos k a,
  accs_ok hdr pos fs al -> nth_error al k = Some a ->
  exists f, nth_error fs k = Some f /\
    ca_abs a = f_off f + hdr /\ ca_size a = f_size f /\ 0 <= f_size f /\ 0 <= ca_rel a /\
    f_off f - ca_rel a
    = (match k with
       | O => pos
       | S k' => match nth_error fs k' with Some f' => f_off f' + f_size f' | None => 0 end
       end) /\
    ca_last a = (match nth_error fs (S k) with None => true | Some _ => false end).
Proof.
  induction fs as [|f fs IH]; intros al pos k a Hacc Hnth.
  - destruct al; [|contradiction]. destruct k; discriminate.
  - destruct al as [|a0 al]; [contradiction|].
    cbn [accs_ok] in Hacc. destruct Hacc as (Hrel & Hrel0 & Habs & Hsz & Hsz0 & Hlast & Hrest).
    destruct k as [|k]; cbn [nth_error] in Hnth.
    + inversion Hnth; subst a0; clear Hnth.
      exists f. cbn [nth_error]. repeat split; try assumption; try lia.
      rewrite Hlast. destruct fs; reflexivity.
    + destruct (IH al _ k a Hrest Hnth) as (f2 & H1 & H2 & H3 & H4 & H5 & H6 & H7).
      exists f2. cbn [nth_error]. repeat split; try assumption.
      rewrite H6. destruct k as [|k']; cbn [nth_error]; reflexivity.
Qed.

Lemma nth_error_S_some {A} (l : list A) k x :
  nth_error l (S k) = Some x -> exists y, nth_error l k = Some y.
Proof.
  intros H. destruct (nth_error l k) as [y|] eqn:E; [eauto|].
  apply nth_error_None in E.
  assert (Hn : nth_error l (S k) <> None) by (rewrite H; discriminate).
  apply nth_error_Some in Hn. lia.
Qed.

Lemma field_req_nonneg fs k :
  Forall (fun f => 0 <= f_off f) fs -> Forall (fun f => 0 <= f_size f) fs -> 0 <= field_req fs k.
Proof.
  intros H1 H2. unfold field_req. destruct k as [|k]; [lia|].
  destruct (nth_error fs k) as [f|] eqn:E; [|lia].
  apply nth_error_In in E. rewrite Forall_forall in H1, H2.
  specialize (H1 f E). specialize (H2 f E). lia.
Qed.

(* ---- groups ---- *)
Lemma groups_prefix_len_0 be gs vgs : groups_prefix_len be gs vgs 0 = 0.
Proof. destruct gs; destruct vgs; reflexivity. Qed.

Lemma wf_groups_nth be : forall gs vgs k d cbl sub,
  wf_groups be gs vgs -> groups_nth gs k = Some (d, cbl, sub) ->
  exists bg es, vgroups_nth vgs k = Some (bg, es).
Proof.
  induction gs as [|d0 cbl0 l0 rest IH]; intros vgs k d cbl sub Hwf Hg.
  - destruct k; discriminate.
  - destruct vgs as [|bg0 es0 vrest]; [contradiction|].
    destruct k as [|k]; cbn [groups_nth vgroups_nth] in *.
    + eauto.
    + rewrite wf_groups_cons in Hwf. cbv zeta in Hwf.
      destruct Hwf as (_ & _ & _ & _ & _ & _ & _ & _ & Hwr).
      exact (IH vrest k d cbl sub Hwr Hg).
Qed.

Lemma enc_groups_split be d cbl l rest bg es vrest :
  enc_groups be (GCons d cbl l rest) (VGCons bg es vrest)
  = enc_groups be (GCons d cbl l GNil) (VGCons bg es VGNil) ++ enc_groups be rest vrest.
Proof. rewrite enc_groups_single, enc_groups_cons. now rewrite <- !app_assoc. Qed.

Lemma groups_prefix_len_S be : forall k gs vgs,
  groups_prefix_len be gs vgs (S k)
  = groups_prefix_len be gs vgs k + group_len_nth be gs vgs k.
Proof.
  unfold group_len_nth.
  induction k as [|k IH]; intros gs vgs.
  - rewrite groups_prefix_len_0.
    destruct gs as [|d cbl l rest]; destruct vgs as [|bg es vrest];
      cbn [groups_prefix_len groups_nth vgroups_nth]; try reflexivity.
    rewrite groups_prefix_len_0. lia.
  - destruct gs as [|d cbl l rest]; destruct vgs as [|bg es vrest];
      cbn [groups_prefix_len groups_nth vgroups_nth]; try reflexivity.
    + destruct (groups_nth rest k) as [[[? ?] ?]|]; reflexivity.
    + specialize (IH rest vrest). cbn [groups_prefix_len] in IH. rewrite IH. lia.
Qed.

Lemma groups_prefix_len_all be : forall k gs vgs,
  wf_groups be gs vgs -> groups_nth gs k = None ->
  groups_prefix_len be gs vgs k = len (enc_groups be gs vgs).
Proof.
  induction k as [|k IH]; intros gs vgs Hwf Hg.
  - destruct gs; [|discriminate]. rewrite groups_prefix_len_0, enc_groups_gnil. reflexivity.
  - destruct gs as [|d cbl l rest].
    + rewrite enc_groups_gnil. destruct vgs; reflexivity.
    + destruct vgs as [|bg es vrest]; [contradiction|].
      cbn [groups_nth] in Hg. cbn [groups_prefix_len].
      rewrite wf_groups_cons in Hwf. cbv zeta in Hwf.
      destruct Hwf as (_ & _ & _ & _ & _ & _ & _ & _ & Hwr).
      rewrite (IH rest vrest Hwr Hg), (enc_groups_split be d cbl l rest bg es vrest), len_app.
      reflexivity.
Qed.

(* ---- data ---- *)
Lemma datas_prefix_len_0 ds vds : datas_prefix_len ds vds 0 = 0.
Proof. destruct ds; destruct vds; reflexivity. Qed.

Lemma datas_fit_nth : forall ds vds k t,
  datas_fit ds vds -> nth_error ds k = Some t -> exists p, nth_error vds k = Some p.
Proof.
  induction ds as [|t0 ds IH]; intros vds k t Hfit Hn.
  - destruct k; discriminate.
  - destruct vds as [|p0 vds]; [contradiction|].
    cbn [datas_fit] in Hfit. destruct Hfit as (_ & _ & Hr).
    destruct k as [|k]; cbn [nth_error] in *; [eauto|exact (IH vds k t Hr Hn)].
Qed.

Lemma datas_prefix_len_S : forall k ds vds,
  datas_prefix_len ds vds (S k) = datas_prefix_len ds vds k + data_len_nth ds vds k.
Proof.
  unfold data_len_nth.
  induction k as [|k IH]; intros ds vds.
  - rewrite datas_prefix_len_0.
    destruct ds as [|t ds]; destruct vds as [|p vds];
      cbn [datas_prefix_len nth_error]; try reflexivity.
    rewrite datas_prefix_len_0. lia.
  - destruct ds as [|t ds]; destruct vds as [|p vds];
      cbn [datas_prefix_len nth_error]; try reflexivity.
    + destruct (nth_error ds k); reflexivity.
    + specialize (IH ds vds). cbn [datas_prefix_len] in IH. rewrite IH. lia.
Qed.

Lemma datas_prefix_len_all : forall k ds vds be,
  datas_fit ds vds -> nth_error ds k = None ->
  datas_prefix_len ds vds k = len (enc_datas be ds vds).
Proof.
  induction k as [|k IH]; intros ds vds be Hfit Hn.
  - destruct ds; [|discriminate]. destruct vds; reflexivity.
  - destruct ds as [|t ds].
    + destruct vds; reflexivity.
    + destruct vds as [|p vds]; [contradiction|].
      cbn [datas_fit] in Hfit. destruct Hfit as (_ & _ & Hr).
      cbn [nth_error] in Hn. cbn [datas_prefix_len enc_datas].
      rewrite (IH ds vds be Hr Hn), !len_app, len_enc_tw. lia.
Qed.

Lemma nth_data_full be b : forall ds vds k t p pre post,
  datas_fit ds vds -> nth_error ds k = Some t -> nth_error vds k = Some p ->
  b = pre ++ enc_datas be ds vds ++ post ->
  nth_data_pos be b ds k (len pre) = Some (len pre + datas_prefix_len ds vds k, t) /\
  rd be b (len pre + datas_prefix_len ds vds k) t = Some (len p).
Proof.
  induction ds as [|t0 ds IH]; intros vds k t p pre post Hfit Hnt Hnp Hb.
  - destruct k; discriminate.
  - destruct vds as [|p0 vds]; [contradiction|].
    cbn [datas_fit] in Hfit. destruct Hfit as (Hu & Hf & Hrest).
    cbn [enc_datas] in Hb.
    assert (Hrd : rd be b (len pre) t0 = Some (len p0)).
    { apply (rd_enc_at be b pre ((p0 ++ enc_datas be ds vds) ++ post) t0 (len p0)); [|exact Hf].
      rewrite Hb. now rewrite <- !app_assoc. }
    destruct k as [|k]; cbn [nth_error] in Hnt, Hnp; cbn [nth_data_pos datas_prefix_len].
    + inversion Hnt; subst t0. inversion Hnp; subst p0. rewrite Z.add_0_r.
      split; [reflexivity|exact Hrd].
    + rewrite Hrd. cbn [obind].
      set (pre' := pre ++ enc be (tw t0) (len p0) ++ p0).
      assert (Hl' : len pre + tbytes t0 + len p0 = len pre')
        by (unfold pre'; rewrite !len_app, len_enc_tw; lia).
      rewrite Hl'.
      destruct (IH vds k t p pre' post Hrest Hnt Hnp) as [H1 H2].
      { rewrite Hb. unfold pre'. now rewrite <- !app_assoc. }
      replace (len pre + (tbytes t0 + len p0 + datas_prefix_len ds vds k))
        with (len pre' + datas_prefix_len ds vds k) by lia.
      split; assumption.
Qed.

(* ---- single calls, all wrappers at once ---- *)
Lemma cur_group_script w first lv a dsz gsz z c :
  (first = true -> block_end lv = a) -> gsz a = Some z ->
  (is_init w = true \/ first = true \/ a = c) ->
  cur_group w first lv (Some a) dsz gsz c
  = COk a (match w with
           | WPlain | WInit => a + dsz
           | WSkip => a + z
           | WDontMove => if first then a else c
           | WInitDontMove => a
           end).
Proof.
  intros Hf Hz Hok. unfold cur_group. destruct first.
  - rewrite (Hf eq_refl), Hz. destruct w; reflexivity.
  - destruct w; cbn [is_init] in Hok;
      try reflexivity;
      (destruct Hok as [Hok|[Hok|Hok]]; [discriminate|discriminate|]);
      subst c; rewrite Z.eqb_refl, ?Hz; reflexivity.
Qed.

Lemma cur_data_script w first lv a dsz z c :
  (first = true -> block_end lv = a) -> dsz a = Some z ->
  (is_init w = true \/ first = true \/ a = c) ->
  cur_data w first lv (Some a) dsz c
  = COk a (match w with
           | WPlain | WSkip | WInit => a + z
           | WDontMove => if first then a else c
           | WInitDontMove => a
           end).
Proof.
  intros Hf Hz Hok. unfold cur_data. destruct first.
  - rewrite (Hf eq_refl), Hz. destruct w; reflexivity.
  - destruct w; cbn [is_init] in Hok;
      try (rewrite Hz; reflexivity); try reflexivity;
      (destruct Hok as [Hok|[Hok|Hok]]; [discriminate|discriminate|]);
      subst c; rewrite Z.eqb_refl, ?Hz; reflexivity.
Qed.

(* ================================================================== *)
(* 2. One call on an image                                             *)
(* ================================================================== *)

Section Image.
  Variables (be : bool) (fs : list fld) (gs : groups) (ds : list ity).
  Variables (block : list Z) (vgs : vgroups) (vds : list (list Z)).
  Variables (hdr : Z) (al : list cacc) (pre post b : list Z) (fuel : nat) (lv : lview).
  Notation l := (Level fs gs ds).
  Notation v := (VLevel block vgs vds).
  Hypothesis Hwg : wf_groups be gs vgs.
  Hypothesis Hwd : datas_fit ds vds.
  Hypothesis Hacc : accs_ok hdr 0 fs al.
  Hypothesis Hfit : Forall (fun f => 0 <= f_off f /\ f_off f + f_size f <= len block) fs.
  Hypothesis Hb : b = pre ++ (block ++ enc_groups be gs vgs ++ enc_datas be ds vds) ++ post.
  Hypothesis Hlt : len b < 2 ^ 64.
  Hypothesis Hfuel : len b <= Z.of_nat fuel.
  Hypothesis Hlvl : lv_level lv = len pre.
  Hypothesis Hst : lv_start lv + hdr = len pre.
  Hypothesis Hst0 : 0 <= lv_start lv.
  Hypothesis Hhdr0 : 0 <= hdr.
  Hypothesis Hbl : lv_bl lv = len block.
  Hypothesis Hend : lv_end lv = len b.

  Definition A_concl (o : lop) (c : Z) : Prop :=
    ra_addr be b fuel l al lv o = Some (img_addr be l v (len pre) o) /\
    req_pos be b fuel l al lv o
      = (if is_first l o then None else Some (img_req be l v (len pre) o)) /\
    doc_after be b fuel l al lv o c = Some (img_after be l v (len pre) o c) /\
    (is_init (lop_wrapper o) = true \/ is_first l o = true \/
     req_pos be b fuel l al lv o = Some c ->
     run_lop be b fuel l al lv o c
     = Some (COk (img_addr be l v (len pre) o) (img_after be l v (len pre) o c))) /\
    (is_init (lop_wrapper o) = false -> is_first l o = false ->
     req_pos be b fuel l al lv o <> Some c ->
     run_lop be b fuel l al lv o c = Some CAssert).

  Let G := enc_groups be gs vgs.
  Let Dt := enc_datas be ds vds.

  Lemma img_block_end : block_end lv = len pre + len block.
  Proof. unfold block_end. lia. Qed.

  Lemma img_split_groups : b = (pre ++ block) ++ G ++ (Dt ++ post).
  Proof. rewrite Hb. unfold G, Dt. now rewrite <- !app_assoc. Qed.

  Lemma img_split_datas : b = ((pre ++ block) ++ G) ++ Dt ++ post.
  Proof. rewrite Hb. unfold G, Dt. now rewrite <- !app_assoc. Qed.

  Lemma img_inside : len pre + len block + len G + len Dt <= len b.
  Proof.
    rewrite Hb. fold G Dt. rewrite !len_app. pose proof (len_nonneg post). lia.
  Qed.

  (* ---- fields ---- *)
  Lemma image_lf k w c : in_range l al (LF k w) = true -> A_concl (LF k w) c.
  Proof.
    intros Hin. cbn [in_range] in Hin.
    destruct (nth_error al k) as [a|] eqn:Ha; [clear Hin|discriminate].
    destruct (accs_ok_nth hdr fs al 0 k a Hacc Ha)
      as (f & Hf & Habs & Hsz & Hsz0 & Hrel0 & Hreq & Hlast).
    assert (Hreq' : f_off f - ca_rel a = field_req fs k) by exact Hreq.
    clear Hreq.
    assert (Hfr : 0 <= field_req fs k).
    { apply field_req_nonneg.
      - eapply Forall_impl; [|exact Hfit]. cbv beta. intros; lia.
      - rewrite Forall_forall. intros f0 Hf0.
        destruct (In_nth_error _ _ Hf0) as [k0 Hk0].
        assert (Hk0' : nth_error al k0 <> None).
        { apply nth_error_Some. rewrite <- (accs_ok_length hdr fs al 0 Hacc).
          apply nth_error_Some. rewrite Hk0. discriminate. }
        destruct (nth_error al k0) as [a0|] eqn:Ha0; [|contradiction].
        destruct (accs_ok_nth hdr fs al 0 k0 a0 Hacc Ha0) as (f1 & Hf1 & _ & _ & H0 & _).
        rewrite Hk0 in Hf1. inversion Hf1. subst f1. exact H0. }
    pose proof (nth_error_In _ _ Hf) as HfIn.
    rewrite Forall_forall in Hfit. destruct (Hfit f HfIn) as [Hoff0 Hoff1].
    pose proof img_inside as Hins. pose proof (len_nonneg pre) as Hp0.
    pose proof (len_nonneg G) as HG0. pose proof (len_nonneg Dt) as HD0.
    pose proof img_block_end as Hbe.
    assert (Haddr : lv_start lv + ca_abs a = len pre + f_off f) by lia.
    assert (Hrp : required_pos lv a = len pre + field_req fs k) by (unfold required_pos; lia).
    assert (Haf : after_field lv a
                  = match nth_error fs (S k) with
                    | None => len pre + len block
                    | Some _ => len pre + f_off f + f_size f
                    end).
    { unfold after_field. rewrite Hlast. destruct (nth_error fs (S k)); lia. }
    assert (Hia : img_addr be l v (len pre) (LF k w) = len pre + f_off f).
    { cbn [img_addr level_fields]. unfold fld_off. rewrite Hf. reflexivity. }
    assert (Hiaf : img_after be l v (len pre) (LF k w) c
                   = match w with
                     | WPlain | WSkip | WInit => after_field lv a
                     | WDontMove => c
                     | WInitDontMove => required_pos lv a
                     end).
    { unfold img_after. rewrite Hia. cbn [level_fields vblock]. unfold fld_size.
      rewrite Hf, Haf, Hrp. destruct w; try reflexivity;
        destruct (nth_error fs (S k)); reflexivity. }
    unfold A_concl. rewrite Hia, Hiaf.
    cbn [ra_addr req_pos doc_after run_lop is_first lop_wrapper img_req level_fields].
    rewrite Ha. cbn [option_map]. rewrite Haddr.
    split; [reflexivity|]. split; [rewrite Hrp; reflexivity|]. split; [reflexivity|].
    split.
    - intros Hok.
      assert (Hview : forall c0, c0 = required_pos lv a -> view_in_buffer lv c0).
      { intros c0 ->. unfold view_in_buffer. lia. }
      assert (Hinit : size_check (lv_start lv) (lv_end lv) (ca_abs a) (chk_size a) = true).
      { pose proof (chk_size_le a ltac:(lia)). apply size_check_ok; lia. }
      f_equal.
      destruct (is_init w) eqn:Hw.
      + destruct w; try discriminate Hw; unfold cur_field; rewrite Hinit; cbn [negb];
          unfold after_field, required_pos; rewrite !Haddr; reflexivity.
      + destruct Hok as [Hok|[Hok|Hok]]; [discriminate|discriminate|].
        injection Hok as Hc. subst c.
        destruct (cur_field_at_required lv a _ (Hview _ eq_refl) Hrel0 ltac:(lia)
                    eq_refl ltac:(lia)) as (H1 & H2 & H3).
        rewrite Haddr in H1, H2, H3.
        destruct w; try discriminate Hw; assumption.
    - intros Hw _ Hne. f_equal.
      apply cur_field_misplaced_reported.
      + destruct w; try discriminate Hw; auto.
      + intros Heq. apply Hne. now rewrite Heq.
  Qed.

  (* ---- groups ---- *)
  Lemma image_lg k w c : in_range l al (LG k w) = true -> A_concl (LG k w) c.
  Proof.
    intros Hin. cbn [in_range level_groups] in Hin.
    destruct (groups_nth gs k) as [[[d cbl] sub]|] eqn:Hg; [clear Hin|discriminate].
    destruct (wf_groups_nth be gs vgs k d cbl sub Hwg Hg) as (bg & es & Hv).
    destruct (nth_group_full be b fuel k gs vgs (pre ++ block) (Dt ++ post) bg es d cbl sub
                Hwg Hfuel img_split_groups Hv Hg) as (Hpos & Hw1 & pre' & post' & Hb' & Hlp').
    set (S1 := enc_groups be (GCons d cbl sub GNil) (VGCons bg es VGNil)) in *.
    set (a := len pre + len block + groups_prefix_len be gs vgs k).
    pose proof img_block_end as Hbe.
    assert (Hla : len (pre ++ block) + groups_prefix_len be gs vgs k = a)
      by (unfold a; rewrite len_app; reflexivity).
    rewrite Hla in Hpos, Hlp'.
    assert (Hra : ra_addr be b fuel l al lv (LG k w) = Some a).
    { cbn [ra_addr level_groups]. rewrite Hbe, <- len_app, Hpos. reflexivity. }
    assert (Hgsz : group_size_at be b fuel d cbl sub a = Some (len S1)).
    { unfold group_size_at. rewrite <- Hlp'.
      rewrite (proj1 (proj2 nav_all) _ be _ b pre' post' fuel Hw1
                 (fuel_groups_b be _ _ b pre' post' fuel Hw1 Hb' Hfuel) Hb').
      cbn [obind]. f_equal. fold S1. lia. }
    assert (Hia : img_addr be l v (len pre) (LG k w) = a) by reflexivity.
    assert (Hfirst : is_first l (LG k w) = true -> block_end lv = a).
    { cbn [is_first]. intros Hk. apply Nat.eqb_eq in Hk. subst k.
      unfold a. rewrite groups_prefix_len_0. lia. }
    assert (Hiaf : img_after be l v (len pre) (LG k w) c
                   = match w with
                     | WPlain | WInit => a + d_size d
                     | WSkip => a + len S1
                     | WDontMove => if is_first l (LG k w) then a else c
                     | WInitDontMove => a
                     end).
    { unfold img_after. rewrite Hia. cbn [level_groups vlevel_groups].
      unfold dim_size_nth, group_len_nth. rewrite Hg, Hv. reflexivity. }
    unfold A_concl. rewrite Hia, Hiaf.
    assert (Hrq : req_pos be b fuel l al lv (LG k w)
                  = if is_first l (LG k w) then None else Some a).
    { cbn [req_pos]. rewrite Hra. reflexivity. }
    rewrite Hrq.
    split; [exact Hra|]. split; [reflexivity|]. split.
    { cbn [doc_after]. rewrite Hra. cbn [obind level_groups]. rewrite Hg.
      destruct w; rewrite ?Hgsz; reflexivity. }
    cbn [run_lop level_groups lop_wrapper]. rewrite Hg, Hra.
    change (Nat.eqb k 0) with (is_first l (LG k w)).
    split.
    - intros Hok. f_equal.
      apply (cur_group_script w _ lv a (d_size d) _ (len S1) c Hfirst Hgsz).
      destruct Hok as [Hok|[Hok|Hok]]; [left; exact Hok|right; left; exact Hok|].
      destruct (is_first l (LG k w)); [discriminate|]. right; right. congruence.
    - intros Hw Hf Hne. rewrite Hf in *. f_equal.
      apply cur_group_misplaced_reported.
      + destruct w; try discriminate Hw; auto.
      + intros Heq. apply Hne. now rewrite Heq.
  Qed.

  (* ---- data ---- *)
  Lemma image_ld k w c : in_range l al (LD k w) = true -> A_concl (LD k w) c.
  Proof.
    intros Hin. cbn [in_range level_datas] in Hin.
    destruct (nth_error ds k) as [t|] eqn:Ht; [clear Hin|discriminate].
    destruct (datas_fit_nth ds vds k t Hwd Ht) as [p Hp].
    destruct (nth_data_full be b ds vds k t p ((pre ++ block) ++ G) post Hwd Ht Hp
                img_split_datas) as [Hpos Hrd].
    set (a := len pre + len block + len G + datas_prefix_len ds vds k).
    pose proof img_block_end as Hbe.
    assert (Hla : len ((pre ++ block) ++ G) + datas_prefix_len ds vds k = a)
      by (unfold a; rewrite !len_app; reflexivity).
    rewrite Hla in Hpos, Hrd.
    assert (Hge : groups_end be b fuel gs (block_end lv) = Some (len ((pre ++ block) ++ G))).
    { rewrite Hbe, <- len_app.
      rewrite (proj1 (proj2 nav_all) vgs be gs b (pre ++ block) (Dt ++ post) fuel Hwg
                 (fuel_groups_b be gs vgs b _ _ fuel Hwg img_split_groups Hfuel)
                 img_split_groups).
      fold G. now rewrite <- len_app. }
    assert (Hra : ra_addr be b fuel l al lv (LD k w) = Some a).
    { cbn [ra_addr level_groups level_datas]. rewrite Hge. cbn [obind]. rewrite Hpos.
      reflexivity. }
    assert (Hdsz : data_size_at be b t a = Some (tbytes t + len p)).
    { unfold data_size_at. rewrite Hrd. reflexivity. }
    assert (Hia : img_addr be l v (len pre) (LD k w) = a) by reflexivity.
    assert (Hfirst : is_first l (LD k w) = true -> block_end lv = a).
    { cbn [is_first level_groups]. intros Hk. apply andb_true_iff in Hk. destruct Hk as [Hk Hge0].
      apply Nat.eqb_eq in Hk. subst k.
      unfold a. rewrite datas_prefix_len_0. unfold G.
      destruct gs; [|discriminate]. rewrite enc_groups_gnil, len_nil. lia. }
    assert (Hiaf : img_after be l v (len pre) (LD k w) c
                   = match w with
                     | WPlain | WSkip | WInit => a + (tbytes t + len p)
                     | WDontMove => if is_first l (LD k w) then a else c
                     | WInitDontMove => a
                     end).
    { unfold img_after. rewrite Hia. cbn [level_datas vlevel_datas].
      unfold data_len_nth. rewrite Ht, Hp. reflexivity. }
    unfold A_concl. rewrite Hia, Hiaf.
    assert (Hrq : req_pos be b fuel l al lv (LD k w)
                  = if is_first l (LD k w) then None else Some a).
    { cbn [req_pos]. rewrite Hra. reflexivity. }
    rewrite Hrq.
    split; [exact Hra|]. split; [reflexivity|]. split.
    { cbn [doc_after]. rewrite Hra. cbn [obind level_datas]. rewrite Ht.
      destruct w; rewrite ?Hdsz; reflexivity. }
    cbn [run_lop level_datas level_groups lop_wrapper]. rewrite Ht, Hra.
    change (Nat.eqb k 0 && groups_empty gs) with (is_first l (LD k w)).
    split.
    - intros Hok. f_equal.
      apply (cur_data_script w _ lv a _ (tbytes t + len p) c Hfirst Hdsz).
      destruct Hok as [Hok|[Hok|Hok]]; [left; exact Hok|right; left; exact Hok|].
      destruct (is_first l (LD k w)); [discriminate|]. right; right. congruence.
    - intros Hw Hf Hne. rewrite Hf in *. f_equal.
      apply cur_data_misplaced_reported.
      + destruct w; try discriminate Hw; auto.
      + intros Heq. apply Hne. now rewrite Heq.
  Qed.

  Lemma image_lop o c : in_range l al o = true -> A_concl o c.
  Proof. destruct o; [apply image_lf|apply image_lg|apply image_ld]. Qed.
End Image.

Theorem run_lop_image : stmt_run_lop_image.
Proof.
  unfold stmt_run_lop_image, embedded.
  intros be l v hdr al pre post b fuel lv o c
    (Hwf & Hacc & Hfit & Hb & Hlt & Hfuel & Hlvl & Hst & Hst0 & Hhdr0 & Hbl & Hend) Hin.
  destruct l as [fs gs ds]. destruct v as [block vgs vds].
  rewrite wf_level_eq in Hwf. destruct Hwf as [Hwg Hwd].
  rewrite enc_level_eq in Hb.
  cbn [level_fields level_groups level_datas vblock] in *.
  exact (image_lop be fs gs ds block vgs vds hdr al pre post b fuel lv
           Hwg Hwd Hacc Hfit Hb Hlt Hfuel Hlvl Hst Hst0 Hhdr0 Hbl Hend o c Hin).
Qed.
Print Assumptions run_lop_image.

(* ================================================================== *)
(* 3. Chain lemmas                                                     *)
(* ================================================================== *)

Theorem chain_field_field : stmt_chain_field_field.
Proof.
  unfold stmt_chain_field_field. intros be b fuel l al lv hdr k w w' c Hacc Hin Hmv.
  cbn [in_range] in Hin.
  destruct (nth_error al (S k)) as [a'|] eqn:Ha'; [clear Hin|discriminate].
  destruct (nth_error_S_some al k a' Ha') as [a Ha].
  destruct (accs_ok_nth hdr _ al 0 k a Hacc Ha) as (f & Hf & Habs & Hsz & _ & _ & _ & Hlast).
  destruct (accs_ok_nth hdr _ al 0 (S k) a' Hacc Ha')
    as (f' & Hf' & Habs' & _ & _ & _ & Hreq' & _).
  rewrite Hf in Hreq'. rewrite Hf' in Hlast.
  cbn [doc_after req_pos]. rewrite Ha, Ha'. cbn [option_map]. f_equal.
  unfold after_field, required_pos. rewrite Hlast.
  destruct w; try discriminate Hmv; lia.
Qed.
Print Assumptions chain_field_field.

Theorem chain_last_field : stmt_chain_last_field.
Proof.
  unfold stmt_chain_last_field. intros be b fuel l al lv hdr k w c Hacc Hin Hout Hmv.
  cbn [in_range] in Hin, Hout.
  destruct (nth_error al k) as [a|] eqn:Ha; [clear Hin|discriminate].
  destruct (nth_error al (S k)) as [a'|] eqn:Ha'; [discriminate|clear Hout].
  destruct (accs_ok_nth hdr _ al 0 k a Hacc Ha) as (f & Hf & _ & _ & _ & _ & _ & Hlast).
  assert (Hn : nth_error (level_fields l) (S k) = None).
  { apply nth_error_None. rewrite (accs_ok_length hdr _ al 0 Hacc).
    apply nth_error_None. exact Ha'. }
  rewrite Hn in Hlast.
  cbn [doc_after]. rewrite Ha. cbn [option_map]. f_equal.
  unfold after_field. rewrite Hlast. destruct w; try discriminate Hmv; reflexivity.
Qed.
Print Assumptions chain_last_field.

Theorem first_member_at_block_end : stmt_first_member_at_block_end.
Proof.
  unfold stmt_first_member_at_block_end. intros be b fuel l al lv o Hf Hin.
  destruct l as [fs gs ds]. destruct o as [k w|k w|k w]; cbn [is_first level_groups] in Hf.
  - discriminate.
  - apply Nat.eqb_eq in Hf. subst k. cbn [in_range level_groups] in Hin.
    destruct gs as [|d cbl sub rest]; [discriminate|]. reflexivity.
  - apply andb_true_iff in Hf. destruct Hf as [Hk Hg]. apply Nat.eqb_eq in Hk. subst k.
    destruct gs; [|discriminate]. cbn [in_range level_datas] in Hin.
    destruct ds as [|t ds]; [discriminate|]. reflexivity.
Qed.
Print Assumptions first_member_at_block_end.

Lemma groups_nth_S_some gs : forall k x, groups_nth gs (S k) = Some x ->
  exists y, groups_nth gs k = Some y.
Proof.
  induction gs as [|d cbl l rest IH]; intros k x H; [discriminate|].
  destruct k as [|k]; cbn [groups_nth] in *; [eauto|]. exact (IH k x H).
Qed.

Lemma wf_groups_nth_single be : forall gs vgs k d cbl sub bg es,
  wf_groups be gs vgs -> groups_nth gs k = Some (d, cbl, sub) ->
  vgroups_nth vgs k = Some (bg, es) ->
  wf_groups be (GCons d cbl sub GNil) (VGCons bg es VGNil).
Proof.
  induction gs as [|d0 cbl0 l0 rest IH]; intros vgs k d cbl sub bg es Hwf Hg Hv.
  - destruct k; discriminate.
  - destruct vgs as [|bg0 es0 vrest]; [contradiction|].
    destruct k as [|k]; cbn [groups_nth vgroups_nth] in *.
    + inversion Hg; subst. inversion Hv; subst. eapply wf_groups_single. exact Hwf.
    + rewrite wf_groups_cons in Hwf. cbv zeta in Hwf.
      destruct Hwf as (_ & _ & _ & _ & _ & _ & _ & _ & Hwr).
      exact (IH vrest k d cbl sub bg es Hwr Hg Hv).
Qed.

(* in-range members are never first unless index 0 *)
Lemma in_range_LG_S l al k w w' : in_range l al (LG (S k) w) = true ->
  in_range l al (LG k w') = true.
Proof.
  cbn [in_range]. destruct (groups_nth (level_groups l) (S k)) as [x|] eqn:E; [|discriminate].
  destruct (groups_nth_S_some _ _ _ E) as [y ->]. reflexivity.
Qed.

Lemma in_range_LD_S l al k w w' : in_range l al (LD (S k) w) = true ->
  in_range l al (LD k w') = true.
Proof.
  cbn [in_range]. destruct (nth_error (level_datas l) (S k)) as [x|] eqn:E; [|discriminate].
  destruct (nth_error_S_some _ _ _ E) as [y ->]. reflexivity.
Qed.

Lemma embedded_wf be l v hdr al pre post b fuel lv :
  embedded be l v hdr al pre post b fuel lv ->
  wf_groups be (level_groups l) (vlevel_groups v) /\
  datas_fit (level_datas l) (vlevel_datas v).
Proof. intros (Hwf & _). apply wf_level_parts. exact Hwf. Qed.

Theorem chain_group_group : stmt_chain_group_group.
Proof.
  unfold stmt_chain_group_group. intros be l v hdr al pre post b fuel lv k w' c Hemb Hin.
  pose proof (in_range_LG_S l al k w' WSkip Hin) as Hin0.
  destruct (run_lop_image be l v hdr al pre post b fuel lv (LG k WSkip) c Hemb Hin0)
    as (_ & _ & Hda & _).
  destruct (run_lop_image be l v hdr al pre post b fuel lv (LG (S k) w') c Hemb Hin)
    as (_ & Hrq & _).
  rewrite Hda, Hrq. cbn [is_first Nat.eqb]. f_equal.
  cbn [img_after img_req img_addr]. rewrite groups_prefix_len_S. lia.
Qed.
Print Assumptions chain_group_group.

Theorem chain_last_group_data : stmt_chain_last_group_data.
Proof.
  unfold stmt_chain_last_group_data.
  intros be l v hdr al pre post b fuel lv k w' c Hemb Hin Hout HinD.
  destruct (embedded_wf _ _ _ _ _ _ _ _ _ _ Hemb) as [Hwg Hwd].
  destruct (run_lop_image be l v hdr al pre post b fuel lv (LG k WSkip) c Hemb Hin)
    as (_ & _ & Hda & _).
  destruct (run_lop_image be l v hdr al pre post b fuel lv (LD 0 w') c Hemb HinD)
    as (_ & Hrq & _).
  rewrite Hda, Hrq.
  cbn [in_range] in Hin, Hout.
  assert (Hnf : is_first l (LD 0 w') = false).
  { cbn [is_first Nat.eqb andb]. destruct (level_groups l); [|reflexivity].
    destruct k; discriminate. }
  rewrite Hnf. f_equal.
  cbn [img_after img_req img_addr].
  destruct (groups_nth (level_groups l) (S k)) eqn:Hn; [discriminate|].
  rewrite <- (groups_prefix_len_all be (S k) _ _ Hwg Hn), groups_prefix_len_S,
    datas_prefix_len_0. lia.
Qed.
Print Assumptions chain_last_group_data.

Theorem chain_data_data : stmt_chain_data_data.
Proof.
  unfold stmt_chain_data_data. intros be l v hdr al pre post b fuel lv k w w' c Hemb Hin Hmv.
  pose proof (in_range_LD_S l al k w' w Hin) as Hin0.
  destruct (run_lop_image be l v hdr al pre post b fuel lv (LD k w) c Hemb Hin0)
    as (_ & _ & Hda & _).
  destruct (run_lop_image be l v hdr al pre post b fuel lv (LD (S k) w') c Hemb Hin)
    as (_ & Hrq & _).
  rewrite Hda, Hrq. cbn [is_first Nat.eqb andb]. f_equal.
  cbn [img_after img_req img_addr]. rewrite datas_prefix_len_S.
  destruct w; try discriminate Hmv; lia.
Qed.
Print Assumptions chain_data_data.

Theorem chain_empty_group : stmt_chain_empty_group.
Proof.
  unfold stmt_chain_empty_group.
  intros be l v hdr al pre post b fuel lv k w bg c Hemb Hin Hv Hw.
  destruct (embedded_wf _ _ _ _ _ _ _ _ _ _ Hemb) as [Hwg Hwd].
  assert (Hin' : in_range l al (LG k WSkip) = true) by exact Hin.
  destruct (run_lop_image be l v hdr al pre post b fuel lv (LG k w) c Hemb Hin)
    as (_ & _ & Hda & _).
  destruct (run_lop_image be l v hdr al pre post b fuel lv (LG k WSkip) c Hemb Hin')
    as (_ & _ & Hda' & _).
  rewrite Hda, Hda'. f_equal.
  cbn [in_range] in Hin.
  destruct (groups_nth (level_groups l) k) as [[[d cbl] sub]|] eqn:Hg; [|discriminate].
  pose proof (wf_groups_nth_single be _ _ k d cbl sub bg VENil Hwg Hg Hv) as Hw1.
  rewrite wf_groups_cons in Hw1. cbv zeta in Hw1. destruct Hw1 as (Hd & Hlen & _).
  assert (Hsz : group_len_nth be (level_groups l) (vlevel_groups v) k = d_size d).
  { unfold group_len_nth. rewrite Hg, Hv, enc_groups_single.
    cbn [enc_entries]. rewrite app_nil_r. apply len_dim_bytes; assumption. }
  assert (Hds : dim_size_nth (level_groups l) k = d_size d)
    by (unfold dim_size_nth; rewrite Hg; reflexivity).
  unfold img_after. rewrite Hsz, Hds. destruct Hw as [-> | ->]; reflexivity.
Qed.
Print Assumptions chain_empty_group.

Theorem chain_end_of_level : stmt_chain_end_of_level.
Proof.
  unfold stmt_chain_end_of_level. intros be l v hdr al pre post b fuel lv k w c Hemb.
  destruct (embedded_wf _ _ _ _ _ _ _ _ _ _ Hemb) as [Hwg Hwd].
  split.
  - intros Hin Hout Hmv.
    destruct (run_lop_image be l v hdr al pre post b fuel lv (LD k w) c Hemb Hin)
      as (_ & _ & Hda & _).
    rewrite Hda. f_equal. cbn [in_range] in Hout.
    destruct (nth_error (level_datas l) (S k)) eqn:Hn; [discriminate|].
    rewrite enc_level_parts, !len_app.
    rewrite <- (datas_prefix_len_all (S k) _ _ be Hwd Hn), datas_prefix_len_S.
    cbn [img_after img_addr]. destruct w; try discriminate Hmv; lia.
  - intros Hds Hin Hout.
    destruct (run_lop_image be l v hdr al pre post b fuel lv (LG k WSkip) c Hemb Hin)
      as (_ & _ & Hda & _).
    rewrite Hda. f_equal. cbn [in_range] in Hout.
    destruct (groups_nth (level_groups l) (S k)) eqn:Hn; [discriminate|].
    rewrite enc_level_parts, !len_app, Hds.
    rewrite <- (groups_prefix_len_all be (S k) _ _ Hwg Hn), groups_prefix_len_S.
    cbn [img_after img_addr enc_datas]. rewrite len_nil. lia.
Qed.
Print Assumptions chain_end_of_level.

(* ================================================================== *)
(* 4. Sequences                                                        *)
(* ================================================================== *)

Theorem legal_cons : stmt_legal_cons.
Proof.
  unfold stmt_legal_cons, legal. intros be l v hdr al pre post b fuel lv o ops c Hemb.
  cbn [legalb]. split.
  - intros H. apply andb_true_iff in H. destruct H as [H H3].
    apply andb_true_iff in H. destruct H as [H1 H2].
    destruct (run_lop_image be l v hdr al pre post b fuel lv o c Hemb H1) as (_ & _ & Hda & _).
    rewrite Hda in H3.
    split; [exact H1|]. split; [apply op_ok_iff; exact H2|exact H3].
  - intros (H1 & H2 & H3).
    destruct (run_lop_image be l v hdr al pre post b fuel lv o c Hemb H1) as (_ & _ & Hda & _).
    apply op_ok_iff in H2. rewrite Hda, H1, H2, H3. reflexivity.
Qed.
Print Assumptions legal_cons.

Theorem run_script_legal : stmt_run_script_legal.
Proof.
  unfold stmt_run_script_legal. intros be l v hdr al pre post b fuel lv ops c Hemb.
  revert c. induction ops as [|o ops IH]; intros c Hl.
  - cbn [run_script spec_script img_script map]. repeat split; reflexivity.
  - apply (legal_cons be l v hdr al pre post b fuel lv o ops c Hemb) in Hl.
    destruct Hl as (H1 & H2 & H3).
    destruct (run_lop_image be l v hdr al pre post b fuel lv o c Hemb H1)
      as (Hra & _ & Hda & Hrun & _).
    specialize (Hrun H2). destruct (IH _ H3) as (I1 & I2 & I3).
    cbn [run_script spec_script img_script]. rewrite Hrun, Hra, Hda.
    cbn [map fst]. rewrite I1, I2, <- I2, <- I1, I3. repeat split; reflexivity.
Qed.
Print Assumptions run_script_legal.

Theorem run_script_misuse : stmt_run_script_misuse.
Proof.
  unfold stmt_run_script_misuse.
  intros be l v hdr al pre post b fuel lv ops o rest c Hemb. revert c.
  induction ops as [|o0 ops IH]; intros c Hl Hin Hw Hf Hne.
  - cbn [app run_script spec_script end_cursor] in *.
    destruct (run_lop_image be l v hdr al pre post b fuel lv o c Hemb Hin)
      as (_ & _ & _ & _ & Hbad).
    rewrite (Hbad Hw Hf Hne). reflexivity.
  - apply (legal_cons be l v hdr al pre post b fuel lv o0 ops c Hemb) in Hl.
    destruct Hl as (H1 & H2 & H3).
    destruct (run_lop_image be l v hdr al pre post b fuel lv o0 c Hemb H1)
      as (Hra & _ & Hda & Hrun & _).
    specialize (Hrun H2).
    cbn [end_cursor] in Hne. rewrite Hda in Hne.
    cbn [app run_script spec_script]. rewrite Hrun, Hra, Hda. cbn [app]. f_equal.
    exact (IH _ H3 Hin Hw Hf Hne).
Qed.
Print Assumptions run_script_misuse.

(* ================================================================== *)
(* 4b. The schema-order script                                         *)
(* ================================================================== *)

Lemma legalb_app be b fuel l al lv : forall o1 o2 c,
  legalb be b fuel l al lv (o1 ++ o2) c
  = legalb be b fuel l al lv o1 c
    && legalb be b fuel l al lv o2 (end_cursor be b fuel l al lv o1 c).
Proof.
  induction o1 as [|o o1 IH]; intros o2 c.
  - reflexivity.
  - cbn [app legalb end_cursor].
    destruct (doc_after be b fuel l al lv o c) as [c'|].
    + rewrite IH. now rewrite !andb_assoc.
    + now rewrite !andb_false_r.
Qed.

Lemma end_cursor_app be b fuel l al lv : forall o1 o2 c,
  legalb be b fuel l al lv o1 c = true ->
  end_cursor be b fuel l al lv (o1 ++ o2) c
  = end_cursor be b fuel l al lv o2 (end_cursor be b fuel l al lv o1 c).
Proof.
  induction o1 as [|o o1 IH]; intros o2 c Hl.
  - reflexivity.
  - cbn [app legalb end_cursor] in *.
    destruct (doc_after be b fuel l al lv o c) as [c'|].
    + apply andb_true_iff in Hl. destruct Hl as [_ Hl]. exact (IH o2 c' Hl).
    + rewrite andb_false_r in Hl. discriminate.
Qed.

Lemma groups_nth_count gs : forall k,
  (k < groups_count gs)%nat <-> groups_nth gs k <> None.
Proof.
  induction gs as [|d cbl l0 rest IH]; intros k; cbn [groups_count].
  - split; [lia|]. destruct k; intros H; exfalso; apply H; reflexivity.
  - destruct k as [|k]; cbn [groups_nth].
    + split; [discriminate|lia].
    + rewrite <- IH. lia.
Qed.

Section Schema.
  Variables (be : bool) (l : level) (v : vlevel) (hdr : Z) (al : list cacc).
  Variables (pre post b : list Z) (fuel : nat) (lv : lview).
  Hypothesis Hemb : embedded be l v hdr al pre post b fuel lv.

  Notation base := (len pre).
  Notation LEGAL := (legal be b fuel l al lv).
  Notation ENDC := (end_cursor be b fuel l al lv).

  Lemma end_cursor_cons o ops c : in_range l al o = true ->
    ENDC (o :: ops) c = ENDC ops (img_after be l v base o c).
  Proof.
    intros Hin.
    destruct (run_lop_image be l v hdr al pre post b fuel lv o c Hemb Hin) as (_ & _ & Hda & _).
    cbn [end_cursor]. rewrite Hda. reflexivity.
  Qed.

  Lemma req_pos_img o c : in_range l al o = true -> is_first l o = false ->
    c = img_req be l v base o -> req_pos be b fuel l al lv o = Some c.
  Proof.
    intros Hin Hf ->.
    destruct (run_lop_image be l v hdr al pre post b fuel lv o 0 Hemb Hin) as (_ & Hrq & _).
    rewrite Hrq, Hf. reflexivity.
  Qed.

  Lemma seg_fields : forall n k c,
    (k + n = length al)%nat ->
    (n <> O -> c = base + field_req (level_fields l) k) ->
    LEGAL (map (fun k => LF k WPlain) (seq k n)) c /\
    ENDC (map (fun k => LF k WPlain) (seq k n)) c
    = (if Nat.eqb n 0 then c else base + len (vblock v)).
  Proof.
    destruct Hemb as (_ & Hacc & _).
    pose proof (accs_ok_length hdr _ al 0 Hacc) as Hlen.
    induction n as [|n IH]; intros k c Hk Hc.
    - split; reflexivity.
    - cbn [seq map].
      assert (Hin : in_range l al (LF k WPlain) = true).
      { cbn [in_range]. destruct (nth_error al k) eqn:E; [reflexivity|].
        apply nth_error_None in E. lia. }
      assert (Hfk : exists f, nth_error (level_fields l) k = Some f).
      { destruct (nth_error (level_fields l) k) eqn:E; [eauto|].
        apply nth_error_None in E. lia. }
      destruct Hfk as [f Hf].
      set (c' := img_after be l v base (LF k WPlain) c).
      assert (Hc' : n <> O -> c' = base + field_req (level_fields l) (S k)).
      { intros Hn. unfold c'. cbn [img_after img_addr field_req].
        unfold fld_off, fld_size. rewrite Hf.
        destruct (nth_error (level_fields l) (S k)) eqn:E; [lia|].
        apply nth_error_None in E. lia. }
      destruct (IH (S k) c' ltac:(lia) Hc') as [IH1 IH2].
      split.
      + apply (legal_cons be l v hdr al pre post b fuel lv _ _ c Hemb).
        split; [exact Hin|]. split; [|exact IH1].
        right; right. apply req_pos_img; [exact Hin|reflexivity|].
        cbn [img_req]. apply Hc. discriminate.
      + rewrite (end_cursor_cons _ _ _ Hin). fold c'. rewrite IH2.
        cbn [Nat.eqb]. destruct n as [|n]; cbn [Nat.eqb]; [|reflexivity].
        unfold c'. cbn [img_after].
        destruct (nth_error (level_fields l) (S k)) eqn:E; [|reflexivity].
        assert (Hne : nth_error (level_fields l) (S k) <> None) by (rewrite E; discriminate).
        apply nth_error_Some in Hne. lia.
  Qed.

  Lemma seg_groups : forall n k c,
    (k + n = groups_count (level_groups l))%nat ->
    (k <> O -> n <> O -> c = img_addr be l v base (LG k WSkip)) ->
    LEGAL (map (fun k => LG k WSkip) (seq k n)) c /\
    ENDC (map (fun k => LG k WSkip) (seq k n)) c
    = (if Nat.eqb n 0 then c
       else base + len (vblock v) + len (enc_groups be (level_groups l) (vlevel_groups v))).
  Proof.
    destruct (embedded_wf _ _ _ _ _ _ _ _ _ _ Hemb) as [Hwg _].
    induction n as [|n IH]; intros k c Hk Hc.
    - split; reflexivity.
    - cbn [seq map].
      assert (Hin : in_range l al (LG k WSkip) = true).
      { cbn [in_range]. destruct (groups_nth (level_groups l) k) eqn:E; [reflexivity|].
        exfalso. revert E. apply groups_nth_count. lia. }
      set (c' := img_after be l v base (LG k WSkip) c).
      assert (Hc'v : c' = img_addr be l v base (LG (S k) WSkip)).
      { unfold c'. cbn [img_after img_addr]. rewrite groups_prefix_len_S. lia. }
      destruct (IH (S k) c' ltac:(lia) (fun _ _ => Hc'v)) as [IH1 IH2].
      split.
      + apply (legal_cons be l v hdr al pre post b fuel lv _ _ c Hemb).
        split; [exact Hin|]. split; [|exact IH1].
        destruct k as [|k]; [right; left; reflexivity|].
        right; right. apply req_pos_img; [exact Hin|reflexivity|].
        cbn [img_req]. apply Hc; discriminate.
      + rewrite (end_cursor_cons _ _ _ Hin). fold c'. rewrite IH2.
        cbn [Nat.eqb]. destruct n as [|n]; cbn [Nat.eqb]; [|reflexivity].
        rewrite Hc'v. cbn [img_addr].
        rewrite (groups_prefix_len_all be (S k) _ _ Hwg); [reflexivity|].
        destruct (groups_nth (level_groups l) (S k)) eqn:E; [|reflexivity].
        assert (Hne : groups_nth (level_groups l) (S k) <> None) by (rewrite E; discriminate).
        apply groups_nth_count in Hne. lia.
  Qed.

  Lemma seg_datas : forall n k c,
    (k + n = length (level_datas l))%nat ->
    (is_first l (LD k WPlain) = false -> n <> O -> c = img_addr be l v base (LD k WPlain)) ->
    LEGAL (map (fun k => LD k WPlain) (seq k n)) c /\
    ENDC (map (fun k => LD k WPlain) (seq k n)) c
    = (if Nat.eqb n 0 then c
       else base + len (vblock v) + len (enc_groups be (level_groups l) (vlevel_groups v))
            + len (enc_datas be (level_datas l) (vlevel_datas v))).
  Proof.
    destruct (embedded_wf _ _ _ _ _ _ _ _ _ _ Hemb) as [_ Hwd].
    induction n as [|n IH]; intros k c Hk Hc.
    - split; reflexivity.
    - cbn [seq map].
      assert (Hin : in_range l al (LD k WPlain) = true).
      { cbn [in_range]. destruct (nth_error (level_datas l) k) eqn:E; [reflexivity|].
        apply nth_error_None in E. lia. }
      set (c' := img_after be l v base (LD k WPlain) c).
      assert (Hc'v : c' = img_addr be l v base (LD (S k) WPlain)).
      { unfold c'. cbn [img_after img_addr]. rewrite datas_prefix_len_S. lia. }
      destruct (IH (S k) c' ltac:(lia) (fun _ _ => Hc'v)) as [IH1 IH2].
      split.
      + apply (legal_cons be l v hdr al pre post b fuel lv _ _ c Hemb).
        split; [exact Hin|]. split; [|exact IH1].
        destruct (is_first l (LD k WPlain)) eqn:Hf; [right; left; reflexivity|].
        right; right. apply req_pos_img; [exact Hin|exact Hf|].
        cbn [img_req]. apply Hc; [reflexivity|discriminate].
      + rewrite (end_cursor_cons _ _ _ Hin). fold c'. rewrite IH2.
        cbn [Nat.eqb]. destruct n as [|n]; cbn [Nat.eqb]; [|reflexivity].
        rewrite Hc'v. cbn [img_addr].
        rewrite (datas_prefix_len_all (S k) _ _ be Hwd); [reflexivity|].
        apply nth_error_None. lia.
  Qed.

  Lemma schema_script_legal_aux :
    LEGAL (schema_script l al) base /\
    (schema_script l al <> [] -> ENDC (schema_script l al) base = base + len (enc_level be l v)).
  Proof.
    unfold schema_script.
    set (F := map (fun k => LF k WPlain) (seq 0 (length al))).
    set (Gs := map (fun k => LG k WSkip) (seq 0 (groups_count (level_groups l)))).
    set (Ds := map (fun k => LD k WPlain) (seq 0 (length (level_datas l)))).
    destruct (embedded_wf _ _ _ _ _ _ _ _ _ _ Hemb) as [Hwg Hwd].
    destruct (seg_fields (length al) 0 base eq_refl) as [HF1 HF2].
    { intros _. cbn [field_req]. lia. }
    fold F in HF1, HF2.
    set (c1 := ENDC F base) in *.
    destruct (seg_groups (groups_count (level_groups l)) 0 c1 eq_refl) as [HG1 HG2].
    { intros H; contradiction. }
    fold Gs in HG1, HG2.
    set (c2 := ENDC Gs c1) in *.
    destruct (seg_datas (length (level_datas l)) 0 c2 eq_refl) as [HD1 HD2].
    { intros Hf Hn. cbn [is_first Nat.eqb andb] in Hf. cbn [img_addr].
      rewrite datas_prefix_len_0, HG2.
      destruct (level_groups l); [discriminate|]. cbn [groups_count Nat.eqb]. lia. }
    fold Ds in HD1, HD2.
    assert (HGD : LEGAL (Gs ++ Ds) c1).
    { unfold legal. rewrite legalb_app. fold c2. apply andb_true_iff. split; assumption. }
    split.
    - unfold legal. rewrite legalb_app. fold c1. apply andb_true_iff. split; assumption.
    - intros Hne.
      rewrite (end_cursor_app _ _ _ _ _ _ F (Gs ++ Ds) base HF1). fold c1.
      rewrite (end_cursor_app _ _ _ _ _ _ Gs Ds c1 HG1). fold c2.
      rewrite HD2, enc_level_parts, !len_app.
      destruct (level_datas l) as [|t ds] eqn:Hds; cbn [length Nat.eqb]; [|lia].
      cbn [enc_datas]. rewrite len_nil. rewrite HG2.
      destruct (level_groups l) as [|d cbl sub rest] eqn:Hgs; cbn [groups_count Nat.eqb]; [|lia].
      rewrite enc_groups_gnil, len_nil. rewrite HF2.
      destruct al as [|a al']; cbn [length Nat.eqb]; [|lia].
      exfalso. apply Hne. unfold F, Gs, Ds. rewrite ?Hds, ?Hgs. reflexivity.
  Qed.
End Schema.

Theorem schema_script_legal : stmt_schema_script_legal.
Proof.
  unfold stmt_schema_script_legal. intros be l v hdr al pre post b fuel lv Hemb.
  exact (schema_script_legal_aux be l v hdr al pre post b fuel lv Hemb).
Qed.
Print Assumptions schema_script_legal.

(* ================================================================== *)
(* 5. The view of the "cur" command                                    *)
(* ================================================================== *)

Theorem embedded_any_path : stmt_embedded_any_path.
Proof.
  unfold stmt_embedded_any_path.
  intros be m hdrbg v pre post path l' v' off al. cbv zeta.
  set (b := pre ++ enc_message be m hdrbg v ++ post).
  intros Hwf Hlt Hres Hacc Hfit.
  assert (Hb : b = pre ++ enc_message be m hdrbg v ++ post) by reflexivity.
  clearbody b.
  pose proof (msg_wf_level be m hdrbg v Hwf) as Hwl.
  pose proof (msg_buffer_split be m hdrbg v b pre post Hb) as Hsplit.
  pose proof (len_pre_hdr be m hdrbg v pre Hwf) as Hlh.
  destruct (resolve_enc be b (default_fuel b) path (m_level m) v _ _ l' v' off Hwl
              (default_fuel_len b) Hsplit Hres) as (Hr & Hwf' & pre' & post' & Hb' & Hlen').
  rewrite Hlh in Hlen', Hr.
  exists pre', post'. split; [|split; [exact Hlen'|]].
  - unfold msg_resolve. rewrite (msg_block_length_enc be m hdrbg v b pre post Hwf Hb).
    cbn [obind]. rewrite Hr, Hlen'. reflexivity.
  - assert (Hh0 : 0 <= m_hdr_size m).
    { destruct Hwf as (_ & _ & _ & H3 & _). rewrite <- H3. apply len_nonneg. }
    pose proof (len_nonneg pre) as Hp0. pose proof (len_nonneg pre') as Hp0'.
    unfold embedded. repeat (split; [first [assumption | apply default_fuel_len]|]).
    unfold path_lview, path_hdr. cbn [lv_level lv_start lv_bl lv_end].
    destruct path as [|s path].
    + cbn [vresolve] in Hres. inversion Hres; subst l' v' off.
      repeat split; try reflexivity; lia.
    + repeat split; try reflexivity; lia.
Qed.
Print Assumptions embedded_any_path.

Theorem run_cur_legal : stmt_run_cur_legal.
Proof.
  unfold stmt_run_cur_legal.
  intros be m hdrbg v pre post path l' v' off al start ops. cbv zeta.
  set (b := pre ++ enc_message be m hdrbg v ++ post).
  set (pos := len pre + m_hdr_size m + off).
  set (c := match start with None => pos | Some o => len pre + o end).
  intros Hwf Hlt Hres Hacc Hfit Hl.
  destruct (embedded_any_path be m hdrbg v pre post path l' v' off al Hwf Hlt Hres Hacc Hfit)
    as (pre' & post' & Hr & Hlen' & Hemb).
  fold b in Hr, Hemb. fold pos in Hlen'. rewrite Hlen' in Hr. rewrite Hlen' in Hemb.
  unfold run_cur. rewrite Hr. cbn [obind]. f_equal.
  fold c.
  destruct (run_script_legal be l' v' _ al pre' post' b _ _ ops c Hemb Hl) as (H1 & H2 & _).
  rewrite H1, H2, Hlen'. reflexivity.
Qed.
Print Assumptions run_cur_legal.

(* ================================================================== *)
(* 5b. run_lop and the OCaml glue                                      *)
(* ================================================================== *)

Lemma nth_group_pos_groups_nth be b fuel : forall gs k pos gp d cbl sub,
  nth_group_pos be b fuel gs k pos = Some (gp, d, cbl, sub) ->
  groups_nth gs k = Some (d, cbl, sub).
Proof.
  induction gs as [|d0 cbl0 l0 rest IH]; intros k pos gp d cbl sub H; [discriminate|].
  destruct k as [|k]; cbn [nth_group_pos groups_nth] in *.
  - inversion H. reflexivity.
  - destruct (groups_end be b fuel (GCons d0 cbl0 l0 GNil) pos) as [p|]; [|discriminate].
    cbn [obind] in H. exact (IH k p gp d cbl sub H).
Qed.

Lemma nth_group_pos_none_in_range be b fuel : forall gs k pos,
  groups_nth gs k = None -> nth_group_pos be b fuel gs k pos = None.
Proof.
  induction gs as [|d0 cbl0 l0 rest IH]; intros k pos H; [reflexivity|].
  destruct k as [|k]; cbn [nth_group_pos groups_nth] in *; [discriminate|].
  destruct (groups_end be b fuel (GCons d0 cbl0 l0 GNil) pos) as [p|]; [|reflexivity].
  cbn [obind]. exact (IH k p H).
Qed.

Theorem run_lop_is_glue : stmt_run_lop_is_glue.
Proof.
  unfold stmt_run_lop_is_glue. intros be b fuel l al lv k w c. split.
  - unfold glue_group. cbn [run_lop ra_addr]. unfold block_end.
    destruct (nth_group_pos be b fuel (level_groups l) k (lv_level lv + lv_bl lv))
      as [[[[gp d] cbl] sub]|] eqn:Hp.
    + rewrite (nth_group_pos_groups_nth be b fuel _ _ _ _ _ _ _ Hp). reflexivity.
    + destruct (groups_nth (level_groups l) k) as [[[d cbl] sub]|]; reflexivity.
  - unfold glue_data. cbn [run_lop ra_addr]. unfold block_end.
    destruct (nth_error (level_datas l) k) as [t|]; [|reflexivity].
    destruct (groups_end be b fuel (level_groups l) (lv_level lv + lv_bl lv)) as [ge|];
      [|reflexivity].
    cbn [obind].
    destruct (nth_data_pos be b (level_datas l) k ge) as [[dp t']|]; reflexivity.
Qed.
Print Assumptions run_lop_is_glue.

(* ================================================================== *)
(* 6. Non-vacuity: a concrete level                                    *)
(* ================================================================== *)

Module Ex.
  Definition d : dim :=
    {| d_size := 4; d_bl_off := 0; d_bl_t := U16; d_n_off := 2; d_n_t := U16; d_fills := [] |}.
  (* group 0: flat entries; group 1: entries with a data member (nested) *)
  Definition sub0 : level := Level [ {| f_off := 0; f_size := 2 |} ] GNil [].
  Definition sub1 : level := Level [ {| f_off := 0; f_size := 1 |} ] GNil [U8].
  (* two fields (a 2-byte gap before the second), two groups, two data *)
  Definition l : level :=
    Level [ {| f_off := 0; f_size := 2 |}; {| f_off := 4; f_size := 4 |} ]
          (GCons d 2 sub0 (GCons d 1 sub1 GNil)) [U16; U8].
  Definition hdr : Z := 8.
  Definition al : list cacc :=
    [ {| ca_rel := 0; ca_abs := 8; ca_size := 2; ca_last := false; ca_view := false |};
      {| ca_rel := 2; ca_abs := 12; ca_size := 4; ca_last := true; ca_view := false |} ].
  (* wire block of 10 bytes (the fields end at 8: extended block);
     group 0 has 0 entries, group 1 has 2 entries *)
  Definition v : vlevel :=
    VLevel [1;2;3;4;5;6;7;8;9;10]
      (VGCons [2;0;0;0] VENil
      (VGCons [0;0;0;0] (VECons (VLevel [5] VGNil [[1;2]]) (VECons (VLevel [6] VGNil [[]]) VENil))
       VGNil))
      [[7;7;7]; [8]].
  Definition pre : list Z := [9;9;9; 0;0;0;0;0;0;0;0].   (* 3 foreign bytes + 8 header bytes *)
  Definition post : list Z := [9;9].
  Definition b : list Z := pre ++ enc_level false l v ++ post.
  Definition lv : lview := {| lv_start := 3; lv_level := 11; lv_bl := 10; lv_end := len b |}.
  Definition fuel : nat := default_fuel b.

  Lemma emb : embedded false l v hdr al pre post b fuel lv.
  Proof.
    unfold embedded, wf_dim, fits, is_unsigned_ity. cbn.
    repeat split; try lia; try reflexivity; try (vm_compute; congruence);
      try (left; vm_compute; congruence); repeat constructor; cbn; lia.
  Qed.

  (* every member, every wrapper kind, in an order that is legal *)
  Definition legal_script : list lop :=
    [ LF 0 WPlain; LF 1 WDontMove; LF 1 WSkip;
      LG 0 WDontMove; LG 0 WPlain; LG 1 WInitDontMove; LG 1 WDontMove; LG 1 WSkip;
      LD 0 WDontMove; LD 0 WPlain; LD 1 WInit ].

  Example legal_script_is_legal : legal false b fuel l al lv legal_script 11.
  Proof. vm_compute. reflexivity. Qed.

  Example legal_script_runs :
    run_script false b fuel l al lv legal_script 11
    = [(LF 0 WPlain, COk 11 13); (LF 1 WDontMove, COk 15 13); (LF 1 WSkip, COk 15 21);
       (LG 0 WDontMove, COk 21 21); (LG 0 WPlain, COk 21 25);
       (LG 1 WInitDontMove, COk 25 25); (LG 1 WDontMove, COk 25 25); (LG 1 WSkip, COk 25 35);
       (LD 0 WDontMove, COk 35 35); (LD 0 WPlain, COk 35 40); (LD 1 WInit, COk 40 42)].
  Proof. vm_compute. reflexivity. Qed.

  (* ... as the theorem says, ending at the end of the image *)
  Example legal_script_by_theorem :
    run_script false b fuel l al lv legal_script 11 = img_script false l v (len pre) legal_script 11
    /\ end_cursor false b fuel l al lv legal_script 11 = len pre + len (enc_level false l v).
  Proof.
    destruct (run_script_legal false l v hdr al pre post b fuel lv legal_script 11 emb
                legal_script_is_legal) as (H1 & H2 & _).
    split; [rewrite H1; exact H2|vm_compute; reflexivity].
  Qed.

  (* init-type calls make any order legal, from any start cursor *)
  Definition jumping_script : list lop :=
    [ LD 1 WInitDontMove; LD 1 WSkip; LF 1 WInit; LG 0 WSkip; LG 1 WPlain;
      LF 0 WInitDontMove; LF 0 WSkip ].

  Example jumping_script_runs :
    legal false b fuel l al lv jumping_script 0 /\
    run_script false b fuel l al lv jumping_script 0
    = [(LD 1 WInitDontMove, COk 40 40); (LD 1 WSkip, COk 40 42); (LF 1 WInit, COk 15 21);
       (LG 0 WSkip, COk 21 25); (LG 1 WPlain, COk 25 29);
       (LF 0 WInitDontMove, COk 11 11); (LF 0 WSkip, COk 11 13)].
  Proof. split; vm_compute; reflexivity. Qed.

  (* misuse: data 0 with the cursor still after group 0 (group 1 not skipped);
     the call after the report is not executed *)
  Definition illegal_script : list lop := [ LF 0 WPlain; LG 0 WSkip; LD 0 WPlain; LD 1 WPlain ].

  Example illegal_script_runs :
    legalb false b fuel l al lv illegal_script 11 = false /\
    run_script false b fuel l al lv illegal_script 11
    = [(LF 0 WPlain, COk 11 13); (LG 0 WSkip, COk 21 25); (LD 0 WPlain, CAssert)].
  Proof. split; vm_compute; reflexivity. Qed.

  Example illegal_script_by_theorem :
    run_script false b fuel l al lv ([LF 0 WPlain; LG 0 WSkip] ++ LD 0 WPlain :: [LD 1 WPlain]) 11
    = spec_script false b fuel l al lv [LF 0 WPlain; LG 0 WSkip] 11 ++ [(LD 0 WPlain, CAssert)].
  Proof.
    apply (run_script_misuse false l v hdr al pre post b fuel lv _ _ _ 11 emb);
      vm_compute; try reflexivity. discriminate.
  Qed.

  (* field-only misuse: the second field read twice with the plain cursor *)
  Example field_misuse :
    run_script false b fuel l al lv [LF 0 WPlain; LF 1 WPlain; LF 1 WPlain] 11
    = [(LF 0 WPlain, COk 11 13); (LF 1 WPlain, COk 15 21); (LF 1 WPlain, CAssert)].
  Proof. vm_compute. reflexivity. Qed.

  (* the schema-order script of (C') *)
  Example schema_script_runs :
    schema_script l al
    = [LF 0 WPlain; LF 1 WPlain; LG 0 WSkip; LG 1 WSkip; LD 0 WPlain; LD 1 WPlain] /\
    run_script false b fuel l al lv (schema_script l al) 11
    = [(LF 0 WPlain, COk 11 13); (LF 1 WPlain, COk 15 21); (LG 0 WSkip, COk 21 25);
       (LG 1 WSkip, COk 25 35); (LD 0 WPlain, COk 35 40); (LD 1 WPlain, COk 40 42)].
  Proof. split; vm_compute; reflexivity. Qed.

  (* the same level as the root of a message, through the "cur" command:
     the root level and entry 1 of group 1 *)
  Definition m : message :=
    {| m_hdr_size := 8; m_bl_off := 0; m_bl_t := U16; m_cbl := 8; m_fills := [];
       m_level := l |}.
  Definition hdrbg : list Z := [0;0;0;0;0;0;0;0].
  Definition mb : list Z := [9;9;9] ++ enc_message false m hdrbg v ++ post.
  Definition al1 : list cacc :=
    [ {| ca_rel := 0; ca_abs := 0; ca_size := 1; ca_last := true; ca_view := false |} ].

  Lemma wfm : wf_message false m hdrbg v /\ len mb < 2 ^ 64.
  Proof.
    unfold wf_message, wf_dim, fits, is_unsigned_ity. cbn.
    repeat split; try lia; try reflexivity; try (vm_compute; congruence);
      try (left; vm_compute; congruence); repeat constructor; cbn; lia.
  Qed.

  Example cur_root_runs :
    run_cur false mb m 3 [] al None legal_script
    = Some [(LF 0 WPlain, COk 11 13); (LF 1 WDontMove, COk 15 13); (LF 1 WSkip, COk 15 21);
       (LG 0 WDontMove, COk 21 21); (LG 0 WPlain, COk 21 25);
       (LG 1 WInitDontMove, COk 25 25); (LG 1 WDontMove, COk 25 25); (LG 1 WSkip, COk 25 35);
       (LD 0 WDontMove, COk 35 35); (LD 0 WPlain, COk 35 40); (LD 1 WInit, COk 40 42)].
  Proof. vm_compute. reflexivity. Qed.

  Example cur_entry_runs :
    run_cur false mb m 3 [SGroup 1 1] al1 None [LF 0 WPlain; LD 0 WDontMove; LD 0 WSkip; LF 0 WSkip]
    = Some [(LF 0 WPlain, COk 33 34); (LD 0 WDontMove, COk 34 34); (LD 0 WSkip, COk 34 35);
            (LF 0 WSkip, CAssert)].
  Proof. vm_compute. reflexivity. Qed.

  Example cur_entry_by_theorem :
    run_cur false mb m 3 [SGroup 1 1] al1 None [LF 0 WPlain; LD 0 WDontMove; LD 0 WSkip]
    = Some (img_script false sub1 (VLevel [6] VGNil [[]]) 33
              [LF 0 WPlain; LD 0 WDontMove; LD 0 WSkip] 33).
  Proof.
    destruct wfm as [Hwf Hlt].
    refine (run_cur_legal false m hdrbg v [9;9;9] post [SGroup 1 1] sub1 (VLevel [6] VGNil [[]])
              22 al1 None _ Hwf Hlt _ _ _ _).
    - vm_compute. reflexivity.
    - cbn. repeat split; lia.
    - repeat constructor; cbn; lia.
    - vm_compute. reflexivity.
  Qed.
End Ex.
