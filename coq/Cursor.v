(* Cursor.v — model of the cursor-based API of sbepp.hpp (class cursor and the
   four wrapper classes, lines 793-1562) as called by the generated cursor
   accessors, of cursor_range iteration, and of the generated
   visit/visit_children chains (complete traversals).

   A cursor is one pointer [c : Z] (offset from the buffer start).  Checks are
   enabled: a failed SBEPP_ASSERT / SBEPP_SIZE_CHECK is the outcome [CAssert];
   a read outside the buffer that no check caught is [COob].
   Definitions only (extracted). *)
From Coq Require Import ZArith List Bool.
From Sbepp Require Import CInt Bytes Msg Layout.
Import ListNotations.
Local Open Scope Z_scope.

Inductive wrapper := WPlain | WInit | WInitDontMove | WDontMove | WSkip.

Inductive cres (A : Type) :=
| COk (a : A) (c : Z)      (* result and new cursor position *)
| CAssert                  (* assertion handler invoked *)
| COob.                    (* out-of-buffer access not caught by a check *)
Arguments COk {A}. Arguments CAssert {A}. Arguments COob {A}.

(* a message or entry view: address, start of its block (get_level), wire
   blockLength, end pointer *)
Record lview := { lv_start : Z; lv_level : Z; lv_bl : Z; lv_end : Z }.

(* SBEPP_SIZE_CHECK(begin, end, offset, size):
     begin && begin <= end && (offset + size) <= static_cast<size_t>(end - begin)
   (the second conjunct was added by a "fix:" commit; [legacy_size_check] is the
   macro before it) *)
Definition size_check (begin end_ off size : Z) : bool :=
  (begin <=? end_) && (off + size <=? (end_ - begin) mod 2 ^ 64).

Definition legacy_size_check (begin end_ off size : Z) : bool :=
  off + size <=? (end_ - begin) mod 2 ^ 64.

(* generated cursor accessor of a non-constant field: which primitive
   (value / static view, plain / last) and its (rel, abs) arguments *)
Record cacc := { ca_rel : Z; ca_abs : Z; ca_size : Z; ca_last : bool; ca_view : bool }.

Definition cacc_of (c : cfld) (is_view : bool) : cacc :=
  {| ca_rel := c_rel c; ca_abs := c_abs c; ca_size := c_size c; ca_last := c_last c;
     ca_view := is_view |}.

Definition chk_size (a : cacc) : Z := if ca_view a then 0 else ca_size a.
Definition block_end (v : lview) : Z := lv_level v + lv_bl v.

(* field access; result = address the value / view is taken from *)
Definition cur_field (w : wrapper) (v : lview) (a : cacc) (c : Z) : cres Z :=
  let placed := (lv_start v + ca_abs a =? c + ca_rel a) in
  match w with
  | WPlain =>
    if negb placed then CAssert else
    if negb (size_check c (lv_end v) (ca_rel a) (chk_size a)) then CAssert else
    COk (c + ca_rel a) (if ca_last a then block_end v else c + ca_rel a + ca_size a)
  | WInit =>
    if negb (size_check (lv_start v) (lv_end v) (ca_abs a) (chk_size a)) then CAssert else
    COk (lv_start v + ca_abs a)
        (if ca_last a then block_end v else lv_start v + ca_abs a + ca_size a)
  | WInitDontMove =>
    if negb (size_check (lv_start v) (lv_end v) (ca_abs a) (chk_size a)) then CAssert else
    COk (lv_start v + ca_abs a) (lv_start v + ca_abs a - ca_rel a)
  | WDontMove =>
    if negb placed then CAssert else
    if negb (size_check c (lv_end v) (ca_rel a) (chk_size a)) then CAssert else
    COk (c + ca_rel a) c
  | WSkip =>
    if negb placed then CAssert else
    if negb (size_check c (lv_end v) (ca_rel a) (chk_size a)) then CAssert else
    COk (c + ca_rel a) (if ca_last a then block_end v else c + ca_rel a + ca_size a)
  end.

(* group access.  [first]: generated with get_first_group_view (k = 0).
   [p]: the random-access address of the group (getter()), None if it cannot be
   computed inside the buffer; [dsz]: dimension size; [gsz]: size_bytes of the
   group at the cursor position (needed by skip) *)
Definition cur_group (w : wrapper) (first : bool) (v : lview) (p : option Z) (dsz : Z)
  (gsz : Z -> option Z) (c : Z) : cres Z :=
  if first then
    let s := block_end v in
    match w with
    | WPlain | WInit => COk s (s + dsz)
    | WInitDontMove | WDontMove => COk s s
    | WSkip => match gsz s with Some z => COk s (s + z) | None => COob end
    end
  else
    match p with
    | None => COob
    | Some p =>
      match w with
      | WPlain => if p =? c then COk c (c + dsz) else CAssert
      | WInit => COk p (p + dsz)
      | WInitDontMove => COk p p
      | WDontMove => if p =? c then COk c c else CAssert
      | WSkip => if p =? c then
                   match gsz c with Some z => COk c (c + z) | None => COob end
                 else CAssert
      end
    end.

(* data access: like groups, but the plain call advances past the payload
   (size_bytes = sizeof(length) + length, read from the buffer) *)
Definition cur_data (w : wrapper) (first : bool) (v : lview) (p : option Z)
  (dsz : Z -> option Z) (c : Z) : cres Z :=
  if first then
    let s := block_end v in
    match w with
    | WPlain | WInit | WSkip => match dsz s with Some z => COk s (s + z) | None => COob end
    | WInitDontMove | WDontMove => COk s s
    end
  else
    match p with
    | None => COob
    | Some p =>
      match w with
      | WPlain | WSkip =>
        if p =? c then match dsz c with Some z => COk c (c + z) | None => COob end else CAssert
      | WInit => match dsz p with Some z => COk p (p + z) | None => COob end
      | WInitDontMove => COk p p
      | WDontMove => if p =? c then COk c c else CAssert
      end
    end.

(* ---- complete traversal: sbepp::visit / visit_children with a plain cursor ---- *)
Inductive event :=
| EField (k : nat) (addr : Z)
| EGroup (k : nat) (pos n : Z)
| EEntry (pos : Z)
| EData (k : nat) (pos n : Z).

(* cursor accessors of a level: Layout.cursor_fields of the schema level paired
   with the view flag of each field; kept beside the table because the
   generator computes them in a separate pass *)
Inductive clevel :=
| CLevel (fs : list cacc) (gs : cgroups)
with cgroups :=
| CGNil
| CGCons (l : clevel) (rest : cgroups).

Definition clevel_fields (cl : clevel) := match cl with CLevel f _ => f end.
Definition clevel_groups (cl : clevel) := match cl with CLevel _ g => g end.

(* the generator emits the cursor-advancing entry constructor only for levels
   without non-constant fields, groups and data *)
Definition is_empty_level (l : level) (cl : clevel) : bool :=
  match clevel_fields cl with [] => is_flat l | _ => false end.

Definition data_size_at (be : bool) (b : list Z) (t : ity) (pos : Z) : option Z :=
  obind (rd be b pos t) (fun n => Some (tbytes t + n)).

(* fields of a level in order with the plain cursor *)
Fixpoint trav_fields (v : lview) (fs : list cacc) (k : nat) (c : Z) (acc : list event)
  : cres (list event) :=
  match fs with
  | [] => COk acc c
  | a :: r =>
    match cur_field WPlain v a c with
    | COk addr c' => trav_fields v r (S k) c' (EField k addr :: acc)
    | CAssert => CAssert
    | COob => COob
    end
  end.

(* [p]: address the random-access getter returns for this member (what the
   plain cursor call asserts the cursor to be equal to) *)
Fixpoint trav_datas (be : bool) (b : list Z) (v : lview) (ds : list ity) (k : nat)
  (first : bool) (p : option Z) (c : Z) (acc : list event) : cres (list event) :=
  match ds with
  | [] => COk acc c
  | t :: r =>
    match cur_data WPlain first v p (data_size_at be b t) c with
    | COk s c' =>
      match rd be b s t with
      | None => COob
      | Some n =>
        let p' := obind p (fun p0 => obind (data_size_at be b t p0) (fun z => Some (p0 + z))) in
        let p'' := if first then Some c' else p' in
        trav_datas be b v r (S k) false p'' c' (EData k s n :: acc)
      end
    | CAssert => CAssert
    | COob => COob
    end
  end.

(* [trav_level] visits fields, then groups (each: header, then every entry via
   cursor_range), then data; events are accumulated in reverse *)
Fixpoint trav_level (be : bool) (b : list Z) (fuel : nat) (l : level) (cl : clevel)
  (v : lview) (c : Z) (acc : list event) {struct l} : cres (list event) :=
  match l with
  | Level _ gs ds =>
    match trav_fields v (clevel_fields cl) 0 c acc with
    | COk acc1 c1 =>
      match trav_groups be b fuel gs (clevel_groups cl) v 0 true (Some (block_end v)) c1 acc1 with
      | COk acc2 c2 =>
        (* random-access address of the first data: after the last group *)
        let p := groups_end be b fuel gs (block_end v) in
        trav_datas be b v ds 0 (groups_empty gs) p c2 acc2
      | CAssert => CAssert
      | COob => COob
      end
    | CAssert => CAssert
    | COob => COob
    end
  end
with trav_groups (be : bool) (b : list Z) (fuel : nat) (gs : groups) (cgs : cgroups)
  (v : lview) (k : nat) (first : bool) (p : option Z) (c : Z) (acc : list event) {struct gs}
  : cres (list event) :=
  match gs, cgs with
  | GNil, _ => COk acc c
  | GCons d cbl l rest, CGCons cl crest =>
    match cur_group WPlain first v p (d_size d) (fun _ => None) c with
    | COk s c1 =>
      match rd be b (s + d_bl_off d) (d_bl_t d), rd be b (s + d_n_off d) (d_n_t d) with
      | Some bl, Some n =>
        match
          (fix loop (j : nat) (n c : Z) (acc : list event) {struct j} : cres (list event) :=
             if n <=? 0 then COk acc c else
             match j with
             | O => COob
             | S j' =>
               let ev := {| lv_start := c; lv_level := c; lv_bl := bl; lv_end := lv_end v |} in
               (* empty entries advance the cursor in their constructor *)
               let c0 := if is_empty_level l cl then c + bl else c in
               match trav_level be b fuel l cl ev c0 (EEntry c :: acc) with
               | COk acc' c' => loop j' (n - 1) c' acc'
               | CAssert => CAssert
               | COob => COob
               end
             end) fuel n c1 (EGroup k s n :: acc)
        with
        | COk acc' c' =>
          let p' := obind p (fun p0 => groups_end be b fuel (GCons d cbl l GNil) p0) in
          trav_groups be b fuel rest crest v (S k) false p' c' acc'
        | CAssert => CAssert
        | COob => COob
        end
      | _, _ => COob
      end
    | CAssert => CAssert
    | COob => COob
    end
  | GCons _ _ _ _, CGNil => COob
  end.

Definition trav_message (be : bool) (b : list Z) (m : message) (cl : clevel) (base : Z)
  : cres (list event) :=
  match msg_block_length be b m base with
  | None => COob
  | Some bl =>
    let v := {| lv_start := base; lv_level := base + m_hdr_size m; lv_bl := bl;
                lv_end := len b |} in
    (* a message without members skips its block in the generated
       visit_children (entries do it in their cursor constructor) *)
    let c0 := if is_empty_level (m_level m) cl then base + m_hdr_size m + bl
              else base + m_hdr_size m in
    match trav_level be b (default_fuel b) (m_level m) cl v c0 [] with
    | COk acc c => COk (rev acc) c
    | CAssert => CAssert
    | COob => COob
    end
  end.
