(* Properties_C11.v — C11: read-only views cannot mutate the buffer
   (compile-time half; the run-time half is established by the correspondence
   only, see NOTES_C11.md).  Only statements closed by [exact]; proofs are in
   ConstnessProofs.v. *)
From Coq Require Import Bool List Relations.
From Sbepp Require Import Constness ConstnessProofs.
Import C11.

(* every mutator (setter, by-tag setter, cursor setter, header filler, group
   resize/clear, every array mutator, element assignment) fails to compile on a
   const byte type, and every cursor mutator fails to compile with a const
   cursor whatever the view's byte type *)
Theorem C11_mutators_rejected : forall o,
  is_mutator o = true ->
  (forall c, can_call ByteConst c o = false) /\
  (uses_cursor o = true -> forall b, can_call b CursorConst o = false).
Proof. exact mutators_rejected. Qed.
Print Assumptions C11_mutators_rejected.

(* ... and is already rejected by overload resolution (what is_invocable and
   requires-expressions observe), unless the caller explicitly overrides the
   guard's defaulted template argument *)
Theorem C11_mutators_sfinae_rejected : forall o,
  is_mutator o = true -> (forall k, o <> CapSetExplicitArgs k) ->
  (forall c, viable ByteConst c o = false) /\
  (uses_cursor o = true -> forall b, viable b CursorConst o = false).
Proof. exact mutators_sfinae_rejected. Qed.
Print Assumptions C11_mutators_sfinae_rejected.

(* conversions exist exactly towards more-const, compose, and never lead from
   const back to mutable *)
Theorem C11_conversions_monotone :
  (forall v f a b, view_conv v f a b = true <-> const_le a b = true) /\
  (forall f a b, cursor_conv f a b = true <-> const_le (byte_of_cursor a) (byte_of_cursor b) = true) /\
  (forall v f a b c, view_conv v f a b = true -> view_conv v f b c = true -> view_conv v f a c = true) /\
  (forall f a b c, cursor_conv f a b = true -> cursor_conv f b c = true -> cursor_conv f a c = true) /\
  (forall v f, view_conv v f ByteMut ByteConst = true /\ view_conv v f ByteConst ByteMut = false) /\
  (forall f, cursor_conv f CursorMut CursorConst = true /\ cursor_conv f CursorConst CursorMut = false) /\
  (forall b, clos_refl_trans _ conv_step ByteConst b -> b = ByteConst).
Proof. exact conversions_monotone. Qed.
Print Assumptions C11_conversions_monotone.

(* whoever holds only const views and const cursors can compile no mutator and
   only ever obtains const views / cursors / pointers / element references *)
Theorem C11_const_client_safe : forall o c,
  (uses_cursor o = true -> c = CursorConst) ->
  can_call ByteConst c o = true ->
  is_mutator o = false /\ forall r, result_byte o ByteConst c = Some r -> r = ByteConst.
Proof. exact const_client_safe. Qed.
Print Assumptions C11_const_client_safe.

(* the protection costs nothing: const views are fully readable, mutable views
   fully writable *)
Theorem C11_readers_available_on_const : forall o,
  is_mutator o = false -> can_call ByteConst CursorConst o = true.
Proof. exact readers_available_on_const. Qed.
Print Assumptions C11_readers_available_on_const.

Theorem C11_mutators_available_on_mut : forall o,
  is_mutator o = true -> (forall k a, o <> CapCurSet k a CurSkip) ->
  can_call ByteMut CursorMut o = true.
Proof. exact mutators_available_on_mut. Qed.
Print Assumptions C11_mutators_available_on_mut.

(* the operation list the harness probes is exhaustive *)
Theorem C11_all_ops_complete : forall o, In o all_ops.
Proof. exact all_ops_complete. Qed.
Print Assumptions C11_all_ops_complete.
