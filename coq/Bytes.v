(* Bytes.v — byte buffers and the byte-order primitives of sbepp.hpp
   (get_primitive / set_primitive, lines 550-602).

   A byte is a [Z] in [0,256); a buffer is a [list Z]; offsets are [Z] so that
   pointers outside the buffer can be represented (they are what the size
   checks are about).  Definitions only (extracted). *)
From Coq Require Import ZArith List Bool.
Import ListNotations.
Local Open Scope Z_scope.

Definition byte_ok (b : Z) : bool := (0 <=? b) && (b <? 256).
Definition bytes_ok (bs : list Z) : bool := forallb byte_ok bs.

Definition len (bs : list Z) : Z := Z.of_nat (length bs).

(* ---- little/big endian codecs (the specification) ---- *)
Fixpoint enc_le (w : nat) (x : Z) : list Z :=
  match w with
  | O => []
  | S w' => (x mod 256) :: enc_le w' (x / 256)
  end.

Fixpoint dec_le (bs : list Z) : Z :=
  match bs with
  | [] => 0
  | b :: r => b + 256 * dec_le r
  end.

(* [be = true] is big endian *)
Definition enc (be : bool) (w : nat) (x : Z) : list Z :=
  if be then rev (enc_le w x) else enc_le w x.

Definition dec (be : bool) (bs : list Z) : Z :=
  if be then dec_le (rev bs) else dec_le bs.

(* ---- the two implementations in sbepp.hpp; the host is little endian ---- *)
(* C++20 path: std::copy / std::reverse_copy into an array, then bit_cast *)
Definition get_primitive_bitcast (be : bool) (bs : list Z) : Z :=
  let arr := if be then rev bs else bs in dec_le arr.

Definition set_primitive_bitcast (be : bool) (w : nat) (x : Z) : list Z :=
  let arr := enc_le w x in if be then rev arr else arr.

(* pre-C++20 path: memcpy, then byteswap when the schema order is not native.
   [byteswap] is __builtin_bswapNN: reverse the object representation. *)
Definition byteswap (w : nat) (x : Z) : Z := dec_le (rev (enc_le w x)).

Definition get_primitive_memcpy (be : bool) (bs : list Z) : Z :=
  let res := dec_le bs in
  if be then byteswap (length bs) res else res.

Definition set_primitive_memcpy (be : bool) (w : nat) (x : Z) : list Z :=
  let v := if be then byteswap w x else x in enc_le w v.

(* the mask-and-shift fallback of sbepp.hpp:467-490 (used when no intrinsic is
   available) *)
Definition byteswap16_fallback (v : Z) : Z :=
  Z.lor (Z.shiftl (Z.land v 255) 8) (Z.shiftr (Z.land v 65280) 8).

Definition byteswap32_fallback (v : Z) : Z :=
  Z.lor (Z.lor (Z.lor
    (Z.shiftl (Z.land v 255) 24)
    (Z.shiftl (Z.land v 65280) 8))
    (Z.shiftr (Z.land v 16711680) 8))
    (Z.shiftr (Z.land v 4278190080) 24).

(* ---- buffer access ---- *)
Definition in_buf (b : list Z) (off n : Z) : bool :=
  (0 <=? off) && (0 <=? n) && (off + n <=? len b).

Definition slice (b : list Z) (off n : Z) : list Z :=
  firstn (Z.to_nat n) (skipn (Z.to_nat off) b).

(* overwrite [length bs] bytes at [off]; the caller has checked [in_buf] *)
Definition splice (b : list Z) (off : Z) (bs : list Z) : list Z :=
  firstn (Z.to_nat off) b ++ bs ++ skipn (Z.to_nat off + length bs) b.

(* typed view of a raw (unsigned) wire value *)
Inductive prim :=
  PChar | PI8 | PU8 | PI16 | PU16 | PI32 | PU32 | PI64 | PU64 | PF32 | PF64.

Definition prim_size (p : prim) : nat :=
  match p with
  | PChar | PI8 | PU8 => 1 | PI16 | PU16 => 2
  | PI32 | PU32 | PF32 => 4 | PI64 | PU64 | PF64 => 8
  end%nat.

Definition prim_signed (p : prim) : bool :=
  match p with PI8 | PI16 | PI32 | PI64 => true | _ => false end.

(* value of the C++ object from its raw bits and back (floats stay bits;
   char is treated as its byte value 0..255) *)
Definition interp (p : prim) (raw : Z) : Z :=
  let m := 2 ^ (8 * Z.of_nat (prim_size p)) in
  if prim_signed p then (if raw <? m / 2 then raw else raw - m) else raw.

Definition to_raw (p : prim) (v : Z) : Z :=
  v mod 2 ^ (8 * Z.of_nat (prim_size p)).
