(* Properties_C12.v — C12: group views obey iterator and container laws for
   every dimension type.  Only statements closed by [exact]; the proofs, the
   [..._nonvacuous] instances and the [legacy_..._refuted] witnesses are in
   GroupIterProofs.v.

   Reading guide.  [S] is numInGroup's type (size_type), [B] is blockLength's
   type, both any of uint8/16/32/64 ([is_uns]); difference_type is [dty S].
   [it_at base bl e i] is the iterator an implementation *should* hold for
   entry [i] of a group whose first entry is at address [base]: position
   base + i * bl, index i.  [step_ok S base bl i j] are the representability
   guards for moving from entry [i] to entry [j]: both indexes are values of
   size_type, i*bl and j*bl are below 2^63 and the target address is a 64-bit
   address.  [fits chk S B g]: when size checks are enabled the view covers the
   header and all announced entries (otherwise an assertion is the documented
   outcome).  [GOk] excludes both assertion failure and undefined behaviour.

   Header size.  The dimension composite of a group may hold more than
   blockLength and numInGroup (SBE 2.0 numGroups / numVarDataFields, `offset=`
   padding, either member order); the data start is the group address plus
   sbepp::size_bytes(dimension).  Every statement below holds for an ARBITRARY
   header size H:
   - for a group on decoded header values H is the field [g_hdr g], constrained
     by [wf_grp] only to  wsize B + wsize S <= g_hdr g < 2^63  (room for the two
     members; below 2^63 so that H + numInGroup * blockLength, with the product
     below 2^63, does not wrap std::size_t).  Where blockLength and numInGroup
     lie inside the header is irrelevant to the iterator algebra;
   - the five laws of the iterator alone (subscript, the two cancellations,
     distance, order) are stated for an iterator family [it_at base ..] over
     EVERY first-entry address [base]; for a group that is g_ptr g + g_hdr g
     ([C12_begin_plus_size], [C12_entry_i_address]);
   - at the byte level the layout is [L : hlay] = (size [h_size L], offset of
     blockLength [h_bl L], offset of numInGroup [h_ng L]) with [wf_hlay S B L]:
     both members inside the composite and not overlapping, in any order (which
     implies wsize B + wsize S <= h_size L, [C12_layout_size]); the header lies
     in a buffer shorter than 2^63 bytes, hence no separate bound on H.
   The two-member composite ([hdr_size S B], [std_hlay S B], [enc_dim]) is the
   special case ([C12_two_member_header_is_an_instance]). *)
From Coq Require Import ZArith List.
From Sbepp Require Import CInt GroupIter GroupIterProofs.
Import ListNotations.
Import GI.
Local Open Scope Z_scope.

(* begin() + size() == end(): the very same iterator state (position and index), and
   end() - begin() == size(); for every header size g_hdr g (see [wf_grp]) *)
Theorem C12_begin_plus_size : forall chk S B g,
  wf_grp S B g -> fits chk S B g ->
  g_ng g * g_bl g < 2 ^ 63 ->
  tmin I64 <= g_ptr g + g_hdr g + g_ng g * g_bl g <= tmax I64 ->
  in_range (dty S) (g_ng g) = true ->
  exists b e,
    g_begin chk S B g = GOk b /\ g_end_it chk S B g = GOk e /\
    it_plus S B b (g_ng g) = GOk e /\
    i_ptr e = g_ptr g + g_hdr g + g_ng g * g_bl g /\ i_idx e = g_ng g /\
    it_diff S e b = GOk (g_ng g).
Proof. exact begin_plus_size. Qed.
Print Assumptions C12_begin_plus_size.

(* it[n] is *(it + n), the entry i + n; [base] is any first-entry address, i.e.
   group address + header size for any header size (likewise below) *)
Theorem C12_subscript_is_plus : forall S B base bl e i n,
  is_uns S = true -> is_uns B = true -> in_range B bl = true ->
  in_range (dty S) n = true -> step_ok S base bl i (i + n) ->
  it_subscript S B (it_at base bl e i) n = GOk (base + (i + n) * bl) /\
  gbind (it_plus S B (it_at base bl e i) n) (fun r => GOk (it_deref r))
    = GOk (base + (i + n) * bl).
Proof. exact subscript_is_plus. Qed.
Print Assumptions C12_subscript_is_plus.

(* (it + n) - n is it, for positive and negative n *)
Theorem C12_plus_minus_cancel : forall S B base bl e i n,
  is_uns S = true -> is_uns B = true -> in_range B bl = true ->
  - tmax (dty S) <= n <= tmax (dty S) -> step_ok S base bl i (i + n) ->
  tmin I64 <= base + i * bl <= tmax I64 ->
  it_plus S B (it_at base bl e i) n = GOk (it_at base bl e (i + n)) /\
  it_minus S B (it_at base bl e (i + n)) n = GOk (it_at base bl e i).
Proof. exact plus_minus_cancel. Qed.
Print Assumptions C12_plus_minus_cancel.

(* (it - n) + n is it *)
Theorem C12_minus_plus_cancel : forall S B base bl e i n,
  is_uns S = true -> is_uns B = true -> in_range B bl = true ->
  - tmax (dty S) <= n <= tmax (dty S) -> step_ok S base bl i (i - n) ->
  tmin I64 <= base + i * bl <= tmax I64 ->
  it_minus S B (it_at base bl e i) n = GOk (it_at base bl e (i - n)) /\
  it_plus S B (it_at base bl e (i - n)) n = GOk (it_at base bl e i).
Proof. exact minus_plus_cancel. Qed.
Print Assumptions C12_minus_plus_cancel.

(* distances match indexes *)
Theorem C12_distance_is_index_diff : forall S base bl e i j,
  is_uns S = true -> in_range S i = true -> in_range S j = true ->
  in_range (dty S) (i - j) = true ->
  it_diff S (it_at base bl e i) (it_at base bl e j) = GOk (i - j).
Proof. exact distance_is_index_diff. Qed.
Print Assumptions C12_distance_is_index_diff.

(* orderings match indexes (and addresses, unless blocks are empty) *)
Theorem C12_order_is_index_order : forall base bl e i j,
  let a := it_at base bl e i in
  let b := it_at base bl e j in
  it_eq a b = (i =? j) /\ it_lt a b = (i <? j) /\ it_le a b = (i <=? j) /\
  (0 < bl -> it_lt a b = (it_deref a <? it_deref b) /\
             it_eq a b = (it_deref a =? it_deref b)) /\
  (bl = 0 -> it_deref a = it_deref b).
Proof. exact order_is_index_order. Qed.
Print Assumptions C12_order_is_index_order.

(* entry i (operator[], front, back, iteration) starts at
   data start + i * wire blockLength, zero-length blocks included; the data
   start is group address + size of the dimension composite, whatever that
   size is *)
Theorem C12_entry_i_address : forall chk S B g,
  wf_grp S B g -> fits chk S B g ->
  g_ng g * g_bl g < 2 ^ 63 ->
  tmin I64 <= g_ptr g + g_hdr g + g_ng g * g_bl g <= tmax I64 ->
  let data := g_ptr g + g_hdr g in
  (forall pos, 0 <= pos < g_ng g -> g_at chk S B g pos = GOk (data + pos * g_bl g)) /\
  (0 < g_ng g -> g_front chk S B g = GOk data /\
                 g_back chk S B g = GOk (data + (g_ng g - 1) * g_bl g)) /\
  (forall k, Z.of_nat k <= g_ng g ->
     gbind (g_begin chk S B g) (it_inc_n chk S B k)
       = GOk (it_at data (g_bl g) (g_end g) (Z.of_nat k))).
Proof. exact entry_i_address. Qed.
Print Assumptions C12_entry_i_address.

(* with checks enabled operator[] reports a position outside the group
   ([g] carries any header size) *)
Theorem C12_subscript_out_of_range_asserts : forall S B g pos,
  ~ (ccast S pos < g_ng g) -> g_at true S B g pos = GAssert.
Proof. exact g_at_assert. Qed.
Print Assumptions C12_subscript_out_of_range_asserts.

(* nested groups: forward iteration visits entry i where entry i-1 ends, the
   first one right after the dimension composite: [hdr] is ANY [h_size L] bytes
   from which blockLength / numInGroup are read back at the layout's offsets *)
Theorem C12_nested_forward_chain : forall chk S B L hdr bl es pre post e,
  let buf := pre ++ enc_nested hdr es ++ post in
  let p := blen pre in
  is_uns S = true -> is_uns B = true ->
  blen hdr = h_size L ->
  rd B hdr (h_bl L) = Some bl -> rd S hdr (h_ng L) = Some (Z.of_nat (length es)) ->
  in_range B bl = true -> in_range S (Z.of_nat (length es)) = true ->
  Forall (wf_nentry bl) es -> blen buf < 2 ^ 63 ->
  (chk = true -> p + blen (enc_nested hdr es) <= e /\ e < 2 ^ 63) ->
  n_entries chk S B L buf p e = GOk (starts_from (p + h_size L) es) /\
  n_end_idx chk S B L buf p e = GOk (Z.of_nat (length es)).
Proof. exact nested_forward_chain. Qed.
Print Assumptions C12_nested_forward_chain.

(* resize / clear change only the numInGroup bytes, wherever they lie in the
   dimension composite; blockLength (before or after them) reads back unchanged *)
Theorem C12_resize_frame : forall chk S B L buf p e count,
  is_uns S = true -> is_uns B = true -> wf_hlay S B L ->
  0 <= p -> p + h_size L <= blen buf -> blen buf < 2 ^ 63 ->
  (chk = true -> 0 <= e - p < 2 ^ 64 /\ h_size L <= e - p) ->
  exists pre old post,
    buf = pre ++ old ++ post /\ blen pre = p + h_ng L /\ length old = wbytes S /\
    let buf' := pre ++ enc_le (wbytes S) (ccast S count) ++ post in
    g_resize chk S B L buf p e count = GOk buf' /\
    g_clear chk S B L buf p e = GOk (pre ++ enc_le (wbytes S) 0 ++ post) /\
    (forall g, read_grp chk S B L buf p e = GOk g ->
       read_grp chk S B L buf' p e = GOk (mkGrp p e (h_size L) (g_bl g) (ccast S count))).
Proof. exact resize_frame. Qed.
Print Assumptions C12_resize_frame.

(* a well-formed layout has room for both members *)
Theorem C12_layout_size : forall S B L,
  wf_hlay S B L -> wsize B + wsize S <= h_size L.
Proof. exact wf_hlay_size. Qed.
Print Assumptions C12_layout_size.

(* the two-member composite (blockLength followed by numInGroup, size
   [hdr_size S B]) is an instance of the layouts above *)
Theorem C12_two_member_header_is_an_instance : forall S B bl ng,
  is_uns S = true -> is_uns B = true -> in_range B bl = true -> in_range S ng = true ->
  (wf_hlay S B (std_hlay S B) /\ h_size (std_hlay S B) = hdr_size S B) /\
  blen (enc_dim S B bl ng) = h_size (std_hlay S B) /\
  rd B (enc_dim S B bl ng) (h_bl (std_hlay S B)) = Some bl /\
  rd S (enc_dim S B bl ng) (h_ng (std_hlay S B)) = Some ng.
Proof. exact two_member_header_instance. Qed.
Print Assumptions C12_two_member_header_is_an_instance.

(* ---- statements about the expression trees REGENERATED on every run from
   clang's typed AST of /repo's current random_access_iterator (SrcExprs.v,
   harness/srcexprs.py), all 16 header type pairs ---- *)
From Coq Require Import String.
From Sbepp Require Import CExpr SrcExprs SrcExprsProofs.
Import ListNotations.
Local Open Scope string_scope.

Theorem C12_source_add_assign_exact : forall S B n bl idx,
  is_uns S = true -> is_uns B = true ->
  in_range (dty S) n = true -> in_range B bl = true -> in_range S idx = true ->
  in_range S (idx + n) = true -> - 2 ^ 63 < n * bl < 2 ^ 63 ->
  effs_eval [("n", n); ("block_length", bl); ("index", idx)] (src_it_add S B) = Some [n * bl; idx + n].
Proof. exact src_it_add_assign_exact. Qed.
Print Assumptions C12_source_add_assign_exact.

Theorem C12_source_add_assign_is_the_model : forall S B n bl idx,
  is_uns S = true -> is_uns B = true ->
  in_range (dty S) n = true -> in_range B bl = true -> in_range S idx = true ->
  effs_eval [("n", n); ("block_length", bl); ("index", idx)] (src_it_add S B)
  = match offset_fixed S B n bl, idx_add S idx n with
    | Some off, GOk ix => Some [off; ix]
    | _, _ => None
    end.
Proof. exact src_it_add_assign_is_model. Qed.
Print Assumptions C12_source_add_assign_is_the_model.

Theorem C12_source_difference_is_the_model : forall S B a b,
  is_uns S = true -> is_uns B = true ->
  in_range S (i_idx a) = true -> in_range S (i_idx b) = true ->
  effs_eval [("index", i_idx a); ("rhs.index", i_idx b)] (src_it_diff S B)
  = match it_diff S a b with GOk d => Some [d] | _ => None end.
Proof. exact src_it_diff_is_model. Qed.
Print Assumptions C12_source_difference_is_the_model.

Theorem C12_source_statement_targets : forall S B, is_uns S = true -> is_uns B = true ->
  map eff_target (src_it_add S B) = ["ptr+="; "index="] /\ map eff_target (src_it_diff S B) = ["return"].
Proof. exact src_it_targets. Qed.
Print Assumptions C12_source_statement_targets.

(* operator++ (with its SBEPP_SIZE_CHECK, as clang expands it) and operator-- *)
Theorem C12_source_increment_exact : forall S B it,
  is_uns S = true -> is_uns B = true ->
  0 < i_ptr it < 2 ^ 63 -> 0 <= i_end it < 2 ^ 63 ->
  in_range B (i_bl it) = true -> in_range S (i_idx it) = true -> in_range S (i_idx it + 1) = true ->
  effs_eval [("ptr", i_ptr it); ("end", i_end it); ("block_length", i_bl it); ("index", i_idx it)] (src_it_inc S B)
  = if (i_ptr it + i_bl it <=? i_end it)%Z then Some [1; i_bl it; i_idx it + 1] else Some [0].
Proof. exact src_it_inc_exact. Qed.
Print Assumptions C12_source_increment_exact.

Theorem C12_source_increment_is_the_model : forall S B it,
  is_uns S = true -> is_uns B = true ->
  0 < i_ptr it < 2 ^ 63 -> 0 <= i_end it < 2 ^ 63 ->
  in_range B (i_bl it) = true -> in_range S (i_idx it) = true ->
  effs_eval [("ptr", i_ptr it); ("end", i_end it); ("block_length", i_bl it); ("index", i_idx it)] (src_it_inc S B)
  = match it_inc true S B it with
    | GOk it' => Some [1; i_bl it; i_idx it']
    | GAssert => Some [0]
    | GUB => None
    end.
Proof. exact src_it_inc_is_model. Qed.
Print Assumptions C12_source_increment_is_the_model.

Theorem C12_source_decrement_is_the_model : forall S B it,
  is_uns S = true -> is_uns B = true -> in_range B (i_bl it) = true -> in_range S (i_idx it) = true ->
  effs_eval [("block_length", i_bl it); ("index", i_idx it)] (src_it_dec S B)
  = match it_dec S B it with GOk it' => Some [i_bl it; i_idx it'] | _ => None end.
Proof. exact src_it_dec_is_model. Qed.
Print Assumptions C12_source_decrement_is_the_model.

(* the six comparison operators compare the indices mathematically *)
Theorem C12_source_order_matches_indices : forall S B x y,
  is_uns S = true -> is_uns B = true -> in_range S (i_idx x) = true -> in_range S (i_idx y) = true ->
  effs_eval [("lhs.index", i_idx x); ("rhs.index", i_idx y)] (src_it_cmp CEq S B) = Some [zb (it_eq x y)] /\
  effs_eval [("lhs.index", i_idx x); ("rhs.index", i_idx y)] (src_it_cmp CLt S B) = Some [zb (it_lt x y)] /\
  effs_eval [("lhs.index", i_idx x); ("rhs.index", i_idx y)] (src_it_cmp CLe S B) = Some [zb (it_le x y)] /\
  effs_eval [("lhs.index", i_idx x); ("rhs.index", i_idx y)] (src_it_cmp CNe S B) = Some [zb (negb (it_eq x y))] /\
  effs_eval [("lhs.index", i_idx x); ("rhs.index", i_idx y)] (src_it_cmp CGt S B) = Some [zb (it_lt y x)] /\
  effs_eval [("lhs.index", i_idx x); ("rhs.index", i_idx y)] (src_it_cmp CGe S B) = Some [zb (it_le y x)].
Proof. exact src_it_order_matches_indices. Qed.
Print Assumptions C12_source_order_matches_indices.
