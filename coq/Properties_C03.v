(* Properties_C03.v — C03: decoding honours the wire blockLength.
   In Msg.enc_message every level carries its own block of ARBITRARY length
   (the wire blockLength), independent of the compiled one, so the navigation
   theorems below are statements about every schema extension. *)
From Coq Require Import ZArith List.
From Sbepp Require Import CInt Bytes BytesFacts Msg Layout Wire MsgSpec LayoutProofs MsgProofs.
Import ListNotations.
Local Open Scope Z_scope.

(* walking a level with the library's pointer arithmetic (level start + wire
   blockLength, entries at wire blockLength stride, nested entries chained)
   ends exactly at the end of its image, wherever the image sits *)
Theorem C03_level_end : stmt_level_end_enc.
Proof. exact level_end_enc. Qed.
Print Assumptions C03_level_end.

Theorem C03_groups_end : stmt_groups_end_enc.
Proof. exact groups_end_enc. Qed.
Print Assumptions C03_groups_end.

(* the iteration bound used by the library model is always sufficient *)
Theorem C03_default_fuel_suffices : stmt_default_fuel_suffices.
Proof. exact default_fuel_suffices. Qed.
Print Assumptions C03_default_fuel_suffices.

Theorem C03_size_bytes_reports_wire_size : stmt_msg_size_bytes_enc.
Proof. exact msg_size_bytes_enc. Qed.
Print Assumptions C03_size_bytes_reports_wire_size.

(* compiled fields are found at their offsets inside the (longer) wire block *)
Theorem C03_fields_found_in_extended_block : stmt_get_root_field_enc.
Proof. exact get_root_field_enc. Qed.
Print Assumptions C03_fields_found_in_extended_block.

(* groups/data after an extended block are found where the wire image puts
   them, with the wire blockLength and count *)
Theorem C03_groups_found_after_extended_block : stmt_locate_root_group_enc.
Proof. exact locate_root_group_enc. Qed.
Print Assumptions C03_groups_found_after_extended_block.

Theorem C03_data_found_after_extended_block : stmt_get_root_data_enc.
Proof. exact get_root_data_enc. Qed.
Print Assumptions C03_data_found_after_extended_block.

From Sbepp Require Import Cursor CursorSpec CursorProofs.

Theorem C03_fields_found_at_any_depth : stmt_get_field_any_path_enc.
Proof. exact get_field_any_path_enc. Qed.
Print Assumptions C03_fields_found_at_any_depth.

Theorem C03_data_found_at_any_depth : stmt_get_data_any_path_enc.
Proof. exact get_data_any_path_enc. Qed.
Print Assumptions C03_data_found_at_any_depth.

(* cursor access and visiting on extended images *)
Theorem C03_cursor_traversal_on_extended_images : stmt_trav_message_enc''.
Proof. exact trav_message_enc''. Qed.
Print Assumptions C03_cursor_traversal_on_extended_images.
