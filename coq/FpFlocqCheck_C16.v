(* FpFlocqCheck_C16.v — cross-check of Fp.fcompare (the axiom-free comparison on
   bit patterns used by the C16 model) against Flocq's IEEE-754 formalisation
   (Bcompare on b32_of_bits / b64_of_bits) on the full cross product of a
   boundary set: +-0, +-denorm_min, largest subnormal, +-min normal, +-1, 1.5,
   neighbours of 1, +-max, +-inf, six NaN patterns, some ordinary numbers.
   This file is an independent sanity check only: nothing else depends on it
   and the model does not depend on Flocq. *)
From Coq Require Import ZArith List Bool.
From Flocq Require Import IEEE754.Binary IEEE754.Bits.
From Sbepp Require Import Fp.
Import IEEE ListNotations.
Local Open Scope Z_scope.

Definition of_flocq (c : option comparison) : fcmp :=
  match c with Some Lt => FLt | Some Eq => FEq | Some Gt => FGt | None => FUn end.

Definition fcmp_eqb (a b : fcmp) : bool :=
  match a, b with FLt, FLt | FEq, FEq | FGt, FGt | FUn, FUn => true | _, _ => false end.

Definition boundary (f : fty) : list Z :=
  let mb := mbits f in
  let sign := 2 ^ (fbits f - 1) in
  let expmask := emax f * 2 ^ mb in
  let one := (2 ^ (ebits f - 1) - 1) * 2 ^ mb in
  let pos := [0; 1; 2; 2 ^ mb - 1; 2 ^ mb; 2 ^ mb + 1; one - 1; one; one + 1; one + 2 ^ (mb - 1);
              3 * 2 ^ mb + 12345; expmask - 2 ^ mb; expmask - 1; expmask;
              expmask + 1; expmask + 2 ^ (mb - 2); expmask + 2 ^ (mb - 1);
              expmask + 2 ^ (mb - 1) + 1; expmask + 2 ^ mb - 1] in
  pos ++ map (fun b => sign + b) pos.

Definition agree32 : bool :=
  forallb (fun a => forallb (fun b =>
    fcmp_eqb (fcompare F32 a b) (of_flocq (Bcompare 24 128 (b32_of_bits a) (b32_of_bits b))))
    (boundary F32)) (boundary F32).

Definition agree64 : bool :=
  forallb (fun a => forallb (fun b =>
    fcmp_eqb (fcompare F64 a b) (of_flocq (Bcompare 53 1024 (b64_of_bits a) (b64_of_bits b))))
    (boundary F64)) (boundary F64).

Example fcompare_agrees_with_flocq_binary32 : agree32 = true.
Proof. vm_compute. reflexivity. Qed.

Example fcompare_agrees_with_flocq_binary64 : agree64 = true.
Proof. vm_compute. reflexivity. Qed.

(* the named constants are what Flocq's encoder produces *)
Example constants_match_flocq :
  map (fun b => IEEE.is_nan F32 b) [fl_qnan F32; fl_inf F32; fl_max F32] = [true; false; false] /\
  Binary.is_nan 24 128 (b32_of_bits (fl_qnan F32)) = true /\
  Binary.is_nan 53 1024 (b64_of_bits (fl_qnan F64)) = true /\
  bits_of_b32 (b32_of_bits (fl_max F32)) = fl_max F32 /\
  bits_of_b64 (b64_of_bits (fl_min F64)) = fl_min F64.
Proof. vm_compute. repeat split; reflexivity. Qed.
