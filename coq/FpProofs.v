(* FpProofs.v — facts about Fp.v: the cheap comparison key used by the model
   (biased exponent and mantissa in lexicographic order) orders bit patterns
   exactly like the real numbers they denote ([fscaled], the exact value scaled
   by 2^(bias + mbits)). *)
From Coq Require Import ZArith Bool Lia.
From Sbepp Require Import Fp.
Import IEEE.
Local Open Scope Z_scope.

Lemma mbits_pos f : 0 < mbits f.
Proof. destruct f; cbn; lia. Qed.

Lemma ebits_pos f : 0 < ebits f.
Proof. destruct f; cbn; lia. Qed.

Lemma fman_range f b : 0 <= fman f b < 2 ^ mbits f.
Proof.
  unfold fman. apply Z.mod_pos_bound. apply Z.pow_pos_nonneg; [lia|].
  pose proof (mbits_pos f). lia.
Qed.

Lemma fexp_range f b : 0 <= fexp f b < 2 ^ ebits f.
Proof.
  unfold fexp. apply Z.mod_pos_bound. apply Z.pow_pos_nonneg; [lia|].
  pose proof (ebits_pos f). lia.
Qed.

Lemma fmag_decomp f b : fmag f b = fexp f b * 2 ^ mbits f + fman f b.
Proof.
  unfold fmag, fexp, fman, fbits.
  pose proof (mbits_pos f) as Hm. pose proof (ebits_pos f) as He.
  replace (1 + ebits f + mbits f - 1) with (mbits f + ebits f) by lia.
  rewrite Z.pow_add_r by lia.
  assert (H1 : 0 < 2 ^ mbits f) by (apply Z.pow_pos_nonneg; lia).
  assert (H2 : 0 < 2 ^ ebits f) by (apply Z.pow_pos_nonneg; lia).
  rewrite Z.rem_mul_r by lia. lia.
Qed.

Lemma cmp_lt x y x' y' : x < y -> x' < y' -> (x ?= y) = (x' ?= y').
Proof. intros A B. rewrite (proj2 (Z.compare_lt_iff x y) A), (proj2 (Z.compare_lt_iff x' y') B). reflexivity. Qed.

Lemma cmp_gt x y x' y' : x > y -> x' > y' -> (x ?= y) = (x' ?= y').
Proof.
  intros A B. rewrite (proj2 (Z.compare_gt_iff x y) ltac:(lia)), (proj2 (Z.compare_gt_iff x' y') ltac:(lia)).
  reflexivity.
Qed.

(* the scaled value as a function of exponent and mantissa *)
Definition sc (M e m : Z) : Z := if e =? 0 then 2 * m else (M + m) * 2 ^ e.

Lemma fscaled_sc f b : fscaled f b = sc (2 ^ mbits f) (fexp f b) (fman f b).
Proof. reflexivity. Qed.

Lemma sc_lt M e1 m1 e2 m2 :
  0 < M -> 0 <= e1 < e2 -> 0 <= m1 < M -> 0 <= m2 < M ->
  e1 * M + m1 < e2 * M + m2 /\ sc M e1 m1 < sc M e2 m2.
Proof.
  intros HM He H1 H2. split; [nia|].
  unfold sc.
  assert (He2 : (e2 =? 0) = false) by (apply Z.eqb_neq; lia). rewrite He2.
  assert (P2 : 2 * 2 ^ e1 <= 2 ^ e2).
  { rewrite <- Z.pow_succ_r by lia. apply Z.pow_le_mono_r; lia. }
  assert (P1 : 0 < 2 ^ e1) by (apply Z.pow_pos_nonneg; lia).
  destruct (e1 =? 0) eqn:E1.
  - apply Z.eqb_eq in E1. subst e1. cbn in P2. nia.
  - nia.
Qed.

Lemma sc_order M e1 m1 e2 m2 :
  0 < M -> 0 <= e1 -> 0 <= e2 -> 0 <= m1 < M -> 0 <= m2 < M ->
  (e1 * M + m1 ?= e2 * M + m2) = (sc M e1 m1 ?= sc M e2 m2).
Proof.
  intros HM He1 He2 H1 H2.
  destruct (Z.lt_trichotomy e1 e2) as [Hlt|[Heq|Hgt]].
  - destruct (sc_lt M e1 m1 e2 m2 HM ltac:(lia) H1 H2) as [A B].
    apply cmp_lt; assumption.
  - subst e2. unfold sc.
    assert (P : 0 < 2 ^ e1) by (apply Z.pow_pos_nonneg; lia).
    destruct (Z.compare_spec m1 m2) as [E|L|G].
    + subst m2. rewrite !Z.compare_refl. reflexivity.
    + assert (A : e1 * M + m1 < e1 * M + m2) by lia.
      assert (B : (if e1 =? 0 then 2 * m1 else (M + m1) * 2 ^ e1) <
                  (if e1 =? 0 then 2 * m2 else (M + m2) * 2 ^ e1))
        by (destruct (e1 =? 0); nia).
      apply cmp_lt; assumption.
    + assert (A : e1 * M + m1 > e1 * M + m2) by lia.
      assert (B : (if e1 =? 0 then 2 * m1 else (M + m1) * 2 ^ e1) >
                  (if e1 =? 0 then 2 * m2 else (M + m2) * 2 ^ e1))
        by (destruct (e1 =? 0); nia).
      apply cmp_gt; lia.
  - destruct (sc_lt M e2 m2 e1 m1 HM ltac:(lia) H2 H1) as [A B].
    apply cmp_gt; lia.
Qed.

Lemma fmag_order f a b : (fmag f a ?= fmag f b) = (fscaled f a ?= fscaled f b).
Proof.
  rewrite !fmag_decomp, !fscaled_sc.
  pose proof (fman_range f a). pose proof (fman_range f b).
  pose proof (fexp_range f a). pose proof (fexp_range f b).
  apply sc_order; lia.
Qed.

Lemma fmag_nonneg f a : 0 <= fmag f a.
Proof.
  unfold fmag. apply Z.mod_pos_bound. apply Z.pow_pos_nonneg; [lia|].
  unfold fbits. pose proof (mbits_pos f). pose proof (ebits_pos f). lia.
Qed.

Lemma fscaled_nonneg f a : 0 <= fscaled f a.
Proof.
  rewrite fscaled_sc. unfold sc.
  pose proof (fman_range f a). pose proof (fexp_range f a).
  assert (0 < 2 ^ fexp f a) by (apply Z.pow_pos_nonneg; lia).
  destruct (fexp f a =? 0); nia.
Qed.

Lemma fmag_zero_iff f a : fmag f a = 0 <-> fscaled f a = 0.
Proof.
  pose proof (fmag_order f a 0) as H.
  replace (fmag f 0) with 0 in H by (destruct f; reflexivity).
  replace (fscaled f 0) with 0 in H by (destruct f; reflexivity).
  rewrite <- !Z.compare_eq_iff. rewrite H. tauto.
Qed.

(* the order on keys is the order on (scaled) real values, for ALL patterns *)
Theorem fkey_order_is_real_order f a b :
  (fkey f a ?= fkey f b) = (fkey_real f a ?= fkey_real f b).
Proof.
  unfold fkey, fkey_real.
  pose proof (fmag_nonneg f a) as Ma. pose proof (fmag_nonneg f b) as Mb.
  pose proof (fscaled_nonneg f a) as Sa. pose proof (fscaled_nonneg f b) as Sb.
  pose proof (fmag_zero_iff f a) as Za. pose proof (fmag_zero_iff f b) as Zb.
  destruct (fsign f a), (fsign f b).
  - rewrite !Z.compare_opp. apply fmag_order.
  - destruct (Z.eq_dec (fmag f a) 0) as [Ea|Ea]; destruct (Z.eq_dec (fmag f b) 0) as [Eb|Eb].
    + rewrite Ea, Eb, (proj1 Za Ea), (proj1 Zb Eb). reflexivity.
    + assert (A : - fmag f a < fmag f b) by lia.
      assert (B : - fscaled f a < fscaled f b) by (assert (fscaled f b <> 0) by tauto; lia).
      apply cmp_lt; assumption.
    + assert (A : - fmag f a < fmag f b) by lia.
      assert (B : - fscaled f a < fscaled f b) by (assert (fscaled f a <> 0) by tauto; lia).
      apply cmp_lt; assumption.
    + assert (A : - fmag f a < fmag f b) by lia.
      assert (B : - fscaled f a < fscaled f b) by (assert (fscaled f a <> 0) by tauto; lia).
      apply cmp_lt; assumption.
  - destruct (Z.eq_dec (fmag f a) 0) as [Ea|Ea]; destruct (Z.eq_dec (fmag f b) 0) as [Eb|Eb].
    + rewrite Ea, Eb, (proj1 Za Ea), (proj1 Zb Eb). reflexivity.
    + assert (A : fmag f a > - fmag f b) by lia.
      assert (B : fscaled f a > - fscaled f b) by (assert (fscaled f b <> 0) by tauto; lia).
      apply cmp_gt; lia.
    + assert (A : fmag f a > - fmag f b) by lia.
      assert (B : fscaled f a > - fscaled f b) by (assert (fscaled f a <> 0) by tauto; lia).
      apply cmp_gt; lia.
    + assert (A : fmag f a > - fmag f b) by lia.
      assert (B : fscaled f a > - fscaled f b) by (assert (fscaled f a <> 0) by tauto; lia).
      apply cmp_gt; lia.
  - apply fmag_order.
Qed.

(* basic laws of the comparison *)
Lemma fcompare_sym f a b :
  fcompare f b a = match fcompare f a b with FLt => FGt | FGt => FLt | c => c end.
Proof.
  unfold fcompare. rewrite (orb_comm (is_nan f b)).
  destruct (is_nan f a || is_nan f b); [reflexivity|].
  rewrite (Z.compare_antisym (fkey f a) (fkey f b)).
  destruct (fkey f a ?= fkey f b); reflexivity.
Qed.

Example fcompare_zeros :
  fcompare F32 0 (2 ^ 31) = FEq /\ fcompare F64 (2 ^ 63) 0 = FEq /\
  fcompare F32 (fneg F32 (fl_inf F32)) (fneg F32 (fl_max F32)) = FLt /\
  fcompare F64 (fl_max F64) (fl_inf F64) = FLt /\
  fcompare F32 1 (fl_min F32) = FLt /\          (* denorm_min < min normal *)
  fcompare F32 (fl_qnan F32) (fl_qnan F32) = FUn.
Proof. vm_compute. repeat split; reflexivity. Qed.

Example fkey_order_is_real_order_nonvacuous :
  (* 1.5 vs 2^100 in binary32, -denorm_min vs +0, -inf vs lowest in binary64 *)
  (fkey F32 1069547520 ?= fkey F32 1900544000) = Lt /\
  (fkey_real F32 1069547520 ?= fkey_real F32 1900544000) = Lt /\
  (fkey F32 (2 ^ 31 + 1) ?= fkey F32 0) = Lt /\
  (fkey_real F32 (2 ^ 31 + 1) ?= fkey_real F32 0) = Lt /\
  (fkey F64 (fneg F64 (fl_inf F64)) ?= fkey F64 (fneg F64 (fl_max F64))) = Lt /\
  (fkey_real F64 (fneg F64 (fl_inf F64)) ?= fkey_real F64 (fneg F64 (fl_max F64))) = Lt.
Proof. vm_compute. repeat split; reflexivity. Qed.
