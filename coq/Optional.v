(* Optional.v — model of sbepp::detail::required_base<T, Derived> and
   sbepp::detail::optional_base<T, Derived> (sbepp.hpp) for the 11 SBE primitive
   types.

   A value of a primitive type is a [Z]: the integer itself for the integer
   types ([char] is a signed 8-bit integer on the x86-64 SysV ABI of this
   sandbox), the raw IEEE-754 bit pattern for [float]/[double] (Fp.v).
   [Derived] is a [tdesc]: the primitive type and what its static
   min_value()/max_value()/null_value() return.

   The main definitions transcribe the code AFTER the repair (fix_c16.diff):

       has_value()            return !is_null(val, Derived::null_value());
       is_null(value, null)   return (value == null)
                                  || ((value != value) && (null != null));
       operator==             return (lhs && rhs) ? ( *lhs == *rhs )
                                  : (lhs.has_value() == rhs.has_value());
       operator!= (pre C++20) return !(lhs == rhs);
       operator<=> (C++20)    returns std::compare_three_way_result_t<T>
       <, <=, >, >= (pre C++20), in_range, value_or: unchanged

   [Legacy] is the code before the repair (has_value: val != null,
   ==: *lhs == *rhs, !=: *lhs != *rhs, <=> declared std::strong_ordering, which
   does not compile for floating-point T: modelled as [None]).

   Both comparison implementations are modelled: [Pre20] (the six hand-written
   operators, used when SBEPP_HAS_THREE_WAY_COMPARISON == 0) and [Cxx20]
   (operator== and operator<=>; !=, <, <=, >, >= are the rewritten candidates
   the language synthesises from them).

   Definitions only, stdlib only; lemmas are in OptionalProofs.v. *)
From Coq Require Import ZArith Bool.
From Sbepp Require Import CInt Fp.
Import IEEE.
Local Open Scope Z_scope.

(* one module: keeps the extracted names (Legacy, ord, ...) apart from those of
   other model files in the monolithic OCaml extraction *)
Module Opt.

Inductive prim :=
  | PChar | PInt8 | PInt16 | PInt32 | PInt64
  | PUint8 | PUint16 | PUint32 | PUint64
  | PFloat | PDouble.

Definition all_prims : list prim :=
  (PChar :: PInt8 :: PInt16 :: PInt32 :: PInt64 ::
   PUint8 :: PUint16 :: PUint32 :: PUint64 :: PFloat :: PDouble :: nil)%list.

Inductive pkind := KInt (t : ity) | KFp (f : fty).

(* utils::primitive_type_to_cpp_type: char, std::int8_t ... double *)
Definition kind (p : prim) : pkind :=
  match p with
  | PChar => KInt I8
  | PInt8 => KInt I8
  | PInt16 => KInt I16
  | PInt32 => KInt I32
  | PInt64 => KInt I64
  | PUint8 => KInt U8
  | PUint16 => KInt U16
  | PUint32 => KInt U32
  | PUint64 => KInt U64
  | PFloat => KFp F32
  | PDouble => KFp F64
  end.

(* [v] is a value of primitive type [p] *)
Definition pvalid (p : prim) (v : Z) : bool :=
  match kind p with
  | KInt t => in_range t v
  | KFp f => fvalid f v
  end.

(* ------------------------------------------------------------------------ *)
(* built-in comparison operators on two operands of the same primitive type *)

(* outcome of comparing two values; [Unordered] only for floating point *)
Inductive ord := Less | Equal | Greater | Unordered.

Definition ord_eq (o : ord) : bool := match o with Equal => true | _ => false end.
Definition ord_ne (o : ord) : bool := negb (ord_eq o).
Definition ord_lt (o : ord) : bool := match o with Less => true | _ => false end.
Definition ord_le (o : ord) : bool := match o with Less | Equal => true | _ => false end.
Definition ord_gt (o : ord) : bool := match o with Greater => true | _ => false end.
Definition ord_ge (o : ord) : bool := match o with Greater | Equal => true | _ => false end.

Definition ord_of_comparison (c : comparison) : ord :=
  match c with Lt => Less | Eq => Equal | Gt => Greater end.

Definition ord_of_fcmp (c : fcmp) : ord :=
  match c with FLt => Less | FEq => Equal | FGt => Greater | FUn => Unordered end.

(* integers: both operands undergo the usual arithmetic conversions
   (integral promotion for the types narrower than int) and are then compared *)
Definition int_cmp (t : ity) (a b : Z) : ord :=
  let c := uac t t in
  ord_of_comparison (wrap c a ?= wrap c b).

Definition p_cmp (p : prim) (a b : Z) : ord :=
  match kind p with
  | KInt t => int_cmp t a b
  | KFp f => ord_of_fcmp (fcompare f a b)
  end.

(* a == b, a != b, a < b, a <= b, a > b, a >= b on T *)
Definition p_eq p a b := ord_eq (p_cmp p a b).
Definition p_ne p a b := ord_ne (p_cmp p a b).
Definition p_lt p a b := ord_lt (p_cmp p a b).
Definition p_le p a b := ord_le (p_cmp p a b).
Definition p_gt p a b := ord_gt (p_cmp p a b).
Definition p_ge p a b := ord_ge (p_cmp p a b).

(* false <=> true etc. (std::strong_ordering on bool) *)
Definition bool_cmp (a b : bool) : ord :=
  match a, b with
  | false, true => Less
  | true, false => Greater
  | _, _ => Equal
  end.

(* ------------------------------------------------------------------------ *)
(* Derived: what the generated / built-in class provides *)
Record tdesc := mk_tdesc {
  td_prim : prim;
  td_min : Z;    (* Derived::min_value() *)
  td_max : Z;    (* Derived::max_value() *)
  td_null : Z    (* Derived::null_value(); unused by required types *)
}.

Definition td_valid (d : tdesc) : bool :=
  pvalid (td_prim d) (td_min d) && pvalid (td_prim d) (td_max d) &&
  pvalid (td_prim d) (td_null d).

(* the six comparison results in the order == != < <= > >= ; [None] stands for
   "the expression does not compile" *)
Record cmp6 := mk_cmp6 {
  c_eq : bool; c_ne : bool; c_lt : bool; c_le : bool; c_gt : bool; c_ge : bool
}.

Definition cmp6_of_ord (o : ord) : cmp6 :=
  mk_cmp6 (ord_eq o) (ord_ne o) (ord_lt o) (ord_le o) (ord_gt o) (ord_ge o).

(* ------------------------------------------------------------------------ *)
(* optional_base<T, Derived> after the repair *)

(* private static constexpr bool is_null(value, null) *)
Definition is_null (d : tdesc) (v : Z) : bool :=
  let p := td_prim d in
  p_eq p v (td_null d) || (p_ne p v v && p_ne p (td_null d) (td_null d)).

Definition has_value (d : tdesc) (v : Z) : bool := negb (is_null d v).

(* explicit operator bool *)
Definition to_bool (d : tdesc) (v : Z) : bool := has_value d v.

(* optional_base() = default  with  value_type val{Derived::null_value()} *)
Definition opt_default (d : tdesc) : Z := td_null d.

(* optional_base(nullopt_t) : optional_base{} *)
Definition opt_nullopt (d : tdesc) : Z := opt_default d.

(* optional_base(value_type val) : val{val} *)
Definition opt_of_value (d : tdesc) (v : Z) : Z := v.

Definition value_or (d : tdesc) (v dflt : Z) : Z :=
  if to_bool d v then v else dflt.

Definition opt_in_range (d : tdesc) (v : Z) : bool :=
  p_le (td_prim d) (td_min d) v && p_le (td_prim d) v (td_max d).

(* operator== is shared by both implementations *)
Definition opt_eq (d : tdesc) (l r : Z) : bool :=
  if to_bool d l && to_bool d r then p_eq (td_prim d) l r
  else Bool.eqb (has_value d l) (has_value d r).

Module Pre20.
  Definition ne d l r := negb (opt_eq d l r).
  Definition lt d l r := to_bool d r && (negb (to_bool d l) || p_lt (td_prim d) l r).
  Definition le d l r := negb (to_bool d l) || (to_bool d r && p_le (td_prim d) l r).
  Definition gt d l r := to_bool d l && (negb (to_bool d r) || p_gt (td_prim d) l r).
  Definition ge d l r := negb (to_bool d r) || (to_bool d l && p_ge (td_prim d) l r).
  Definition all d l r : option cmp6 :=
    Some (mk_cmp6 (opt_eq d l r) (ne d l r) (lt d l r) (le d l r) (gt d l r) (ge d l r)).
End Pre20.

Module Cxx20.
  (* operator<=>: the return type is compare_three_way_result_t<T> and
     strong_ordering converts to partial_ordering, so it compiles for every T *)
  Definition cmp3 (d : tdesc) (l r : Z) : option ord :=
    Some (if to_bool d l && to_bool d r then p_cmp (td_prim d) l r
          else bool_cmp (has_value d l) (has_value d r)).
  (* a != b is !(a == b); a @ b is (a <=> b) @ 0 *)
  Definition all d l r : option cmp6 :=
    match cmp3 d l r with
    | Some o => Some (mk_cmp6 (opt_eq d l r) (negb (opt_eq d l r))
                              (ord_lt o) (ord_le o) (ord_gt o) (ord_ge o))
    | None => None
    end.
End Cxx20.

(* ------------------------------------------------------------------------ *)
(* required_base<T, Derived>: value-initialised, comparisons on the value *)
Module Req.
  Definition req_default (d : tdesc) : Z := 0.
  Definition req_in_range (d : tdesc) (v : Z) : bool :=
    p_le (td_prim d) (td_min d) v && p_le (td_prim d) v (td_max d).
  Module Pre20.
    Definition all (d : tdesc) (l r : Z) : option cmp6 :=
      let p := td_prim d in
      Some (mk_cmp6 (p_eq p l r) (p_ne p l r) (p_lt p l r) (p_le p l r) (p_gt p l r) (p_ge p l r)).
  End Pre20.
  Module Cxx20.
    (* friend auto operator<=>(const required_base&, const required_base&) = default;
       (also declares the defaulted operator==) *)
    Definition cmp3 (d : tdesc) (l r : Z) : option ord := Some (p_cmp (td_prim d) l r).
    Definition all (d : tdesc) (l r : Z) : option cmp6 :=
      let p := td_prim d in
      match cmp3 d l r with
      | Some o => Some (mk_cmp6 (p_eq p l r) (negb (p_eq p l r))
                                (ord_lt o) (ord_le o) (ord_gt o) (ord_ge o))
      | None => None
      end.
  End Cxx20.
End Req.

(* ------------------------------------------------------------------------ *)
(* optional_base<T, Derived> before the repair *)
Module Legacy.
  Definition has_value (d : tdesc) (v : Z) : bool := p_ne (td_prim d) v (td_null d).
  Definition to_bool (d : tdesc) (v : Z) : bool := has_value d v.
  Definition opt_default (d : tdesc) : Z := td_null d.
  Definition opt_nullopt (d : tdesc) : Z := opt_default d.
  Definition value_or (d : tdesc) (v dflt : Z) : Z := if to_bool d v then v else dflt.
  Definition opt_eq (d : tdesc) (l r : Z) : bool := p_eq (td_prim d) l r.
  Module Pre20.
    Definition ne d l r := p_ne (td_prim d) l r.
    Definition lt d l r := to_bool d r && (negb (to_bool d l) || p_lt (td_prim d) l r).
    Definition le d l r := negb (to_bool d l) || (to_bool d r && p_le (td_prim d) l r).
    Definition gt d l r := to_bool d l && (negb (to_bool d r) || p_gt (td_prim d) l r).
    Definition ge d l r := negb (to_bool d r) || (to_bool d l && p_ge (td_prim d) l r).
    Definition all d l r : option cmp6 :=
      Some (mk_cmp6 (opt_eq d l r) (ne d l r) (lt d l r) (le d l r) (gt d l r) (ge d l r)).
  End Pre20.
  Module Cxx20.
    (* constexpr friend std::strong_ordering operator<=>(...) { return *lhs <=> *rhs; ... }
       partial_ordering does not convert to strong_ordering: any use of <=>, <,
       <=, >, >= on a floating-point optional is ill-formed *)
    Definition cmp3 (d : tdesc) (l r : Z) : option ord :=
      match kind (td_prim d) with
      | KFp _ => None
      | KInt _ =>
        Some (if to_bool d l && to_bool d r then p_cmp (td_prim d) l r
              else bool_cmp (has_value d l) (has_value d r))
      end.
    Definition all d l r : option cmp6 :=
      match cmp3 d l r with
      | Some o => Some (mk_cmp6 (opt_eq d l r) (negb (opt_eq d l r))
                                (ord_lt o) (ord_le o) (ord_gt o) (ord_ge o))
      | None => None
      end.
  End Cxx20.
End Legacy.

(* ------------------------------------------------------------------------ *)
(* the specification: the documented rules, stated on mathematical values *)

(* the underlying order: integers as integers, floating point by IEEE-754 *)
Definition spec_val_cmp (p : prim) (a b : Z) : ord :=
  match kind p with
  | KInt _ => ord_of_comparison (a ?= b)
  | KFp f => ord_of_fcmp (fcompare f a b)
  end.

Definition spec_is_nan (p : prim) (v : Z) : bool :=
  match kind p with
  | KInt _ => false
  | KFp f => is_nan f v
  end.

(* [v] is null: it equals the type's null value; when the null value is NaN
   (the SBE default for float/double) every NaN is null *)
Definition spec_null (d : tdesc) (v : Z) : bool :=
  ord_eq (spec_val_cmp (td_prim d) v (td_null d)) ||
  (spec_is_nan (td_prim d) v && spec_is_nan (td_prim d) (td_null d)).

(* null equals only null and orders before every value; otherwise the
   underlying values compare *)
Definition spec_cmp (d : tdesc) (l r : Z) : ord :=
  match spec_null d l, spec_null d r with
  | true, true => Equal
  | true, false => Less
  | false, true => Greater
  | false, false => spec_val_cmp (td_prim d) l r
  end.

Definition spec_value_or (d : tdesc) (v dflt : Z) : Z :=
  if spec_null d v then dflt else v.

Definition spec_in_range (d : tdesc) (v : Z) : bool :=
  ord_le (spec_val_cmp (td_prim d) (td_min d) v) &&
  ord_le (spec_val_cmp (td_prim d) v (td_max d)).

(* ------------------------------------------------------------------------ *)
(* the built-in types sbepp::<name>_t / <name>_opt_t: SBEPP_BUILT_IN_IMPL(NAME,
   TYPE, MIN, MAX, NULL) with the std::numeric_limits expressions evaluated *)
Definition builtin_min (p : prim) : Z :=
  match p with
  | PChar => 32                                  (* 0x20 *)
  | PInt8 => tmin I8 + 1 | PInt16 => tmin I16 + 1
  | PInt32 => tmin I32 + 1 | PInt64 => tmin I64 + 1
  | PUint8 => tmin U8 | PUint16 => tmin U16
  | PUint32 => tmin U32 | PUint64 => tmin U64
  | PFloat => fl_min F32 | PDouble => fl_min F64
  end.

Definition builtin_max (p : prim) : Z :=
  match p with
  | PChar => 126                                 (* 0x7E *)
  | PInt8 => tmax I8 | PInt16 => tmax I16 | PInt32 => tmax I32 | PInt64 => tmax I64
  | PUint8 => tmax U8 - 1 | PUint16 => tmax U16 - 1
  | PUint32 => tmax U32 - 1 | PUint64 => tmax U64 - 1
  | PFloat => fl_max F32 | PDouble => fl_max F64
  end.

Definition builtin_null (p : prim) : Z :=
  match p with
  | PChar => 0
  | PInt8 => tmin I8 | PInt16 => tmin I16 | PInt32 => tmin I32 | PInt64 => tmin I64
  | PUint8 => tmax U8 | PUint16 => tmax U16 | PUint32 => tmax U32 | PUint64 => tmax U64
  | PFloat => fl_qnan F32 | PDouble => fl_qnan F64
  end.

Definition builtin (p : prim) : tdesc :=
  mk_tdesc p (builtin_min p) (builtin_max p) (builtin_null p).

End Opt.
