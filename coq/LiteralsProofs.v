(* LiteralsProofs.v — proofs about Literals.v (C07, parts 1 and 3). *)
From Coq Require Import ZArith NArith List Bool Ascii String Lia.
From Coq Require Import DecimalString DecimalFacts DecimalPos DecimalN.
From Sbepp Require Import CInt CIntFacts Bytes Literals.
Import ListNotations.
Local Open Scope Z_scope.

(* ------------------------------------------------------------------ *)
(* strings                                                              *)
(* ------------------------------------------------------------------ *)
Lemma all_chars_app f a b : all_chars f (a ++ b) = all_chars f a && all_chars f b.
Proof. induction a as [|c a IH]; cbn; [reflexivity|]. rewrite IH, andb_assoc. reflexivity. Qed.

Lemma rev_app_app s a b :
  string_rev_app (string_rev_app s a) b = string_rev_app a (s ++ b)%string.
Proof.
  revert a b. induction s as [|c s IH]; intros a b; cbn; [reflexivity|].
  rewrite IH. reflexivity.
Qed.

Lemma rev_rev s : string_rev_app (string_rev_app s EmptyString) EmptyString = s.
Proof.
  rewrite rev_app_app. cbn. induction s as [|c s IH]; cbn; [reflexivity|]. now rewrite IH.
Qed.

Lemma string_app_nil_r s : (s ++ "")%string = s.
Proof. induction s as [|c s IH]; cbn; [reflexivity|]. now rewrite IH. Qed.

Lemma string_app_assoc a b c : ((a ++ b) ++ c)%string = (a ++ (b ++ c))%string.
Proof. induction a as [|x a IH]; cbn; [reflexivity|]. now rewrite IH. Qed.

Lemma string_length_app a b : String.length (a ++ b) = (String.length a + String.length b)%nat.
Proof. induction a as [|x a IH]; cbn; [reflexivity|]. now rewrite IH. Qed.

Lemma range_I32 v : in_range I32 v = true <-> -2147483648 <= v <= 2147483647.
Proof.
  rewrite in_range_iff.
  replace (tmin I32) with (-2147483648) by (vm_compute; reflexivity).
  replace (tmax I32) with 2147483647 by (vm_compute; reflexivity). tauto.
Qed.
Lemma range_I64 v : in_range I64 v = true <-> -9223372036854775808 <= v <= 9223372036854775807.
Proof.
  rewrite in_range_iff.
  replace (tmin I64) with (-9223372036854775808) by (vm_compute; reflexivity).
  replace (tmax I64) with 9223372036854775807 by (vm_compute; reflexivity). tauto.
Qed.
Lemma range_U64 v : in_range U64 v = true <-> 0 <= v <= 18446744073709551615.
Proof.
  rewrite in_range_iff.
  replace (tmin U64) with 0 by (vm_compute; reflexivity).
  replace (tmax U64) with 18446744073709551615 by (vm_compute; reflexivity). tauto.
Qed.
Lemma range_le_I64 t v : is_signed t = true -> in_range t v = true -> in_range I64 v = true.
Proof.
  intros Hs H. apply range_I64. apply in_range_iff in H.
  destruct t; try discriminate.
  - replace (tmin I8) with (-128) in H by (vm_compute; reflexivity).
    replace (tmax I8) with 127 in H by (vm_compute; reflexivity). lia.
  - replace (tmin I16) with (-32768) in H by (vm_compute; reflexivity).
    replace (tmax I16) with 32767 in H by (vm_compute; reflexivity). lia.
  - apply in_range_iff, range_I32 in H. lia.
  - apply in_range_iff, range_I64 in H. lia.
Qed.
Lemma tmax_le_U64 t : tmax t <= 18446744073709551615.
Proof. destruct t; vm_compute; discriminate. Qed.
Lemma INT64_MAX_eq : INT64_MAX = 9223372036854775807.
Proof. reflexivity. Qed.

(* ------------------------------------------------------------------ *)
(* decimal rendering                                                    *)
(* ------------------------------------------------------------------ *)
Lemma sou_digits d : all_chars is_digit (NilEmpty.string_of_uint d) = true.
Proof. induction d; cbn [NilEmpty.string_of_uint all_chars]; rewrite ?IHd; reflexivity. Qed.

Lemma to_uint_nonnil n : N.to_uint n <> Decimal.Nil.
Proof. destruct n; cbn; [discriminate|apply Unsigned.to_uint_nonnil]. Qed.

Lemma render_N_eq n : render_N n = NilEmpty.string_of_uint (N.to_uint n).
Proof.
  unfold render_N, NilZero.string_of_uint. pose proof (to_uint_nonnil n).
  destruct (N.to_uint n); congruence.
Qed.

Lemma render_N_digits n : all_chars is_digit (render_N n) = true.
Proof. rewrite render_N_eq. apply sou_digits. Qed.

Lemma parse_render n : parse_digits (render_N n) = Some (Z.of_N n).
Proof.
  unfold parse_digits, render_N. rewrite NilZero.usu by apply to_uint_nonnil.
  now rewrite DecimalN.Unsigned.of_to.
Qed.

Lemma pos_to_uint_norm p : Decimal.unorm (Pos.to_uint p) = Pos.to_uint p.
Proof.
  rewrite <- (DecimalPos.Unsigned.to_of (Pos.to_uint p)).
  rewrite DecimalPos.Unsigned.of_to. reflexivity.
Qed.

Lemma pos_to_uint_head p d : Pos.to_uint p <> Decimal.D0 d.
Proof.
  intros E. pose proof (pos_to_uint_norm p) as H. rewrite E in H.
  rewrite unorm_D0 in H. unfold Decimal.unorm in H.
  destruct (Decimal.nzhead d) eqn:Hn;
    try (apply (nzhead_nonzero d d); congruence).
  - (* Nil *) injection H as <-. apply (Unsigned.to_uint_nonzero p). exact E.
Qed.

Definition head_not_zero (s : string) : Prop :=
  match s with String c _ => Ascii.eqb c "0" = false | EmptyString => False end.

Lemma render_pos_head p : head_not_zero (render_N (Npos p)).
Proof.
  rewrite render_N_eq. cbn [N.to_uint]. pose proof (pos_to_uint_head p) as H.
  pose proof (Unsigned.to_uint_nonnil p) as Hn.
  destruct (Pos.to_uint p); cbn; try reflexivity; [congruence|]. exfalso. eapply H. reflexivity.
Qed.

Lemma render_N_nonempty n : render_N n <> EmptyString.
Proof.
  destruct n; [discriminate|]. pose proof (render_pos_head p) as H.
  destruct (render_N (N.pos p)); [destruct H|discriminate].
Qed.

(* ------------------------------------------------------------------ *)
(* lexing                                                               *)
(* ------------------------------------------------------------------ *)
Lemma digit_alnum c : is_digit c = true -> is_alnum c = true.
Proof. unfold is_alnum. intros ->. reflexivity. Qed.

Lemma all_digit_alnum s : all_chars is_digit s = true -> all_chars is_alnum s = true.
Proof.
  induction s as [|c s IH]; cbn; [reflexivity|]. rewrite andb_true_iff. intros [H1 H2].
  rewrite (digit_alnum _ H1), IH by assumption. reflexivity.
Qed.

Lemma lex_go_alnum s cur acc : all_chars is_alnum s = true ->
  lex_go s cur acc = Some (List.rev (flush (string_rev_app s cur) acc)).
Proof.
  revert cur. induction s as [|c s IH]; intros cur H; cbn in *; [reflexivity|].
  apply andb_true_iff in H as [H1 H2]. rewrite H1. apply IH. exact H2.
Qed.

Lemma lex_alnum s : all_chars is_alnum s = true -> s <> EmptyString ->
  lex s = Some [TLit s].
Proof.
  intros H Hne. unfold lex. rewrite lex_go_alnum by exact H.
  unfold flush. destruct (string_rev_app s "") eqn:E.
  - exfalso. apply Hne. rewrite <- (rev_rev s), E. reflexivity.
  - rewrite <- E, rev_rev. reflexivity.
Qed.

Lemma lex_minus_alnum s : all_chars is_alnum s = true -> s <> EmptyString ->
  lex (String "-" s) = Some [TMinus; TLit s].
Proof.
  intros H Hne. unfold lex. cbn [lex_go]. change (is_alnum "-") with false. cbn [Ascii.eqb Bool.eqb].
  cbn. rewrite lex_go_alnum by exact H.
  unfold flush at 1. destruct (string_rev_app s "") eqn:E.
  - exfalso. apply Hne. rewrite <- (rev_rev s), E. reflexivity.
  - rewrite <- E, rev_rev. reflexivity.
Qed.

Lemma span_app f a b : all_chars f a = true ->
  match b with String c _ => f c = false | EmptyString => True end ->
  span f (a ++ b) = (a, b).
Proof.
  intros Ha Hb. induction a as [|c a IH]; cbn in *.
  - destruct b as [|c b]; cbn; [reflexivity|]. rewrite Hb. reflexivity.
  - apply andb_true_iff in Ha as [H1 H2]. rewrite H1, IH by exact H2. reflexivity.
Qed.

(* ------------------------------------------------------------------ *)
(* decimal literals                                                     *)
(* ------------------------------------------------------------------ *)
Lemma classify_decimal (n : N) (suf : string) uns lng t :
  (n <> 0%N \/ suf = EmptyString) ->
  match suf with String c _ => is_digit c = false | EmptyString => True end ->
  suffix_kind suf = Some (uns, lng) ->
  first_fit (Z.of_N n) (literal_types true uns lng) = Some t ->
  classify_literal (render_N n ++ suf) = Some (Z.of_N n, t).
Proof.
  intros Hz Hs Hk Hf. unfold classify_literal.
  assert (Hbase :
    match (render_N n ++ suf)%string with
    | String c (String x r) =>
      if Ascii.eqb c "0"
      then (if Ascii.eqb x "x" || Ascii.eqb x "X" then (16, r) else (8, String x r))
      else (10, (render_N n ++ suf)%string)
    | _ => (10, (render_N n ++ suf)%string)
    end = (10, (render_N n ++ suf)%string)).
  { destruct n as [|p].
    - destruct Hz as [Hz| ->]; [congruence|]. reflexivity.
    - pose proof (render_pos_head p) as Hh. destruct (render_N (N.pos p)) as [|c r]; [destruct Hh|].
      cbn in Hh. cbn [String.append]. rewrite Hh. destruct (r ++ suf)%string; reflexivity. }
  rewrite Hbase. cbn [Z.eqb Pos.eqb].
  rewrite (span_app is_digit) by (try apply render_N_digits; exact Hs).
  pose proof (render_N_nonempty n) as Hne.
  destruct (render_N n) eqn:E; [congruence|]. rewrite <- E.
  rewrite parse_render, Hk. change (10 =? 10) with true. rewrite Hf. reflexivity.
Qed.

Lemma first_fit_signed v : 0 <= v <= INT64_MAX ->
  exists t, first_fit v [I32; I64] = Some t /\ (t = I32 \/ t = I64) /\ in_range t v = true.
Proof.
  intros H. rewrite INT64_MAX_eq in H. unfold first_fit. cbn [find].
  destruct (in_range I32 v) eqn:E.
  - exists I32. auto.
  - exists I64. assert (Hr : in_range I64 v = true) by (apply range_I64; lia).
    rewrite Hr. auto.
Qed.

Lemma eval_nonneg v : 0 <= v <= INT64_MAX ->
  exists t, eval_expr (render_Z v) = Some (v, t).
Proof.
  intros H. destruct (first_fit_signed v H) as (t & Hf & _ & _).
  exists t. unfold eval_expr.
  assert (Hr : render_Z v = render_N (Z.to_N v)) by (destruct v; [reflexivity|reflexivity|lia]).
  rewrite Hr. rewrite lex_alnum
    by (try apply all_digit_alnum; try apply render_N_digits; apply render_N_nonempty).
  cbn [List.length eval_unary].
  pose proof (classify_decimal (Z.to_N v) EmptyString false false t) as Hc.
  rewrite string_app_nil_r in Hc. rewrite Z2N.id in Hc by lia.
  rewrite Hc by (first [right; reflexivity | exact I | reflexivity | exact Hf]). reflexivity.
Qed.

Lemma eval_big_unsigned v : INT64_MAX < v <= 18446744073709551615 ->
  eval_expr (render_Z v ++ "UL") = Some (v, U64).
Proof.
  intros H. rewrite INT64_MAX_eq in H. unfold eval_expr.
  assert (Hr : render_Z v = render_N (Z.to_N v)) by (destruct v; [reflexivity|reflexivity|lia]).
  rewrite Hr. rewrite lex_alnum.
  - cbn [List.length eval_unary].
    pose proof (classify_decimal (Z.to_N v) "UL" true true U64) as Hc.
    rewrite Z2N.id in Hc by lia. rewrite Hc; [reflexivity|left; lia|reflexivity|reflexivity|].
    unfold first_fit. cbn [literal_types find].
    assert (Hi : in_range U64 v = true) by (apply range_U64; lia).
    rewrite Hi. reflexivity.
  - rewrite all_chars_app, (all_digit_alnum _ (render_N_digits _)). reflexivity.
  - pose proof (render_N_nonempty (Z.to_N v)). destruct (render_N (Z.to_N v)); [congruence|discriminate].
Qed.

Lemma eval_negative v : - INT64_MAX <= v < 0 ->
  exists t, eval_expr (render_Z v) = Some (v, t).
Proof.
  intros H. rewrite INT64_MAX_eq in H.
  destruct v as [|p|p]; try lia. cbn [render_Z].
  destruct (first_fit_signed (Z.pos p)) as (t & Hf & Ht & Hin); [rewrite INT64_MAX_eq; lia|].
  exists t. unfold eval_expr.
  rewrite lex_minus_alnum
    by (try apply all_digit_alnum; try apply render_N_digits; apply render_N_nonempty).
  cbn [List.length eval_unary].
  pose proof (classify_decimal (N.pos p) EmptyString false false t) as Hc.
  rewrite string_app_nil_r in Hc. cbn [Z.of_N] in Hc.
  rewrite Hc by (first [left; discriminate | exact I | reflexivity | exact Hf]).
  assert (Hneg : cneg t (Z.pos p) = Some (Z.neg p) /\ promote t = t).
  { destruct Ht as [-> | ->]; split; try reflexivity.
    - unfold cneg, arith. cbn [promote is_signed Z.opp]. apply range_I32 in Hin.
      assert (Hr : in_range I32 (Z.neg p) = true) by (apply range_I32; lia).
      rewrite Hr. reflexivity.
    - unfold cneg, arith. cbn [promote is_signed Z.opp].
      assert (Hr : in_range I64 (Z.neg p) = true) by (apply range_I64; lia).
      rewrite Hr. reflexivity. }
  destruct Hneg as [-> ->]. reflexivity.
Qed.

(* ------------------------------------------------------------------ *)
(* from_chars / string_to_number                                        *)
(* ------------------------------------------------------------------ *)
Lemma parse_digits_nonneg s v : parse_digits s = Some v -> 0 <= v.
Proof.
  unfold parse_digits. destruct (NilZero.uint_of_string s); [|discriminate].
  intros [= <-]. lia.
Qed.

Lemma string_to_number_spec t s v : string_to_number t s = Some v ->
  from_chars (is_signed t) s = Some v /\ in_range t v = true.
Proof.
  unfold string_to_number. destruct (from_chars (is_signed t) s) as [w|]; [|discriminate].
  destruct (in_range t w) eqn:E; [|discriminate]. intros [= <-]. auto.
Qed.

Lemma from_chars_minus b s v : starts_with_minus s = true -> from_chars b s = Some v ->
  b = true /\ from_chars true s = Some v.
Proof.
  destruct s as [|c r]; cbn; [discriminate|]. intros ->. destruct b; [auto|discriminate].
Qed.

Lemma from_chars_nominus b s v : starts_with_minus s = false -> from_chars b s = Some v ->
  from_chars false s = Some v /\ 0 <= v.
Proof.
  destruct s as [|c r]; cbn; [discriminate|]. intros ->. intros H. split; [exact H|].
  eapply parse_digits_nonneg; eassumption.
Qed.

Lemma in_range_widen_unsigned t v : 0 <= v -> in_range t v = true -> in_range U64 v = true.
Proof.
  intros Hv H. apply in_range_iff in H. apply range_U64. pose proof (tmax_le_U64 t). lia.
Qed.

(* ------------------------------------------------------------------ *)
(* C07 (1): literals                                                    *)
(* ------------------------------------------------------------------ *)
Lemma denotes_of_eval txt p v t :
  eval_expr txt = Some (v, t) -> in_range (prim_cty p) v = true -> literal_denotes txt p v = true.
Proof.
  intros He Hr. unfold literal_denotes, narrowing. rewrite He, Z.eqb_refl, Hr. reflexivity.
Qed.

(* for every integer primitive type and every schema value the validator
   accepts for it (value_fits_into_type = string_to_number<T> succeeds, value
   [v]) the emitted text is a constant expression of value [v] that is not a
   narrowing initialiser of the representation type *)
Theorem literals_ok : forall p s v,
  is_fp p = false ->
  string_to_number (prim_cty p) s = Some v ->
  exists txt, to_integer_literal s = Some txt /\ literal_denotes txt p v = true.
Proof.
  intros p s v Hfp Hs. apply string_to_number_spec in Hs as [Hfc Hin].
  unfold to_integer_literal. destruct (starts_with_minus s) eqn:Hm.
  - destruct (from_chars_minus _ _ _ Hm Hfc) as [Hsg Hfc'].
    pose proof (range_le_I64 _ _ Hsg Hin) as H64.
    unfold string_to_number. cbn [is_signed]. rewrite Hfc', H64.
    destruct (v <? - INT64_MAX) eqn:Hlt.
    + apply Z.ltb_lt in Hlt. apply range_I64 in H64. rewrite INT64_MAX_eq in Hlt.
      assert (v = -9223372036854775808) by lia. subst v.
      eexists. split; [reflexivity|]. apply denotes_of_eval with (t := I64); [|exact Hin].
      vm_compute. reflexivity.
    + apply Z.ltb_ge in Hlt. destruct (Z_lt_le_dec v 0) as [Hneg|Hpos].
      * destruct (eval_negative v) as (t & He); [split; [exact Hlt|exact Hneg]|].
        eexists. split; [reflexivity|]. eapply denotes_of_eval; eassumption.
      * (* "-0", "-00" ... *)
        assert (v = 0).
        { destruct s as [|c r]; [discriminate|]. cbn in Hm, Hfc'. rewrite Hm in Hfc'.
          destruct (parse_digits r) as [w|] eqn:Hp; [|discriminate].
          apply parse_digits_nonneg in Hp. cbn in Hfc'. injection Hfc' as <-. lia. }
        subst v. eexists. split; [reflexivity|].
        apply denotes_of_eval with (t := I32); [vm_compute; reflexivity|exact Hin].
  - destruct (from_chars_nominus _ _ _ Hm Hfc) as [Hfc' Hnn].
    pose proof (in_range_widen_unsigned _ _ Hnn Hin) as H64.
    unfold string_to_number. cbn [is_signed]. rewrite Hfc', H64.
    destruct (INT64_MAX <? v) eqn:Hgt.
    + apply Z.ltb_lt in Hgt. apply range_U64 in H64.
      eexists. split; [reflexivity|]. eapply denotes_of_eval; [|exact Hin].
      apply eval_big_unsigned. lia.
    + apply Z.ltb_ge in Hgt. destruct (eval_nonneg v) as (t & He); [split; [exact Hnn|exact Hgt]|].
      eexists. split; [reflexivity|]. eapply denotes_of_eval; eassumption.
Qed.

Example literals_ok_nonvacuous :
  string_to_number (prim_cty PU8) "010" = Some 10 /\
  to_integer_literal "010" = Some "10"%string /\ literal_denotes "10" PU8 10 = true /\
  string_to_number (prim_cty PI64) "-9223372036854775808" = Some (-9223372036854775808) /\
  to_integer_literal "-9223372036854775808" = Some "-9223372036854775807 -1"%string /\
  string_to_number (prim_cty PU64) "18446744073709551615" = Some 18446744073709551615.
Proof. vm_compute. repeat split. Qed.

(* the code before the fix echoes the schema text: from_chars reads "010" as
   ten, a C++ compiler reads it as eight; "08" does not lex at all *)
Example literals_legacy_refuted :
  string_to_number (prim_cty PU8) "010" = Some 10 /\
  Legacy.to_integer_literal "010" PU8 = Some "010"%string /\
  literal_denotes "010" PU8 10 = false /\ eval_expr "010" = Some (8, I32) /\
  string_to_number (prim_cty PU8) "08" = Some 8 /\
  Legacy.to_integer_literal "08" PU8 = Some "08"%string /\ eval_expr "08" = None.
Proof. vm_compute. repeat split. Qed.

(* the 33 built-in table entries *)
Lemma builtin_table_all : forallb entry_ok table_entries = true.
Proof. vm_compute. reflexivity. Qed.

Lemma table_entries_complete w p : In (w, p) table_entries.
Proof. destruct w, p; cbn; tauto. Qed.

Theorem builtin_table_ok : forall w p,
  if is_fp p then builtin_text w p = fp_default_text w p
  else literal_denotes (builtin_text w p) p (sbe_default w p) = true.
Proof.
  intros w p. pose proof builtin_table_all as H. rewrite forallb_forall in H.
  specialize (H _ (table_entries_complete w p)). unfold entry_ok in H.
  destruct (is_fp p); [apply String.eqb_eq; exact H|exact H].
Qed.

Example builtin_table_nonvacuous :
  List.length table_entries = 33%nat /\ sbe_default WNull PI16 = -32768 /\
  literal_denotes "-327678" PI16 (sbe_default WNull PI16) = false.
Proof. vm_compute. repeat split. Qed.

(* ------------------------------------------------------------------ *)
(* C07 (3): strings                                                     *)
(* ------------------------------------------------------------------ *)
Lemma code_range c : 0 <= code c < 256.
Proof.
  unfold code. pose proof (N_ascii_bounded c). lia.
Qed.

Lemma chr_code c : chr (code c) = c.
Proof. unfold chr, code. rewrite N2Z.id. apply ascii_N_embedding. Qed.

Lemma code_chr n : 0 <= n < 256 -> code (chr n) = n.
Proof.
  intros H. unfold chr, code. rewrite N_ascii_embedding by lia. lia.
Qed.

Lemma option_map_some {A B} (f : A -> B) o x : o = Some x -> option_map f o = Some (f x).
Proof. intros ->. reflexivity. Qed.

(* invariant of the scan: the remaining escaped text never starts a trigraph
   together with what was emitted before it *)
Definition starts_q (s : string) : bool :=
  match s with String c _ => code c =? 63 | EmptyString => false end.

Lemma escape_go_starts_q s : starts_q (escape_go s true) = false.
Proof.
  destruct s as [|c r]; [reflexivity|]. cbn [escape_go].
  destruct ((code c =? 34) || (code c =? 92) || (code c =? 39)); [reflexivity|].
  destruct (code c =? 63) eqn:E; cbn [andb]; [reflexivity|].
  destruct ((code c <? 32) || (code c =? 127)); [reflexivity|]. cbn. exact E.
Qed.

Lemma oct_digit_chr d : 0 <= d < 8 -> oct_digit (chr (48 + d)) = Some d.
Proof.
  intros H. unfold oct_digit, is_octal_digit. rewrite code_chr by lia.
  replace (48 <=? 48 + d) with true by (symmetry; apply Z.leb_le; lia).
  replace (48 + d <=? 55) with true by (symmetry; apply Z.leb_le; lia).
  cbn [andb]. f_equal. lia.
Qed.

Lemma oct_digit_none c : (code c =? 34) || (code c =? 92) || (code c =? 39) = true \/ code c = 63 ->
  oct_digit c = None.
Proof.
  intros H. unfold oct_digit, is_octal_digit.
  assert (Hc : code c = 34 \/ code c = 92 \/ code c = 39 \/ code c = 63).
  { destruct H as [H|H]; [|auto]. rewrite !orb_true_iff, !Z.eqb_eq in H. tauto. }
  destruct Hc as [-> | [-> | [-> | ->]]]; reflexivity.
Qed.

Lemma simple_escape_self c :
  (code c =? 34) || (code c =? 92) || (code c =? 39) = true \/ code c = 63 ->
  simple_escape c = Some c.
Proof.
  intros H. unfold simple_escape.
  assert (Hc : code c = 34 \/ code c = 92 \/ code c = 39 \/ code c = 63).
  { destruct H as [H|H]; [|auto]. rewrite !orb_true_iff, !Z.eqb_eq in H. tauto. }
  destruct Hc as [-> | [-> | [-> | ->]]]; reflexivity.
Qed.

Lemma denotes_backslash_simple c r :
  (code c =? 34) || (code c =? 92) || (code c =? 39) = true \/ code c = 63 ->
  string_literal_denotes (String "\" (String c r)) = option_map (String c) (string_literal_denotes r).
Proof.
  intros H. cbn [string_literal_denotes]. change (code "\") with 92. cbn [Z.eqb Pos.eqb orb].
  rewrite (oct_digit_none c H), (simple_escape_self c H). reflexivity.
Qed.

Lemma denotes_octal3 n r : 0 <= n < 256 ->
  string_literal_denotes (String "\" (octal3 n ++ r)) = option_map (String (chr n)) (string_literal_denotes r).
Proof.
  intros H. unfold octal3. cbn [String.append string_literal_denotes].
  change (code "\") with 92. cbn [Z.eqb Pos.eqb orb].
  rewrite !oct_digit_chr by (try apply Z.mod_pos_bound; try (split; [apply Z.div_pos|apply Z.div_lt_upper_bound]); lia).
  replace (n / 64 * 64 + n / 8 mod 8 * 8 + n mod 8) with n.
  2:{ pose proof (Z.div_mod n 8). pose proof (Z.div_mod (n / 8) 8).
      replace (n / 64) with (n / 8 / 8) by (rewrite Z.div_div by lia; reflexivity). lia. }
  replace (n <? 256) with true by (symmetry; apply Z.ltb_lt; lia). reflexivity.
Qed.

(* every byte string: the escaped text (followed by any text [T] that does not
   start with a question mark) stays inside the literal in every language
   level and denotes exactly the original characters *)
Lemma escape_go_denotes_tail T T' : starts_q T = false -> string_literal_denotes T = Some T' ->
  forall s q, string_literal_denotes (escape_go s q ++ T) = Some (s ++ T')%string.
Proof.
  intros HT HT'. induction s as [|c r IH]; intros q; [exact HT'|]. cbn [escape_go].
  pose proof (code_range c) as Hc.
  destruct ((code c =? 34) || (code c =? 92) || (code c =? 39)) eqn:E1.
  { cbn [String.append]. rewrite denotes_backslash_simple by (left; exact E1). rewrite IH. reflexivity. }
  destruct ((code c =? 63) && q) eqn:E2.
  { apply andb_true_iff in E2 as [E2 _]. apply Z.eqb_eq in E2.
    cbn [String.append]. rewrite denotes_backslash_simple by (right; exact E2). rewrite IH. reflexivity. }
  destruct ((code c <? 32) || (code c =? 127)) eqn:E3.
  { rewrite string_app_assoc.
    change (String "\" (octal3 (code c)) ++ (escape_go r false ++ T))%string
      with (String "\" (octal3 (code c) ++ (escape_go r false ++ T))).
    rewrite denotes_octal3 by lia. rewrite IH, chr_code. reflexivity. }
  (* plain character *)
  rewrite !orb_false_iff in E1. destruct E1 as [[E1a E1b] E1c].
  rewrite orb_false_iff in E3. destruct E3 as [E3a E3b].
  apply Z.eqb_neq in E1a, E1b, E1c, E3b. apply Z.ltb_ge in E3a.
  cbn [String.append string_literal_denotes].
  replace (code c =? 34) with false by (symmetry; apply Z.eqb_neq; lia).
  replace (code c =? 39) with false by (symmetry; apply Z.eqb_neq; lia).
  replace (code c =? 10) with false by (symmetry; apply Z.eqb_neq; lia).
  replace (code c =? 13) with false by (symmetry; apply Z.eqb_neq; lia).
  replace (code c =? 92) with false by (symmetry; apply Z.eqb_neq; lia).
  cbn [orb]. destruct (code c =? 63) eqn:E63.
  - cbn [andb] in E2. subst q.
    assert (Hq : starts_q (escape_go r true ++ T) = false).
    { pose proof (escape_go_starts_q r) as Hq. destruct (escape_go r true); [exact HT|exact Hq]. }
    specialize (IH true).
    destruct (escape_go r true ++ T)%string as [|x [|t rest]]; rewrite ?IH; try reflexivity.
    cbn [starts_q] in Hq. rewrite Hq. reflexivity.
  - rewrite IH. reflexivity.
Qed.

Theorem strings_ok : forall s, string_literal_denotes (escape_literal s) = Some s.
Proof.
  intros s. pose proof (escape_go_denotes_tail EmptyString EmptyString eq_refl eq_refl s false) as H.
  rewrite !string_app_nil_r in H. exact H.
Qed.

(* string constants: the value, then \0 padding up to the declared length *)
Lemma pad_denotes k : string_literal_denotes (pad_zeros k) = Some (nul_string k).
Proof.
  induction k as [|k IH]; [reflexivity|].
  change (pad_zeros (S k)) with (String "\" (String "0" (pad_zeros k))).
  cbn [string_literal_denotes]. change (code "\") with 92. cbn [Z.eqb Pos.eqb orb].
  change (oct_digit "0") with (Some 0).
  destruct k as [|k]; [reflexivity|].
  change (pad_zeros (S k)) with (String "\" (String "0" (pad_zeros k))) in *.
  change (oct_digit "\") with (@None Z). rewrite IH. reflexivity.
Qed.

Lemma pad_starts_q k : starts_q (pad_zeros k) = false.
Proof. destruct k; reflexivity. Qed.

Theorem string_constant_ok : forall v len txt,
  make_string_constant v len = Some txt ->
  string_literal_denotes txt = Some (v ++ nul_string (len - String.length v))%string /\
  String.length (v ++ nul_string (len - String.length v)) = len.
Proof.
  intros v len txt. unfold make_string_constant.
  destruct (Nat.ltb len (String.length v)) eqn:E; [discriminate|]. intros [= <-].
  apply Nat.ltb_ge in E. split.
  - apply escape_go_denotes_tail; [apply pad_starts_q|apply pad_denotes].
  - rewrite string_length_app.
    assert (Hn : forall k, String.length (nul_string k) = k) by (induction k; cbn; auto).
    rewrite Hn. lia.
Qed.

Example strings_ok_nonvacuous :
  escape_literal "say ""hi"" \o/ ??/" = "say \""hi\"" \\o/ ?\?/"%string /\
  string_literal_denotes "say \""hi\"" \\o/ ?\?/" = Some "say ""hi"" \o/ ??/"%string.
Proof. vm_compute. split; reflexivity. Qed.

(* the code before the fix pasted the text verbatim: a double quote ends the
   literal, a backslash starts an escape, "??/" is a trigraph for a backslash
   in C++11/14 *)
Example strings_legacy_refuted :
  string_literal_denotes (Legacy.escape_literal "say ""hi""") = None /\
  string_literal_denotes (Legacy.escape_literal "a\b") = Some (String "a" (String (chr 8) EmptyString)) /\
  string_literal_denotes (Legacy.escape_literal "what??/") = None /\
  string_literal_denotes (Legacy.escape_literal "'") = None.
Proof. vm_compute. repeat split. Qed.

(* which strings reach the header unchanged: exactly those made of plain
   characters without two adjacent question marks *)
Lemma ndq_cons a b r : no_double_question (String a (String b r)) =
  negb ((code a =? 63) && (code b =? 63)) && no_double_question (String b r).
Proof. reflexivity. Qed.

Lemma escape_go_fixed s : forall q,
  all_chars plain_char s = true -> no_double_question s = true ->
  (q = true -> starts_q s = false) -> escape_go s q = s.
Proof.
  induction s as [|c r IH]; intros q Hp Hd Hq; [reflexivity|].
  cbn [all_chars] in Hp. apply andb_true_iff in Hp as [Hp1 Hp2].
  unfold plain_char in Hp1. apply negb_true_iff in Hp1.
  rewrite !orb_false_iff in Hp1. destruct Hp1 as [[[[A B] C] D] E].
  cbn [escape_go]. rewrite A, B, C, D, E. cbn [orb].
  assert (Hq' : (code c =? 63) && q = false).
  { destruct q; [|apply andb_false_r]. specialize (Hq eq_refl). cbn in Hq. rewrite Hq. reflexivity. }
  rewrite Hq'. f_equal. apply IH; [exact Hp2| |].
  - destruct r as [|b r']; [reflexivity|]. rewrite ndq_cons in Hd.
    apply andb_true_iff in Hd as [_ Hd]. exact Hd.
  - intros E63. destruct r as [|b r']; [reflexivity|]. rewrite ndq_cons in Hd.
    apply andb_true_iff in Hd as [Hd _]. rewrite E63 in Hd. cbn [andb] in Hd.
    apply negb_true_iff in Hd. cbn [starts_q]. exact Hd.
Qed.

Lemma escape_go_length s : forall q, (String.length s <= String.length (escape_go s q))%nat.
Proof.
  induction s as [|c r IH]; intros q; [apply le_n|]. cbn [escape_go].
  destruct ((code c =? 34) || (code c =? 92) || (code c =? 39)).
  { cbn [String.length]. specialize (IH false). lia. }
  destruct ((code c =? 63) && q).
  { cbn [String.length]. specialize (IH true). lia. }
  destruct ((code c <? 32) || (code c =? 127)).
  { unfold octal3. cbn [String.append String.length]. specialize (IH false). lia. }
  cbn [String.length]. specialize (IH (code c =? 63)). lia.
Qed.

Lemma escape_go_fixed_inv s : forall q, escape_go s q = s ->
  all_chars plain_char s = true /\ no_double_question s = true /\ (q = true -> starts_q s = false).
Proof.
  induction s as [|c r IH]; intros q H; [cbn; auto|]. cbn [escape_go] in H.
  assert (Hlen : forall x q', String.length (String "\" (String x (escape_go r q'))) <> String.length (String c r)).
  { intros x q'. cbn [String.length]. pose proof (escape_go_length r q'). lia. }
  destruct ((code c =? 34) || (code c =? 92) || (code c =? 39)) eqn:E1.
  { exfalso. eapply Hlen. rewrite H. reflexivity. }
  destruct ((code c =? 63) && q) eqn:E2.
  { exfalso. eapply Hlen. rewrite H. reflexivity. }
  destruct ((code c <? 32) || (code c =? 127)) eqn:E3.
  { exfalso. apply (f_equal String.length) in H. unfold octal3 in H.
    cbn [String.append String.length] in H. pose proof (escape_go_length r false). lia. }
  injection H as H. destruct (IH _ H) as (P1 & P2 & P3).
  repeat split.
  - cbn [all_chars]. rewrite P1, andb_true_r. unfold plain_char.
    apply orb_false_iff in E1 as [E1 Ec]. apply orb_false_iff in E1 as [Ea Eb].
    apply orb_false_iff in E3 as [Ed Ee].
    rewrite Ea, Eb, Ec, Ed, Ee. reflexivity.
  - destruct r as [|b r']; [reflexivity|]. rewrite ndq_cons, P2, andb_true_r.
    destruct (code c =? 63) eqn:E63; [|reflexivity]. specialize (P3 eq_refl). cbn [starts_q] in P3.
    rewrite P3. reflexivity.
  - intros ->. rewrite andb_true_r in E2. cbn. exact E2.
Qed.

Theorem survives_iff : forall s, escape_literal s = s <-> survives_unchanged s = true.
Proof.
  intros s. unfold escape_literal, survives_unchanged. split.
  - intros H. destruct (escape_go_fixed_inv s false H) as (P1 & P2 & _). rewrite P1, P2. reflexivity.
  - intros H. apply andb_true_iff in H as [P1 P2]. apply escape_go_fixed; auto. discriminate.
Qed.


(* ------------------------------------------------------------------ *)
(* float / double literal text                                          *)
(* ------------------------------------------------------------------ *)
Lemma mentions_app a b : mentions_point_or_exp (a ++ b) = mentions_point_or_exp a || mentions_point_or_exp b.
Proof. unfold mentions_point_or_exp. rewrite all_chars_app, negb_andb. reflexivity. Qed.

Lemma digit_not_pe c : is_digit c = true ->
  negb (Ascii.eqb c "." || Ascii.eqb c "e" || Ascii.eqb c "E") = true.
Proof.
  unfold is_digit. rewrite andb_true_iff, !Z.leb_le. intros [H1 H2].
  destruct (Ascii.eqb_spec c "."); [subst; cbn in *; lia|].
  destruct (Ascii.eqb_spec c "e"); [subst; cbn in *; lia|].
  destruct (Ascii.eqb_spec c "E"); [subst; cbn in *; lia|]. reflexivity.
Qed.

Lemma digits_no_mention s : all_chars is_digit s = true -> mentions_point_or_exp s = false.
Proof.
  unfold mentions_point_or_exp. intros H. apply negb_false_iff.
  induction s as [|c s IH]; [reflexivity|]. cbn [all_chars] in *.
  apply andb_true_iff in H as [H1 H2]. rewrite (digit_not_pe c H1), IH by exact H2. reflexivity.
Qed.

Lemma span_spec f s : let '(a, b) := span f s in
  s = (a ++ b)%string /\ all_chars f a = true /\
  match b with String c _ => f c = false | EmptyString => True end.
Proof.
  induction s as [|c s IH]; cbn [span]; [auto|].
  destruct (f c) eqn:E.
  - destruct (span f s) as [a b]. destruct IH as (-> & Ha & Hb).
    cbn [String.append all_chars]. rewrite E, Ha. auto.
  - cbn. auto.
Qed.

Lemma strip_sign_mentions s : mentions_point_or_exp s = mentions_point_or_exp (strip_sign s).
Proof.
  destruct s as [|c r]; [reflexivity|]. cbn [strip_sign].
  destruct (Ascii.eqb_spec c "+"); [subst; reflexivity|].
  destruct (Ascii.eqb_spec c "-"); [subst; reflexivity|]. reflexivity.
Qed.

Lemma strip_sign_app s t : strip_sign s <> EmptyString \/ s <> EmptyString ->
  s <> EmptyString -> strip_sign (s ++ t) = (strip_sign s ++ t)%string.
Proof.
  intros _ Hne. destruct s as [|c r]; [congruence|]. cbn [String.append strip_sign].
  destruct (Ascii.eqb c "+" || Ascii.eqb c "-"); reflexivity.
Qed.

Lemma exponent_ok_nonempty ex : exponent_ok ex = true -> ex <> EmptyString ->
  mentions_point_or_exp ex = true.
Proof.
  destruct ex as [|e r]; [congruence|]. cbn [exponent_ok]. intros H _.
  apply andb_true_iff in H as [H _]. unfold mentions_point_or_exp. cbn [all_chars].
  apply orb_true_iff in H. destruct H as [H|H]; rewrite H; rewrite ?orb_true_r; reflexivity.
Qed.

(* every decimal float string the validator lets through is rendered as a
   C++ floating literal (after the optional sign), never as an integer literal *)
Theorem fp_literal_is_floating : forall s,
  xml_decimal_ok s = true -> cpp_number_kind (strip_sign (fp_literal s)) = KFloating.
Proof.
  intros s Hx. unfold xml_decimal_ok in Hx. unfold fp_literal.
  set (u := strip_sign s) in *.
  unfold split_fp in Hx. pose proof (span_spec is_digit u) as Hsp.
  destruct (span is_digit u) as [i r] eqn:Ei. destruct Hsp as (Hu & Hi & Hr).
  destruct (mentions_point_or_exp s) eqn:Hm.
  - (* already has a point or an exponent *)
    fold u. unfold cpp_number_kind, split_fp. rewrite Ei.
    assert (Hmu : mentions_point_or_exp u = true) by (unfold u; rewrite <- strip_sign_mentions; exact Hm).
    destruct r as [|c r1].
    + exfalso. rewrite string_app_nil_r in Hu. rewrite Hu, digits_no_mention in Hmu by exact Hi. discriminate.
    + destruct (Ascii.eqb_spec c ".") as [->|Hc].
      * destruct (span is_digit r1) as [fr r2]. apply andb_true_iff in Hx as [Hx1 Hx2].
        rewrite Hx2. cbn [negb andb] in *.
        destruct (nonempty i); [reflexivity|]. cbn [orb] in *. rewrite Hx1. reflexivity.
      * assert (Hrw : match String c r1 with
                      | String "."%char r1 => let '(fr, r2) := span is_digit r1 in (i, true, fr, r2)
                      | _ => (i, false, EmptyString, String c r1)
                      end = (i, false, EmptyString, String c r1)).
        { destruct c as [[] [] [] [] [] [] [] []]; try reflexivity. congruence. }
        rewrite Hrw in *. apply andb_true_iff in Hx as [Hx1 Hx2]. rewrite Hx2.
        cbn [negb andb orb] in *. rewrite orb_false_r in Hx1. rewrite Hx1. reflexivity.
  - (* plain digits: ".0" is appended *)
    assert (Hmu : mentions_point_or_exp u = false) by (unfold u; rewrite <- strip_sign_mentions; exact Hm).
    assert (Hr0 : r = EmptyString).
    { destruct r as [|c r1]; [reflexivity|]. exfalso.
      rewrite Hu, mentions_app, (digits_no_mention i Hi) in Hmu. cbn [orb] in Hmu.
      destruct (Ascii.eqb_spec c ".") as [->|Hc]; [discriminate|].
      assert (Hrw : match String c r1 with
                    | String "."%char r1 => let '(fr, r2) := span is_digit r1 in (i, true, fr, r2)
                    | _ => (i, false, EmptyString, String c r1)
                    end = (i, false, EmptyString, String c r1)).
      { destruct c as [[] [] [] [] [] [] [] []]; try reflexivity. congruence. }
      rewrite Hrw in Hx. apply andb_true_iff in Hx as [_ Hx2].
      rewrite (exponent_ok_nonempty _ Hx2) in Hmu; [discriminate|discriminate]. }
    subst r. rewrite string_app_nil_r in Hu. cbn [andb orb] in Hx.
    rewrite orb_false_r, andb_true_r in Hx.
    assert (Hs : s <> EmptyString).
    { intros ->. unfold u in Hu. cbn in Hu. subst i. discriminate. }
    rewrite strip_sign_app by auto. fold u. rewrite Hu.
    unfold cpp_number_kind, split_fp.
    rewrite (span_app is_digit i ".0" Hi) by reflexivity.
    cbn. rewrite Hx. reflexivity.
Qed.

Example fp_literal_nonvacuous :
  xml_decimal_ok "16777217" = true /\ fp_literal "16777217" = "16777217.0"%string /\
  xml_decimal_ok "-09" = true /\ fp_literal "-09" = "-09.0"%string /\
  xml_decimal_ok "+.5e-3" = true /\ fp_literal "+.5e-3" = "+.5e-3"%string /\
  xml_decimal_ok "1." = true /\ cpp_number_kind "1." = KFloating.
Proof. vm_compute. repeat split. Qed.

(* before the fix the text was pasted unchanged: "16777217" is an int literal
   that a float cannot represent exactly (narrowing, ill-formed), "09" is not
   a literal at all *)
Example fp_legacy_refuted :
  xml_decimal_ok "16777217" = true /\
  cpp_number_kind (strip_sign (Legacy.fp_literal "16777217")) = KInteger /\
  eval_expr "16777217" = Some (16777217, I32) /\ fp_exact PF32 16777217 = false /\
  xml_decimal_ok "09" = true /\
  cpp_number_kind (strip_sign (Legacy.fp_literal "09")) = KInteger /\ eval_expr "09" = None.
Proof. vm_compute. repeat split. Qed.
