From Coq Require Import ZArith Bool Lia List.
From Sbepp Require Import CInt CIntFacts Bitset.
Local Open Scope Z_scope.

Definition is_set_type (T : ity) : bool :=
  match T with U8 | U16 | U32 | U64 => true | _ => false end.

(* generic bit algebra over Z *)
Lemma clear_or_bits bits n b m : 0 <= n -> 0 <= m ->
  Z.testbit (Z.lor (Z.land bits (Z.lnot (2 ^ n))) (b2z b * 2 ^ n)) m
  = if m =? n then b else Z.testbit bits m.
Proof.
  intros Hn Hm.
  rewrite Z.lor_spec, Z.land_spec, Z.lnot_spec by lia.
  rewrite Z.pow2_bits_eqb by lia.
  rewrite Z.mul_pow2_bits by lia.
  rewrite (Z.eqb_sym n m).
  destruct (Z.eqb_spec m n) as [->|Hne].
  - rewrite Z.sub_diag. destruct b; cbn; rewrite andb_false_r; reflexivity.
  - cbn [negb]. rewrite andb_true_r.
    destruct (Z_lt_le_dec m n).
    + rewrite (Z.testbit_neg_r _ (m - n)) by lia. apply orb_false_r.
    + assert (Z.testbit (b2z b) (m - n) = false) as ->.
      { destruct b; cbn; [|apply Z.bits_0].
        apply Z.bits_above_log2; cbn; lia. }
      apply orb_false_r.
Qed.

Lemma clear_or_range bits n b w : 0 <= n < w -> 0 <= bits < 2 ^ w ->
  0 <= Z.lor (Z.land bits (Z.lnot (2 ^ n))) (b2z b * 2 ^ n) < 2 ^ w.
Proof.
  intros Hn Hb.
  assert (0 <= 2 ^ n) by (apply Z.pow_nonneg; lia).
  assert (H0 : 0 <= Z.lor (Z.land bits (Z.lnot (2 ^ n))) (b2z b * 2 ^ n)).
  { apply Z.lor_nonneg; split; [apply Z.land_nonneg; left; lia|].
    destruct b; cbn [b2z]; lia. }
  split; [exact H0|].
  apply bound_of_bits; [lia|exact H0|].
  intros m Hm. rewrite clear_or_bits by lia.
  destruct (Z.eqb_spec m n); [lia|]. apply (testbit_above bits w); lia.
Qed.

Lemma spec_set_bits bits n b m : 0 <= n -> 0 <= m ->
  Z.testbit (spec_set bits n b) m = if m =? n then b else Z.testbit bits m.
Proof.
  intros Hn Hm. unfold spec_set. rewrite (Z.eqb_sym m n). destruct b.
  - rewrite Z.setbit_eqb by lia. destruct (n =? m); reflexivity.
  - rewrite Z.clearbit_eqb by lia. destruct (n =? m); cbn [negb];
    rewrite ?andb_false_r, ?andb_true_r; reflexivity.
Qed.

Lemma clear_or_is_spec bits n b : 0 <= n ->
  Z.lor (Z.land bits (Z.lnot (2 ^ n))) (b2z b * 2 ^ n) = spec_set bits n b.
Proof.
  intros Hn. apply Z.bits_inj'. intros m Hm.
  rewrite clear_or_bits, spec_set_bits by lia. reflexivity.
Qed.

Lemma land_pow2_testbit bits n : 0 <= n ->
  negb (Z.land bits (2 ^ n) =? 0) = Z.testbit bits n.
Proof.
  intros Hn. destruct (Z.testbit bits n) eqn:E.
  - destruct (Z.eqb_spec (Z.land bits (2 ^ n)) 0) as [H0|]; [|reflexivity].
    assert (Z.testbit (Z.land bits (2 ^ n)) n = false) by (rewrite H0; apply Z.bits_0).
    rewrite Z.land_spec, Z.pow2_bits_true, E in H by lia. discriminate.
  - replace (Z.land bits (2 ^ n)) with 0; [reflexivity|].
    symmetry. apply Z.bits_inj'. intros m Hm. rewrite Z.bits_0, Z.land_spec.
    rewrite Z.pow2_bits_eqb by lia. destruct (Z.eqb_spec n m) as [<-|];
      [rewrite E; reflexivity|apply andb_false_r].
Qed.

(* the shifted one is representable in the promoted type *)
Lemma pow2_small n w : 0 <= n < w -> 0 < 2 ^ n <= 2 ^ (w - 1).
Proof.
  intros H. split; [apply Z.pow_pos_nonneg; lia|].
  apply Z.pow_le_mono_r; lia.
Qed.

Lemma cshl_small T a n :
  0 <= n < CInt.bits (promote T) -> 0 <= a -> a * 2 ^ n <= tmax (promote T) ->
  cshl T a n = Some (a * 2 ^ n).
Proof.
  intros Hn Ha Hmax. unfold cshl.
  destruct (Z.ltb_spec n 0); [lia|].
  destruct (Z.leb_spec (CInt.bits (promote T)) n); [lia|]. cbn [orb].
  assert (Hr : in_range (promote T) (a * 2 ^ n) = true).
  { apply in_range_iff. split; [|exact Hmax].
    assert (0 <= a * 2 ^ n) by (apply Z.mul_nonneg_nonneg; [lia|apply Z.pow_nonneg; lia]).
    unfold tmin. destruct (is_signed (promote T)); [|lia].
    assert (0 < 2 ^ (CInt.bits (promote T) - 1)) by (apply Z.pow_pos_nonneg; lia). lia. }
  rewrite (wrap_id _ _ Hr).
  destruct (is_signed (promote T)) eqn:Hs; [|reflexivity].
  destruct (Z.ltb_spec a 0); [lia|].
  destruct (Z.leb_spec (2 ^ CInt.bits (promote T)) (a * 2 ^ n)) as [Hle|]; [|reflexivity].
  exfalso. unfold tmax in Hmax. rewrite Hs in Hmax.
  assert (2 ^ (CInt.bits (promote T) - 1) <= 2 ^ CInt.bits (promote T))
    by (apply Z.pow_le_mono_r; lia). lia.
Qed.

Lemma set_type_facts T : is_set_type T = true ->
  is_signed T = false /\ tmax T = 2 ^ CInt.bits T - 1 /\ tmin T = 0 /\
  CInt.bits T <= CInt.bits (promote T) /\
  2 ^ CInt.bits T - 1 <= tmax (promote T) /\ tmin (promote T) <= 0 /\
  uac T (promote T) = promote T /\ uac (promote T) (promote T) = promote T /\
  promote (promote T) = promote T.
Proof. destruct T; try discriminate; intros _; cbn; repeat split; lia. Qed.

Lemma get_bit_correct T bits n :
  is_set_type T = true -> 0 <= n < CInt.bits T -> in_range T bits = true ->
  get_bit T bits n = Some (spec_get bits n).
Proof.
  intros HT Hn Hb. unfold spec_get.
  rewrite <- (land_pow2_testbit bits n) by lia.
  destruct (set_type_facts T HT) as (Hs & Hmax & Hmin & Hbits & Hpmax & Hpmin & Hu & _ & _).
  apply in_range_iff in Hb. rewrite Hmax, Hmin in Hb.
  assert (Hp : 0 < 2 ^ n < 2 ^ CInt.bits T).
  { split; [apply Z.pow_pos_nonneg; lia|apply Z.pow_lt_mono_r; lia]. }
  assert (Hl : 0 <= Z.land bits (2 ^ n) < 2 ^ CInt.bits T)
    by (apply land_bound; lia).
  unfold get_bit. rewrite cshl_small by lia. cbn [obind].
  unfold cand, cbit. rewrite Hu, Z.mul_1_l.
  rewrite (wrap_id _ bits), (wrap_id _ (2 ^ n)) by (apply in_range_iff; lia).
  rewrite wrap_id by (apply in_range_iff; lia). reflexivity.
Qed.

Lemma set_bit_correct T bits n b :
  is_set_type T = true -> 0 <= n < CInt.bits T -> in_range T bits = true ->
  set_bit T bits n b = Some (spec_set bits n b) /\
  in_range T (spec_set bits n b) = true.
Proof.
  intros HT Hn Hb.
  destruct (set_type_facts T HT) as (Hs & Hmax & Hmin & Hbits & Hpmax & Hpmin & Hu & Hu2 & Hpp).
  apply in_range_iff in Hb. rewrite Hmax, Hmin in Hb.
  assert (Hp : 0 < 2 ^ n < 2 ^ CInt.bits T).
  { split; [apply Z.pow_pos_nonneg; lia|apply Z.pow_lt_mono_r; lia]. }
  pose proof (clear_or_range bits n b (CInt.bits T) Hn ltac:(lia)) as Hr.
  rewrite clear_or_is_spec in Hr by lia.
  split; [|apply in_range_iff; rewrite Hmax, Hmin; lia].
  rewrite <- clear_or_is_spec by lia.
  assert (Hbz : 0 <= b2z b * 2 ^ n < 2 ^ CInt.bits T).
  { destruct b; cbn [b2z]; lia. }
  assert (Hx : 0 <= Z.land bits (Z.lnot (2 ^ n)) < 2 ^ CInt.bits T)
    by (apply land_bound; lia).
  unfold set_bit. rewrite cshl_small by lia. cbn [obind].
  rewrite cshl_small by (destruct b; cbn [b2z]; lia). cbn [obind].
  unfold cand, cor, cbit, cnot, ccast. rewrite Hu, Hu2, Hpp, Z.mul_1_l.
  f_equal.
  (* the mask: ~(1<<n) evaluated in the promoted type *)
  assert (Hmask : Z.land bits (wrap (promote T) (Z.lnot (2 ^ n)))
                  = Z.land bits (Z.lnot (2 ^ n))).
  { unfold wrap. destruct (is_signed (promote T)) eqn:Hps.
    - (* int: -2^n-1 is representable *)
      pose proof (wrap_id (promote T) (Z.lnot (2 ^ n))) as Hw.
      unfold wrap in Hw. rewrite Hps in Hw. rewrite Hw; [reflexivity|].
      apply in_range_iff. unfold tmin, tmax in *. rewrite Hps in *.
      unfold Z.lnot. lia.
    - (* unsigned T: promote T = T *)
      assert (promote T = T) as -> by (destruct T; try discriminate HT; try discriminate Hps; reflexivity).
      apply land_mod_r; lia. }
  rewrite (wrap_id _ bits) by (apply in_range_iff; lia).
  rewrite (wrap_id _ (wrap _ (Z.lnot _))) by apply wrap_range.
  rewrite Hmask.
  rewrite (wrap_id _ (Z.land _ _)) by (apply in_range_iff; lia).
  rewrite (wrap_id _ (Z.land _ _)) by (apply in_range_iff; lia).
  rewrite (wrap_id _ (b2z b * 2 ^ n)) by (apply in_range_iff; lia).
  pose proof (clear_or_range bits n b (CInt.bits T) Hn ltac:(lia)) as Hr2.
  rewrite (wrap_id (promote T)) by (apply in_range_iff; lia).
  apply wrap_id. apply in_range_iff. rewrite Hmax, Hmin. lia.
Qed.

(* bit independence, the form the property is stated in *)
Theorem bit_independent T bits n b :
  is_set_type T = true -> 0 <= n < CInt.bits T -> in_range T bits = true ->
  exists bits', set_bit T bits n b = Some bits' /\ in_range T bits' = true /\
    forall m, 0 <= m < CInt.bits T ->
      get_bit T bits' m = Some (if m =? n then b else Z.testbit bits m).
Proof.
  intros HT Hn Hb. destruct (set_bit_correct T bits n b HT Hn Hb) as [Hs Hr].
  exists (spec_set bits n b). repeat split; [exact Hs|exact Hr|].
  intros m Hm. rewrite get_bit_correct by assumption.
  unfold spec_get. rewrite spec_set_bits by lia. reflexivity.
Qed.

Theorem get_bit_is_testbit T bits n :
  is_set_type T = true -> 0 <= n < CInt.bits T -> in_range T bits = true ->
  get_bit T bits n = Some (Z.testbit bits n).
Proof. exact (get_bit_correct T bits n). Qed.

(* raw value / equality: two in-range values are equal iff all choices agree *)
Theorem raw_value_determined_by_bits T x y :
  is_set_type T = true -> in_range T x = true -> in_range T y = true ->
  (forall n, 0 <= n < CInt.bits T -> get_bit T x n = get_bit T y n) -> x = y.
Proof.
  intros HT Hx Hy H.
  destruct (set_type_facts T HT) as (Hs & Hmax & Hmin & _).
  pose proof Hx as Hx'. pose proof Hy as Hy'.
  apply in_range_iff in Hx', Hy'. rewrite Hmax, Hmin in *.
  apply Z.bits_inj'. intros m Hm.
  destruct (Z_lt_le_dec m (CInt.bits T)).
  - specialize (H m ltac:(lia)). rewrite !get_bit_correct in H by (assumption || lia).
    injection H. auto.
  - rewrite (testbit_above x (CInt.bits T)), (testbit_above y (CInt.bits T)) by lia.
    reflexivity.
Qed.

(* visiting a set reports every declared choice with its bit, in order *)
Theorem visit_set_spec T bits idx :
  is_set_type T = true -> in_range T bits = true ->
  Forall (fun n => 0 <= n < CInt.bits T) idx ->
  visit_set T bits idx = map (fun n => Some (Z.testbit bits n)) idx.
Proof.
  intros HT Hb Hall. unfold visit_set. apply map_ext_in. intros n Hin.
  rewrite Forall_forall in Hall. apply get_bit_correct; auto.
Qed.

(* the code before the fix violates the property for 64-bit sets *)
Example legacy_get_bit_refuted :
  Legacy.get_bit U64 (2 ^ 40) 31 = Some true /\ Z.testbit (2 ^ 40) 31 = false.
Proof. vm_compute. split; reflexivity. Qed.

Example legacy_set_bit_refuted :
  Legacy.set_bit U64 0 31 true = Some 18446744071562067968 /\
  Legacy.set_bit U64 0 32 true = None.
Proof. vm_compute. split; reflexivity. Qed.

Example bit_independent_nonvacuous :
  is_set_type U64 = true /\ 0 <= 63 < CInt.bits U64 /\
  in_range U64 (2 ^ 64 - 1) = true /\
  set_bit U64 (2 ^ 64 - 1) 63 false = Some (2 ^ 63 - 1).
Proof. vm_compute. repeat split; intro; discriminate. Qed.
