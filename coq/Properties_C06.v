(* Properties_C06.v — C06: size_bytes_checked on untrusted buffers.
   The faithful model of the current code REFUTES the safety half of the
   property; the witnesses are recorded findings (known_findings.json). *)
From Coq Require Import ZArith List Bool.
From Sbepp Require Import CInt Bytes Msg Layout Cursor Checked.
Import ListNotations.
Local Open Scope Z_scope.

(* message: header (4 x uint16), no fields, one <data> with a uint32 length *)
Definition c06_msg : message :=
  {| m_hdr_size := 8; m_bl_off := 0; m_bl_t := U16; m_cbl := 0; m_fills := [];
     m_level := Level [] GNil [U32] |}.
Definition c06_cl : clevel := CLevel [] CGNil.

(* a buffer cut right before the data length prefix: the cursor accessor reads
   bytes 8..11 of an 8-byte buffer before on_data can say "invalid" *)
Theorem C06_data_prefix_overread_refuted :
  exists b, len b = 8 /\
    size_bytes_checked false b 16 c06_msg c06_cl = CkOob 2 8 0.
Proof. exists [0;0;0;0;0;0;0;0]. vm_compute. split; reflexivity. Qed.
Print Assumptions C06_data_prefix_overread_refuted.

(* message with one uint32 field; wire blockLength 0 (< compiled 4): the field
   accessor reads bytes 8..11 of an 8-byte buffer *)
Definition c06_msg2 : message :=
  {| m_hdr_size := 8; m_bl_off := 0; m_bl_t := U16; m_cbl := 4; m_fills := [];
     m_level := Level [{| f_off := 0; f_size := 4 |}] GNil [] |}.
Definition c06_cl2 : clevel :=
  CLevel [{| ca_rel := 0; ca_abs := 8; ca_size := 4; ca_last := true; ca_view := false |}] CGNil.

Theorem C06_short_block_overread_refuted :
  exists b, len b = 8 /\
    size_bytes_checked false b 16 c06_msg2 c06_cl2 = CkOob 1 8 0.
Proof. exists [0;0;0;0;0;0;0;0]. vm_compute. split; reflexivity. Qed.
Print Assumptions C06_short_block_overread_refuted.

(* on a well-formed buffer that is long enough the answer is exact *)
Example C06_exact_nonvacuous :
  size_bytes_checked false [0;0;0;0;0;0;0;0; 2;0;0;0; 7;7] 16 c06_msg c06_cl = CkValid 14 1 /\
  described_fit false [0;0;0;0;0;0;0;0; 2;0;0;0; 7;7] c06_msg = Some 14.
Proof. vm_compute. split; reflexivity. Qed.

From Sbepp Require Import Wire MsgSpec CursorSpec ScriptSpec CheckedProofs.

(* EXACTNESS, for every table, every byte buffer of any length and content:
   whenever the visitor does not hit one of the two recorded over-reads (and
   the model's iteration bound is not exhausted), valid = true with size s iff
   the structure the bytes describe fits in the n bytes with size s
   (Checked.described_fit, exact integer arithmetic) *)
Theorem C06_checked_exact : stmt_checked_exact'.
Proof. exact checked_exact'. Qed.
Print Assumptions C06_checked_exact.

From Sbepp Require Import WorkSpec WorkProofs.

(* WORK BOUND, for every table and every byte buffer of any length and content
   (hostile counts included): no loop of the visitor needs more than n = len b
   rounds (the model's iteration bound is never hit once it exceeds n), and the
   number of callbacks is at most (W + 1) * (n + 1) where W counts the members
   of the schema (WorkSpec.cl_members) *)
Theorem C06_work_bounded_by_n : stmt_checked_work_bound.
Proof. exact checked_work_bound. Qed.
Print Assumptions C06_work_bounded_by_n.

(* the outcome does not depend on the model's iteration bound once it exceeds n *)
Theorem C06_iteration_bound_irrelevant : stmt_checked_fuel_irrelevant.
Proof. exact checked_fuel_irrelevant. Qed.
Print Assumptions C06_iteration_bound_irrelevant.
