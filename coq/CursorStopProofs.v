(* CursorStopProofs.v — the stop-aware traversal of CursorStop.v against the
   complete traversal of Cursor.v: stopping at callback k yields exactly the
   first k events of the complete visit, for ALL inputs (no well-formedness
   hypothesis); with the image theorem of CursorProofs.v, the first k events
   of [ev_level] on encoded images. *)
From Coq Require Import ZArith List Bool Lia.
From Sbepp Require Import CInt Bytes Msg Layout Wire MsgSpec Cursor CursorSpec CursorProofs
  CursorStop.
Import ListNotations.
Local Open Scope Z_scope.

(* ================================================================== *)
(* Headline statements                                                 *)
(* ================================================================== *)

(* (a) the complete visit reports [evs]; a visitor whose callback number k+1
   returns true (k < number of callbacks) sees exactly the first k events and
   the visit reports "stopped" *)
Definition stmt_stop_prefix : Prop :=
  forall be b m cl base evs c k,
    trav_message be b m cl base = COk evs c ->
    (k < length evs)%nat ->
    trav_message_stop be b m cl base k = FStopped (firstn k evs).

(* (b) a budget that is never exhausted changes nothing *)
Definition stmt_stop_beyond : Prop :=
  forall be b m cl base evs c k,
    trav_message be b m cl base = COk evs c ->
    (length evs <= k)%nat ->
    trav_message_stop be b m cl base k = FDone evs c.

(* (b, converse) a stop run that completes is the complete run *)
Definition stmt_stop_done_complete : Prop :=
  forall be b m cl base evs c k,
    trav_message_stop be b m cl base k = FDone evs c ->
    trav_message be b m cl base = COk evs c /\ (length evs <= k)%nat.

(* (c) no hypothesis on the complete run: the events of a run with budget k
   are a prefix of the events of every run with a larger budget *)
Definition stmt_stop_events_prefix_general : Prop :=
  forall be b m cl base k k' es es',
    (k <= k')%nat ->
    sfinal_events (trav_message_stop be b m cl base k) = Some es ->
    sfinal_events (trav_message_stop be b m cl base k') = Some es' ->
    exists rest, es' = es ++ rest.

(* (c') a stopped run made exactly k callbacks proceed; completion and
   failures do not depend on a larger budget *)
Definition stmt_stop_budget_general : Prop :=
  forall be b m cl base k,
    match trav_message_stop be b m cl base k with
    | FStopped es => length es = k
    | FDone es c =>
      (length es <= k)%nat /\
      forall k', (k <= k')%nat -> trav_message_stop be b m cl base k' = FDone es c
    | FAssert => forall k', (k <= k')%nat -> trav_message_stop be b m cl base k' = FAssert
    | FOob => forall k', (k <= k')%nat -> trav_message_stop be b m cl base k' = FOob
    end.

(* (c'') a failing complete run: the stop run either stops before the failure
   or fails the same way *)
Definition stmt_stop_failure_general : Prop :=
  forall be b m cl base k,
    (trav_message be b m cl base = CAssert ->
     trav_message_stop be b m cl base k = FAssert \/
     exists es, trav_message_stop be b m cl base k = FStopped es) /\
    (trav_message be b m cl base = COob ->
     trav_message_stop be b m cl base k = FOob \/
     exists es, trav_message_stop be b m cl base k = FStopped es).

(* corollary of (a) and trav_message_enc'': on an encoded image, stopping at
   callback k yields the first k events of the declarative event list *)
Definition stmt_stop_prefix_enc : Prop :=
  forall be m cl hdrbg v pre post k,
    wf_message be m hdrbg v ->
    wf_clevel (m_hdr_size m) (m_level m) cl ->
    fields_fit (m_level m) v ->
    len (pre ++ enc_message be m hdrbg v ++ post) < 2 ^ 64 ->
    flat_blocks_pos (m_level m) v ->
    (k < length (ev_level be (m_level m) v (len pre + m_hdr_size m)))%nat ->
    trav_message_stop be (pre ++ enc_message be m hdrbg v ++ post) m cl (len pre) k
    = FStopped (firstn k (ev_level be (m_level m) v (len pre + m_hdr_size m))).

Definition stmt_stop_beyond_enc : Prop :=
  forall be m cl hdrbg v pre post k,
    wf_message be m hdrbg v ->
    wf_clevel (m_hdr_size m) (m_level m) cl ->
    fields_fit (m_level m) v ->
    len (pre ++ enc_message be m hdrbg v ++ post) < 2 ^ 64 ->
    flat_blocks_pos (m_level m) v ->
    (length (ev_level be (m_level m) v (len pre + m_hdr_size m)) <= k)%nat ->
    trav_message_stop be (pre ++ enc_message be m hdrbg v ++ post) m cl (len pre) k
    = FDone (ev_level be (m_level m) v (len pre + m_hdr_size m))
            (len pre + len (enc_message be m hdrbg v)).

(* ================================================================== *)
(* 1. Specification of a stop run from the events of the complete run  *)
(* ================================================================== *)

(* [new]: the events the complete sub-traversal prepends to [acc] (reversed) *)
Definition stop_spec (new acc : list event) (c : Z) (k : nat) : sres :=
  if (length new <=? k)%nat then SOk (new ++ acc) c (k - length new)
  else SStop (skipn (length new - k) new ++ acc).

Lemma stop_spec_cases new acc c k :
  ((length new <= k)%nat /\ stop_spec new acc c k = SOk (new ++ acc) c (k - length new)) \/
  ((k < length new)%nat /\ stop_spec new acc c k = SStop (skipn (length new - k) new ++ acc)).
Proof.
  unfold stop_spec. destruct (Nat.leb_spec (length new) k) as [Hle|Hlt]; [left|right]; auto.
Qed.

Lemma stop_spec_nil acc c k : stop_spec [] acc c k = SOk acc c k.
Proof. unfold stop_spec. cbn [length Nat.leb app]. now rewrite Nat.sub_0_r. Qed.

Lemma stop_spec_app_ge new1 new2 acc c k :
  (length new1 <= k)%nat ->
  stop_spec new2 (new1 ++ acc) c (k - length new1) = stop_spec (new2 ++ new1) acc c k.
Proof.
  intros Hle. unfold stop_spec. rewrite app_length.
  destruct (Nat.leb_spec (length new2) (k - length new1)) as [H1|H1];
    destruct (Nat.leb_spec (length new2 + length new1) k) as [H2|H2]; try lia.
  - rewrite <- app_assoc. f_equal. lia.
  - rewrite skipn_app, <- app_assoc. f_equal.
    replace (length new2 + length new1 - k - length new2)%nat with 0%nat by lia.
    cbn [skipn]. do 2 f_equal. lia.
Qed.

Lemma stop_spec_app_lt new1 new2 acc c k :
  (k < length new1)%nat ->
  SStop (skipn (length new1 - k) new1 ++ acc) = stop_spec (new2 ++ new1) acc c k.
Proof.
  intros Hlt. unfold stop_spec. rewrite app_length.
  destruct (Nat.leb_spec (length new2 + length new1) k) as [H2|H2]; [lia|].
  rewrite skipn_app, (skipn_all2 new2) by lia. cbn [app]. do 3 f_equal. lia.
Qed.

Lemma stop_spec_snoc e new acc c k :
  match k with O => SStop acc | S k' => stop_spec new (e :: acc) c k' end
  = stop_spec (new ++ [e]) acc c k.
Proof.
  destruct k as [|k'].
  - rewrite <- (stop_spec_app_lt [e] new acc c 0) by (cbn; lia). reflexivity.
  - rewrite <- (stop_spec_app_ge [e] new acc c (S k')) by (cbn; lia).
    cbn [length app]. now rewrite Nat.sub_succ, Nat.sub_0_r.
Qed.

(* ================================================================== *)
(* 2. Combinators and the three invariants                             *)
(* ================================================================== *)

Definition cbind (R : cres (list event)) (F : list event -> Z -> cres (list event))
  : cres (list event) :=
  match R with COk a c => F a c | CAssert => CAssert | COob => COob end.

Definition sbind (X : nat -> sres) (Y : list event -> Z -> nat -> sres) (k : nat) : sres :=
  match X k with
  | SOk a c r => Y a c r
  | SStop a => SStop a
  | SAssert => SAssert
  | SOob => SOob
  end.

(* a callback: stop when the budget is exhausted, otherwise go on with one less *)
Definition tick (acc : list event) (S' : nat -> sres) (k : nat) : sres :=
  match k with O => SStop acc | S k' => S' k' end.

Definition ext (a acc : list event) : Prop := exists x, a = x ++ acc.

Lemma ext_refl a : ext a a.
Proof. now exists []. Qed.
Lemma ext_trans a b c : ext a b -> ext b c -> ext a c.
Proof. intros [x ->] [y ->]. exists (x ++ y). now rewrite app_assoc. Qed.
Lemma ext_cons a e acc : ext a (e :: acc) -> ext a acc.
Proof. intros H. apply (ext_trans _ _ _ H). now exists [e]. Qed.

(* (i) against the complete run *)
Definition spec (S : nat -> sres) (new acc : list event) (c : Z) : Prop :=
  forall k, S k = stop_spec new acc c k.

Definition fails (f : sres) (S : nat -> sres) : Prop :=
  forall k, S k = f \/ exists a, S k = SStop a.

Definition sim (R : cres (list event)) (S : nat -> sres) (acc : list event) : Prop :=
  match R with
  | COk acc' c' => exists new, acc' = new ++ acc /\ spec S new acc c'
  | CAssert => fails SAssert S
  | COob => fails SOob S
  end.

(* (ii) monotonicity in the budget *)
Definition mono (S : nat -> sres) (acc : list event) : Prop :=
  forall k d,
    match S k with
    | SOk a c r => ext a acc /\ S (k + d)%nat = SOk a c (r + d)
    | SStop a =>
      ext a acc /\
      match S (k + d)%nat with
      | SOk a' _ _ | SStop a' => ext a' a
      | SAssert | SOob => True
      end
    | SAssert => S (k + d)%nat = SAssert
    | SOob => S (k + d)%nat = SOob
    end.

(* (iii) the budget counts the recorded events *)
Definition cnt (S : nat -> sres) (acc : list event) : Prop :=
  forall k,
    match S k with
    | SOk a c r => exists x, a = x ++ acc /\ (length x + r = k)%nat
    | SStop a => exists x, a = x ++ acc /\ length x = k
    | SAssert | SOob => True
    end.

Definition good (R : cres (list event)) (S : nat -> sres) (acc : list event) : Prop :=
  sim R S acc /\ mono S acc /\ cnt S acc.

(* ---- return / failure ---- *)
Lemma good_ret acc c : good (COk acc c) (SOk acc c) acc.
Proof.
  split; [|split].
  - exists []. split; [reflexivity|]. intros k. now rewrite stop_spec_nil.
  - intros k d. split; [apply ext_refl|reflexivity].
  - intros k. exists []. split; [reflexivity|reflexivity].
Qed.

Lemma good_assert acc : good CAssert (fun _ => SAssert) acc.
Proof.
  split; [|split].
  - intros k. now left.
  - intros k d. reflexivity.
  - intros k. exact I.
Qed.

Lemma good_oob acc : good COob (fun _ => SOob) acc.
Proof.
  split; [|split].
  - intros k. now left.
  - intros k d. reflexivity.
  - intros k. exact I.
Qed.

(* ---- one callback ---- *)
Lemma sim_tick e acc R S' : sim R S' (e :: acc) -> sim R (tick acc S') acc.
Proof.
  destruct R as [acc' c'| |]; cbn [sim].
  - intros (new & -> & Hs). exists (new ++ [e]). split.
    + now rewrite <- app_assoc.
    + intros k. rewrite <- stop_spec_snoc. destruct k as [|k']; [reflexivity|]. apply Hs.
  - intros Hf [|k']; [right; now exists acc|apply Hf].
  - intros Hf [|k']; [right; now exists acc|apply Hf].
Qed.

Lemma mono_tick e acc S' : mono S' (e :: acc) -> mono (tick acc S') acc.
Proof.
  intros HS [|k'] d.
  - cbn [tick Nat.add]. split; [apply ext_refl|].
    destruct d as [|d']; [apply ext_refl|]. cbn [tick].
    pose proof (HS d' 0%nat) as H0.
    destruct (S' d') as [a c r|a| |]; try exact I.
    + destruct H0 as [H0 _]. now apply ext_cons in H0.
    + destruct H0 as [H0 _]. now apply ext_cons in H0.
  - cbn [tick Nat.add]. specialize (HS k' d).
    destruct (S' k') as [a c r|a| |]; try assumption.
    + destruct HS as [H1 H2]. split; [now apply ext_cons in H1|assumption].
    + destruct HS as [H1 H2]. split; [now apply ext_cons in H1|assumption].
Qed.

Lemma cnt_tick e acc S' : cnt S' (e :: acc) -> cnt (tick acc S') acc.
Proof.
  intros HS [|k']; cbn [tick].
  - exists []. split; reflexivity.
  - specialize (HS k'). destruct (S' k') as [a c r|a| |]; try exact I.
    + destruct HS as (x & -> & Hl). exists (x ++ [e]). split.
      * now rewrite <- app_assoc.
      * rewrite app_length. cbn [length]. lia.
    + destruct HS as (x & -> & Hl). exists (x ++ [e]). split.
      * now rewrite <- app_assoc.
      * rewrite app_length. cbn [length]. lia.
Qed.

Lemma good_tick e acc R S' : good R S' (e :: acc) -> good R (tick acc S') acc.
Proof.
  intros (H1 & H2 & H3). split; [|split].
  - now apply (sim_tick e).
  - now apply (mono_tick e).
  - now apply (cnt_tick e).
Qed.

(* a callback that proceeds and then fails (reading what the callback reads) *)
Lemma good_tick_oob acc : good COob (tick acc (fun _ => SOob)) acc.
Proof. apply (good_tick (EEntry 0)). apply good_oob. Qed.

(* ---- sequencing ---- *)
Lemma sbind_spec X Y new1 acc c1 k :
  spec X new1 acc c1 ->
  ((length new1 <= k)%nat /\ sbind X Y k = Y (new1 ++ acc) c1 (k - length new1)%nat) \/
  ((k < length new1)%nat /\ sbind X Y k = SStop (skipn (length new1 - k) new1 ++ acc)).
Proof.
  intros Hs1. unfold sbind. rewrite (Hs1 k).
  destruct (stop_spec_cases new1 acc c1 k) as [[Hle Heq]|[Hlt Heq]]; rewrite Heq;
    [left|right]; split; auto.
Qed.

Lemma sbind_fails X Y f k :
  (f = SAssert \/ f = SOob) -> X k = f \/ (exists a, X k = SStop a) ->
  sbind X Y k = f \/ (exists a, sbind X Y k = SStop a).
Proof.
  intros Hf [Hk|[a Hk]]; unfold sbind; rewrite Hk.
  - left. destruct Hf as [-> | ->]; reflexivity.
  - right. now exists a.
Qed.

Lemma sim_bind RX X RY Y acc :
  sim RX X acc -> (forall a c, sim (RY a c) (Y a c) a) ->
  sim (cbind RX RY) (sbind X Y) acc.
Proof.
  intros HX HY. destruct RX as [a1 c1| |]; cbn [sim cbind] in *.
  - destruct HX as (new1 & -> & Hs1). specialize (HY (new1 ++ acc) c1).
    destruct (RY (new1 ++ acc) c1) as [a2 c2| |]; cbn [sim] in *.
    + destruct HY as (new2 & -> & Hs2). exists (new2 ++ new1). split.
      * now rewrite app_assoc.
      * intros k.
        destruct (sbind_spec X Y new1 acc c1 k Hs1) as [[Hle Heq]|[Hlt Heq]]; rewrite Heq.
        -- rewrite (Hs2 _). now apply stop_spec_app_ge.
        -- now apply stop_spec_app_lt.
    + intros k.
      destruct (sbind_spec X Y new1 acc c1 k Hs1) as [[Hle Heq]|[Hlt Heq]]; rewrite Heq.
      * apply HY.
      * right. eexists. reflexivity.
    + intros k.
      destruct (sbind_spec X Y new1 acc c1 k Hs1) as [[Hle Heq]|[Hlt Heq]]; rewrite Heq.
      * apply HY.
      * right. eexists. reflexivity.
  - intros k. apply sbind_fails; [now left|apply HX].
  - intros k. apply sbind_fails; [now right|apply HX].
Qed.

Lemma mono_bind X Y acc :
  mono X acc -> (forall a c, mono (Y a c) a) -> mono (sbind X Y) acc.
Proof.
  intros HX HY k d. unfold sbind. specialize (HX k d).
  destruct (X k) as [a c r|a| |] eqn:EXk.
  - destruct HX as [Hext HXd]. rewrite HXd.
    pose proof (HY a c r d) as HYr.
    destruct (Y a c r) as [a2 c2 r2|a2| |]; try assumption.
    + destruct HYr as [He2 HYd]. split; [exact (ext_trans _ _ _ He2 Hext)|assumption].
    + destruct HYr as [He2 HYd]. split; [exact (ext_trans _ _ _ He2 Hext)|assumption].
  - destruct HX as [Hext HXd]. split; [assumption|].
    destruct (X (k + d)%nat) as [a' c' r'|a'| |]; try exact I; [|assumption].
    pose proof (HY a' c' r' 0%nat) as HYr.
    destruct (Y a' c' r') as [a2 c2 r2|a2| |]; try exact I.
    + destruct HYr as [He2 _]. exact (ext_trans _ _ _ He2 HXd).
    + destruct HYr as [He2 _]. exact (ext_trans _ _ _ He2 HXd).
  - now rewrite HX.
  - now rewrite HX.
Qed.

Lemma cnt_bind X Y acc :
  cnt X acc -> (forall a c, cnt (Y a c) a) -> cnt (sbind X Y) acc.
Proof.
  intros HX HY k. unfold sbind. specialize (HX k).
  destruct (X k) as [a c r|a| |]; try exact I; [|assumption].
  destruct HX as (x & -> & Hl). specialize (HY (x ++ acc) c r).
  destruct (Y (x ++ acc) c r) as [a2 c2 r2|a2| |]; try exact I.
  - destruct HY as (y & -> & Hl2). exists (y ++ x). split.
    + now rewrite app_assoc.
    + rewrite app_length. lia.
  - destruct HY as (y & -> & Hl2). exists (y ++ x). split.
    + now rewrite app_assoc.
    + rewrite app_length. lia.
Qed.

Lemma good_bind RX X RY Y acc :
  good RX X acc -> (forall a c, good (RY a c) (Y a c) a) ->
  good (cbind RX RY) (sbind X Y) acc.
Proof.
  intros (H1 & H2 & H3) HY. split; [|split].
  - apply sim_bind; [assumption|]. intros a c. apply HY.
  - apply mono_bind; [assumption|]. intros a c. apply HY.
  - apply cnt_bind; [assumption|]. intros a c. apply HY.
Qed.

(* ================================================================== *)
(* 3. The traversal functions                                          *)
(* ================================================================== *)

Lemma good_fields v : forall fs k c acc,
  good (trav_fields v fs k c acc) (strav_fields v fs k c acc) acc.
Proof.
  induction fs as [|a r IH]; intros k c acc.
  - apply good_ret.
  - cbn [trav_fields].
    change (strav_fields v (a :: r) k c acc) with
      (fun bud => match cur_field WPlain v a c with
                  | COk addr c' => tick acc (strav_fields v r (S k) c' (EField k addr :: acc)) bud
                  | CAssert => SAssert
                  | COob => SOob
                  end).
    destruct (cur_field WPlain v a c) as [addr c'| |].
    + apply (good_tick (EField k addr)). apply IH.
    + apply good_assert.
    + apply good_oob.
Qed.

Lemma good_datas be b v : forall ds k first p c acc,
  good (trav_datas be b v ds k first p c acc) (strav_datas be b v ds k first p c acc) acc.
Proof.
  induction ds as [|t r IH]; intros k first p c acc.
  - apply good_ret.
  - cbn [trav_datas].
    change (strav_datas be b v (t :: r) k first p c acc) with
      (fun bud =>
         match cur_data WPlain first v p (data_size_at be b t) c with
         | COk s c' =>
           tick acc
             (fun bud' =>
                match rd be b s t with
                | None => SOob
                | Some n =>
                  strav_datas be b v r (S k) false
                    (if first then Some c'
                     else obind p (fun p0 => obind (data_size_at be b t p0)
                                               (fun z => Some (p0 + z))))
                    c' (EData k s n :: acc) bud'
                end) bud
         | CAssert => SAssert
         | COob => SOob
         end).
    destruct (cur_data WPlain first v p (data_size_at be b t) c) as [s c'| |].
    + destruct (rd be b s t) as [n|].
      * apply (good_tick (EData k s n)). apply IH.
      * apply good_tick_oob.
    + apply good_assert.
    + apply good_oob.
Qed.

(* the entry loop of [strav_groups] as a top-level function *)
Fixpoint strav_entries (be : bool) (b : list Z) (fuel : nat) (l : level) (cl : clevel)
  (bl lvend : Z) (j : nat) (n c : Z) (acc : list event) (bud : nat) {struct j} : sres :=
  if n <=? 0 then SOk acc c bud else
  match j with
  | O => SOob
  | S j' =>
    let ev := {| lv_start := c; lv_level := c; lv_bl := bl; lv_end := lvend |} in
    let c0 := if is_empty_level l cl then c + bl else c in
    match bud with
    | O => SStop acc
    | S bud' =>
      match strav_level be b fuel l cl ev c0 (EEntry c :: acc) bud' with
      | SOk acc' c' bud'' => strav_entries be b fuel l cl bl lvend j' (n - 1) c' acc' bud''
      | SStop a => SStop a
      | SAssert => SAssert
      | SOob => SOob
      end
    end
  end.

Lemma sloop_is_strav_entries be b fuel l cl bl lvend : forall j n c acc bud,
  (fix loop (j : nat) (n c : Z) (acc : list event) (bud : nat) {struct j} : sres :=
     if n <=? 0 then SOk acc c bud else
     match j with
     | O => SOob
     | S j' =>
       let ev := {| lv_start := c; lv_level := c; lv_bl := bl; lv_end := lvend |} in
       let c0 := if is_empty_level l cl then c + bl else c in
       match bud with
       | O => SStop acc
       | S bud' =>
         match strav_level be b fuel l cl ev c0 (EEntry c :: acc) bud' with
         | SOk acc' c' bud'' => loop j' (n - 1) c' acc' bud''
         | SStop a => SStop a
         | SAssert => SAssert
         | SOob => SOob
         end
       end
     end) j n c acc bud
  = strav_entries be b fuel l cl bl lvend j n c acc bud.
Proof.
  induction j as [|j IH]; intros n c acc bud; cbn [strav_entries].
  - reflexivity.
  - destruct (n <=? 0); [reflexivity|]. cbv zeta.
    destruct bud as [|bud']; [reflexivity|].
    destruct (strav_level be b fuel l cl
                {| lv_start := c; lv_level := c; lv_bl := bl; lv_end := lvend |}
                (if is_empty_level l cl then c + bl else c) (EEntry c :: acc) bud')
      as [acc' c' bud''|a| |]; [apply IH|reflexivity|reflexivity|reflexivity].
Qed.

Lemma strav_groups_cons be b fuel d cbl l rest cl crest v k first p c acc bud :
  strav_groups be b fuel (GCons d cbl l rest) (CGCons cl crest) v k first p c acc bud =
  match cur_group WPlain first v p (d_size d) (fun _ => None) c with
  | COk s c1 =>
    tick acc
      (fun bud0 =>
         match rd be b (s + d_bl_off d) (d_bl_t d), rd be b (s + d_n_off d) (d_n_t d) with
         | Some bl, Some n =>
           sbind (strav_entries be b fuel l cl bl (lv_end v) fuel n c1 (EGroup k s n :: acc))
                 (fun acc' c' =>
                    strav_groups be b fuel rest crest v (S k) false
                      (obind p (fun p0 => groups_end be b fuel (GCons d cbl l GNil) p0))
                      c' acc') bud0
         | _, _ => SOob
         end) bud
  | CAssert => SAssert
  | COob => SOob
  end.
Proof.
  cbn [strav_groups].
  destruct (cur_group WPlain first v p (d_size d) (fun _ => None) c) as [s c1| |];
    [|reflexivity|reflexivity].
  destruct bud as [|bud0]; [reflexivity|]. cbn [tick].
  destruct (rd be b (s + d_bl_off d) (d_bl_t d)) as [bl|]; [|reflexivity].
  destruct (rd be b (s + d_n_off d) (d_n_t d)) as [n|]; [|reflexivity].
  rewrite sloop_is_strav_entries. reflexivity.
Qed.

Lemma good_ext R S S' acc : (forall k, S k = S' k) -> good R S' acc -> good R S acc.
Proof.
  intros He (H1 & H2 & H3). split; [|split].
  - destruct R as [acc' c'| |]; cbn [sim] in *.
    + destruct H1 as (new & Ha & Hs). exists new. split; [assumption|].
      intros k. rewrite He. apply Hs.
    + intros k. rewrite He. apply H1.
    + intros k. rewrite He. apply H1.
  - intros k d. rewrite !He. apply H2.
  - intros k. rewrite He. apply H3.
Qed.

Section Entries.
  Variables (be : bool) (b : list Z) (fuel : nat) (l : level).
  Hypothesis Hl : forall cl v c acc,
    good (trav_level be b fuel l cl v c acc) (strav_level be b fuel l cl v c acc) acc.

  Lemma good_entries cl bl lvend : forall j n c acc,
    good (trav_entries be b fuel l cl bl lvend j n c acc)
         (strav_entries be b fuel l cl bl lvend j n c acc) acc.
  Proof.
    induction j as [|j IH]; intros n c acc.
    - cbn [trav_entries].
      apply (good_ext _ _ (fun bud => if n <=? 0 then SOk acc c bud else SOob)).
      + intros bud. reflexivity.
      + destruct (n <=? 0); [apply good_ret|apply good_oob].
    - cbn [trav_entries].
      set (ev := {| lv_start := c; lv_level := c; lv_bl := bl; lv_end := lvend |}).
      set (c0 := if is_empty_level l cl then c + bl else c).
      apply (good_ext _ _
               (fun bud =>
                  if n <=? 0 then SOk acc c bud else
                  tick acc
                    (sbind (strav_level be b fuel l cl ev c0 (EEntry c :: acc))
                           (fun acc' c' =>
                              strav_entries be b fuel l cl bl lvend j (n - 1) c' acc')) bud)).
      + intros bud. cbn [strav_entries]. destruct (n <=? 0); reflexivity.
      + destruct (n <=? 0); [apply good_ret|].
        apply (good_tick (EEntry c)).
        change (good (cbind (trav_level be b fuel l cl ev c0 (EEntry c :: acc))
                            (fun acc' c' => trav_entries be b fuel l cl bl lvend j (n - 1) c' acc'))
                     (sbind (strav_level be b fuel l cl ev c0 (EEntry c :: acc))
                            (fun acc' c' =>
                               strav_entries be b fuel l cl bl lvend j (n - 1) c' acc'))
                     (EEntry c :: acc)).
        apply good_bind; [apply Hl|]. intros a c'. apply IH.
  Qed.
End Entries.

(* one step of each mutual case, stated separately *)
Lemma good_level_step be b fuel fs gs ds :
  (forall cgs v k first p c acc,
     good (trav_groups be b fuel gs cgs v k first p c acc)
          (strav_groups be b fuel gs cgs v k first p c acc) acc) ->
  forall cl v c acc,
    good (trav_level be b fuel (Level fs gs ds) cl v c acc)
         (strav_level be b fuel (Level fs gs ds) cl v c acc) acc.
Proof.
  intros Hgs cl v c acc.
  change (good
    (cbind (trav_fields v (clevel_fields cl) 0 c acc)
       (fun acc1 c1 =>
          cbind (trav_groups be b fuel gs (clevel_groups cl) v 0 true (Some (block_end v)) c1 acc1)
            (fun acc2 c2 =>
               trav_datas be b v ds 0 (groups_empty gs)
                 (groups_end be b fuel gs (block_end v)) c2 acc2)))
    (sbind (strav_fields v (clevel_fields cl) 0 c acc)
       (fun acc1 c1 =>
          sbind (strav_groups be b fuel gs (clevel_groups cl) v 0 true (Some (block_end v)) c1 acc1)
            (fun acc2 c2 =>
               strav_datas be b v ds 0 (groups_empty gs)
                 (groups_end be b fuel gs (block_end v)) c2 acc2)))
    acc).
  apply good_bind; [apply good_fields|]. intros a1 c1.
  apply good_bind; [apply Hgs|]. intros a2 c2. apply good_datas.
Qed.

Lemma good_groups_nil be b fuel cgs v k first p c acc :
  good (trav_groups be b fuel GNil cgs v k first p c acc)
       (strav_groups be b fuel GNil cgs v k first p c acc) acc.
Proof. apply good_ret. Qed.

Lemma good_groups_step be b fuel d cbl l rest :
  (forall cl v c acc,
     good (trav_level be b fuel l cl v c acc) (strav_level be b fuel l cl v c acc) acc) ->
  (forall cgs v k first p c acc,
     good (trav_groups be b fuel rest cgs v k first p c acc)
          (strav_groups be b fuel rest cgs v k first p c acc) acc) ->
  forall cgs v k first p c acc,
    good (trav_groups be b fuel (GCons d cbl l rest) cgs v k first p c acc)
         (strav_groups be b fuel (GCons d cbl l rest) cgs v k first p c acc) acc.
Proof.
  intros Hl Hrest cgs v k first p c acc.
  destruct cgs as [|cl crest].
  - apply good_oob.
  - rewrite trav_groups_cons.
    eapply good_ext; [intros bud; apply strav_groups_cons|].
    destruct (cur_group WPlain first v p (d_size d) (fun _ => None) c) as [s c1| |].
    + destruct (rd be b (s + d_bl_off d) (d_bl_t d)) as [bl|].
      * destruct (rd be b (s + d_n_off d) (d_n_t d)) as [n|].
        -- apply (good_tick (EGroup k s n)).
           change (good
             (cbind (trav_entries be b fuel l cl bl (lv_end v) fuel n c1 (EGroup k s n :: acc))
                (fun acc' c' =>
                   trav_groups be b fuel rest crest v (S k) false
                     (obind p (fun p0 => groups_end be b fuel (GCons d cbl l GNil) p0)) c' acc'))
             (sbind (strav_entries be b fuel l cl bl (lv_end v) fuel n c1 (EGroup k s n :: acc))
                (fun acc' c' =>
                   strav_groups be b fuel rest crest v (S k) false
                     (obind p (fun p0 => groups_end be b fuel (GCons d cbl l GNil) p0)) c' acc'))
             (EGroup k s n :: acc)).
           apply good_bind; [apply good_entries; exact Hl|]. intros a c'. apply Hrest.
        -- apply good_tick_oob.
      * apply good_tick_oob.
    + apply good_assert.
    + apply good_oob.
Qed.

Lemma good_level be b fuel : forall l cl v c acc,
  good (trav_level be b fuel l cl v c acc) (strav_level be b fuel l cl v c acc) acc.
Proof.
  refine (level_mind
    (fun l => forall cl v c acc,
       good (trav_level be b fuel l cl v c acc) (strav_level be b fuel l cl v c acc) acc)
    (fun gs => forall cgs v k first p c acc,
       good (trav_groups be b fuel gs cgs v k first p c acc)
            (strav_groups be b fuel gs cgs v k first p c acc) acc) _ _ _).
  - intros fs gs Hgs ds. now apply good_level_step.
  - intros cgs v k first p c acc. apply good_groups_nil.
  - intros d cbl l Hl rest Hrest. now apply good_groups_step.
Qed.

(* ================================================================== *)
(* 4. Message level                                                    *)
(* ================================================================== *)

(* both runs of a message in terms of the root-level runs *)
Lemma message_runs be b m cl base :
  (msg_block_length be b m base = None /\
   trav_message be b m cl base = COob /\
   forall k, trav_message_stop be b m cl base k = FOob) \/
  exists R S,
    good R S [] /\
    trav_message be b m cl base
    = match R with COk acc c => COk (rev acc) c | CAssert => CAssert | COob => COob end /\
    forall k, trav_message_stop be b m cl base k
              = match S k with
                | SOk acc c _ => FDone (rev acc) c
                | SStop acc => FStopped (rev acc)
                | SAssert => FAssert
                | SOob => FOob
                end.
Proof.
  unfold trav_message, trav_message_stop.
  destruct (msg_block_length be b m base) as [bl|].
  - right. eexists. eexists. split; [apply good_level|]. split; [reflexivity|].
    intros k. reflexivity.
  - left. repeat split.
Qed.

Theorem stop_prefix : stmt_stop_prefix.
Proof.
  unfold stmt_stop_prefix. intros be b m cl base evs c k Ht Hk.
  destruct (message_runs be b m cl base) as [(_ & Hc & _)|(R & S & (Hsim & _ & _) & HR & HS)].
  - rewrite Hc in Ht. discriminate Ht.
  - rewrite HR in Ht. destruct R as [acc c1| |]; try discriminate Ht.
    injection Ht as <- <-. cbn [sim] in Hsim. destruct Hsim as (new & -> & Hs).
    rewrite app_nil_r, rev_length in Hk. rewrite HS, Hs.
    destruct (stop_spec_cases new [] c1 k) as [[Hle Heq]|[Hlt Heq]]; [lia|]. rewrite Heq.
    rewrite !app_nil_r. now rewrite firstn_rev.
Qed.
Print Assumptions stop_prefix.

Theorem stop_beyond : stmt_stop_beyond.
Proof.
  unfold stmt_stop_beyond. intros be b m cl base evs c k Ht Hk.
  destruct (message_runs be b m cl base) as [(_ & Hc & _)|(R & S & (Hsim & _ & _) & HR & HS)].
  - rewrite Hc in Ht. discriminate Ht.
  - rewrite HR in Ht. destruct R as [acc c1| |]; try discriminate Ht.
    injection Ht as <- <-. cbn [sim] in Hsim. destruct Hsim as (new & -> & Hs).
    rewrite app_nil_r, rev_length in Hk. rewrite HS, Hs.
    destruct (stop_spec_cases new [] c1 k) as [[Hle Heq]|[Hlt Heq]]; [|lia]. now rewrite Heq.
Qed.
Print Assumptions stop_beyond.

Theorem stop_done_complete : stmt_stop_done_complete.
Proof.
  unfold stmt_stop_done_complete. intros be b m cl base evs c k Hs.
  destruct (message_runs be b m cl base) as [(_ & _ & Hc)|(R & S & (Hsim & _ & _) & HR & HS)].
  - rewrite Hc in Hs. discriminate Hs.
  - rewrite HS in Hs. rewrite HR. destruct R as [acc c1| |]; cbn [sim] in Hsim.
    + destruct Hsim as (new & -> & Hsp). rewrite Hsp in Hs.
      destruct (stop_spec_cases new [] c1 k) as [[Hle Heq]|[Hlt Heq]]; rewrite Heq in Hs;
        [|discriminate Hs].
      injection Hs as <- <-. split; [reflexivity|]. now rewrite rev_length, app_nil_r.
    + destruct (Hsim k) as [Hk|[a Hk]]; rewrite Hk in Hs; discriminate Hs.
    + destruct (Hsim k) as [Hk|[a Hk]]; rewrite Hk in Hs; discriminate Hs.
Qed.
Print Assumptions stop_done_complete.

Lemma ext_rev_prefix (a a' : list event) : ext a' a -> exists rest, rev a' = rev a ++ rest.
Proof. intros [x ->]. exists (rev x). apply rev_app_distr. Qed.

Theorem stop_events_prefix_general : stmt_stop_events_prefix_general.
Proof.
  unfold stmt_stop_events_prefix_general. intros be b m cl base k k' es es' Hk He He'.
  destruct (message_runs be b m cl base) as [(_ & _ & Hc)|(R & S & (_ & Hmono & _) & _ & HS)].
  - rewrite Hc in He. discriminate He.
  - rewrite HS in He, He'. specialize (Hmono k (k' - k)%nat).
    replace (k + (k' - k))%nat with k' in Hmono by lia.
    destruct (S k) as [a c r|a| |]; cbn [sfinal_events] in He; try discriminate He.
    + destruct Hmono as [_ Hd]. rewrite Hd in He'. cbn [sfinal_events] in He'.
      injection He as <-. injection He' as <-. exists []. now rewrite app_nil_r.
    + destruct Hmono as [_ Hd]. injection He as <-.
      destruct (S k') as [a' c' r'|a'| |]; cbn [sfinal_events] in He'; try discriminate He'.
      * injection He' as <-. now apply ext_rev_prefix.
      * injection He' as <-. now apply ext_rev_prefix.
Qed.
Print Assumptions stop_events_prefix_general.

Theorem stop_budget_general : stmt_stop_budget_general.
Proof.
  unfold stmt_stop_budget_general. intros be b m cl base k.
  destruct (message_runs be b m cl base) as [(_ & _ & Hc)|(R & S & (_ & Hmono & Hcnt) & _ & HS)].
  - rewrite Hc. intros k' _. apply Hc.
  - rewrite HS. specialize (Hcnt k).
    destruct (S k) as [a c r|a| |] eqn:ESk.
    + destruct Hcnt as (x & -> & Hl). split.
      * rewrite rev_length, app_nil_r. lia.
      * intros k' Hk. specialize (Hmono k (k' - k)%nat). rewrite ESk in Hmono.
        replace (k + (k' - k))%nat with k' in Hmono by lia.
        destruct Hmono as [_ Hd]. now rewrite HS, Hd.
    + destruct Hcnt as (x & -> & Hl). now rewrite rev_length, app_nil_r.
    + intros k' Hk. specialize (Hmono k (k' - k)%nat). rewrite ESk in Hmono.
      replace (k + (k' - k))%nat with k' in Hmono by lia. now rewrite HS, Hmono.
    + intros k' Hk. specialize (Hmono k (k' - k)%nat). rewrite ESk in Hmono.
      replace (k + (k' - k))%nat with k' in Hmono by lia. now rewrite HS, Hmono.
Qed.
Print Assumptions stop_budget_general.

Theorem stop_failure_general : stmt_stop_failure_general.
Proof.
  unfold stmt_stop_failure_general. intros be b m cl base k.
  destruct (message_runs be b m cl base) as [(_ & Ht & Hc)|(R & S & (Hsim & _ & _) & HR & HS)].
  - split; intros H.
    + rewrite Ht in H. discriminate H.
    + left. apply Hc.
  - rewrite HR, HS. split; intros H.
    + destruct R as [acc c1| |]; try discriminate H. cbn [sim] in Hsim.
      destruct (Hsim k) as [Hk|[a Hk]]; rewrite Hk; [now left|right; eexists; reflexivity].
    + destruct R as [acc c1| |]; try discriminate H. cbn [sim] in Hsim.
      destruct (Hsim k) as [Hk|[a Hk]]; rewrite Hk; [now left|right; eexists; reflexivity].
Qed.
Print Assumptions stop_failure_general.

(* ---- encoded images ---- *)
Theorem stop_prefix_enc : stmt_stop_prefix_enc.
Proof.
  unfold stmt_stop_prefix_enc. intros be m cl hdrbg v pre post k Hwf Hcl Hff Hlt Hpos Hk.
  exact (stop_prefix be _ m cl (len pre) _ _ k
           (trav_message_enc'' be m cl hdrbg v pre post Hwf Hcl Hff Hlt Hpos) Hk).
Qed.
Print Assumptions stop_prefix_enc.

Theorem stop_beyond_enc : stmt_stop_beyond_enc.
Proof.
  unfold stmt_stop_beyond_enc. intros be m cl hdrbg v pre post k Hwf Hcl Hff Hlt Hpos Hk.
  exact (stop_beyond be _ m cl (len pre) _ _ k
           (trav_message_enc'' be m cl hdrbg v pre post Hwf Hcl Hff Hlt Hpos) Hk).
Qed.
Print Assumptions stop_beyond_enc.

(* ================================================================== *)
(* 5. Non-vacuity: a concrete message                                  *)
(* ================================================================== *)
(* header 8 bytes (blockLength u16 at 0); root: one 1-byte field, one group
   (dimension 4 bytes: blockLength u16 at 0, numInGroup u16 at 2) whose
   entries have one 2-byte field, one data member with a u8 length *)
Module Ex.
  Definition d : dim :=
    {| d_size := 4; d_bl_off := 0; d_bl_t := U16; d_n_off := 2; d_n_t := U16; d_fills := [] |}.
  Definition m : message :=
    {| m_hdr_size := 8; m_bl_off := 0; m_bl_t := U16; m_cbl := 1; m_fills := [];
       m_level := Level [ {| f_off := 0; f_size := 1 |} ]
                        (GCons d 2 (Level [ {| f_off := 0; f_size := 2 |} ] GNil []) GNil)
                        [U8] |}.
  Definition cl : clevel :=
    CLevel [ {| ca_rel := 0; ca_abs := 8; ca_size := 1; ca_last := true; ca_view := false |} ]
           (CGCons (CLevel [ {| ca_rel := 0; ca_abs := 0; ca_size := 2; ca_last := true;
                                ca_view := false |} ] CGNil) CGNil).
  Definition hdrbg : list Z := [0;0;0;0;0;0;0;0].
  Definition v : vlevel :=
    VLevel [7]
      (VGCons [0;0;0;0]
         (VECons (VLevel [1;2] VGNil []) (VECons (VLevel [3;4] VGNil []) VENil)) VGNil)
      [[9;9;9]].
  Definition img : list Z := enc_message false m hdrbg v.

  Definition evs : list event :=
    [EField 0 8; EGroup 0 9 2; EEntry 13; EField 0 13; EEntry 15; EField 0 15; EData 0 17 3].

  Example image : img = [1;0;0;0;0;0;0;0; 7; 2;0;2;0; 1;2; 3;4; 3;9;9;9].
  Proof. vm_compute. reflexivity. Qed.

  Example complete : trav_message false img m cl 0 = COk evs 21.
  Proof. vm_compute. reflexivity. Qed.

  Example declarative : ev_level false (m_level m) v 8 = evs.
  Proof. vm_compute. reflexivity. Qed.

  Example stops :
    map (trav_message_stop false img m cl 0) [0; 1; 2; 3; 4; 5; 6]%nat
    = [ FStopped [];
        FStopped [EField 0 8];
        FStopped [EField 0 8; EGroup 0 9 2];
        FStopped [EField 0 8; EGroup 0 9 2; EEntry 13];
        FStopped [EField 0 8; EGroup 0 9 2; EEntry 13; EField 0 13];
        FStopped [EField 0 8; EGroup 0 9 2; EEntry 13; EField 0 13; EEntry 15];
        FStopped [EField 0 8; EGroup 0 9 2; EEntry 13; EField 0 13; EEntry 15; EField 0 15] ].
  Proof. vm_compute. reflexivity. Qed.

  Example completes :
    map (trav_message_stop false img m cl 0) [7; 8; 100]%nat
    = [FDone evs 21; FDone evs 21; FDone evs 21].
  Proof. vm_compute. reflexivity. Qed.

  (* the accessor runs before the callback: on an image cut inside the data
     member the complete run is out of bounds, and so is the stop run whose
     budget is exhausted exactly at on_data; smaller budgets stop earlier *)
  Definition cut : list Z := firstn 17 img.

  Example cut_complete : trav_message false cut m cl 0 = COob.
  Proof. vm_compute. reflexivity. Qed.

  Example cut_stops :
    map (trav_message_stop false cut m cl 0) [5; 6; 7]%nat
    = [ FStopped [EField 0 8; EGroup 0 9 2; EEntry 13; EField 0 13; EEntry 15];
        FOob; FOob ].
  Proof. vm_compute. reflexivity. Qed.

  (* a misplaced cursor accessor (second field of the root given the offset of
     the first): the assertion fires before on_field is asked to stop *)
  Definition m2 : message :=
    {| m_hdr_size := 8; m_bl_off := 0; m_bl_t := U16; m_cbl := 2; m_fills := [];
       m_level := Level [ {| f_off := 0; f_size := 1 |}; {| f_off := 1; f_size := 1 |} ]
                        GNil [] |}.
  Definition cl2_bad : clevel :=
    CLevel [ {| ca_rel := 0; ca_abs := 8; ca_size := 1; ca_last := false; ca_view := false |};
             {| ca_rel := 0; ca_abs := 8; ca_size := 1; ca_last := true; ca_view := false |} ]
           CGNil.
  Definition img2 : list Z := [2;0;0;0;0;0;0;0; 5;6].

  Example bad_complete : trav_message false img2 m2 cl2_bad 0 = CAssert.
  Proof. vm_compute. reflexivity. Qed.

  Example bad_stops :
    map (trav_message_stop false img2 m2 cl2_bad 0) [0; 1; 2]%nat
    = [FStopped []; FAssert; FAssert].
  Proof. vm_compute. reflexivity. Qed.

  (* the hypotheses of the image corollaries are satisfiable *)
  Lemma hyps :
    wf_message false m hdrbg v /\ wf_clevel (m_hdr_size m) (m_level m) cl /\
    fields_fit (m_level m) v /\ len ([] ++ img ++ []) < 2 ^ 64 /\
    flat_blocks_pos (m_level m) v.
  Proof.
    unfold wf_message, wf_dim, fits, is_unsigned_ity. cbn.
    repeat split; try lia; try reflexivity; try (vm_compute; congruence);
      try (left; vm_compute; congruence); repeat constructor; cbn; lia.
  Qed.

  Example stop_prefix_enc_instance :
    trav_message_stop false ([] ++ img ++ []) m cl (len []) 3%nat = FStopped (firstn 3 evs).
  Proof.
    destruct hyps as (H1 & H2 & H3 & H4 & H5).
    rewrite <- declarative.
    apply (stop_prefix_enc false m cl hdrbg v [] [] 3%nat H1 H2 H3 H4 H5).
    vm_compute. lia.
  Qed.
End Ex.
