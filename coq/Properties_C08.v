(* Properties_C08.v — C08: sbeppc rejects exactly the schemas that break its
   layout rules.  Only statements closed by [exact]; proofs are in
   ValidateProofs.v, concrete instances in ValidateExamples.v. *)
From Coq Require Import ZArith List.
From Sbepp Require Import Rules Validate ValidateProofs.
Local Open Scope Z_scope.

(* the validator (parser checks, SBE validator, C++ name checks, in the code's
   visiting order, with its state) accepts exactly the schemas that satisfy the
   declarative rules *)
Theorem C08_validate_iff_rules : forall s,
  (exists st, validate s = VOk st) <-> rules_ok s = true.
Proof. exact validate_iff_rules. Qed.
Print Assumptions C08_validate_iff_rules.

(* a schema that breaks a rule is rejected with a rule class: never a crash,
   never fuel exhaustion *)
Theorem C08_rejected_has_class : forall s,
  rules_ok s = false -> exists c, validate s = VErr c.
Proof. exact rejected_has_class. Qed.
Print Assumptions C08_rejected_has_class.

(* no accepted schema has overlapping composite members or fields, or members
   outside their composite / block; nothing extends beyond 2^64-1 *)
Theorem C08_accepted_no_overlap : forall s,
  rules_ok s = true ->
  (forall n o els, In (EComposite n o els) (all_elements (sc_types s)) ->
     exists items, items_of (sc_types s) els = Some items /\
                   size_of (sc_types s) (EComposite n o els) = Some (end_of (rev items)) /\
                   disjoint_layout (assign 0 items) (end_of (rev items)) /\
                   end_of (rev items) <= max_u64) /\
  (forall fs bl, In (fs, bl) (schema_levels s) -> level_layout_ok (sc_types s) fs bl).
Proof. exact accepted_no_overlap. Qed.
Print Assumptions C08_accepted_no_overlap.

From Sbepp Require Import SrcTables SrcTablesProofs.

(* the keyword list the validator consults, regenerated from
   sbe_schema_cpp_validator.hpp on every run, is the list of the rules model *)
Theorem C08_source_keyword_list_is_the_modelled_one : stmt_src_keywords.
Proof. exact src_keywords. Qed.
Print Assumptions C08_source_keyword_list_is_the_modelled_one.
