(* Properties_C10.v — C10: checked builds never touch memory outside the view
   silently.  Every access of the library is guarded by SBEPP_SIZE_CHECK with
   the accessed extent as (offset, size); the theorems are about that guard. *)
From Coq Require Import ZArith Bool.
From Sbepp Require Import Cursor SizeCheck CursorSpec CursorProofs CheckedAccess CheckedAccessProofs.
Local Open Scope Z_scope.

Theorem C10_passed_check_means_in_bounds : forall b e off sz,
  e - b < 2 ^ 64 -> size_check b e off sz = true -> b <= e /\ b + off + sz <= e.
Proof. exact size_check_sound. Qed.
Print Assumptions C10_passed_check_means_in_bounds.

Theorem C10_in_bounds_never_reported : forall b e off sz,
  b <= e -> e - b < 2 ^ 64 -> b + off + sz <= e -> size_check b e off sz = true.
Proof. exact size_check_complete. Qed.
Print Assumptions C10_in_bounds_never_reported.

(* cursor accessors: at the required position and with the field inside the
   buffer none of the wrappers reports anything (no spurious assertion) *)
Theorem C10_cursor_field_no_spurious_assert : stmt_cur_field_at_required.
Proof. exact cur_field_at_required. Qed.
Print Assumptions C10_cursor_field_no_spurious_assert.

(* the macro before the "fix:" commit was unsound for views that start past the
   end of their buffer *)
Theorem C10_legacy_begin_past_end_refuted :
  exists b e off sz, e < b /\ legacy_size_check b e off sz = true /\ e < b + off + sz.
Proof. exact legacy_size_check_begin_past_end_refuted. Qed.
Print Assumptions C10_legacy_begin_past_end_refuted.

(* ---- the random-access API with the library's explicit size checks
   (CheckedAccess.v: SBEPP_SIZE_CHECK calls in the order sbepp.hpp makes them,
   interleaved with the reads; the model the correspondence run compares the
   library with at every truncation point).  For ALL tables, buffers, paths. ---- *)

(* no silent out-of-bounds: whatever the outcome, every byte range touched --
   also before an assertion fires -- lies inside [0, len b) *)
Theorem C10_checked_touches_inside : stmt_checked_touches_inside.
Proof. exact checked_touches_inside. Qed.
Print Assumptions C10_checked_touches_inside.

(* the literal property text, without any hypothesis on table, buffer, view
   start or arguments: no byte at or beyond the end of the view is touched *)
Theorem C10_checked_nothing_beyond_end : stmt_checked_nothing_beyond_end.
Proof. exact checked_nothing_beyond_end. Qed.
Print Assumptions C10_checked_nothing_beyond_end.

(* a returned value is the value of the unchecked Msg.v function, whose reads
   are bounds-tested *)
Theorem C10_checked_agrees_with_unchecked : stmt_checked_agrees.
Proof. exact checked_agrees. Qed.
Print Assumptions C10_checked_agrees_with_unchecked.

(* a failed size check names an extent that is not inside the buffer *)
Theorem C10_checked_report_justified : stmt_checked_report_justified.
Proof. exact checked_report_justified. Qed.
Print Assumptions C10_checked_report_justified.

(* no spurious report: message inside the buffer, preconditions hold => the
   checked operation returns the unchecked value *)
Theorem C10_checked_no_spurious : stmt_checked_no_spurious.
Proof. exact checked_no_spurious. Qed.
Print Assumptions C10_checked_no_spurious.

(* "every byte the operation READS lies inside the buffer => no report" is NOT
   the library's behaviour: header views are checked as a whole (witness: a
   buffer ending inside a dimension, after blockLength and numInGroup) *)
Theorem C10_read_extent_criterion_refuted : ~ stmt_read_extent_criterion.
Proof. exact read_extent_criterion_refuted. Qed.
Print Assumptions C10_read_extent_criterion_refuted.

(* ---- the SBEPP_SIZE_CHECK macro and detail::is_within_size of /repo's
   CURRENT sbepp.hpp, as clang expands and types them (SrcExprs.v, regenerated
   on every run by harness/srcexprs.py): the handler stays silent exactly when
   the accessed bytes lie inside [begin, end), wherever the view starts ---- *)
From Coq Require Import String List.
From Sbepp Require Import CInt CExpr SrcExprs SrcExprsProofs.
Import ListNotations.
Local Open Scope Z_scope.
Local Open Scope string_scope.

Theorem C10_source_size_check_macro : forall b e off size,
  0 < b < 2 ^ 63 -> 0 <= e < 2 ^ 63 -> in_range U64 off = true -> in_range U64 size = true ->
  (effs_eval [("begin", b); ("end", e); ("offset", off); ("size", size)] src_size_check_macro = Some [1]
   <-> (b <= e /\ b + off + size <= e)) /\
  (effs_eval [("begin", b); ("end", e); ("offset", off); ("size", size)] src_size_check_macro = Some [0]
   <-> ~ (b <= e /\ b + off + size <= e)).
Proof. exact src_size_check_sound_complete. Qed.
Print Assumptions C10_source_size_check_macro.

Theorem C10_source_size_check_is_the_model : forall b e off size,
  0 < b < 2 ^ 63 -> 0 <= e < 2 ^ 63 -> in_range U64 off = true -> in_range U64 size = true ->
  effs_eval [("begin", b); ("end", e); ("offset", off); ("size", size)] src_size_check_macro
  = Some [zb (Cursor.size_check b e off size)].
Proof. exact src_size_check_macro_is_model. Qed.
Print Assumptions C10_source_size_check_is_the_model.

Theorem C10_source_is_within_size : forall off size avail,
  in_range U64 off = true -> in_range U64 size = true -> in_range U64 avail = true ->
  effs_eval [("offset", off); ("size", size); ("available", avail)] src_is_within_size
  = Some [zb (off + size <=? avail)%Z].
Proof. exact src_is_within_size_spec. Qed.
Print Assumptions C10_source_is_within_size.
