(* Properties_C10.v — C10: checked builds never touch memory outside the view
   silently.  Every access of the library is guarded by SBEPP_SIZE_CHECK with
   the accessed extent as (offset, size); the theorems are about that guard. *)
From Coq Require Import ZArith Bool.
From Sbepp Require Import Cursor SizeCheck CursorSpec CursorProofs.
Local Open Scope Z_scope.

Theorem C10_passed_check_means_in_bounds : forall b e off sz,
  e - b < 2 ^ 64 -> size_check b e off sz = true -> b <= e /\ b + off + sz <= e.
Proof. exact size_check_sound. Qed.
Print Assumptions C10_passed_check_means_in_bounds.

Theorem C10_in_bounds_never_reported : forall b e off sz,
  b <= e -> e - b < 2 ^ 64 -> b + off + sz <= e -> size_check b e off sz = true.
Proof. exact size_check_complete. Qed.
Print Assumptions C10_in_bounds_never_reported.

(* cursor accessors: at the required position and with the field inside the
   buffer none of the wrappers reports anything (no spurious assertion) *)
Theorem C10_cursor_field_no_spurious_assert : stmt_cur_field_at_required.
Proof. exact cur_field_at_required. Qed.
Print Assumptions C10_cursor_field_no_spurious_assert.

(* the macro before the "fix:" commit was unsound for views that start past the
   end of their buffer *)
Theorem C10_legacy_begin_past_end_refuted :
  exists b e off sz, e < b /\ legacy_size_check b e off sz = true /\ e < b + off + sz.
Proof. exact legacy_size_check_begin_past_end_refuted. Qed.
Print Assumptions C10_legacy_begin_past_end_refuted.
