(* Layout.v — model of the layout computations of sbeppc:
   sbe_schema_validator.hpp (validate_element_offset / composite size,
   validate_field_offset, validate_block_length) and the independent
   recomputation of cursor offsets in messages_compiler.hpp
   (make_fields_cursor_accessors), over a resolved schema AST (types already
   looked up; names dropped).  [compile_message] produces the Msg.message table
   the runtime model interprets.

   Offsets are unbounded [Z] here; the C++ uses uint64 arithmetic whose wrap is
   outside the [fits64] guard of the theorems.  Definitions only (extracted). *)
From Coq Require Import ZArith List Bool.
From Sbepp Require Import CInt Bytes Msg.
Import ListNotations.
Local Open Scope Z_scope.

(* encoded representation of a field / composite member *)
Inductive stype :=
| TScalar (p : prim)                 (* <type length=1>, enum, set *)
| TArray (p : prim) (n : Z)          (* <type length=n>, n may be 0 *)
| TComposite (ms : list smember)
with smember :=
| SMember (off : option Z) (const : bool) (t : stype).

Definition sm_off (m : smember) := match m with SMember o _ _ => o end.
Definition sm_const (m : smember) := match m with SMember _ c _ => c end.
Definition sm_type (m : smember) := match m with SMember _ _ t => t end.

(* one step of validate_element_offset / validate_field_offset:
   [cur] is the running offset; result: (offset assigned, new running offset)
   or None when a custom offset is below the minimum (schema rejected) *)
Definition place (explicit : option Z) (cur size : Z) : option (Z * Z) :=
  match explicit with
  | Some o => if o <? cur then None else Some (o, o + size)
  | None => Some (cur, cur + size)
  end.

(* size of an encoding and offsets of its members, as validate_encoding
   (composite) computes them.  A constant member takes no space. *)
Fixpoint type_size (t : stype) : option Z :=
  match t with
  | TScalar p => Some (Z.of_nat (prim_size p))
  | TArray p n => Some (Z.of_nat (prim_size p) * n)
  | TComposite ms =>
    (fix go (ms : list smember) (cur : Z) : option Z :=
       match ms with
       | [] => Some cur
       | SMember o c t :: rest =>
         match type_size t with
         | None => None
         | Some sz =>
           if c then go rest cur
           else match place o cur sz with
                | None => None
                | Some (_, cur') => go rest cur'
                end
         end
       end) ms 0
  end.

(* offsets of the members of a composite (None for constants) *)
Fixpoint member_offsets (ms : list smember) (cur : Z) : option (list (option Z)) :=
  match ms with
  | [] => Some []
  | SMember o c t :: rest =>
    match type_size t with
    | None => None
    | Some sz =>
      if c then option_map (cons None) (member_offsets rest cur)
      else match place o cur sz with
           | None => None
           | Some (off, cur') => option_map (cons (Some off)) (member_offsets rest cur')
           end
    end
  end.

(* ---- message levels ---- *)
Record sfield := { sf_off : option Z; sf_const : bool; sf_type : stype }.

(* dimension / header composite with the indices of the members the runtime
   reads (resolved by name in the generator) *)
Record sdim := { sd_members : list smember; sd_bl_idx : nat; sd_n_idx : nat;
                 sd_fills : list (nat * fillv) }.

Inductive slevel :=
| SLevel (fs : list sfield) (gs : sgroups) (ds : list prim)
with sgroups :=
| SGNil
| SGCons (d : sdim) (bl : option Z) (l : slevel) (rest : sgroups).

Record smessage := {
  sm_header : list smember; sm_bl_idx : nat; sm_fills : list (nat * fillv);
  sm_block_length : option Z; sm_level : slevel }.

(* validate_members, first loop: level_offset of every non-constant field and
   the minimal blockLength *)
Fixpoint layout_fields (fs : list sfield) (cur : Z) : option (list fld * Z) :=
  match fs with
  | [] => Some ([], cur)
  | f :: rest =>
    match type_size (sf_type f) with
    | None => None
    | Some sz =>
      if sf_const f then layout_fields rest cur
      else match place (sf_off f) cur sz with
           | None => None
           | Some (off, cur') =>
             match layout_fields rest cur' with
             | None => None
             | Some (fl, e) => Some ({| f_off := off; f_size := sz |} :: fl, e)
             end
           end
    end
  end.

(* validate_block_length *)
Definition block_length (explicit : option Z) (minimal : Z) : option Z :=
  match explicit with
  | Some b => if b <? minimal then None else Some b
  | None => Some minimal
  end.

Definition prim_ity (p : prim) : option ity :=
  match p with
  | PU8 => Some U8 | PU16 => Some U16 | PU32 => Some U32 | PU64 => Some U64
  | _ => None
  end.

Definition scalar_ity (t : stype) : option ity :=
  match t with TScalar p => prim_ity p | _ => None end.

Definition nth_member_off (ms : list smember) (k : nat) : option (Z * ity) :=
  match member_offsets ms 0, nth_error ms k with
  | Some offs, Some m =>
    match nth_error offs k, scalar_ity (sm_type m) with
    | Some (Some o), Some t => Some (o, t)
    | _, _ => None
    end
  | _, _ => None
  end.

Fixpoint compile_fills (ms : list smember) (fills : list (nat * fillv))
  : option (list (Z * ity * fillv)) :=
  match fills with
  | [] => Some []
  | (k, v) :: rest =>
    match nth_member_off ms k, compile_fills ms rest with
    | Some (o, t), Some r => Some ((o, t, v) :: r)
    | _, _ => None
    end
  end.

Definition compile_dim (d : sdim) : option dim :=
  match type_size (TComposite (sd_members d)),
        nth_member_off (sd_members d) (sd_bl_idx d),
        nth_member_off (sd_members d) (sd_n_idx d),
        compile_fills (sd_members d) (sd_fills d) with
  | Some sz, Some (blo, blt), Some (no, nt), Some fl =>
    Some {| d_size := sz; d_bl_off := blo; d_bl_t := blt; d_n_off := no; d_n_t := nt; d_fills := fl |}
  | _, _, _, _ => None
  end.

Fixpoint compile_level (l : slevel) : option (level * Z) :=
  match l with
  | SLevel fs gs ds =>
    match layout_fields fs 0, compile_groups gs,
          (fix dl (ds : list prim) : option (list ity) :=
             match ds with
             | [] => Some []
             | p :: r => match prim_ity p, dl r with
                         | Some t, Some ts => Some (t :: ts)
                         | _, _ => None
                         end
             end) ds with
    | Some (fl, minbl), Some cgs, Some cds => Some (Level fl cgs cds, minbl)
    | _, _, _ => None
    end
  end
with compile_groups (gs : sgroups) : option groups :=
  match gs with
  | SGNil => Some GNil
  | SGCons d bl l rest =>
    match compile_dim d, compile_level l, compile_groups rest with
    | Some cd, Some (cl, minbl), Some crest =>
      match block_length bl minbl with
      | Some cbl => Some (GCons cd cbl cl crest)
      | None => None
      end
    | _, _, _ => None
    end
  end.

Definition compile_message (m : smessage) : option message :=
  match type_size (TComposite (sm_header m)),
        nth_member_off (sm_header m) (sm_bl_idx m),
        compile_level (sm_level m),
        compile_fills (sm_header m) (sm_fills m) with
  | Some hsz, Some (blo, blt), Some (cl, minbl), Some fl =>
    match block_length (sm_block_length m) minbl with
    | Some cbl =>
      Some {| m_hdr_size := hsz; m_bl_off := blo; m_bl_t := blt; m_cbl := cbl;
              m_fills := fl; m_level := cl |}
    | None => None
    end
  | _, _, _, _ => None
  end.

(* ---- cursor offsets: make_fields_cursor_accessors ----
   The generator walks the non-constant fields again with its own running
   [absolute_offset] (get_valid_offset) and emits, per field, the pair
   (relative offset from the previous field's end, absolute offset incl. the
   header size); the last field gets the "last" flavour which jumps to the
   block end. *)
Record cfld := { c_rel : Z; c_abs : Z; c_size : Z; c_last : bool }.

Fixpoint cursor_fields (fs : list sfield) (hdr cur : Z) : option (list cfld) :=
  match fs with
  | [] => Some []
  | f :: rest =>
    match type_size (sf_type f) with
    | None => None
    | Some sz =>
      if sf_const f then cursor_fields rest hdr cur
      else match place (sf_off f) cur sz with
           | None => None
           | Some (abs, cur') =>
             match cursor_fields rest hdr cur' with
             | None => None
             | Some cl =>
               let last := forallb sf_const rest in
               Some ({| c_rel := abs - cur; c_abs := abs + hdr; c_size := sz; c_last := last |} :: cl)
             end
           end
    end
  end.
