(* Validate.v — C08/C09: model of what sbeppc does with a parsed schema, in the
   code's visiting order:
     schema_parser.hpp        uniqueness sets, numeric attribute ranges
     sbe_schema_validator.hpp validate_types / validate_messages
     sbe_schema_cpp_validator.hpp  C++ keyword / namespace checks
   Every partial C++ operation on the way (context_manager::get/create asserts,
   assert(enc), assert(false)) is an explicit [VCrash] outcome; the recursion of
   validate_public_encoding through <ref>s runs on explicit fuel ([VOutOfFuel]).

   [fixed = true] is the repaired code (running offsets are checked against
   2^64-1 before `current_offset += size`); [fixed = false] ([Module Legacy])
   is the code before the repair: the addition wraps modulo 2^64.

   Definitions only (extracted); stdlib only. *)
From Coq Require Import ZArith List Bool String Ascii.
From Sbepp Require Import Bytes Rules.
Import ListNotations.
Local Open Scope Z_scope.

Inductive rule_class :=
| OffsetTooSmall | OffsetOverflow | BlockLengthTooSmall | ValueNotRepresentable
| ChoiceIndexOutOfRange | UnknownType | WrongKindReference | CyclicReference
| MultiByteArray | BadLevelHeader | InvalidName | DuplicateName | BadNumber
| BadPrimitiveType | BadEncodingType | BadConstant | BadValueRef | Malformed.

Inductive crash_kind :=
| CtxMissing        (* context_manager::get: "Context doesn't exist" *)
| CtxDuplicate      (* context_manager::create: "Context should be created only once" *)
| NullEncoding      (* assert(enc) / dereference of a null get_encoding result *)
| AssertFalse       (* assert(false) *)
| BadPrimitive      (* unordered_map::at on a non-primitive name *)
| MapAt             (* utils::get_schema_encoding: schema.types.at *)
| BadVariant        (* std::get<T> on another alternative *)
| NullElement       (* dereference of a null find_composite_element result *)
| EmptyOptional.    (* operator* on an empty std::optional *)

Inductive voutcome (A : Type) :=
| VOk (a : A) | VErr (c : rule_class) | VCrash (w : crash_kind) | VOutOfFuel.
Arguments VOk {A} a.
Arguments VErr {A} c.
Arguments VCrash {A} w.
Arguments VOutOfFuel {A}.

Definition bind {A B} (x : voutcome A) (f : A -> voutcome B) : voutcome B :=
  match x with
  | VOk a => f a
  | VErr c => VErr c
  | VCrash w => VCrash w
  | VOutOfFuel => VOutOfFuel
  end.

Notation "x <- e ;; k" := (bind e (fun x => k)) (at level 61, e at next level, right associativity).
Notation "e ;;; k" := (bind e (fun _ => k)) (at level 61, right associativity).

Definition check (b : bool) (c : rule_class) : voutcome unit := if b then VOk tt else VErr c.

(* processing state and context of the public encodings, keyed by name:
   None = in_progress (no context yet), Some size = complete (context created) *)
Definition vstate := list (str * option Z).

Fixpoint assoc (n : str) (st : vstate) : option (option Z) :=
  match st with
  | [] => None
  | (m, v) :: r => if str_eqb m n then Some v else assoc n r
  end.

Fixpoint update (n : str) (z : Z) (st : vstate) : vstate :=
  match st with
  | [] => []
  | (m, v) :: r => if str_eqb m n then (m, Some z) :: r else (m, v) :: update n z r
  end.

(* ctx_manager->get(public encoding).size *)
Definition ctx_get (st : vstate) (e : element_def) : voutcome Z :=
  match assoc (ename e) st with
  | Some (Some z) => VOk z
  | _ => VCrash CtxMissing
  end.

(* ctx_manager->create(public encoding).size = z *)
Definition ctx_create (st : vstate) (n : str) (z : Z) : voutcome vstate :=
  match assoc n st with
  | Some None => VOk (update n z st)
  | _ => VCrash CtxDuplicate
  end.

(* ------------------------------------------------------------------ *)
(* schema_parser: what it rejects on an XML-shaped input                     *)
(* ------------------------------------------------------------------ *)

Definition p_num (z : Z) : voutcome unit := check (u64_ok z) BadNumber.
Definition p_onum (o : option Z) : voutcome unit := check (opt_u64_ok o) BadNumber.

(* unique_set::add_or_throw over a sequence *)
Fixpoint p_unique (seen : list str) (l : list str) : voutcome unit :=
  match l with
  | [] => VOk tt
  | x :: r => if mem_str x seen then VErr DuplicateName else p_unique (x :: seen) r
  end.

Fixpoint p_unique_z (seen : list Z) (l : list Z) : voutcome unit :=
  match l with
  | [] => VOk tt
  | x :: r => if mem_z x seen then VErr DuplicateName else p_unique_z (x :: seen) r
  end.

Fixpoint p_element (e : element_def) : voutcome unit :=
  match e with
  | EType t => p_num (t_length t) ;;; p_onum (t_offset t)
  | EEnum en => p_onum (e_offset en) ;;; p_unique [] (map fst (e_values en))
  | ESet st =>
    p_onum (s_offset st) ;;;
    (fix ch (seen : list str) (l : list (str * Z)) : voutcome unit :=
       match l with
       | [] => VOk tt
       | (n, i) :: r =>
         check ((0 <=? i) && (i <=? 255))%bool BadNumber ;;;
         if mem_str n seen then VErr DuplicateName else ch (n :: seen) r
       end) [] (s_choices st)
  | ERef _ _ o => p_onum o
  | EComposite _ o els =>
    p_onum o ;;;
    (fix go (seen : list str) (els : list element_def) : voutcome unit :=
       match els with
       | [] => VOk tt
       | m :: r =>
         p_element m ;;;
         if mem_str (ename m) seen then VErr DuplicateName else go (ename m :: seen) r
       end) [] els
  end.

Fixpoint p_types (seen : list str) (env : list element_def) : voutcome unit :=
  match env with
  | [] => VOk tt
  | e :: r =>
    check (negb (is_ref e)) Malformed ;;;
    p_element e ;;;
    if mem_str (to_lower (ename e)) seen then VErr DuplicateName
    else p_types (to_lower (ename e) :: seen) r
  end.

Definition p_fields (fs : list field_def) : voutcome unit :=
  (fix go (fs : list field_def) : voutcome unit :=
     match fs with
     | [] => VOk tt
     | f :: r => p_onum (f_offset f) ;;; go r
     end) fs.

Fixpoint p_group (g : group_def) : voutcome unit :=
  match g with
  | GroupDef n dim bl fs gs ds =>
    p_onum bl ;;;
    p_fields fs ;;;
    (fix go (gs : list group_def) : voutcome unit :=
       match gs with [] => VOk tt | g' :: r => p_group g' ;;; go r end) gs ;;;
    p_unique [] (map f_name fs ++ map gname gs ++ map d_name ds)
  end.

Definition p_message (m : message_def) : voutcome unit :=
  check ((0 <=? m_id m) && (m_id m <=? 4294967295))%bool BadNumber ;;;
  p_onum (m_bl m) ;;;
  p_fields (m_fields m) ;;;
  (fix go (gs : list group_def) : voutcome unit :=
     match gs with [] => VOk tt | g' :: r => p_group g' ;;; go r end) (m_groups m) ;;;
  p_unique [] (map f_name (m_fields m) ++ map gname (m_groups m) ++ map d_name (m_data m)).

Fixpoint p_messages (names : list str) (ids : list Z) (ms : list message_def) : voutcome unit :=
  match ms with
  | [] => VOk tt
  | m :: r =>
    p_message m ;;;
    if mem_str (m_name m) names then VErr DuplicateName else
    if mem_z (m_id m) ids then VErr DuplicateName else
    p_messages (m_name m :: names) (m_id m :: ids) r
  end.

Definition parse_checks (s : schema_def) : voutcome unit :=
  p_types [] (sc_types s) ;;; p_messages [] [] (sc_messages s).

(* ------------------------------------------------------------------ *)
(* sbe_schema_validator: encodings                                     *)
(* ------------------------------------------------------------------ *)

Definition v_name (n : str) : voutcome unit := check (is_symbolic n) InvalidName.

(* find_value_ref *)
Definition v_find_value_ref (env : list element_def) (vref : str) : voutcome (enum_def * value_text) :=
  match split_dot vref with
  | None => VErr BadValueRef
  | Some (en, vn) =>
    if (is_empty en || is_empty vn)%bool then VErr BadValueRef else
    match get_encoding env en with
    | None => VErr UnknownType
    | Some (EEnum e) =>
      match find_value (e_values e) vn with
      | Some v => VOk (e, v)
      | None => VErr BadValueRef
      end
    | Some _ => VErr WrongKindReference
    end
  end.

Definition v_opt_value (o : option value_text) (p : prim) : voutcome unit :=
  match o with
  | Some v => check (value_fits v p) ValueNotRepresentable
  | None => VOk tt
  end.

(* validate_constant_value *)
Definition v_constant_value (env : list element_def) (t : type_def) (p : prim) : voutcome unit :=
  match t_vref t, t_const t with
  | Some _, Some _ | None, None => VErr BadConstant
  | Some r, None =>
    ev <- v_find_value_ref env r ;;
    check (enum_value_fits (fst ev) (snd ev) p) ValueNotRepresentable ;;;
    check (t_length t =? 1) BadConstant
  | None, Some v =>
    match p with
    | PChar => check (negb (t_length t <? v_len v)) BadConstant
    | _ => check (value_fits v p) ValueNotRepresentable ;;; check (t_length t =? 1) BadConstant
    end
  end.

(* validate_encoding(type): returns the size *)
Definition v_type (env : list element_def) (t : type_def) : voutcome Z :=
  v_name (t_name t) ;;;
  match prim_of_name (t_prim t) with
  | None => VErr BadPrimitiveType
  | Some p =>
    match t_presence t with
    | PConstant => v_constant_value env t p
    | pr =>
      if t_length t =? 1 then
        v_opt_value (t_min t) p ;;;
        v_opt_value (t_max t) p ;;;
        if presence_eqb pr POptional then v_opt_value (t_null t) p else VOk tt
      else check (is_single_byte p) MultiByteArray
    end ;;;
    VOk (t_length t * psize p)
  end.

(* primitive type of an enum / set: the name is resolved like the code does *)
Definition v_encoding_type (env : list element_def) (ty : str) : voutcome str :=
  match prim_of_name ty with
  | Some _ => VOk ty
  | None =>
    match get_encoding env ty with
    | None => VErr UnknownType
    | Some (EType t) => if t_length t =? 1 then VOk (t_prim t) else VErr BadEncodingType
    | Some _ => VErr WrongKindReference
    end
  end.

Definition v_enum (env : list element_def) (e : enum_def) : voutcome Z :=
  v_name (e_name e) ;;;
  pn <- v_encoding_type env (e_type e) ;;
  match prim_of_name pn with
  | None => VErr BadEncodingType
  | Some p =>
    check (negb (is_fp p)) BadEncodingType ;;;
    (fix vals (l : list (str * value_text)) : voutcome unit :=
       match l with
       | [] => VOk tt
       | (n, v) :: r =>
         v_name n ;;;
         check (match p with PChar => v_len v =? 1 | _ => value_fits v p end) ValueNotRepresentable ;;;
         vals r
       end) (e_values e) ;;;
    VOk (psize p)
  end.

Definition v_set (env : list element_def) (s : set_def) : voutcome Z :=
  v_name (s_name s) ;;;
  pn <- v_encoding_type env (s_type s) ;;
  match prim_of_name pn with
  | None => VErr BadEncodingType
  | Some p =>
    check (is_unsigned_prim p) BadEncodingType ;;;
    (fix chs (l : list (str * Z)) : voutcome unit :=
       match l with
       | [] => VOk tt
       | (n, i) :: r =>
         v_name n ;;;
         check (negb (8 * psize p - 1 <? i)) ChoiceIndexOutOfRange ;;;
         chs r
       end) (s_choices s) ;;;
    VOk (psize p)
  end.

(* `current_offset += enc_size` *)
Definition add_size (fixed : bool) (cur sz : Z) : voutcome Z :=
  if fixed then (if max_u64 - cur <? sz then VErr OffsetOverflow else VOk (cur + sz))
  else VOk ((cur + sz) mod 2 ^ 64).

(* validate_element_offset / validate_field_offset after the constant test *)
Definition v_place (fixed : bool) (explicit : option Z) (cur sz : Z) : voutcome Z :=
  match explicit with
  | Some o => if o <? cur then VErr OffsetTooSmall else add_size fixed o sz
  | None => add_size fixed cur sz
  end.

(* is_constant_composite_element *)
Definition v_is_constant_element (env : list element_def) (e : element_def) : voutcome bool :=
  match e with
  | ERef _ ty _ =>
    match get_encoding env ty with
    | Some tgt => VOk (is_const_type tgt)
    | None => VCrash NullEncoding
    end
  | _ => VOk (is_const_type e)
  end.

(* validate_encoding for any composite element; [rec] is
   validate_public_encoding.  Returns the new state and the element's size *)
Fixpoint v_elem (fixed : bool) (env : list element_def) (rec : vstate -> element_def -> voutcome vstate)
         (st : vstate) (e : element_def) {struct e} : voutcome (vstate * Z) :=
  match e with
  | EType t => z <- v_type env t ;; VOk (st, z)
  | EEnum en => z <- v_enum env en ;; VOk (st, z)
  | ESet s => z <- v_set env s ;; VOk (st, z)
  | ERef n ty _ =>
    v_name n ;;;
    match get_encoding env ty with
    | None => VErr UnknownType
    | Some tgt =>
      st' <- rec st tgt ;;
      z <- ctx_get st' tgt ;;
      VOk (st', z)
    end
  | EComposite n _ els =>
    v_name n ;;;
    (fix go (st : vstate) (els : list element_def) (cur : Z) : voutcome (vstate * Z) :=
       match els with
       | [] => VOk (st, cur)
       | m :: r =>
         sz <- v_elem fixed env rec st m ;;
         c <- v_is_constant_element env m ;;
         cur' <- (if c then VOk cur else v_place fixed (eoffset m) cur (snd sz)) ;;
         go (fst sz) r cur'
       end) st els 0
  end.

(* validate_public_encoding *)
Fixpoint v_public (fixed : bool) (env : list element_def) (fuel : nat) (st : vstate) (e : element_def)
  : voutcome vstate :=
  match fuel with
  | O => VOutOfFuel
  | S fuel' =>
    match assoc (ename e) st with
    | Some (Some _) => VOk st
    | Some None => VErr CyclicReference
    | None =>
      r <- v_elem fixed env (v_public fixed env fuel') ((ename e, None) :: st) e ;;
      ctx_create (fst r) (ename e) (snd r)
    end
  end.

(* validate_types, in the iteration order of schema->types *)
Fixpoint v_types (fixed : bool) (env : list element_def) (fuel : nat) (st : vstate) (l : list element_def)
  : voutcome vstate :=
  match l with
  | [] => VOk st
  | e :: r => st' <- v_public fixed env fuel st e ;; v_types fixed env fuel st' r
  end.

(* ------------------------------------------------------------------ *)
(* sbe_schema_validator: level headers                                 *)
(* ------------------------------------------------------------------ *)

(* get_level_header_element *)
Definition v_header_element (env : list element_def) (els : list element_def) (name : str)
  : voutcome type_def :=
  match find_element els name with
  | None => VErr BadLevelHeader
  | Some (EType t) => VOk t
  | Some (ERef _ ty _) =>
    match get_encoding env ty with
    | Some (EType t) => VOk t
    | _ => VErr BadLevelHeader
    end
  | Some _ => VErr BadLevelHeader
  end.

(* validate_level_header_element *)
Definition v_level_header_element (env : list element_def) (els : list element_def) (name : str)
  : voutcome unit :=
  t <- v_header_element env els name ;;
  check (t_length t =? 1) BadLevelHeader ;;;
  check (negb (presence_eqb (t_presence t) PConstant)) BadLevelHeader.

(* validate_level_header *)
Definition v_level_header (env : list element_def) (ty : str) (required : list str) : voutcome unit :=
  match get_encoding env ty with
  | None => VErr UnknownType
  | Some (EComposite _ _ els) =>
    (fix go (l : list str) : voutcome unit :=
       match l with
       | [] => VOk tt
       | n :: r => v_level_header_element env els n ;;; go r
       end) required
  | Some _ => VErr WrongKindReference
  end.

(* validate_data_header body *)
Definition v_data_header (env : list element_def) (ty : str) : voutcome unit :=
  match get_encoding env ty with
  | None => VErr UnknownType
  | Some (EComposite _ _ els) =>
    v_level_header_element env els k_length ;;;
    t <- v_header_element env els k_varData ;;
    check (t_length t =? 0) BadLevelHeader
  | Some _ => VErr WrongKindReference
  end.

(* ------------------------------------------------------------------ *)
(* sbe_schema_validator: messages                                      *)
(* ------------------------------------------------------------------ *)

(* memo sets validated_group_headers / validated_data_headers *)
Definition vmemo := (list str * list str)%type.

(* get_actual_presence *)
Definition v_actual_presence (f : field_def) (enc : element_def) : presence_kind :=
  match enc with
  | EType t => t_presence t
  | EComposite _ _ _ => f_presence f
  | EEnum _ => match f_presence f with POptional => PRequired | p => p end
  | ESet _ => PRequired
  | ERef _ _ _ => f_presence f     (* not a public encoding *)
  end.

(* validate_constant_field *)
Definition v_constant_field (env : list element_def) (f : field_def) : voutcome unit :=
  match prim_of_name (f_type f) with
  | Some p =>
    match f_vref f with
    | None => VErr BadConstant
    | Some r =>
      ev <- v_find_value_ref env r ;;
      check (enum_value_fits (fst ev) (snd ev) p) ValueNotRepresentable
    end
  | None =>
    match get_encoding env (f_type f) with
    | None => VCrash NullEncoding
    | Some (EType _) => VOk tt
    | Some (ESet _) => VCrash AssertFalse
    | Some (EComposite _ _ _) => VErr BadConstant
    | Some (EEnum _) =>
      match f_vref f with
      | None => VErr BadConstant
      | Some r =>
        ev <- v_find_value_ref env r ;;
        check (str_eqb (to_lower (f_type f)) (to_lower (e_name (fst ev)))) BadConstant
      end
    | Some (ERef _ _ _) => VCrash BadVariant
    end
  end.

(* first loop of validate_members: returns the minimal blockLength *)
Fixpoint v_fields (fixed : bool) (env : list element_def) (st : vstate) (fs : list field_def) (cur : Z)
  : voutcome Z :=
  match fs with
  | [] => VOk cur
  | f :: r =>
    v_name (f_name f) ;;;
    sp <- match prim_of_name (f_type f) with
          | Some p => VOk (psize p, f_presence f)
          | None =>
            match get_encoding env (f_type f) with
            | None => VErr UnknownType
            | Some enc => z <- ctx_get st enc ;; VOk (z, v_actual_presence f enc)
            end
          end ;;
    cur' <- (if presence_eqb (snd sp) PConstant
             then v_constant_field env f ;;; VOk cur
             else v_place fixed (f_offset f) cur (fst sp)) ;;
    v_fields fixed env st r cur'
  end.

(* validate_block_length *)
Definition v_block_length (bl : option Z) (minimal : Z) : voutcome unit :=
  match bl with
  | Some b => check (negb (b <? minimal)) BlockLengthTooSmall
  | None => VOk tt
  end.

Definition v_group_header (env : list element_def) (mm : vmemo) (dim : str) : voutcome vmemo :=
  if mem_str (to_lower dim) (fst mm) then VOk mm
  else v_level_header env dim group_header_members ;;; VOk (to_lower dim :: fst mm, snd mm).

Fixpoint v_datas (env : list element_def) (mm : vmemo) (ds : list data_def) : voutcome vmemo :=
  match ds with
  | [] => VOk mm
  | d :: r =>
    v_name (d_name d) ;;;
    mm' <- (if mem_str (to_lower (d_type d)) (snd mm) then VOk mm
            else v_data_header env (d_type d) ;;; VOk (fst mm, to_lower (d_type d) :: snd mm)) ;;
    v_datas env mm' r
  end.

(* validate_members(group) preceded by the group's own checks *)
Fixpoint v_group (fixed : bool) (env : list element_def) (st : vstate) (mm : vmemo) (g : group_def)
  : voutcome vmemo :=
  match g with
  | GroupDef n dim bl fs gs ds =>
    v_name n ;;;
    mm1 <- v_group_header env mm dim ;;
    minimal <- v_fields fixed env st fs 0 ;;
    v_block_length bl minimal ;;;
    mm2 <- (fix go (mm : vmemo) (gs : list group_def) : voutcome vmemo :=
              match gs with
              | [] => VOk mm
              | g' :: r => mm' <- v_group fixed env st mm g' ;; go mm' r
              end) mm1 gs ;;
    v_datas env mm2 ds
  end.

Fixpoint v_groups (fixed : bool) (env : list element_def) (st : vstate) (mm : vmemo) (gs : list group_def)
  : voutcome vmemo :=
  match gs with
  | [] => VOk mm
  | g :: r => mm' <- v_group fixed env st mm g ;; v_groups fixed env st mm' r
  end.

Definition v_message (fixed : bool) (env : list element_def) (st : vstate) (mm : vmemo) (m : message_def)
  : voutcome vmemo :=
  v_name (m_name m) ;;;
  minimal <- v_fields fixed env st (m_fields m) 0 ;;
  v_block_length (m_bl m) minimal ;;;
  mm2 <- v_groups fixed env st mm (m_groups m) ;;
  v_datas env mm2 (m_data m).

Fixpoint v_messages (fixed : bool) (env : list element_def) (st : vstate) (mm : vmemo) (ms : list message_def)
  : voutcome vmemo :=
  match ms with
  | [] => VOk mm
  | m :: r => mm' <- v_message fixed env st mm m ;; v_messages fixed env st mm' r
  end.

(* ------------------------------------------------------------------ *)
(* sbe_schema_cpp_validator                                            *)
(* ------------------------------------------------------------------ *)

Definition c_name (n : str) : voutcome unit := check (negb (is_keyword n)) InvalidName.

Fixpoint c_names (l : list str) : voutcome unit :=
  match l with [] => VOk tt | n :: r => c_name n ;;; c_names r end.

Fixpoint c_element (e : element_def) : voutcome unit :=
  match e with
  | EType t => c_name (t_name t)
  | EEnum en => c_name (e_name en) ;;; c_names (map fst (e_values en))
  | ESet s => c_name (s_name s) ;;; c_names (map fst (s_choices s))
  | ERef n _ _ => c_name n
  | EComposite n _ els =>
    c_name n ;;;
    (fix go (els : list element_def) : voutcome unit :=
       match els with [] => VOk tt | m :: r => c_element m ;;; go r end) els
  end.

Fixpoint c_elements (l : list element_def) : voutcome unit :=
  match l with [] => VOk tt | e :: r => c_element e ;;; c_elements r end.

Fixpoint c_group (g : group_def) : voutcome unit :=
  match g with
  | GroupDef n _ _ fs gs ds =>
    c_name n ;;;
    c_names (map f_name fs) ;;;
    (fix go (gs : list group_def) : voutcome unit :=
       match gs with [] => VOk tt | g' :: r => c_group g' ;;; go r end) gs ;;;
    c_names (map d_name ds)
  end.

Fixpoint c_groups (gs : list group_def) : voutcome unit :=
  match gs with [] => VOk tt | g :: r => c_group g ;;; c_groups r end.

Fixpoint c_messages (ms : list message_def) : voutcome unit :=
  match ms with
  | [] => VOk tt
  | m :: r =>
    c_name (m_name m) ;;; c_names (map f_name (m_fields m)) ;;;
    c_groups (m_groups m) ;;; c_names (map d_name (m_data m)) ;;; c_messages r
  end.

Definition cpp_validate (s : schema_def) : voutcome unit :=
  check (schema_name_ok (sc_name s)) InvalidName ;;;
  c_elements (sc_types s) ;;;
  c_messages (sc_messages s).

(* ------------------------------------------------------------------ *)
(* the whole acceptance decision                                       *)
(* ------------------------------------------------------------------ *)

Definition validate_gen (fixed : bool) (s : schema_def) : voutcome vstate :=
  let env := sc_types s in
  parse_checks s ;;;
  st <- v_types fixed env (S (List.length env)) [] env ;;
  v_level_header env (sc_header s) message_header_members ;;;
  v_messages fixed env st ([], []) (sc_messages s) ;;;
  cpp_validate s ;;;
  VOk st.

Definition validate (s : schema_def) : voutcome vstate := validate_gen true s.

Definition accepts (s : schema_def) : bool :=
  match validate s with VOk _ => true | _ => false end.

Module Legacy.
  (* the validator before the repair: `current_offset += size` wraps *)
  Definition validate (s : schema_def) : voutcome vstate := validate_gen false s.
  Definition accepts (s : schema_def) : bool :=
    match validate s with VOk _ => true | _ => false end.
End Legacy.
