(* Properties_C02.v — C02: decoding returns exactly what a conforming encoder wrote. *)
From Coq Require Import ZArith List.
From Sbepp Require Import CInt Bytes BytesFacts Msg Layout Wire MsgSpec LayoutProofs MsgProofs.
Import ListNotations.
Local Open Scope Z_scope.

Theorem C02_codec_round_trip : forall be w x, dec be (enc be w x) = x mod 256 ^ Z.of_nat w.
Proof. exact dec_enc. Qed.
Print Assumptions C02_codec_round_trip.

Theorem C02_codec_bytes_round_trip : forall be bs, bytes_ok bs = true -> enc be (length bs) (dec be bs) = bs.
Proof. exact enc_dec. Qed.
Print Assumptions C02_codec_bytes_round_trip.

(* the C++20 (bit_cast) and the pre-C++20 (memcpy + byteswap) implementations
   of get_primitive both compute the specification *)
Theorem C02_get_primitive_bitcast : forall be bs, get_primitive_bitcast be bs = dec be bs.
Proof. exact get_primitive_bitcast_spec. Qed.
Print Assumptions C02_get_primitive_bitcast.

Theorem C02_get_primitive_memcpy : forall be bs, bytes_ok bs = true -> get_primitive_memcpy be bs = dec be bs.
Proof. exact get_primitive_memcpy_spec. Qed.
Print Assumptions C02_get_primitive_memcpy.

(* typed values: the raw bits survive the typed view (floats are bit patterns,
   so NaN payloads are preserved) *)
Theorem C02_typed_value_keeps_bits : forall p raw,
  0 <= raw < 2 ^ (8 * Z.of_nat (prim_size p)) -> to_raw p (interp p raw) = raw.
Proof. exact interp_to_raw. Qed.
Print Assumptions C02_typed_value_keeps_bits.

(* on ANY buffer containing the image of a well-formed value tree (whatever
   precedes and follows it), root field getters return the encoder's bytes *)
Theorem C02_get_root_field : stmt_get_root_field_enc.
Proof. exact get_root_field_enc. Qed.
Print Assumptions C02_get_root_field.

Theorem C02_locate_root_group : stmt_locate_root_group_enc.
Proof. exact locate_root_group_enc. Qed.
Print Assumptions C02_locate_root_group.

Theorem C02_get_root_data : stmt_get_root_data_enc.
Proof. exact get_root_data_enc. Qed.
Print Assumptions C02_get_root_data.

Theorem C02_size_bytes_is_image_length : stmt_msg_size_bytes_enc.
Proof. exact msg_size_bytes_enc. Qed.
Print Assumptions C02_size_bytes_is_image_length.

From Sbepp Require Import Cursor CursorSpec CursorProofs.

(* ... and at ANY depth: the field / data getters of the entry reached by any
   path of (group, entry index) steps return the encoder's bytes *)
Theorem C02_get_field_any_path : stmt_get_field_any_path_enc.
Proof. exact get_field_any_path_enc. Qed.
Print Assumptions C02_get_field_any_path.

Theorem C02_get_data_any_path : stmt_get_data_any_path_enc.
Proof. exact get_data_any_path_enc. Qed.
Print Assumptions C02_get_data_any_path.

From Sbepp Require Import SrcTables SrcTablesProofs.

(* tables regenerated from /repo's utils.hpp / sbe_schema_validator.hpp on
   every run: a field of built-in primitive type p gets the wrapper of p, and
   the size tables of the validator (layout) and of the generator (cursor
   offsets) agree with the encoding width of p *)
Theorem C02_source_wrapper_of_each_primitive : stmt_src_wrappers.
Proof. exact src_wrappers. Qed.
Print Assumptions C02_source_wrapper_of_each_primitive.

Theorem C02_source_size_tables_agree : stmt_src_sizes.
Proof. exact src_sizes. Qed.
Print Assumptions C02_source_size_tables_agree.

(* the byteswap overloads of /repo's current sbepp.hpp as clang sees them
   (SrcExprs.v, regenerated on every run): each reverses exactly the bytes of
   its own width, so the memcpy implementation of get_primitive decodes the
   schema byte order *)
From Coq Require Import String.
From Sbepp Require Import CExpr SrcExprs SrcExprsProofs.
Import ListNotations.
Local Open Scope string_scope.

Theorem C02_source_byteswap_decodes : forall (be : bool) (bs : list Z),
  bytes_ok bs = true -> List.length bs = 2%nat \/ List.length bs = 4%nat \/ List.length bs = 8%nat ->
  (if be then effs_eval [("v", dec_le bs)] (src_byteswap (List.length bs)) else Some [dec_le bs])
  = Some [dec be bs].
Proof. exact src_byteswap_get_primitive. Qed.
Print Assumptions C02_source_byteswap_decodes.
