(* PipelineProofs.v — proofs about Pipeline.v (C09):
     include_terminates     the repaired include handling never diverges
     legacy_include_diverges  the old one does, on a file including itself
     const_length_total     parse_type_encoding's constant length never crashes (repaired)
     validated_no_crash     an accepted schema takes no Crash branch of the generation-time lookups
     run_total              a whole run ends with exit 0 or a diagnostic *)
From Coq Require Import ZArith List Bool Lia.
From Sbepp Require Import Bytes Rules Validate Pipeline ValidateProofs.
Import ListNotations.
Local Open Scope Z_scope.
#[local] Arguments mem_str : simpl never.
#[local] Arguments load : simpl never.

(* ------------------------------------------------------------------ *)
(* includes                                                            *)
(* ------------------------------------------------------------------ *)

Lemma find_file_In fs p incs : find_file fs p = Some incs -> In p (map fst fs).
Proof.
  induction fs as [|[q l] fs IH]; simpl; [discriminate|].
  destruct (str_eqb q p) eqn:E; [apply str_eqb_eq in E; auto | auto].
Qed.

Definition load_incs (fixed : bool) (fs : file_map) (fuel' : nat) (stack : list str) (path : str) :=
  fix go (incs : list str) : load_result :=
    match incs with
    | [] => Loaded
    | href :: r =>
      if (fixed && mem_str href (path :: stack))%bool then LoadErr
      else match load fixed fs fuel' (path :: stack) href with
           | Loaded => go r
           | other => other
           end
    end.

Lemma load_S fixed fs fuel stack path :
  load fixed fs (S fuel) stack path =
  match find_file fs path with
  | None => LoadErr
  | Some incs => load_incs fixed fs fuel stack path incs
  end.
Proof. reflexivity. Qed.

Lemma load_no_diverge fs : forall fuel stack path,
  NoDup stack -> incl stack (map fst fs) -> ~ In path stack ->
  (length fs + 1 <= fuel + length stack)%nat ->
  load true fs fuel stack path <> LoadDiverge.
Proof.
  induction fuel as [|fuel IH]; intros stack path ND Hin Hp Hf.
  - exfalso. pose proof (NoDup_incl_length ND Hin) as L. rewrite map_length in L. lia.
  - rewrite load_S. destruct (find_file fs path) as [incs|] eqn:EF; [|intros X; discriminate X].
    apply find_file_In in EF.
    assert (ND' : NoDup (path :: stack)) by (constructor; auto).
    assert (Hin' : incl (path :: stack) (map fst fs)) by (intros x [<-|Hx]; auto).
    induction incs as [|href r IHr]; simpl; [discriminate|].
    destruct (mem_str href (path :: stack)) eqn:EM; [discriminate|].
    apply mem_str_false in EM.
    assert (X : load true fs fuel (path :: stack) href <> LoadDiverge).
    { apply IH; auto. simpl. lia. }
    destruct (load true fs fuel (path :: stack) href); auto; discriminate.
Qed.

Theorem include_terminates fs main main_includes :
  load_main true fs main main_includes <> LoadDiverge.
Proof.
  unfold load_main. destruct (find_file fs main) as [incs|] eqn:EF; [|intros X; discriminate X].
  apply find_file_In in EF.
  induction main_includes as [|href r IH]; simpl; [discriminate|].
  destruct (mem_str href [main]) eqn:EM; [discriminate|]. apply mem_str_false in EM.
  assert (X : load true fs (S (length fs)) [main] href <> LoadDiverge).
  { apply load_no_diverge; auto.
    - constructor; [intros [] | constructor].
    - intros x [<-|[]]; auto.
    - simpl. lia. }
  destruct (load true fs (S (length fs)) [main] href); auto; discriminate.
Qed.

(* the code before the repair: a file whose document root includes the file itself *)
Lemma legacy_self_include a : forall fuel stack, load false [(a, [a])] fuel stack a = LoadDiverge.
Proof.
  induction fuel as [|fuel IH]; intros stack; [reflexivity|].
  rewrite load_S. simpl. rewrite str_eqb_refl. simpl. rewrite IH. reflexivity.
Qed.

Theorem legacy_include_diverges main a :
  load_main false [(main, []); (a, [a])] main [a] = LoadDiverge \/ main = a.
Proof.
  destruct (list_eq_dec Z.eq_dec main a) as [->|N]; [right; reflexivity | left].
  unfold load_main. simpl. rewrite str_eqb_refl. simpl.
  assert (E : str_eqb main a = false) by (apply str_eqb_neq; auto).
  (* the included file a is found and includes itself, at every depth *)
  assert (G : forall fuel stack, load false [(main, []); (a, [a])] fuel stack a = LoadDiverge).
  { induction fuel as [|fuel IH]; intros stack; [reflexivity|].
    rewrite load_S. simpl. rewrite E, str_eqb_refl. simpl. rewrite IH. reflexivity. }
  rewrite G. reflexivity.
Qed.

(* ------------------------------------------------------------------ *)
(* constant char length                                                *)
(* ------------------------------------------------------------------ *)

Theorem const_length_total is_char length_attr content :
  exists z, const_type_length true is_char length_attr content = VOk z.
Proof.
  unfold const_type_length. destruct length_attr; [eauto|]. destruct is_char; [|eauto].
  destruct content; eauto.
Qed.

Example const_length_legacy_refuted :
  const_type_length false true None None = VCrash EmptyOptional.
Proof. reflexivity. Qed.

(* ------------------------------------------------------------------ *)
(* generation-time lookups                                             *)
(* ------------------------------------------------------------------ *)

Lemma g_value_ref_ok env r ev : resolve_value_ref env r = Some ev -> g_value_ref env r = VOk tt.
Proof.
  unfold resolve_value_ref, g_value_ref, g_encoding.
  destruct (split_dot r) as [[en vn]|]; [|discriminate].
  destruct (is_empty en || is_empty vn)%bool; [discriminate|].
  destruct (get_encoding env en) as [[t|e|s|n ty o|n o els]|]; try discriminate. reflexivity.
Qed.

Lemma value_ref_ok_g env r p : value_ref_ok env r p = true -> g_value_ref env r = VOk tt.
Proof.
  unfold value_ref_ok. destruct (resolve_value_ref env r) as [[e v]|] eqn:E; [|discriminate].
  intros _. eapply g_value_ref_ok; eauto.
Qed.

Lemma value_fits_len v p : value_fits v p = true -> (0 <? v_len v) = true.
Proof.
  unfold value_fits. destruct (v_len v <=? 0) eqn:E; [discriminate|]. intros _.
  apply Z.leb_gt in E. apply Z.ltb_lt. lia.
Qed.

Lemma g_literal_ok v p : value_fits v p = true -> g_literal v p = VOk tt.
Proof.
  intros H. unfold g_literal, ok_or. rewrite (value_fits_len _ _ H). simpl.
  destruct p; auto; rewrite H; reflexivity.
Qed.

Lemma g_opt_literal_ok o p : opt_fits o p = true -> g_opt_literal o p = VOk tt.
Proof. destruct o; simpl; auto. apply g_literal_ok. Qed.

Lemma g_const_value_ok env t :
  t_presence t = PConstant -> type_sem env t = true -> g_const_value env t = VOk tt.
Proof.
  unfold type_sem, g_const_value. intros HP. rewrite HP.
  destruct (prim_of_name (t_prim t)) as [p|]; [|discriminate].
  destruct (t_vref t) as [r|], (t_const t) as [v|]; try discriminate.
  - intros H. apply andb_true_iff in H. destruct H as [H _]. eapply value_ref_ok_g; eauto.
  - destruct p; auto; intros H; apply andb_true_iff in H; destruct H as [H _]; apply g_literal_ok; auto.
Qed.

Lemma g_type_ok env t : type_sem env t = true -> g_type env t = VOk tt.
Proof.
  intros H. unfold g_type. pose proof H as H0. unfold type_sem in H.
  destruct (prim_of_name (t_prim t)) as [p|]; [|discriminate].
  destruct (t_presence t) eqn:EP.
  - destruct (t_length t =? 1); auto. rewrite !andb_true_iff in H. destruct H as [[H1 H2] _].
    rewrite (g_opt_literal_ok _ _ H1), (g_opt_literal_ok _ _ H2). reflexivity.
  - destruct (t_length t =? 1); auto. rewrite !andb_true_iff in H. destruct H as [[H1 H2] H3].
    rewrite (g_opt_literal_ok _ _ H1), (g_opt_literal_ok _ _ H2). simpl. simpl in H3.
    apply g_opt_literal_ok; auto.
  - apply g_const_value_ok; auto.
Qed.

Definition g_vals (p : prim) :=
  fix vals (l : list (str * value_text)) : voutcome unit :=
    match l with
    | [] => VOk tt
    | (_, v) :: r => g_literal v p ;;; vals r
    end.

Lemma g_vals_ok p l :
  (forall nv, In nv l -> value_fits (snd nv) p = true) -> g_vals p l = VOk tt.
Proof.
  induction l as [|[n v] l IH]; intros H; simpl; auto.
  rewrite (g_literal_ok v p (H (n, v) (or_introl eq_refl))). simpl. apply IH. intros nv Hn. apply H. right; auto.
Qed.

Lemma g_enum_ok env e : enum_sem env e = true -> g_enum env e = VOk tt.
Proof.
  unfold enum_sem, g_enum. destruct (encoding_prim env (e_type e)) as [p|]; [|discriminate].
  intros H. apply andb_true_iff in H. destruct H as [_ H]. rewrite forallb_forall in H.
  destruct p; auto; apply (g_vals_ok _ (e_values e)); intros nv Hn; apply (H nv Hn).
Qed.

Section Gen.
  Variable env : list element_def.
  Hypothesis env_rules : forall m, In m (all_elements env) -> element_rule env m = true.

  Lemma env_sem m : In m (all_elements env) -> sem_ok env m = true.
  Proof.
    intros H. apply env_rules in H. unfold element_rule in H. rewrite !andb_true_iff in H. tauto.
  Qed.

  Lemma public_in_all e : In e env -> In e (all_elements env).
  Proof. intros H. apply in_all_elements. exists e. split; auto. apply flatten_self. Qed.

  Definition g_members :=
    fix go (els : list element_def) : voutcome unit :=
      match els with [] => VOk tt | m :: r => g_element env m ;;; go r end.

  Lemma g_element_composite n o els : g_element env (EComposite n o els) = g_members els.
  Proof. reflexivity. Qed.

  Lemma g_element_ok e : (forall m, In m (flatten e) -> In m (all_elements env)) -> g_element env e = VOk tt.
  Proof.
    induction e as [t|en|st|n ty o|n o els IHe] using element_ind'; intros Hall.
    - simpl. apply g_type_ok. apply (env_sem (EType t)). apply Hall. left; auto.
    - simpl. apply g_enum_ok. apply (env_sem (EEnum en)). apply Hall. left; auto.
    - simpl. pose proof (env_sem (ESet st) (Hall _ (or_introl eq_refl))) as H. simpl in H.
      unfold set_sem in H. destruct (encoding_prim env (s_type st)); [reflexivity | discriminate].
    - simpl. pose proof (env_sem (ERef n ty o) (Hall _ (or_introl eq_refl))) as H. simpl in H.
      unfold g_encoding. destruct (get_encoding env ty) as [tgt|] eqn:EG; [|discriminate]. simpl.
      destruct tgt as [t| | | |]; auto.
      destruct (presence_eqb (t_presence t) PConstant) eqn:EP; auto.
      apply g_const_value_ok.
      + destruct (t_presence t); try discriminate; reflexivity.
      + apply (env_sem (EType t)). apply public_in_all. eapply lookup_In; eauto.
    - rewrite g_element_composite.
      assert (Hm : forall x, In x els -> forall m, In m (flatten x) -> In m (all_elements env)).
      { intros x Hx m Hm. apply Hall. rewrite flatten_composite. right. apply in_flatten_list. eauto. }
      clear Hall. induction IHe as [|x r Hx _ IHr]; simpl; auto.
      rewrite Hx by (apply Hm; left; auto). simpl. apply IHr. intros y Hy. apply Hm. right; auto.
  Qed.

  Lemma g_elements_ok l : incl l env -> g_elements env l = VOk tt.
  Proof.
    induction l as [|e l IH]; intros H; simpl; auto.
    rewrite g_element_ok.
    - simpl. apply IH. intros x Hx. apply H. right; auto.
    - intros m Hm. apply in_all_elements. exists e. split; auto. apply H. left; auto.
  Qed.

  Lemma g_header_element_ok els name t :
    header_member_type env els name = Some t -> g_header_element env els name = VOk tt.
  Proof.
    unfold header_member_type, g_header_element, g_encoding.
    destruct (find_element els name) as [[t'|e|s|n ty o|n o l]|]; try discriminate; auto.
    destruct (get_encoding env ty) as [[t'|e|s|n' ty' o'|n' o' l]|]; try discriminate; auto.
  Qed.

  Lemma scalar_member_g els name : scalar_member_ok env els name = true -> g_header_element env els name = VOk tt.
  Proof.
    unfold scalar_member_ok. destruct (header_member_type env els name) as [t|] eqn:E; [|discriminate].
    intros _. eapply g_header_element_ok; eauto.
  Qed.

  Lemma g_const_field_ok f :
    field_is_constant env f = true -> constant_field_ok env f = true -> g_const_field env f = VOk tt.
  Proof.
    unfold field_is_constant, constant_field_ok, g_const_field, g_encoding.
    destruct (prim_of_name (f_type f)) as [p|].
    - intros _. destruct (f_vref f) as [r|]; [|discriminate]. apply value_ref_ok_g.
    - destruct (get_encoding env (f_type f)) as [[t|e|s|n ty o|n o l]|] eqn:EG; try discriminate; simpl.
      + intros HP _. apply g_const_value_ok.
        * destruct (t_presence t); try discriminate; reflexivity.
        * apply (env_sem (EType t)). apply public_in_all. eapply lookup_In; eauto.
      + intros _. destruct (f_vref f) as [r|]; [|discriminate].
        destruct (resolve_value_ref env r) as [[e' v]|] eqn:ER; [|discriminate]. intros _.
        eapply g_value_ref_ok; eauto.
  Qed.

  Lemma g_field_ok f : field_sem env f = true -> g_field env f = VOk tt.
  Proof.
    unfold field_sem, g_field. intros H. apply andb_true_iff in H. destruct H as [H1 H2].
    assert (HC : (if field_is_constant env f then g_const_field env f else VOk tt) = VOk tt).
    { destruct (field_is_constant env f) eqn:FC; auto. apply g_const_field_ok; auto. }
    unfold field_size in H1. destruct (prim_of_name (f_type f)); auto.
    unfold g_encoding. destruct (get_encoding env (f_type f)); [simpl; auto | discriminate].
  Qed.

  Lemma g_fields_ok fs : forallb (field_sem env) fs = true -> g_fields env fs = VOk tt.
  Proof.
    induction fs as [|f fs IH]; simpl; auto. intros H. apply andb_true_iff in H. destruct H as [H1 H2].
    rewrite (g_field_ok f H1). simpl. auto.
  Qed.

  Lemma g_data_ok d : data_header_ok env (d_type d) = true -> g_data env d = VOk tt.
  Proof.
    unfold data_header_ok, g_data, g_composite, g_encoding.
    destruct (get_encoding env (d_type d)) as [[t|e|s|n ty o|n o els]|]; try discriminate. simpl.
    intros H. apply andb_true_iff in H. destruct H as [H1 H2].
    rewrite (scalar_member_g _ _ H1). simpl.
    destruct (header_member_type env els k_varData) as [t|] eqn:E; [|discriminate].
    eapply g_header_element_ok; eauto.
  Qed.

  Lemma g_datas_ok ds : forallb (dh_ok env) ds = true -> g_datas env ds = VOk tt.
  Proof.
    induction ds as [|d ds IH]; simpl; auto. intros H. apply andb_true_iff in H. destruct H as [H1 H2].
    rewrite (g_data_ok d H1). simpl. auto.
  Qed.

  Lemma level_header_g dim req :
    level_header_ok env dim req = true ->
    exists els, g_composite env dim = VOk els /\ forall n, In n req -> g_header_element env els n = VOk tt.
  Proof.
    unfold level_header_ok, g_composite, g_encoding.
    destruct (get_encoding env dim) as [[t|e|s|n ty o|n o els]|]; try discriminate. simpl.
    intros H. exists els. split; auto. intros x Hx. rewrite forallb_forall in H. apply scalar_member_g; auto.
  Qed.

  Definition g_subgroups :=
    fix go (gs : list group_def) : voutcome unit :=
      match gs with [] => VOk tt | g' :: r => g_group env g' ;;; go r end.

  Lemma g_group_unfold n dim bl fs gs ds :
    g_group env (GroupDef n dim bl fs gs ds) =
    (els <- g_composite env dim ;;
     g_header_element env els k_blockLength ;;;
     g_header_element env els k_numInGroup ;;;
     g_fields env fs ;;; g_subgroups gs ;;; g_datas env ds).
  Proof. reflexivity. Qed.

  Lemma g_group_ok g : g_sbe env g = true -> g_group env g = VOk tt.
  Proof.
    induction g as [n dim bl fs gs ds IH] using group_ind'. simpl g_sbe. intros H.
    rewrite !andb_true_iff in H. destruct H as [[[_ HH] HL] HG].
    unfold level_sbe in HL. rewrite !andb_true_iff in HL. destruct HL as [[[[_ HF] _] _] HD].
    rewrite g_group_unfold. destruct (level_header_g dim group_header_members HH) as [els [E1 E2]].
    rewrite E1. simpl.
    rewrite (E2 k_blockLength) by (right; left; auto). simpl.
    rewrite (E2 k_numInGroup) by (left; auto). simpl.
    rewrite (g_fields_ok fs HF). simpl.
    assert (X : g_subgroups gs = VOk tt).
    { clear - IH HG. induction IH as [|g r Hg _ IHr]; simpl; auto. simpl in HG.
      apply andb_true_iff in HG. destruct HG as [A B]. rewrite (Hg A). simpl. auto. }
    rewrite X. simpl. apply g_datas_ok; auto.
  Qed.

  Lemma g_groups_ok gs : forallb (g_sbe env) gs = true -> g_groups env gs = VOk tt.
  Proof.
    induction gs as [|g r IH]; simpl; auto. intros H. apply andb_true_iff in H. destruct H as [A B].
    rewrite (g_group_ok g A). simpl. auto.
  Qed.

  Lemma g_messages_ok ms : forallb (m_sbe env) ms = true -> g_messages env ms = VOk tt.
  Proof.
    induction ms as [|m r IH]; simpl; auto. intros H. apply andb_true_iff in H. destruct H as [A B].
    unfold m_sbe in A. rewrite !andb_true_iff in A. destruct A as [[_ HL] HG].
    unfold level_sbe in HL. rewrite !andb_true_iff in HL. destruct HL as [[[[_ HF] _] _] HD].
    rewrite (g_fields_ok _ HF). simpl. rewrite (g_groups_ok _ HG). simpl.
    rewrite (g_datas_ok _ HD). simpl. auto.
  Qed.
End Gen.

Theorem rules_no_crash s : rules_ok s = true -> gen_lookups s = VOk tt.
Proof.
  intros R. pose proof R as R0. apply rules_ok_split in R. destruct R as [_ [[A [B [C D]]] _]].
  unfold rules_ok in R0. cbv zeta in R0. rewrite !andb_true_iff in R0.
  destruct R0 as [[[[[[[[_ _] _] HE] _] _] _] _] _].
  assert (ER : forall m, In m (all_elements (sc_types s)) -> element_rule (sc_types s) m = true)
    by (apply forallb_forall; auto).
  unfold gen_lookups. cbv zeta.
  destruct (level_header_g _ _ _ C) as [els [E1 E2]]. rewrite E1. simpl.
  rewrite (E2 k_blockLength) by (right; right; right; left; auto). simpl.
  rewrite (g_elements_ok _ ER) by apply incl_refl. simpl.
  apply g_messages_ok; auto.
Qed.

Theorem validated_no_crash s st : validate s = VOk st -> gen_lookups s = VOk tt.
Proof. intros H. apply rules_no_crash. apply validate_iff_rules. eauto. Qed.

(* ------------------------------------------------------------------ *)
(* the whole run                                                       *)
(* ------------------------------------------------------------------ *)

Theorem run_total i : run true i = Exit0 \/ run true i = ExitErr.
Proof.
  unfold run. destruct (negb (in_argv_ok i)); auto.
  pose proof (include_terminates (in_files i) (in_main i) (in_main_includes i)) as HI.
  destruct (load_main true (in_files i) (in_main i) (in_main_includes i)); auto; [|contradiction].
  destruct (negb (in_xml_ok i)); auto.
  fold (validate (in_schema i)).
  destruct (validate_total (in_schema i)) as [[st H]|[c H]]; rewrite H; auto.
  rewrite (validated_no_crash _ _ H). destruct (in_output_ok i); auto.
Qed.

(* a rejected schema never reaches the generators *)
Theorem rejected_no_generation i c :
  validate (in_schema i) = VErr c -> run true i = ExitErr.
Proof.
  intros H. unfold run. destruct (negb (in_argv_ok i)); auto.
  pose proof (include_terminates (in_files i) (in_main i) (in_main_includes i)) as HI.
  destruct (load_main true (in_files i) (in_main i) (in_main_includes i)); auto; [|contradiction].
  destruct (negb (in_xml_ok i)); auto. fold (validate (in_schema i)). rewrite H. reflexivity.
Qed.
