(* Properties_C09.v — C09: sbeppc is total.  Only statements closed by [exact];
   proofs are in ValidateProofs.v / PipelineProofs.v, instances in
   ValidateExamples.v. *)
From Coq Require Import ZArith List.
From Sbepp Require Import Rules Validate Pipeline ValidateProofs PipelineProofs.
Local Open Scope Z_scope.

(* validation itself never takes a Crash branch (context_manager asserts,
   assert(enc), assert(false)) and never exhausts the recursion fuel *)
Theorem C09_validate_total : forall s,
  (exists st, validate s = VOk st) \/ (exists c, validate s = VErr c).
Proof. exact validate_total. Qed.
Print Assumptions C09_validate_total.

(* validation success implies that none of the generation-time lookups
   (map::at, std::get, optional/element dereference, asserts) fails *)
Theorem C09_validated_no_crash : forall s st,
  validate s = VOk st -> gen_lookups s = VOk tt.
Proof. exact validated_no_crash. Qed.
Print Assumptions C09_validated_no_crash.

(* the include graph is explored in bounded depth whatever the files contain *)
Theorem C09_include_terminates : forall fs main main_includes,
  load_main true fs main main_includes <> LoadDiverge.
Proof. exact include_terminates. Qed.
Print Assumptions C09_include_terminates.

(* the length of a constant type is computed without dereferencing an empty optional *)
Theorem C09_const_length_total : forall is_char length_attr content,
  exists z, const_type_length true is_char length_attr content = VOk z.
Proof. exact const_length_total. Qed.
Print Assumptions C09_const_length_total.

(* a whole run ends with exit 0 or with a diagnostic *)
Theorem C09_run_total : forall i, run true i = Exit0 \/ run true i = ExitErr.
Proof. exact run_total. Qed.
Print Assumptions C09_run_total.

(* a rejected schema never reaches the generators (no files are written) *)
Theorem C09_rejected_no_generation : forall i c,
  validate (in_schema i) = VErr c -> run true i = ExitErr.
Proof. exact rejected_no_generation. Qed.
Print Assumptions C09_rejected_no_generation.
