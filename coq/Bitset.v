(* Bitset.v — model of sbepp::detail::bitset_base<T>::operator()(get_bit_tag/
   set_bit_tag) (sbepp.hpp), transcribed through CInt so that the integer
   promotions the C++ performs are part of the model.

   [get_bit]/[set_bit] model the current code:
       return bits & (static_cast<T>(1) << n);
       bits = ((bits & ~(static_cast<T>(1) << n)) | (static_cast<T>(b) << n));
   [Legacy.*] model the code before the "fix:" commit, which shifted the
   [int] literal 1 and the promoted [bool]:
       return bits & (1 << n);
       bits = ((bits & ~(1 << n)) | (b << n));                              *)
From Coq Require Import ZArith Bool.
From Sbepp Require Import CInt.
Local Open Scope Z_scope.

Definition b2z (b : bool) : Z := if b then 1 else 0.

Definition get_bit (T : ity) (bits n : Z) : option bool :=
  obind (cshl T 1 n) (fun r =>
  Some (negb (cand T (promote T) bits r =? 0))).

Definition set_bit (T : ity) (bits n : Z) (b : bool) : option Z :=
  obind (cshl T 1 n) (fun r =>
  let m := cnot (promote T) r in
  let x := cand T (promote T) bits m in
  obind (cshl T (b2z b) n) (fun s =>
  let y := cor (promote T) (promote T) x s in
  Some (ccast T y))).

Module Legacy.
  Definition get_bit (T : ity) (bits n : Z) : option bool :=
    obind (cshl I32 1 n) (fun r =>
    Some (negb (cand T I32 bits r =? 0))).

  Definition set_bit (T : ity) (bits n : Z) (b : bool) : option Z :=
    obind (cshl I32 1 n) (fun r =>
    let m := cnot I32 r in
    let x := cand T I32 bits m in
    obind (cshl I32 (b2z b) n) (fun s =>
    let y := cor (uac T I32) I32 x s in
    Some (ccast T y))).
End Legacy.

(* the specification: bit [n] of the underlying value, nothing else *)
Definition spec_get (bits n : Z) : bool := Z.testbit bits n.
Definition spec_set (bits n : Z) (b : bool) : Z :=
  if b then Z.setbit bits n else Z.clearbit bits n.

(* generated choice accessors / by-tag / visit: a set with choices at indices
   [idx] is visited in declaration order *)
Definition visit_set (T : ity) (bits : Z) (idx : list Z) : list (option bool) :=
  List.map (get_bit T bits) idx.
