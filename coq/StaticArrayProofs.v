(* StaticArrayProofs.v — lemmas about the static_array_ref model
   (StaticArray.v).  The property statements themselves are collected in
   Properties_C14.v. *)
From Coq Require Import ZArith List Bool Lia.
From Sbepp Require Import CInt StaticArray.
Import ListNotations.
Import SArr.
Local Open Scope Z_scope.

Definition nonnul (c : Z) : Prop := c <> 0.

(* ---------------------------------------------------------------------- *)
(* size_t conversion                                                        *)

Lemma size_t_of_ptrdiff_is_ccast d :
  in_range I64 d = true -> size_t_of_ptrdiff d = ccast U64 d.
Proof.
  unfold in_range, tmin, tmax, ccast, wrap, size_t_of_ptrdiff.
  cbn [is_signed bits].
  change (2 ^ (64 - 1)) with 9223372036854775808.
  change (2 ^ 64) with 18446744073709551616.
  intros H. apply andb_prop in H. destruct H as [Hlo Hhi].
  apply Z.leb_le in Hlo. apply Z.leb_le in Hhi.
  destruct (Z.ltb_spec d 0) as [Hneg|Hpos].
  - apply (Z.mod_unique _ _ (-1)); [left; lia|lia].
  - symmetry. apply Z.mod_small. lia.
Qed.

(* ---------------------------------------------------------------------- *)
(* memory                                                                   *)

Lemma upd_nat_app pre x post v :
  upd_nat (pre ++ x :: post) (length pre) v = Some (pre ++ v :: post).
Proof.
  induction pre as [|p pre IH]; cbn; [reflexivity|]. rewrite IH. reflexivity.
Qed.

Lemma wr_app pre x post v :
  wr (pre ++ x :: post) (Z.of_nat (length pre)) v = Some (pre ++ v :: post).
Proof.
  unfold wr. destruct (Z.ltb_spec (Z.of_nat (length pre)) 0) as [H|H]; [lia|].
  rewrite Nat2Z.id. apply upd_nat_app.
Qed.

Lemma upd_nat_none : forall mem i v, (length mem <= i)%nat -> upd_nat mem i v = None.
Proof.
  induction mem as [|x t IH]; intros i v H; [destruct i; reflexivity|].
  destruct i as [|j]; cbn in H; [lia|]. cbn. rewrite IH by lia. reflexivity.
Qed.

Lemma upd_nat_length : forall mem i v mem',
  upd_nat mem i v = Some mem' -> length mem' = length mem.
Proof.
  induction mem as [|x t IH]; intros i v mem' H; [destruct i; discriminate|].
  destruct i as [|j]; cbn in H.
  - injection H as <-. reflexivity.
  - destruct (upd_nat t j v) as [t'|] eqn:E; [|discriminate].
    injection H as <-. cbn. f_equal. eapply IH; eassumption.
Qed.

Lemma wr_none mem p v : Z.of_nat (length mem) <= p -> wr mem p v = None.
Proof.
  intros H. unfold wr. destruct (Z.ltb_spec p 0); [reflexivity|].
  apply upd_nat_none. lia.
Qed.

Lemma wr_length mem p v mem' : wr mem p v = Some mem' -> length mem' = length mem.
Proof.
  unfold wr. destruct (p <? 0); [discriminate|]. apply upd_nat_length.
Qed.

Lemma rd_app pre x post :
  rd (pre ++ x :: post) (Z.of_nat (length pre)) = Some x.
Proof.
  unfold rd. destruct (Z.ltb_spec (Z.of_nat (length pre)) 0) as [H|H]; [lia|].
  rewrite Nat2Z.id. rewrite nth_error_app2 by lia. rewrite Nat.sub_diag. reflexivity.
Qed.

Lemma copy_loop_app : forall src pre old post,
  length old = length src ->
  copy_loop (pre ++ old ++ post) (Z.of_nat (length pre)) src
  = Some (pre ++ src ++ post, Z.of_nat (length pre) + Z.of_nat (length src)).
Proof.
  induction src as [|x xs IH]; intros pre old post Hl.
  - destruct old; [|discriminate]. cbn. rewrite Z.add_0_r. reflexivity.
  - destruct old as [|o old]; [discriminate|]. cbn in Hl. injection Hl as Hl.
    cbn [copy_loop]. cbn [app]. rewrite wr_app.
    replace (pre ++ x :: old ++ post) with ((pre ++ [x]) ++ old ++ post)
      by (rewrite <- app_assoc; reflexivity).
    replace (Z.of_nat (length pre) + 1) with (Z.of_nat (length (pre ++ [x])))
      by (rewrite app_length; cbn; lia).
    rewrite (IH _ _ _ Hl). rewrite <- app_assoc. cbn [app].
    rewrite app_length. cbn [length]. do 2 f_equal. lia.
Qed.

Lemma fill_n_loop_app : forall n pre old post v,
  length old = n ->
  fill_n_loop (pre ++ old ++ post) (Z.of_nat (length pre)) n v
  = Some (pre ++ repeat v n ++ post, Z.of_nat (length pre) + Z.of_nat n).
Proof.
  induction n as [|n IH]; intros pre old post v Hl.
  - destruct old; [|discriminate]. cbn. rewrite Z.add_0_r. reflexivity.
  - destruct old as [|o old]; [discriminate|]. cbn in Hl. injection Hl as Hl.
    cbn [fill_n_loop]. cbn [app]. rewrite wr_app.
    replace (pre ++ v :: old ++ post) with ((pre ++ [v]) ++ old ++ post)
      by (rewrite <- app_assoc; reflexivity).
    replace (Z.of_nat (length pre) + 1) with (Z.of_nat (length (pre ++ [v])))
      by (rewrite app_length; cbn; lia).
    rewrite (IH _ _ _ _ Hl). rewrite <- app_assoc. cbn [app repeat].
    rewrite app_length. cbn [length]. do 2 f_equal. lia.
Qed.

Lemma copy_loop_fault : forall src mem out,
  0 <= out <= Z.of_nat (length mem) ->
  Z.of_nat (length mem) < out + Z.of_nat (length src) ->
  copy_loop mem out src = None.
Proof.
  induction src as [|x xs IH]; intros mem out Ho Hl; [cbn in Hl; lia|].
  cbn [copy_loop]. destruct (wr mem out x) as [mem'|] eqn:E; [|reflexivity].
  assert (Hlt : out < Z.of_nat (length mem)).
  { destruct (Z_lt_le_dec out (Z.of_nat (length mem))) as [Hlt|Hge]; [exact Hlt|].
    rewrite (wr_none _ _ _ Hge) in E. discriminate. }
  apply wr_length in E. apply IH; rewrite E; cbn [length] in Hl; lia.
Qed.

(* ---------------------------------------------------------------------- *)
(* data() / begin() / end() under the documented general precondition       *)

Lemma size_check_ok off vend N : off + Z.of_nat N <= vend -> size_check off vend N = true.
Proof.
  intros H. unfold size_check, size_t_of_ptrdiff.
  destruct (Z.ltb_spec (vend - off) 0); [lia|].
  apply andb_true_iff. split; apply Z.leb_le; lia.
Qed.

Lemma size_check_short off vend N :
  off <= vend < off + Z.of_nat N -> size_check off vend N = false.
Proof.
  intros H. unfold size_check, size_t_of_ptrdiff.
  destruct (Z.ltb_spec (vend - off) 0); [lia|].
  apply andb_false_iff. right. apply Z.leb_gt. lia.
Qed.

Lemma data_ok checks mem off vend N :
  off + Z.of_nat N <= vend -> data checks mem off vend N = Ok off.
Proof.
  intros H. unfold data, assert_. rewrite (size_check_ok _ _ _ H).
  cbn [negb]. rewrite andb_false_r. reflexivity.
Qed.

Lemma end_ok checks mem off vend N :
  off + Z.of_nat N <= vend -> end_ checks mem off vend N = Ok (off + Z.of_nat N).
Proof. intros H. unfold end_. rewrite (data_ok _ _ _ _ _ H). reflexivity. Qed.

Lemma data_short mem off vend N :
  off <= vend < off + Z.of_nat N -> data true mem off vend N = AssertFail mem.
Proof.
  intros H. unfold data, assert_. rewrite (size_check_short _ _ _ H). reflexivity.
Qed.

(* ---------------------------------------------------------------------- *)
(* pad()                                                                    *)

Lemma map_const_repeat (l : list Z) : map (fun _ => 0) l = repeat 0 (length l).
Proof. induction l as [|x t IH]; cbn; [reflexivity|]. rewrite IH. reflexivity. Qed.

Lemma pad_spec checks pre inp rest post vend mode :
  Z.of_nat (length pre) + Z.of_nat (length inp + length rest) <= vend ->
  pad checks (pre ++ inp ++ rest ++ post) (Z.of_nat (length pre)) vend
      (length inp + length rest) mode
      (Z.of_nat (length pre) + Z.of_nat (length inp))
  = Ok (pre ++ inp ++ padding mode rest ++ post).
Proof.
  intros Hv. unfold pad. destruct mode.
  - reflexivity.
  - rewrite (end_ok _ _ _ _ _ Hv). cbn [bind].
    destruct rest as [|x t].
    + cbn [length]. rewrite Nat.add_0_r, Z.eqb_refl. reflexivity.
    + destruct (Z.eqb_spec (Z.of_nat (length pre) + Z.of_nat (length inp))
                  (Z.of_nat (length pre) + Z.of_nat (length inp + length (x :: t))))
        as [He|_]; [cbn [length] in He; lia|].
      replace (pre ++ inp ++ (x :: t) ++ post) with ((pre ++ inp) ++ x :: (t ++ post))
        by (rewrite <- app_assoc; reflexivity).
      replace (Z.of_nat (length pre) + Z.of_nat (length inp))
        with (Z.of_nat (length (pre ++ inp))) by (rewrite app_length; lia).
      rewrite wr_app. cbn [lift padding]. rewrite <- app_assoc. reflexivity.
  - rewrite (end_ok _ _ _ _ _ Hv). cbn [bind]. unfold std_fill.
    destruct (Z.ltb_spec (Z.of_nat (length pre) + Z.of_nat (length inp + length rest))
                (Z.of_nat (length pre) + Z.of_nat (length inp))) as [Hlt|_]; [lia|].
    replace (Z.to_nat (Z.of_nat (length pre) + Z.of_nat (length inp + length rest)
                       - (Z.of_nat (length pre) + Z.of_nat (length inp))))
      with (length rest) by lia.
    replace (pre ++ inp ++ rest ++ post) with ((pre ++ inp) ++ rest ++ post)
      by (rewrite <- app_assoc; reflexivity).
    replace (Z.of_nat (length pre) + Z.of_nat (length inp))
      with (Z.of_nat (length (pre ++ inp))) by (rewrite app_length; lia).
    rewrite (fill_n_loop_app _ _ rest post 0 eq_refl).
    cbn [option_map fst lift padding]. rewrite map_const_repeat, <- app_assoc.
    reflexivity.
Qed.

(* ---------------------------------------------------------------------- *)
(* copying [input] to begin()                                               *)

Lemma copy_to_begin pre arr post input :
  (length input <= length arr)%nat ->
  copy_loop (pre ++ arr ++ post) (Z.of_nat (length pre)) input
  = Some (pre ++ input ++ skipn (length input) arr ++ post,
          Z.of_nat (length pre) + Z.of_nat (length input)).
Proof.
  intros Hl.
  rewrite <- (firstn_skipn (length input) arr) at 1.
  rewrite <- (app_assoc (firstn _ arr)).
  apply copy_loop_app. apply firstn_length_le. exact Hl.
Qed.

Lemma split_len (arr input : list Z) :
  (length input <= length arr)%nat ->
  length arr = (length input + length (skipn (length input) arr))%nat.
Proof. intros H. rewrite skipn_length. lia. Qed.

Lemma pad_after_copy checks pre arr post vend input mode :
  (length input <= length arr)%nat ->
  Z.of_nat (length pre) + Z.of_nat (length arr) <= vend ->
  pad checks (pre ++ input ++ skipn (length input) arr ++ post) (Z.of_nat (length pre)) vend
      (length arr) mode (Z.of_nat (length pre) + Z.of_nat (length input))
  = Ok (pre ++ input ++ padding mode (skipn (length input) arr) ++ post).
Proof.
  intros Hl Hv.
  pose proof (pad_spec checks pre input (skipn (length input) arr) post vend mode) as P.
  rewrite <- (split_len _ _ Hl) in P. apply P. exact Hv.
Qed.

(* ---------------------------------------------------------------------- *)
(* the assignment operations under their preconditions                      *)

Lemma assign_range_exact checks pre arr post vend r :
  (length r <= length arr)%nat ->
  Z.of_nat (length pre) + Z.of_nat (length arr) <= vend ->
  assign_range checks (pre ++ arr ++ post) (Z.of_nat (length pre)) vend (length arr) r
  = Ok (pre ++ spec_assign arr r ++ post,
        Z.of_nat (length pre) + Z.of_nat (length r)).
Proof.
  intros Hl Hv. unfold assign_range, begin_.
  rewrite (data_ok _ _ _ _ _ Hv). cbn [bind].
  rewrite (copy_to_begin _ _ _ _ Hl). cbn [lift bind].
  rewrite (end_ok _ _ _ _ _ Hv). cbn [bind]. unfold assert_.
  destruct (Z.leb_spec (Z.of_nat (length pre) + Z.of_nat (length r))
              (Z.of_nat (length pre) + Z.of_nat (length arr))) as [_|Hgt]; [|lia].
  cbn [negb]. rewrite andb_false_r. cbn [bind].
  unfold spec_assign. rewrite <- app_assoc. reflexivity.
Qed.

Lemma assign_string_range_exact checks pre arr post vend r mode :
  (length r <= length arr)%nat ->
  Z.of_nat (length pre) + Z.of_nat (length arr) <= vend ->
  assign_string_range checks (pre ++ arr ++ post) (Z.of_nat (length pre)) vend
    (length arr) r mode
  = Ok (pre ++ spec_assign_string arr r mode ++ post,
        Z.of_nat (length pre) + Z.of_nat (length r)).
Proof.
  intros Hl Hv. unfold assign_string_range.
  rewrite (assign_range_exact _ _ _ _ _ _ Hl Hv). cbn [bind].
  unfold spec_assign. rewrite <- app_assoc.
  rewrite (pad_after_copy _ _ _ _ _ _ mode Hl Hv). cbn [bind].
  unfold spec_assign_string. rewrite <- app_assoc. reflexivity.
Qed.

Lemma c_strlen_prefix s rest :
  Forall nonnul s -> c_strlen (s ++ 0 :: rest) = Some (length s).
Proof.
  induction 1 as [|c t Hc _ IH]; [reflexivity|].
  cbn. destruct (Z.eqb_spec c 0) as [->|_]; [exfalso; apply Hc; reflexivity|].
  rewrite IH. reflexivity.
Qed.

Lemma firstn_prefix (s t : list Z) : firstn (length s) (s ++ t) = s.
Proof.
  rewrite firstn_app, Nat.sub_diag, firstn_all. cbn. apply app_nil_r.
Qed.

Lemma assign_string_ptr_exact checks pre arr post vend s rest mode :
  Forall nonnul s ->
  (length s <= length arr)%nat ->
  Z.of_nat (length pre) + Z.of_nat (length arr) <= vend ->
  assign_string_ptr checks (pre ++ arr ++ post) (Z.of_nat (length pre)) vend
    (length arr) (Some (s ++ 0 :: rest)) mode
  = Ok (pre ++ spec_assign_string arr s mode ++ post,
        Z.of_nat (length pre) + Z.of_nat (length s)).
Proof.
  intros Hs Hl Hv. unfold assign_string_ptr, begin_.
  rewrite (c_strlen_prefix _ _ Hs). cbn [lift bind]. unfold assert_.
  rewrite (proj2 (Nat.leb_le _ _) Hl). cbn [negb]. rewrite andb_false_r. cbn [bind].
  rewrite (data_ok _ _ _ _ _ Hv). cbn [bind].
  rewrite firstn_prefix. rewrite (copy_to_begin _ _ _ _ Hl). cbn [lift bind].
  rewrite (pad_after_copy _ _ _ _ _ _ mode Hl Hv). cbn [bind].
  unfold spec_assign_string. rewrite <- app_assoc. reflexivity.
Qed.

Lemma assign_iter_exact checks pre arr post vend r :
  (length r <= length arr)%nat ->
  Z.of_nat (length pre) + Z.of_nat (length arr) <= vend ->
  assign_iter checks (pre ++ arr ++ post) (Z.of_nat (length pre)) vend (length arr) r
  = Ok (pre ++ spec_assign arr r ++ post,
        Z.of_nat (length pre) + Z.of_nat (length r)).
Proof.
  intros Hl Hv. unfold assign_iter, begin_.
  rewrite (data_ok _ _ _ _ _ Hv). cbn [bind].
  rewrite (copy_to_begin _ _ _ _ Hl). cbn [lift bind].
  rewrite (data_ok _ _ _ _ _ Hv). cbn [bind]. unfold assert_, size_t_of_ptrdiff.
  destruct (Z.ltb_spec (Z.of_nat (length pre) + Z.of_nat (length r) - Z.of_nat (length pre)) 0)
    as [Hn|_]; [lia|].
  destruct (Z.leb_spec (Z.of_nat (length pre) + Z.of_nat (length r) - Z.of_nat (length pre))
              (Z.of_nat (length arr))) as [_|Hgt]; [|lia].
  cbn [negb]. rewrite andb_false_r. cbn [bind].
  unfold spec_assign. rewrite <- app_assoc. reflexivity.
Qed.

Lemma assign_ilist_exact checks pre arr post vend il :
  (length il <= length arr)%nat ->
  Z.of_nat (length pre) + Z.of_nat (length arr) <= vend ->
  assign_ilist checks (pre ++ arr ++ post) (Z.of_nat (length pre)) vend (length arr) il
  = Ok (pre ++ spec_assign arr il ++ post,
        Z.of_nat (length pre) + Z.of_nat (length il)).
Proof.
  intros Hl Hv. unfold assign_ilist, assert_.
  rewrite (proj2 (Nat.leb_le _ _) Hl). cbn [negb]. rewrite andb_false_r. cbn [bind].
  apply assign_iter_exact; assumption.
Qed.

Lemma assign_count_exact checks pre arr post vend count v :
  (count <= length arr)%nat ->
  Z.of_nat (length pre) + Z.of_nat (length arr) <= vend ->
  assign_count checks (pre ++ arr ++ post) (Z.of_nat (length pre)) vend (length arr) count v
  = Ok (pre ++ spec_assign arr (repeat v count) ++ post,
        Z.of_nat (length pre) + Z.of_nat count).
Proof.
  intros Hl Hv. unfold assign_count, begin_, assert_.
  rewrite (proj2 (Nat.leb_le _ _) Hl). cbn [negb]. rewrite andb_false_r. cbn [bind].
  rewrite (data_ok _ _ _ _ _ Hv). cbn [bind].
  rewrite <- (firstn_skipn count arr) at 1. rewrite <- (app_assoc (firstn _ arr)).
  rewrite (fill_n_loop_app count pre (firstn count arr) _ v (firstn_length_le _ Hl)).
  cbn [lift]. unfold spec_assign. rewrite repeat_length, <- app_assoc. reflexivity.
Qed.

Lemma fill_exact checks pre arr post vend v :
  Z.of_nat (length pre) + Z.of_nat (length arr) <= vend ->
  fill checks (pre ++ arr ++ post) (Z.of_nat (length pre)) vend (length arr) v
  = Ok (pre ++ repeat v (length arr) ++ post).
Proof.
  intros Hv. unfold fill, begin_.
  rewrite (data_ok _ _ _ _ _ Hv). cbn [bind].
  rewrite (fill_n_loop_app (length arr) pre arr post v eq_refl). reflexivity.
Qed.

(* the new array content always has exactly N elements: nothing is written
   at index N or beyond, nothing before index 0 *)
Lemma padding_length mode old : length (padding mode old) = length old.
Proof.
  destruct mode; cbn; [reflexivity|destruct old; reflexivity|apply map_length].
Qed.

Lemma spec_assign_string_length arr input mode :
  (length input <= length arr)%nat ->
  length (spec_assign_string arr input mode) = length arr.
Proof.
  intros H. unfold spec_assign_string.
  rewrite app_length, padding_length, skipn_length. lia.
Qed.

Lemma spec_assign_length arr input :
  (length input <= length arr)%nat -> length (spec_assign arr input) = length arr.
Proof. intros H. unfold spec_assign. rewrite app_length, skipn_length. lia. Qed.

(* element-wise reading of the two specification functions *)
Lemma spec_assign_string_nth arr input mode i :
  (length input <= length arr)%nat ->
  nth_error (spec_assign_string arr input mode) i =
    if (i <? length input)%nat then nth_error input i
    else if (i <? length arr)%nat then
      match mode with
      | EosNone => nth_error arr i
      | EosSingle => if (i =? length input)%nat then Some 0 else nth_error arr i
      | EosAll => Some 0
      end
    else None.
Proof.
  intros Hl. unfold spec_assign_string.
  destruct (Nat.ltb_spec i (length input)) as [Hi|Hi].
  - apply nth_error_app1. exact Hi.
  - rewrite nth_error_app2 by exact Hi.
    destruct (Nat.ltb_spec i (length arr)) as [Hn|Hn].
    + assert (Hsk : nth_error (skipn (length input) arr) (i - length input) = nth_error arr i).
      { rewrite <- (firstn_skipn (length input) arr) at 2.
        rewrite nth_error_app2; rewrite firstn_length_le by exact Hl; [reflexivity|exact Hi]. }
      destruct mode; cbn [padding].
      * exact Hsk.
      * destruct (Nat.eqb_spec i (length input)) as [->|Hne].
        -- rewrite Nat.sub_diag.
           destruct (skipn (length input) arr) as [|x t] eqn:E; [|reflexivity].
           apply (f_equal (@length Z)) in E. rewrite skipn_length in E. cbn in E. lia.
        -- rewrite <- Hsk.
           destruct (skipn (length input) arr) as [|x t]; [reflexivity|].
           destruct (i - length input)%nat as [|k] eqn:Ek; [lia|]. reflexivity.
      * rewrite nth_error_map, Hsk.
        destruct (nth_error arr i) eqn:E; [reflexivity|].
        apply nth_error_None in E. lia.
    + apply nth_error_None. rewrite padding_length, skipn_length. lia.
Qed.

(* ---------------------------------------------------------------------- *)
(* over-long input                                                          *)

Lemma assign_string_ptr_overlong mem off vend N s rest mode :
  Forall nonnul s -> (N < length s)%nat ->
  assign_string_ptr true mem off vend N (Some (s ++ 0 :: rest)) mode = AssertFail mem.
Proof.
  intros Hs Hl. unfold assign_string_ptr.
  rewrite (c_strlen_prefix _ _ Hs). cbn [lift bind]. unfold assert_.
  rewrite (proj2 (Nat.leb_gt _ _) Hl). reflexivity.
Qed.

Lemma assign_string_ptr_null mem off vend N mode :
  assign_string_ptr true mem off vend N None mode = AssertFail mem.
Proof. reflexivity. Qed.

Lemma assign_count_overlong mem off vend N count v :
  (N < count)%nat -> assign_count true mem off vend N count v = AssertFail mem.
Proof.
  intros Hl. unfold assign_count, assert_.
  rewrite (proj2 (Nat.leb_gt _ _) Hl). reflexivity.
Qed.

Lemma assign_ilist_overlong mem off vend N il :
  (N < length il)%nat -> assign_ilist true mem off vend N il = AssertFail mem.
Proof.
  intros Hl. unfold assign_ilist, assert_.
  rewrite (proj2 (Nat.leb_gt _ _) Hl). reflexivity.
Qed.

(* copy of an over-long [r]: everything that fits the underlying buffer is
   written, including the elements after the array *)
Lemma copy_overlong pre arr post r :
  (length arr < length r)%nat -> (length r <= length arr + length post)%nat ->
  copy_loop (pre ++ arr ++ post) (Z.of_nat (length pre)) r
  = Some (pre ++ r ++ skipn (length r - length arr) post,
          Z.of_nat (length pre) + Z.of_nat (length r)).
Proof.
  intros H1 H2.
  rewrite <- (firstn_skipn (length r - length arr) post) at 1.
  rewrite (app_assoc arr). apply copy_loop_app.
  rewrite app_length, firstn_length_le by lia. lia.
Qed.

Lemma assign_range_overlong pre arr post vend r :
  (length arr < length r)%nat ->
  Z.of_nat (length pre) + Z.of_nat (length arr) <= vend ->
  assign_range true (pre ++ arr ++ post) (Z.of_nat (length pre)) vend (length arr) r
  = if (length r <=? length arr + length post)%nat
    then AssertFail (pre ++ r ++ skipn (length r - length arr) post)
    else Fault.
Proof.
  intros Hl Hv. unfold assign_range, begin_.
  rewrite (data_ok _ _ _ _ _ Hv). cbn [bind].
  destruct (Nat.leb_spec (length r) (length arr + length post)) as [Hfit|Hno].
  - rewrite (copy_overlong _ _ _ _ Hl Hfit). cbn [lift bind].
    rewrite (end_ok _ _ _ _ _ Hv). cbn [bind]. unfold assert_.
    destruct (Z.leb_spec (Z.of_nat (length pre) + Z.of_nat (length r))
                (Z.of_nat (length pre) + Z.of_nat (length arr))) as [Hle|_]; [lia|].
    reflexivity.
  - rewrite copy_loop_fault; [reflexivity| |]; rewrite !app_length; lia.
Qed.

Lemma assign_string_range_overlong pre arr post vend r mode :
  (length arr < length r)%nat ->
  Z.of_nat (length pre) + Z.of_nat (length arr) <= vend ->
  assign_string_range true (pre ++ arr ++ post) (Z.of_nat (length pre)) vend (length arr) r mode
  = if (length r <=? length arr + length post)%nat
    then AssertFail (pre ++ r ++ skipn (length r - length arr) post)
    else Fault.
Proof.
  intros Hl Hv. unfold assign_string_range.
  rewrite (assign_range_overlong _ _ _ _ _ Hl Hv).
  destruct (length r <=? length arr + length post)%nat; reflexivity.
Qed.

Lemma assign_iter_overlong pre arr post vend r :
  (length arr < length r)%nat ->
  Z.of_nat (length pre) + Z.of_nat (length arr) <= vend ->
  assign_iter true (pre ++ arr ++ post) (Z.of_nat (length pre)) vend (length arr) r
  = if (length r <=? length arr + length post)%nat
    then AssertFail (pre ++ r ++ skipn (length r - length arr) post)
    else Fault.
Proof.
  intros Hl Hv. unfold assign_iter, begin_.
  rewrite (data_ok _ _ _ _ _ Hv). cbn [bind].
  destruct (Nat.leb_spec (length r) (length arr + length post)) as [Hfit|Hno].
  - rewrite (copy_overlong _ _ _ _ Hl Hfit). cbn [lift bind].
    rewrite (data_ok _ _ _ _ _ Hv). cbn [bind]. unfold assert_, size_t_of_ptrdiff.
    destruct (Z.ltb_spec (Z.of_nat (length pre) + Z.of_nat (length r) - Z.of_nat (length pre)) 0)
      as [Hn|_]; [lia|].
    destruct (Z.leb_spec (Z.of_nat (length pre) + Z.of_nat (length r) - Z.of_nat (length pre))
                (Z.of_nat (length arr))) as [Hle|_]; [lia|].
    reflexivity.
  - rewrite copy_loop_fault; [reflexivity| |]; rewrite !app_length; lia.
Qed.

(* ---------------------------------------------------------------------- *)
(* a view that is too short for N elements: every operation asserts before
   touching memory                                                          *)

Lemma short_view_asserts mem off vend N :
  off <= vend < off + Z.of_nat N ->
  (forall v, fill true mem off vend N v = AssertFail mem) /\
  (forall r, assign_range true mem off vend N r = AssertFail mem) /\
  (forall r mode, assign_string_range true mem off vend N r mode = AssertFail mem) /\
  (forall r, assign_iter true mem off vend N r = AssertFail mem) /\
  (forall il, assign_ilist true mem off vend N il = AssertFail mem) /\
  (forall count v, assign_count true mem off vend N count v = AssertFail mem) /\
  (forall s rest mode, Forall nonnul s ->
     assign_string_ptr true mem off vend N (Some (s ++ 0 :: rest)) mode = AssertFail mem) /\
  (forall ce, strlen ce true mem off vend N = AssertFail mem) /\
  strlen_r true mem off vend N = AssertFail mem.
Proof.
  intros H. pose proof (data_short mem _ _ _ H) as Hd.
  repeat split; intros.
  - unfold fill, begin_. rewrite Hd. reflexivity.
  - unfold assign_range, begin_. rewrite Hd. reflexivity.
  - unfold assign_string_range, assign_range, begin_. rewrite Hd. reflexivity.
  - unfold assign_iter, begin_. rewrite Hd. reflexivity.
  - unfold assign_ilist, assign_iter, begin_, assert_. rewrite Hd.
    destruct (Nat.leb (length il) N); reflexivity.
  - unfold assign_count, begin_, assert_. rewrite Hd.
    destruct (Nat.leb count N); reflexivity.
  - unfold assign_string_ptr, begin_, assert_.
    rewrite c_strlen_prefix by assumption. cbn [lift bind]. rewrite Hd.
    destruct (Nat.leb (length s) N); reflexivity.
  - unfold strlen, strlen_rt. rewrite Hd. destruct ce; reflexivity.
  - unfold strlen_r, end_. rewrite Hd. reflexivity.
Qed.

(* ---------------------------------------------------------------------- *)
(* strlen                                                                   *)

Lemma memchr_loop_spec : forall s pre post,
  memchr_loop (pre ++ s ++ post) (Z.of_nat (length pre)) (length s)
  = Some (if (spec_strlen s <? length s)%nat
          then Some (Z.of_nat (length pre) + Z.of_nat (spec_strlen s)) else None).
Proof.
  induction s as [|c t IH]; intros pre post; [reflexivity|].
  cbn [memchr_loop length app spec_strlen]. rewrite rd_app.
  destruct (c =? 0).
  - cbn. rewrite Z.add_0_r. reflexivity.
  - replace (pre ++ c :: t ++ post) with ((pre ++ [c]) ++ t ++ post)
      by (rewrite <- app_assoc; reflexivity).
    replace (Z.of_nat (length pre) + 1) with (Z.of_nat (length (pre ++ [c])))
      by (rewrite app_length; cbn; lia).
    rewrite IH. change (S (spec_strlen t) <? S (length t))%nat with (spec_strlen t <? length t)%nat.
    rewrite app_length. cbn [length].
    destruct (spec_strlen t <? length t)%nat; [|reflexivity]. do 2 f_equal. lia.
Qed.

Lemma spec_strlen_le s : (spec_strlen s <= length s)%nat.
Proof. induction s as [|c t IH]; cbn; [lia|]. destruct (c =? 0); lia. Qed.

Lemma ce_scan_spec : forall s pre post d l,
  d + l = Z.of_nat (length pre) ->
  ce_scan (pre ++ s ++ post) d l (length s) = Some (l + Z.of_nat (spec_strlen s)).
Proof.
  induction s as [|c t IH]; intros pre post d l Hd.
  - cbn. rewrite Z.add_0_r. reflexivity.
  - cbn [ce_scan length app spec_strlen]. rewrite Hd, rd_app.
    destruct (c =? 0).
    + cbn. rewrite Z.add_0_r. reflexivity.
    + replace (pre ++ c :: t ++ post) with ((pre ++ [c]) ++ t ++ post)
        by (rewrite <- app_assoc; reflexivity).
      rewrite (IH (pre ++ [c]) post d (l + 1)) by (rewrite app_length; cbn; lia).
      f_equal. lia.
Qed.

Lemma strlen_exact ce checks pre arr post vend :
  Z.of_nat (length pre) + Z.of_nat (length arr) <= vend ->
  strlen ce checks (pre ++ arr ++ post) (Z.of_nat (length pre)) vend (length arr)
  = Ok (Z.of_nat (spec_strlen arr)).
Proof.
  intros Hv. unfold strlen, strlen_rt. destruct ce.
  - rewrite (data_ok _ _ _ _ _ Hv). cbn [bind].
    rewrite (ce_scan_spec arr pre post _ 0) by lia. reflexivity.
  - rewrite (data_ok _ _ _ _ _ Hv). cbn [bind].
    rewrite memchr_loop_spec. cbn [lift bind].
    destruct (Nat.ltb_spec (spec_strlen arr) (length arr)) as [Hlt|Hge].
    + cbn [bind]. f_equal. lia.
    + pose proof (spec_strlen_le arr). f_equal. lia.
Qed.

Definition strlen_char (s : list Z) (n : nat) : Prop :=
  (n <= length s)%nat /\
  (forall i, (i < n)%nat -> exists c, nth_error s i = Some c /\ c <> 0) /\
  (n = length s \/ nth_error s n = Some 0).

Lemma spec_strlen_sound : forall s, strlen_char s (spec_strlen s).
Proof.
  induction s as [|c t IH]; unfold strlen_char.
  - cbn. repeat split; [lia| intros i Hi; lia | left; reflexivity].
  - cbn [spec_strlen]. destruct (Z.eqb_spec c 0) as [->|Hc].
    + repeat split; [cbn; lia | intros i Hi; lia | right; reflexivity].
    + destruct IH as (H1 & H2 & H3). repeat split.
      * cbn. lia.
      * intros [|j] Hi; [exists c; split; [reflexivity|exact Hc]|].
        cbn. apply H2. lia.
      * destruct H3 as [->|H3]; [left; reflexivity|right; exact H3].
Qed.

Lemma strlen_char_unique s n1 n2 : strlen_char s n1 -> strlen_char s n2 -> n1 = n2.
Proof.
  assert (Hlt : forall a b, strlen_char s a -> strlen_char s b -> (a < b)%nat -> False).
  { intros a b (Ha1 & Ha2 & Ha3) (Hb1 & Hb2 & Hb3) Hab.
    destruct (Hb2 a Hab) as (c & Hc & Hnz).
    destruct Ha3 as [->|Ha3]; [lia|]. rewrite Ha3 in Hc. injection Hc as <-.
    apply Hnz. reflexivity. }
  intros H1 H2. destruct (lt_eq_lt_dec n1 n2) as [[H|H]|H]; [|exact H|].
  - exfalso. eapply (Hlt n1 n2); eassumption.
  - exfalso. eapply (Hlt n2 n1); eassumption.
Qed.

Lemma spec_strlen_char s n : spec_strlen s = n <-> strlen_char s n.
Proof.
  split.
  - intros <-. apply spec_strlen_sound.
  - intros H. eapply strlen_char_unique; [apply spec_strlen_sound|exact H].
Qed.

(* ---------------------------------------------------------------------- *)
(* strlen_r                                                                 *)

Lemma spec_strlen_r_snoc a x :
  spec_strlen_r (a ++ [x]) = if x =? 0 then spec_strlen_r a else S (length a).
Proof.
  unfold spec_strlen_r. rewrite rev_unit. cbn [drop_nuls].
  destruct (x =? 0); [reflexivity|]. cbn [length]. rewrite rev_length. reflexivity.
Qed.

Lemma find_if_rev_spec : forall a pre post,
  find_if_rev (pre ++ a ++ post) (Z.of_nat (length pre)) (length a)
  = Some (Z.of_nat (length pre) + Z.of_nat (spec_strlen_r a)).
Proof.
  induction a as [|x a IH] using rev_ind; intros pre post.
  - cbn. rewrite Z.add_0_r. reflexivity.
  - rewrite app_length. cbn [length]. rewrite Nat.add_1_r. cbn [find_if_rev].
    replace (pre ++ (a ++ [x]) ++ post) with ((pre ++ a) ++ x :: post)
      by (rewrite <- !app_assoc; reflexivity).
    replace (Z.of_nat (length pre) + Z.of_nat (length a))
      with (Z.of_nat (length (pre ++ a))) by (rewrite app_length; lia).
    rewrite rd_app, spec_strlen_r_snoc.
    destruct (x =? 0); cbn [negb].
    + rewrite <- app_assoc. apply (IH pre (x :: post)).
    + reflexivity.
Qed.

Lemma strlen_r_exact checks pre arr post vend :
  Z.of_nat (length pre) + Z.of_nat (length arr) <= vend ->
  strlen_r checks (pre ++ arr ++ post) (Z.of_nat (length pre)) vend (length arr)
  = Ok (Z.of_nat (spec_strlen_r arr)).
Proof.
  intros Hv. unfold strlen_r, begin_.
  rewrite (end_ok _ _ _ _ _ Hv). cbn [bind].
  rewrite (data_ok _ _ _ _ _ Hv). cbn [bind].
  replace (Z.to_nat (Z.of_nat (length pre) + Z.of_nat (length arr) - Z.of_nat (length pre)))
    with (length arr) by lia.
  rewrite find_if_rev_spec. cbn [lift bind]. f_equal. lia.
Qed.

Definition strlen_r_char (s : list Z) (n : nat) : Prop :=
  (n <= length s)%nat /\
  (forall i, (n <= i < length s)%nat -> nth_error s i = Some 0) /\
  (n = O \/ exists c, nth_error s (n - 1) = Some c /\ c <> 0).

Lemma spec_strlen_r_sound : forall s, strlen_r_char s (spec_strlen_r s).
Proof.
  induction s as [|x a IH] using rev_ind; unfold strlen_r_char.
  - cbn. repeat split; [lia | intros i Hi; lia | left; reflexivity].
  - rewrite spec_strlen_r_snoc, app_length. cbn [length].
    destruct (Z.eqb_spec x 0) as [->|Hx].
    + destruct IH as (H1 & H2 & H3). repeat split.
      * lia.
      * intros i Hi. destruct (Nat.eq_dec i (length a)) as [->|Hne].
        -- rewrite nth_error_app2, Nat.sub_diag by lia. reflexivity.
        -- rewrite nth_error_app1 by lia. apply H2. lia.
      * destruct H3 as [H3|(c & Hc & Hnz)]; [left; exact H3|].
        right. exists c. split; [|exact Hnz].
        assert (Hlt : (spec_strlen_r a - 1 < length a)%nat).
        { apply nth_error_Some. rewrite Hc. discriminate. }
        rewrite nth_error_app1 by exact Hlt. exact Hc.
    + repeat split.
      * lia.
      * intros i Hi. lia.
      * right. exists x. split; [|exact Hx].
        replace (S (length a) - 1)%nat with (length a) by lia.
        rewrite nth_error_app2, Nat.sub_diag by lia. reflexivity.
Qed.

Lemma strlen_r_char_unique s n1 n2 : strlen_r_char s n1 -> strlen_r_char s n2 -> n1 = n2.
Proof.
  assert (Hlt : forall a b, strlen_r_char s a -> strlen_r_char s b -> (a < b)%nat -> False).
  { intros a b (Ha1 & Ha2 & Ha3) (Hb1 & Hb2 & Hb3) Hab.
    destruct Hb3 as [->|(c & Hc & Hnz)]; [lia|].
    rewrite (Ha2 (b - 1)%nat) in Hc by lia. injection Hc as <-. apply Hnz. reflexivity. }
  intros H1 H2. destruct (lt_eq_lt_dec n1 n2) as [[H|H]|H]; [|exact H|].
  - exfalso. eapply (Hlt n1 n2); eassumption.
  - exfalso. eapply (Hlt n2 n1); eassumption.
Qed.

Lemma spec_strlen_r_char s n : spec_strlen_r s = n <-> strlen_r_char s n.
Proof.
  split.
  - intros <-. apply spec_strlen_r_sound.
  - intros H. eapply strlen_r_char_unique; [apply spec_strlen_r_sound|exact H].
Qed.

(* ---------------------------------------------------------------------- *)
(* what a reader sees after assign_string                                   *)

Lemma spec_strlen_app s t :
  Forall nonnul s -> spec_strlen (s ++ t) = (length s + spec_strlen t)%nat.
Proof.
  induction 1 as [|c s Hc _ IH]; [reflexivity|].
  cbn. destruct (Z.eqb_spec c 0) as [->|_]; [exfalso; apply Hc; reflexivity|].
  rewrite IH. reflexivity.
Qed.

Lemma strlen_after_assign_string arr s mode :
  Forall nonnul s -> (length s <= length arr)%nat -> mode <> EosNone ->
  spec_strlen (spec_assign_string arr s mode) = length s.
Proof.
  intros Hs Hl Hm. unfold spec_assign_string. rewrite (spec_strlen_app _ _ Hs).
  destruct (skipn (length s) arr) as [|x t]; destruct mode; cbn; try lia;
    exfalso; apply Hm; reflexivity.
Qed.

Lemma drop_nuls_zeros (z l : list Z) :
  Forall (fun c => c = 0) z -> drop_nuls (z ++ l) = drop_nuls l.
Proof. induction 1 as [|c z Hc _ IH]; [reflexivity|]. cbn. rewrite Hc. exact IH. Qed.

Lemma strlen_r_after_assign_string_all arr s :
  spec_strlen_r (spec_assign_string arr s EosAll) = spec_strlen_r s.
Proof.
  unfold spec_assign_string, spec_strlen_r. cbn [padding].
  rewrite rev_app_distr, drop_nuls_zeros; [reflexivity|].
  apply Forall_rev. apply Forall_forall. intros c Hc.
  apply in_map_iff in Hc. destruct Hc as (y & Hy & _). symmetry. exact Hy.
Qed.

(* ---------------------------------------------------------------------- *)
(* the defect repaired by fix_c14.diff: constant-evaluated strlen() scanned
   past the array.  Array "abcd" (N = 4, no NUL) followed by "ef\0": the
   documented result is 4.                                                  *)
Example legacy_consteval_strlen_refuted :
  let mem := [120; 97; 98; 99; 100; 101; 102; 0; 121] in
  Legacy.strlen true true mem 1 5 4 = Ok 6 /\
  strlen true true mem 1 5 4 = Ok 4 /\
  spec_strlen [97; 98; 99; 100] = 4%nat.
Proof. vm_compute. repeat split. Qed.

(* ... and is not a constant expression at all when nothing after the array
   is NUL *)
Example legacy_consteval_strlen_refuted_no_nul :
  let mem := [120; 97; 98; 121] in
  Legacy.strlen true true mem 1 3 2 = Fault /\ strlen true true mem 1 3 2 = Ok 2.
Proof. vm_compute. repeat split. Qed.

(* the run-time path was already right *)
Example legacy_runtime_strlen_agrees :
  let mem := [120; 97; 98; 99; 100; 101; 102; 0; 121] in
  Legacy.strlen false true mem 1 5 4 = Ok 4.
Proof. vm_compute. reflexivity. Qed.

(* the assertion of assign_range / assign(first,last) fires only after the
   bytes behind the array have been overwritten: N = 2, input "abcd", the two
   guard bytes 'y' 'z' are gone when the handler runs *)
Example overlong_range_clobbers_before_assert :
  assign_range true [120; 0; 0; 121; 122] 1 3 2 [97; 98; 99; 100]
  = AssertFail [120; 97; 98; 99; 100].
Proof. vm_compute. reflexivity. Qed.

(* ---------------------------------------------------------------------- *)
(* packaged statements used by Properties_C14.v                             *)

Lemma new_content_has_length_N arr input mode :
  (length input <= length arr)%nat ->
  length (spec_assign_string arr input mode) = length arr /\
  length (spec_assign arr input) = length arr.
Proof.
  intros H. split; [apply spec_assign_string_length|apply spec_assign_length]; exact H.
Qed.

Lemma overlong_asserts_before_write mem off vend N :
  (forall s rest mode, Forall nonnul s -> (N < length s)%nat ->
     assign_string_ptr true mem off vend N (Some (s ++ 0 :: rest)) mode = AssertFail mem) /\
  (forall mode, assign_string_ptr true mem off vend N None mode = AssertFail mem) /\
  (forall count v, (N < count)%nat ->
     assign_count true mem off vend N count v = AssertFail mem) /\
  (forall il, (N < length il)%nat ->
     assign_ilist true mem off vend N il = AssertFail mem).
Proof.
  repeat split; intros.
  - apply assign_string_ptr_overlong; assumption.
  - apply assign_count_overlong; assumption.
  - apply assign_ilist_overlong; assumption.
Qed.

Lemma overlong_range_writes_then_asserts pre arr post vend r :
  (length arr < length r)%nat ->
  Z.of_nat (length pre) + Z.of_nat (length arr) <= vend ->
  let bad := if (length r <=? length arr + length post)%nat
             then AssertFail (pre ++ r ++ skipn (length r - length arr) post)
             else Fault in
  assign_range true (pre ++ arr ++ post) (Z.of_nat (length pre)) vend (length arr) r = bad /\
  assign_iter true (pre ++ arr ++ post) (Z.of_nat (length pre)) vend (length arr) r = bad /\
  forall mode,
  assign_string_range true (pre ++ arr ++ post) (Z.of_nat (length pre)) vend (length arr) r mode
  = bad.
Proof.
  intros Hl Hv bad. unfold bad. split; [|split; [|intros mode]].
  - apply assign_range_overlong; assumption.
  - apply assign_iter_overlong; assumption.
  - apply assign_string_range_overlong; assumption.
Qed.

(* ---------------------------------------------------------------------- *)
(* non-vacuity: concrete instances satisfying every hypothesis of the main
   theorems, with the computed conclusion.  Memory: guard 'x', array, guard
   'y' 'z'.  97 98 99 = "abc".                                              *)

Ltac nv :=
  repeat split; try reflexivity; try (cbn; lia);
  try (repeat constructor; discriminate).

Example assign_string_ptr_exact_nonvacuous :
  Forall nonnul [97; 98] /\ (length [97; 98] <= length [1; 2; 3; 4])%nat /\
  Z.of_nat (length [120]) + Z.of_nat (length [1; 2; 3; 4]) <= 5 /\
  assign_string_ptr true ([120] ++ [1; 2; 3; 4] ++ [121; 122]) 1 5 4
    (Some ([97; 98] ++ 0 :: [55])) EosSingle
  = Ok ([120; 97; 98; 0; 4; 121; 122], 3) /\
  assign_string_ptr true ([120] ++ [1; 2; 3; 4] ++ [121; 122]) 1 5 4
    (Some ([97; 98] ++ 0 :: [55])) EosAll
  = Ok ([120; 97; 98; 0; 0; 121; 122], 3) /\
  assign_string_ptr true ([120] ++ [1; 2; 3; 4] ++ [121; 122]) 1 5 4
    (Some ([97; 98] ++ 0 :: [55])) EosNone
  = Ok ([120; 97; 98; 3; 4; 121; 122], 3).
Proof. nv. Qed.

Example assign_string_range_exact_nonvacuous :
  (length [97; 0; 98] <= length [1; 2; 3])%nat /\
  Z.of_nat (length [120]) + Z.of_nat (length [1; 2; 3]) <= 4 /\
  assign_string_range false ([120] ++ [1; 2; 3] ++ [121]) 1 4 3 [97; 0; 98] EosAll
  = Ok ([120; 97; 0; 98; 121], 4) /\
  (* N = 0 *)
  assign_string_range true ([120] ++ [] ++ [121]) 1 1 0 [] EosAll = Ok ([120; 121], 1).
Proof. nv. Qed.

Example assign_range_exact_nonvacuous :
  (length [97] <= length [1; 2])%nat /\
  Z.of_nat (length [120]) + Z.of_nat (length [1; 2]) <= 3 /\
  assign_range true ([120] ++ [1; 2] ++ [121]) 1 3 2 [97] = Ok ([120; 97; 2; 121], 2) /\
  assign_iter true ([120] ++ [1; 2] ++ [121]) 1 3 2 [97] = Ok ([120; 97; 2; 121], 2) /\
  assign_ilist true ([120] ++ [1; 2] ++ [121]) 1 3 2 [97] = Ok ([120; 97; 2; 121], 2).
Proof. nv. Qed.

Example assign_count_fill_exact_nonvacuous :
  (1 <= length [1; 2])%nat /\
  Z.of_nat (length [120]) + Z.of_nat (length [1; 2]) <= 3 /\
  assign_count true ([120] ++ [1; 2] ++ [121]) 1 3 2 1 98 = Ok ([120; 98; 2; 121], 2) /\
  fill true ([120] ++ [1; 2] ++ [121]) 1 3 2 98 = Ok [120; 98; 98; 121].
Proof. nv. Qed.

Example strlen_exact_nonvacuous :
  Z.of_nat (length [120]) + Z.of_nat (length [97; 0; 98; 0]) <= 5 /\
  strlen false true ([120] ++ [97; 0; 98; 0] ++ [121]) 1 5 4 = Ok 1 /\
  strlen true true ([120] ++ [97; 0; 98; 0] ++ [121]) 1 5 4 = Ok 1 /\
  strlen_r true ([120] ++ [97; 0; 98; 0] ++ [121]) 1 5 4 = Ok 3 /\
  strlen_char [97; 0; 98; 0] 1 /\ strlen_r_char [97; 0; 98; 0] 3.
Proof.
  split; [cbn; lia|].
  split; [reflexivity|]. split; [reflexivity|]. split; [reflexivity|].
  split; [apply spec_strlen_char|apply spec_strlen_r_char]; reflexivity.
Qed.

Example overlong_nonvacuous :
  Forall nonnul [97; 98; 99] /\ (2 < length [97; 98; 99])%nat /\
  assign_string_ptr true [120; 1; 2; 121] 1 3 2 (Some ([97; 98; 99] ++ 0 :: [])) EosAll
  = AssertFail [120; 1; 2; 121] /\
  assign_range true ([120] ++ [1; 2] ++ [121]) 1 3 2 [97; 98; 99] = AssertFail [120; 97; 98; 99] /\
  assign_range true ([120] ++ [1; 2] ++ [121]) 1 3 2 [97; 98; 99; 100] = Fault.
Proof. nv. Qed.

Example short_view_nonvacuous :
  1 <= 2 < 1 + Z.of_nat 2 /\ fill true [120; 1; 2; 121] 1 2 2 98 = AssertFail [120; 1; 2; 121].
Proof. nv. Qed.
