(* CursorProofs.v — proofs of the statements of CursorSpec.v. *)
From Coq Require Import ZArith List Bool Lia.
From Sbepp Require Import CInt CIntFacts Bytes BytesFacts Msg Layout Wire MsgSpec MsgProofs
  Cursor CursorSpec.
Import ListNotations.
Local Open Scope Z_scope.

(* ================================================================== *)
(* 1. Single calls                                                     *)
(* ================================================================== *)

Lemma size_check_ok beg e off sz :
  0 <= beg <= e -> e < 2 ^ 64 -> off + sz <= e - beg -> size_check beg e off sz = true.
Proof.
  intros Hb He Hle. unfold size_check. rewrite Z.mod_small by lia.
  apply andb_true_iff. split; apply Z.leb_le; lia.
Qed.

Lemma chk_size_le a : 0 <= ca_size a -> 0 <= chk_size a <= ca_size a.
Proof. unfold chk_size. destruct (ca_view a); lia. Qed.

Theorem cur_field_at_required : stmt_cur_field_at_required.
Proof.
  unfold stmt_cur_field_at_required, view_in_buffer, required_pos, after_field.
  intros v a c (Hc & Hs & He) Hrel Hsz Hreq Hfit.
  pose proof (chk_size_le a Hsz) as Hchk.
  assert (Hplaced : (lv_start v + ca_abs a =? c + ca_rel a) = true) by (apply Z.eqb_eq; lia).
  assert (Hsc : size_check c (lv_end v) (ca_rel a) (chk_size a) = true)
    by (apply size_check_ok; lia).
  assert (Haddr : c + ca_rel a = lv_start v + ca_abs a) by lia.
  unfold cur_field. rewrite Hplaced, Hsc. cbn [negb]. rewrite Haddr.
  repeat split; reflexivity.
Qed.
Print Assumptions cur_field_at_required.

Theorem cur_field_init : stmt_cur_field_init.
Proof.
  unfold stmt_cur_field_init, view_in_buffer, required_pos, after_field.
  intros v a c (Hc & Hs & He) Habs Hsz Hfit.
  pose proof (chk_size_le a Hsz) as Hchk.
  assert (Hsc : size_check (lv_start v) (lv_end v) (ca_abs a) (chk_size a) = true)
    by (apply size_check_ok; lia).
  unfold cur_field. rewrite Hsc. cbn [negb]. split; reflexivity.
Qed.
Print Assumptions cur_field_init.

Theorem cur_field_misplaced_reported : stmt_cur_field_misplaced_reported.
Proof.
  unfold stmt_cur_field_misplaced_reported, required_pos. intros w v a c Hw Hne.
  assert (Hplaced : (lv_start v + ca_abs a =? c + ca_rel a) = false) by (apply Z.eqb_neq; lia).
  unfold cur_field. destruct Hw as [-> | [-> | ->]]; rewrite Hplaced; reflexivity.
Qed.
Print Assumptions cur_field_misplaced_reported.

Theorem cur_group_misplaced_reported : stmt_cur_group_misplaced_reported.
Proof.
  unfold stmt_cur_group_misplaced_reported. intros w v p dsz gsz c Hw Hne.
  assert (Hp : (p =? c) = false) by (apply Z.eqb_neq; lia).
  unfold cur_group. destruct Hw as [-> | [-> | ->]]; rewrite Hp; reflexivity.
Qed.
Print Assumptions cur_group_misplaced_reported.

Theorem cur_data_misplaced_reported : stmt_cur_data_misplaced_reported.
Proof.
  unfold stmt_cur_data_misplaced_reported. intros w v p dsz c Hw Hne.
  assert (Hp : (p =? c) = false) by (apply Z.eqb_neq; lia).
  unfold cur_data. destruct Hw as [-> | [-> | ->]]; rewrite Hp; reflexivity.
Qed.
Print Assumptions cur_data_misplaced_reported.

Theorem cur_group_equiv : stmt_cur_group_equiv.
Proof.
  unfold stmt_cur_group_equiv. intros w first v p dsz gsz c Hfirst Hnot Hskip.
  assert (Hsel : (if first then block_end v else c) = p).
  { destruct first; [symmetry; apply Hfirst|apply Hnot]; reflexivity. }
  unfold cur_group.
  destruct w.
  1-4: (destruct first; cbv beta zeta iota in *; subst p; rewrite ?Z.eqb_refl;
        (eexists; split; [reflexivity|]);
        repeat split; intros H;
        first [reflexivity | discriminate H | destruct H as [H|H]; discriminate H]).
  destruct (Hskip eq_refl) as [z Hz].
  destruct first; cbv beta zeta iota in *; subst p; rewrite ?Z.eqb_refl, Hz;
    (eexists; split; [reflexivity|]);
    repeat split; intros H; try (destruct H as [H|H]; discriminate H);
    rewrite ?Hz; f_equal; lia.
Qed.
Print Assumptions cur_group_equiv.
(* ================================================================== *)
(* 2. The trait-level size formula                                     *)
(* ================================================================== *)

Scheme level_mind := Induction for level Sort Prop
  with groups_mind := Induction for groups Sort Prop.

Fixpoint sumf {A} (f : A -> Z) (l : list A) : Z :=
  match l with [] => 0 | x :: r => f x + sumf f r end.

Lemma sumf_app {A} (f : A -> Z) l1 l2 : sumf f (l1 ++ l2) = sumf f l1 + sumf f l2.
Proof. induction l1 as [|x l1 IH]; cbn [sumf app]; lia. Qed.

Lemma sumf_flat_map {A B} (f : B -> Z) (g : A -> list B) l :
  sumf f (flat_map g l) = sumf (fun x => sumf f (g x)) l.
Proof. induction l as [|x l IH]; cbn [sumf flat_map]; [reflexivity|]. rewrite sumf_app, IH. reflexivity. Qed.

Lemma sumf_ext_in {A} (f g : A -> Z) l : (forall x, In x l -> f x = g x) -> sumf f l = sumf g l.
Proof.
  induction l as [|x l IH]; intros H; cbn [sumf]; [reflexivity|].
  rewrite (H x) by (left; reflexivity). rewrite IH; [reflexivity|].
  intros y Hy. apply H. right. exact Hy.
Qed.

Lemma sumf_add {A} (f g : A -> Z) l : sumf (fun x => f x + g x) l = sumf f l + sumf g l.
Proof. induction l as [|x l IH]; cbn [sumf]; lia. Qed.

Lemma sumf_const {A} (c : Z) (l : list A) : sumf (fun _ => c) l = Z.of_nat (length l) * c.
Proof. induction l as [|x l IH]; cbn [sumf length]; lia. Qed.

Lemma length_flat_map_sumf {A B} (g : A -> list B) l :
  Z.of_nat (length (flat_map g l)) = sumf (fun x => Z.of_nat (length (g x))) l.
Proof.
  induction l as [|x l IH]; cbn [sumf flat_map]; [reflexivity|].
  rewrite app_length, Nat2Z.inj_add, IH. reflexivity.
Qed.

Fixpoint vg_drop (k : nat) (vgs : vgroups) : vgroups :=
  match k with
  | O => vgs
  | S k' => match vgs with VGNil => VGNil | VGCons _ _ r => vg_drop k' r end
  end.

Lemma vg_drop_cons : forall k vgs bg es vrest,
  vg_drop k vgs = VGCons bg es vrest ->
  vgroups_nth vgs k = Some (bg, es) /\ vg_drop (S k) vgs = vrest.
Proof.
  induction k as [|k IH]; intros vgs bg es vrest H.
  - cbn [vg_drop] in H. subst vgs. split; reflexivity.
  - destruct vgs as [|bg0 es0 r]; [discriminate H|].
    change (vg_drop (S k) (VGCons bg0 es0 r)) with (vg_drop k r) in H.
    destruct (IH r bg es vrest H) as [H1 H2]. split.
    + exact H1.
    + change (vg_drop (S (S k)) (VGCons bg0 es0 r)) with (vg_drop (S k) r). exact H2.
Qed.

Definition pay_total (vds : list (list Z)) : Z := fold_right (fun p acc => len p + acc) 0 vds.

Lemma len_enc_datas be : forall ds vds, datas_fit ds vds ->
  len (enc_datas be ds vds) = prefixes_size ds + pay_total vds.
Proof.
  induction ds as [|t ds IH]; intros vds Hfit.
  - destruct vds; [reflexivity|contradiction].
  - destruct vds as [|p vds]; [contradiction|].
    cbn [datas_fit] in Hfit. destruct Hfit as (_ & _ & Hrest).
    cbn [enc_datas prefixes_size pay_total fold_right].
    rewrite !len_app, len_enc_tw, (IH vds Hrest). unfold pay_total. lia.
Qed.

Lemma len_enc_entries_sumf be l es :
  len (enc_entries be l es) = sumf (fun e => len (enc_level be l e)) (ventries_list es).
Proof.
  induction es as [|e r IH]; [reflexivity|].
  rewrite enc_entries_cons, len_app, IH. reflexivity.
Qed.

Lemma data_total_es_sumf es : data_total_es es = sumf data_total (ventries_list es).
Proof.
  induction es as [|e r IH]; [reflexivity|].
  cbn [data_total_es ventries_list sumf]. rewrite IH. reflexivity.
Qed.

Lemma data_total_eq block vgs vds :
  data_total (VLevel block vgs vds) = pay_total vds + data_total_gs vgs.
Proof. reflexivity. Qed.

Lemma ecount_length es : ecount es = Z.of_nat (length (ventries_list es)).
Proof.
  induction es as [|e r IH]; [reflexivity|].
  cbn [ecount ventries_list length]. rewrite IH. lia.
Qed.

Lemma wf_entries_in be l es e : wf_entries be l es -> In e (ventries_list es) -> wf_level be l e.
Proof.
  induction es as [|e0 r IH]; intros Hwf Hin; [contradiction|].
  rewrite wf_entries_cons in Hwf. destruct Hwf as [H1 H2].
  destruct Hin as [<-|Hin]; [exact H1|apply IH; assumption].
Qed.

Lemma compiled_blocks_es_in cbl l es e :
  compiled_blocks_es cbl l es -> In e (ventries_list es) -> compiled_blocks cbl l e.
Proof.
  induction es as [|e0 r IH]; intros Hwf Hin; [contradiction|].
  cbn [compiled_blocks_es] in Hwf. destruct Hwf as [H1 H2].
  destruct Hin as [<-|Hin]; [exact H1|apply IH; assumption].
Qed.

Lemma compiled_blocks_parts cbl l v : compiled_blocks cbl l v ->
  len (vblock v) = cbl /\ compiled_blocks_gs (level_groups l) (vlevel_groups v).
Proof. destruct v; intros H; exact H. Qed.

Lemma data_total_parts v : data_total v = pay_total (vlevel_datas v) + data_total_gs (vlevel_groups v).
Proof. destruct v; reflexivity. Qed.

Lemma compiled_blocks_gs_cons d cbl l rest bg es vrest :
  compiled_blocks_gs (GCons d cbl l rest) (VGCons bg es vrest) =
  (compiled_blocks_es cbl l es /\ compiled_blocks_gs rest vrest).
Proof. reflexivity. Qed.

Lemma trait_groups_cons d cbl l rest n cs :
  trait_groups (GCons d cbl l rest) (n :: cs) =
  (n * (cbl + dims_size (level_groups l) + prefixes_size (level_datas l))
   + fst (trait_groups (level_groups l) cs)
   + fst (trait_groups rest (snd (trait_groups (level_groups l) cs))),
   snd (trait_groups rest (snd (trait_groups (level_groups l) cs)))).
Proof.
  cbn [trait_groups].
  destruct (trait_groups (level_groups l) cs) as [sub cs1]. cbn [fst snd].
  destruct (trait_groups rest cs1) as [r cs2]. reflexivity.
Qed.

Definition trait_P (gs : groups) : Prop :=
  forall be k parents tail,
    (forall p, In p parents ->
       wf_groups be gs (vg_drop k (vlevel_groups p)) /\
       compiled_blocks_gs gs (vg_drop k (vlevel_groups p))) ->
    snd (trait_groups gs (counts_gs gs k parents ++ tail)) = tail /\
    sumf (fun p => len (enc_groups be gs (vg_drop k (vlevel_groups p)))) parents
    = Z.of_nat (length parents) * dims_size gs
      + fst (trait_groups gs (counts_gs gs k parents ++ tail))
      + sumf (fun p => data_total_gs (vg_drop k (vlevel_groups p))) parents.

Definition inst_of (k : nat) (p : vlevel) : list vlevel :=
  match vgroups_nth (vlevel_groups p) k with
  | Some (_, es) => ventries_list es
  | None => []
  end.

Lemma child_instances_eq k parents : child_instances k parents = flat_map (inst_of k) parents.
Proof. reflexivity. Qed.

Lemma trait_P_nil : trait_P GNil.
Proof.
  intros be k parents tail Hall. cbn [counts_gs trait_groups app fst snd dims_size].
  split; [reflexivity|].
  rewrite (sumf_ext_in _ (fun _ => 0) parents).
  2:{ intros p _. rewrite enc_groups_gnil. reflexivity. }
  rewrite (sumf_ext_in (fun p => data_total_gs _) (fun _ => 0) parents).
  2:{ intros p Hp. destruct (Hall p Hp) as [Hw _].
      destruct (vg_drop k (vlevel_groups p)); [reflexivity|contradiction]. }
  rewrite !sumf_const. lia.
Qed.

Lemma trait_P_cons d cbl l rest :
  trait_P (level_groups l) -> trait_P rest -> trait_P (GCons d cbl l rest).
Proof.
  intros IHl IHr be k parents tail Hall.
  set (inst := child_instances k parents).
  (* shape of every parent at index k *)
  assert (Hshape : forall p, In p parents -> exists bg es,
            vg_drop k (vlevel_groups p) = VGCons bg es (vg_drop (S k) (vlevel_groups p)) /\
            inst_of k p = ventries_list es /\
            wf_dim d /\ len bg = d_size d /\
            wf_entries be l es /\ compiled_blocks_es cbl l es /\
            wf_groups be rest (vg_drop (S k) (vlevel_groups p)) /\
            compiled_blocks_gs rest (vg_drop (S k) (vlevel_groups p))).
  { intros p Hp. destruct (Hall p Hp) as [Hw Hc].
    destruct (vg_drop k (vlevel_groups p)) as [|bg es vrest] eqn:Hd; [contradiction|].
    destruct (vg_drop_cons _ _ _ _ _ Hd) as [Hnth Hrest].
    rewrite wf_groups_cons in Hw. cbv zeta in Hw.
    destruct Hw as (Hwd & Hlen & _ & _ & _ & _ & _ & Hwe & Hwr).
    rewrite compiled_blocks_gs_cons in Hc. destruct Hc as [Hce Hcr].
    exists bg, es. rewrite Hrest. unfold inst_of. rewrite Hnth.
    split; [reflexivity|]. split; [reflexivity|].
    repeat (split; [assumption|]). assumption. }
  (* instances are well-formed entries of l *)
  assert (Hinst : forall e, In e inst ->
            wf_groups be (level_groups l) (vg_drop 0 (vlevel_groups e)) /\
            compiled_blocks_gs (level_groups l) (vg_drop 0 (vlevel_groups e))).
  { intros e He. unfold inst in He. rewrite child_instances_eq in He.
    apply in_flat_map in He. destruct He as (p & Hp & He).
    destruct (Hshape p Hp) as (bg & es & _ & Hi & _ & _ & Hwe & Hce & _).
    rewrite Hi in He. cbn [vg_drop].
    pose proof (wf_entries_in be l es e Hwe He) as H1. apply wf_level_parts in H1.
    pose proof (compiled_blocks_es_in cbl l es e Hce He) as H2. apply compiled_blocks_parts in H2.
    split; [apply H1|apply H2]. }
  assert (Hinst2 : forall e, In e inst ->
            len (vblock e) = cbl /\ datas_fit (level_datas l) (vlevel_datas e)).
  { intros e He. unfold inst in He. rewrite child_instances_eq in He.
    apply in_flat_map in He. destruct He as (p & Hp & He).
    destruct (Hshape p Hp) as (bg & es & _ & Hi & _ & _ & Hwe & Hce & _).
    rewrite Hi in He.
    pose proof (wf_entries_in be l es e Hwe He) as H1. apply wf_level_parts in H1.
    pose proof (compiled_blocks_es_in cbl l es e Hce He) as H2. apply compiled_blocks_parts in H2.
    split; [apply H2|apply H1]. }
  assert (Hrest : forall p, In p parents ->
            wf_groups be rest (vg_drop (S k) (vlevel_groups p)) /\
            compiled_blocks_gs rest (vg_drop (S k) (vlevel_groups p))).
  { intros p Hp. destruct (Hshape p Hp) as (bg & es & _ & _ & _ & _ & _ & _ & H1 & H2).
    split; assumption. }
  (* the counts *)
  cbn [counts_gs]. fold inst. rewrite <- app_assoc, <- app_comm_cons.
  set (tail1 := counts_gs rest (S k) parents ++ tail).
  destruct (IHl be 0%nat inst tail1 Hinst) as [IHl1 IHl2].
  destruct (IHr be (S k) parents tail Hrest) as [IHr1 IHr2]. fold tail1 in IHr1, IHr2.
  rewrite trait_groups_cons. cbn [fst snd]. rewrite IHl1. split; [exact IHr1|].
  cbn [vg_drop] in IHl2.
  (* the images *)
  rewrite (sumf_ext_in _
     (fun p => (d_size d + sumf (fun e => len (enc_level be l e)) (inst_of k p))
               + len (enc_groups be rest (vg_drop (S k) (vlevel_groups p)))) parents).
  2:{ intros p Hp. destruct (Hshape p Hp) as (bg & es & Hd & Hi & Hwd & Hlen & _).
      rewrite Hd, enc_groups_cons, !len_app, len_dim_bytes by assumption.
      rewrite len_enc_entries_sumf, Hi. lia. }
  rewrite sumf_add, IHr2.
  rewrite (sumf_add (fun _ => d_size d)), sumf_const.
  rewrite <- sumf_flat_map, <- child_instances_eq. fold inst.
  rewrite (sumf_ext_in _
     (fun e => (cbl + (prefixes_size (level_datas l) + pay_total (vlevel_datas e)))
               + len (enc_groups be (level_groups l) (vlevel_groups e))) inst).
  2:{ intros e He. destruct (Hinst2 e He) as [Hb Hf].
      rewrite enc_level_parts, !len_app, Hb, (len_enc_datas be _ _ Hf). lia. }
  rewrite sumf_add, IHl2.
  rewrite (sumf_add (fun _ => cbl)), sumf_const.
  rewrite (sumf_add (fun _ => prefixes_size (level_datas l))), sumf_const.
  (* the data totals *)
  rewrite (sumf_ext_in (fun p => data_total_gs (vg_drop k (vlevel_groups p)))
     (fun p => sumf data_total (inst_of k p)
               + data_total_gs (vg_drop (S k) (vlevel_groups p))) parents).
  2:{ intros p Hp. destruct (Hshape p Hp) as (bg & es & Hd & Hi & _).
      rewrite Hd. cbn [data_total_gs]. rewrite data_total_es_sumf, Hi. reflexivity. }
  rewrite sumf_add, <- sumf_flat_map, <- child_instances_eq. fold inst.
  rewrite (sumf_ext_in data_total
     (fun e => pay_total (vlevel_datas e) + data_total_gs (vlevel_groups e)) inst).
  2:{ intros e _. apply data_total_parts. }
  rewrite sumf_add. cbn [dims_size]. lia.
Qed.

Lemma trait_P_all : forall gs, trait_P gs.
Proof.
  apply (groups_mind (fun l => trait_P (level_groups l)) trait_P).
  - intros fs gs IH ds. exact IH.
  - exact trait_P_nil.
  - intros d cbl l IHl rest IHr. apply trait_P_cons; assumption.
Qed.

Theorem trait_size_is_image_length : stmt_trait_size_is_image_length.
Proof.
  unfold stmt_trait_size_is_image_length. intros be m hdrbg v Hwf Hcb.
  pose proof (msg_wf_level be m hdrbg v Hwf) as Hwl.
  apply wf_level_parts in Hwl. destruct Hwl as [Hwg Hwd].
  apply compiled_blocks_parts in Hcb. destruct Hcb as [Hbl Hcg].
  destruct (trait_P_all (level_groups (m_level m)) be 0%nat [v] []) as [_ H].
  { intros p [<-|[]]. cbn [vg_drop]. split; assumption. }
  rewrite app_nil_r in H. cbn [sumf vg_drop length] in H.
  unfold trait_size, enc_message.
  rewrite len_app, (len_msg_hdr be m hdrbg v Hwf), enc_level_parts, !len_app, Hbl.
  rewrite (len_enc_datas be _ _ Hwd), data_total_parts. lia.
Qed.
Print Assumptions trait_size_is_image_length.
(* ================================================================== *)
(* 3. Resolution of paths at any depth                                 *)
(* ================================================================== *)

(* fuel: any fuel >= the buffer length suffices for every image inside it *)
Lemma len_mid_le b pre mid post : b = pre ++ mid ++ post -> len mid <= len b.
Proof.
  intros ->. rewrite !len_app. pose proof (len_nonneg pre). pose proof (len_nonneg post). lia.
Qed.

Lemma fuel_level_b be l v b pre post fuel :
  wf_level be l v -> b = pre ++ enc_level be l v ++ post -> len b <= Z.of_nat fuel ->
  fuel_needed l v <= Z.of_nat fuel.
Proof.
  intros Hwf Hb Hf. pose proof (proj1 fuel_all v be l Hwf). pose proof (len_mid_le _ _ _ _ Hb). lia.
Qed.

Lemma fuel_groups_b be gs vgs b pre post fuel :
  wf_groups be gs vgs -> b = pre ++ enc_groups be gs vgs ++ post -> len b <= Z.of_nat fuel ->
  fuel_needed_gs gs vgs <= Z.of_nat fuel.
Proof.
  intros Hwf Hb Hf. pose proof (proj1 (proj2 fuel_all) vgs be gs Hwf).
  pose proof (len_mid_le _ _ _ _ Hb). lia.
Qed.

Lemma fuel_entries_b be l es b pre post fuel :
  wf_entries be l es -> b = pre ++ enc_entries be l es ++ post -> len b <= Z.of_nat fuel ->
  fuel_needed_es l es <= Z.of_nat fuel /\ (is_flat l = false -> ecount es <= Z.of_nat fuel).
Proof.
  intros Hwf Hb Hf. destruct (proj2 (proj2 fuel_all) es be l Hwf) as [H1 H2].
  pose proof (len_mid_le _ _ _ _ Hb). split; [lia|]. intros Hfl. specialize (H2 Hfl). lia.
Qed.

Lemma default_fuel_len b : len b <= Z.of_nat (default_fuel b).
Proof. unfold default_fuel, len. lia. Qed.

(* a single group as a one-element group list *)
Lemma enc_groups_single be d cbl l bg es :
  enc_groups be (GCons d cbl l GNil) (VGCons bg es VGNil) =
  dim_bytes be d bg (first_block_len es (dec be (slice bg (d_bl_off d) (tbytes (d_bl_t d)))))
            (ecount es) ++ enc_entries be l es.
Proof. rewrite enc_groups_cons. cbn [enc_groups]. now rewrite app_nil_r. Qed.

Lemma wf_groups_single be d cbl l rest bg es vrest :
  wf_groups be (GCons d cbl l rest) (VGCons bg es vrest) ->
  wf_groups be (GCons d cbl l GNil) (VGCons bg es VGNil).
Proof.
  rewrite !wf_groups_cons. cbv zeta.
  intros (H1 & H2 & H3 & H4 & H5 & H6 & H7 & H8 & _).
  repeat (split; [assumption|]). exact I.
Qed.

(* the k-th group: where it is found and how the buffer splits around it *)
Lemma nth_group_full be b fuel : forall k gs vgs pre post bg es d cbl sub,
  wf_groups be gs vgs -> len b <= Z.of_nat fuel ->
  b = pre ++ enc_groups be gs vgs ++ post ->
  vgroups_nth vgs k = Some (bg, es) -> groups_nth gs k = Some (d, cbl, sub) ->
  nth_group_pos be b fuel gs k (len pre)
    = Some (len pre + groups_prefix_len be gs vgs k, d, cbl, sub) /\
  wf_groups be (GCons d cbl sub GNil) (VGCons bg es VGNil) /\
  exists pre' post',
    b = pre' ++ enc_groups be (GCons d cbl sub GNil) (VGCons bg es VGNil) ++ post' /\
    len pre' = len pre + groups_prefix_len be gs vgs k.
Proof.
  induction k as [|k IH]; intros gs vgs pre post bg es d cbl sub Hwf Hfuel Hb Hnth Hg.
  - destruct vgs as [|bg0 es0 vrest]; [discriminate|].
    cbn [vgroups_nth] in Hnth. inversion Hnth; subst bg0 es0; clear Hnth.
    destruct gs as [|d0 cbl0 l0 rest]; [contradiction|].
    cbn [groups_nth] in Hg. inversion Hg; subst d0 cbl0 l0; clear Hg.
    cbn [nth_group_pos groups_prefix_len]. rewrite Z.add_0_r.
    split; [reflexivity|]. split; [eapply wf_groups_single; exact Hwf|].
    exists pre, (enc_groups be rest vrest ++ post). split; [|reflexivity].
    rewrite Hb, enc_groups_single, enc_groups_cons. now rewrite <- !app_assoc.
  - destruct vgs as [|bg0 es0 vrest]; [discriminate|].
    cbn [vgroups_nth] in Hnth.
    destruct gs as [|d0 cbl0 l0 rest]; [contradiction|].
    cbn [groups_nth] in Hg.
    pose proof (wf_groups_single _ _ _ _ _ _ _ _ Hwf) as Hwf1.
    rewrite wf_groups_cons in Hwf. cbv zeta in Hwf.
    destruct Hwf as (_ & _ & _ & _ & _ & _ & _ & _ & Hwr).
    set (G1 := enc_groups be (GCons d0 cbl0 l0 GNil) (VGCons bg0 es0 VGNil)) in *.
    assert (HG : enc_groups be (GCons d0 cbl0 l0 rest) (VGCons bg0 es0 vrest)
                 = G1 ++ enc_groups be rest vrest).
    { unfold G1. rewrite enc_groups_single, enc_groups_cons. now rewrite <- !app_assoc. }
    rewrite HG in Hb.
    assert (Hb1 : b = pre ++ G1 ++ enc_groups be rest vrest ++ post)
      by (rewrite Hb; now rewrite <- !app_assoc).
    assert (Hb2 : b = (pre ++ G1) ++ enc_groups be rest vrest ++ post)
      by (rewrite Hb; now rewrite <- !app_assoc).
    cbn [nth_group_pos groups_prefix_len]. fold G1.
    rewrite (proj1 (proj2 nav_all) _ be _ b pre (enc_groups be rest vrest ++ post) fuel Hwf1).
    2:{ eapply fuel_groups_b; [exact Hwf1|exact Hb1|exact Hfuel]. }
    2:{ exact Hb1. }
    cbn [obind]. fold G1.
    destruct (IH rest vrest (pre ++ G1) post bg es d cbl sub Hwr Hfuel Hb2 Hnth Hg)
      as (H1 & H2 & pre' & post' & H3 & H4).
    rewrite len_app in H1, H4. rewrite Z.add_assoc.
    split; [exact H1|]. split; [exact H2|]. exists pre', post'. split; [exact H3|lia].
Qed.

(* the i-th entry *)
Lemma nth_entry_full be l bl : forall es i e,
  ventries_nth es i = Some e -> wf_entries be l es -> all_blocks_len es bl ->
  wf_level be l e /\ len (vblock e) = bl /\ Z.of_nat i < ecount es /\
  exists E1 E2, enc_entries be l es = E1 ++ enc_level be l e ++ E2 /\
                len E1 = entries_prefix_len be l es i.
Proof.
  induction es as [|e0 r IH]; intros i e Hnth Hwf Hall; [discriminate|].
  rewrite wf_entries_cons in Hwf. destruct Hwf as [Hw0 Hwr].
  cbn [all_blocks_len] in Hall. destruct Hall as [Hb0 Hbr].
  pose proof (ecount_nonneg r) as Hn0.
  destruct i as [|i]; cbn [ventries_nth] in Hnth.
  - inversion Hnth; subst e0; clear Hnth.
    split; [exact Hw0|]. split; [exact Hb0|]. split; [cbn [ecount]; lia|].
    exists [], (enc_entries be l r). split; reflexivity.
  - destruct (IH i e Hnth Hwr Hbr) as (H1 & H2 & H3 & E1 & E2 & H4 & H5).
    split; [exact H1|]. split; [exact H2|]. split; [cbn [ecount]; lia|].
    exists (enc_level be l e0 ++ E1), E2. split.
    + rewrite enc_entries_cons, H4. now rewrite <- !app_assoc.
    + cbn [entries_prefix_len]. rewrite len_app, H5. reflexivity.
Qed.

Lemma entries_prefix_flat be l bl : forall es i e,
  is_flat l = true -> ventries_nth es i = Some e -> all_blocks_len es bl ->
  entries_prefix_len be l es i = Z.of_nat i * bl.
Proof.
  induction es as [|e0 r IH]; intros i e Hfl Hnth Hall; [discriminate|].
  cbn [all_blocks_len] in Hall. destruct Hall as [Hb0 Hbr].
  destruct i as [|i]; cbn [ventries_nth] in Hnth; cbn [entries_prefix_len].
  - reflexivity.
  - rewrite (IH i e Hfl Hnth Hbr), enc_level_flat by exact Hfl. lia.
Qed.

(* walking i entries of a group arrives at entry i *)
Lemma entries_walk_prefix be b fuel l bl : forall es i e k pre post,
  ventries_nth es i = Some e -> wf_entries be l es -> all_blocks_len es bl ->
  len b <= Z.of_nat fuel -> (i <= k)%nat ->
  b = pre ++ enc_entries be l es ++ post ->
  entries_walk be b fuel l bl k (Z.of_nat i) (len pre)
  = Some (len pre + entries_prefix_len be l es i).
Proof.
  induction es as [|e0 r IH]; intros i e k pre post Hnth Hwf Hall Hfuel Hk Hb; [discriminate|].
  rewrite wf_entries_cons in Hwf. destruct Hwf as [Hw0 Hwr].
  cbn [all_blocks_len] in Hall. destruct Hall as [Hb0 Hbr].
  rewrite enc_entries_cons in Hb.
  destruct i as [|i]; cbn [ventries_nth] in Hnth; cbn [entries_prefix_len].
  - cbn [Z.of_nat]. rewrite entries_walk_0. f_equal. lia.
  - destruct k as [|k]; [lia|].
    rewrite entries_walk_S by lia.
    assert (Hb1 : b = pre ++ enc_level be l e0 ++ enc_entries be l r ++ post)
      by (rewrite Hb; now rewrite <- !app_assoc).
    rewrite <- Hb0.
    rewrite (proj1 nav_all e0 be l b pre (enc_entries be l r ++ post) fuel Hw0).
    2:{ eapply fuel_level_b; [exact Hw0|exact Hb1|exact Hfuel]. }
    2:{ exact Hb1. }
    cbn [obind]. rewrite Hb0.
    replace (Z.of_nat (S i) - 1) with (Z.of_nat i) by lia.
    replace (len pre + len (enc_level be l e0)) with (len (pre ++ enc_level be l e0))
      by (rewrite len_app; lia).
    rewrite (IH i e k (pre ++ enc_level be l e0) post Hnth Hwr Hbr Hfuel).
    + f_equal. rewrite len_app. lia.
    + lia.
    + rewrite Hb. now rewrite <- !app_assoc.
Qed.

Lemma resolve_cons be b fuel k i rest l pos bl :
  resolve be b fuel (SGroup k i :: rest) l pos bl =
  obind (nth_group_pos be b fuel (level_groups l) k (pos + bl)) (fun r =>
    let '(gpos, d, _, sub) := r in
    obind (group_at be b d gpos) (fun g =>
    obind (entry_pos be b fuel d sub g i) (fun epos =>
    resolve be b fuel rest sub epos (gv_bl g)))).
Proof. reflexivity. Qed.

(* THE resolution lemma: the runtime navigation follows the value-side
   resolution, and the resolved entry's image sits at the computed offset *)
Lemma resolve_enc be b fuel : forall path l v pre post l' v' off,
  wf_level be l v -> len b <= Z.of_nat fuel ->
  b = pre ++ enc_level be l v ++ post ->
  vresolve be path l v = Some (l', v', off) ->
  resolve be b fuel path l (len pre) (len (vblock v))
    = Some (len pre + off, len (vblock v'), l') /\
  wf_level be l' v' /\
  exists pre' post', b = pre' ++ enc_level be l' v' ++ post' /\ len pre' = len pre + off.
Proof.
  induction path as [|[k i] rest IH]; intros l v pre post l' v' off Hwf Hfuel Hb Hres.
  - cbn [vresolve] in Hres. inversion Hres; subst l' v' off; clear Hres.
    cbn [resolve]. rewrite Z.add_0_r. split; [reflexivity|]. split; [exact Hwf|].
    exists pre, post. split; [exact Hb|reflexivity].
  - cbn [vresolve] in Hres.
    destruct (groups_nth (level_groups l) k) as [[[d cbl] sub]|] eqn:Hg; [|discriminate].
    destruct (vgroups_nth (vlevel_groups v) k) as [[bg es]|] eqn:Hvg; [|discriminate].
    destruct (i <? 0) eqn:Hi0; [discriminate|]. apply Z.ltb_ge in Hi0.
    destruct (ventries_nth es (Z.to_nat i)) as [e|] eqn:He; [|discriminate].
    destruct (vresolve be rest sub e) as [[[l'' v''] off']|] eqn:Hsub; [|discriminate].
    inversion Hres; subst l'' v'' off; clear Hres.
    pose proof (wf_level_parts be l v Hwf) as [Hwg Hwd].
    set (gs := level_groups l) in *. set (vgs := vlevel_groups v) in *.
    assert (Hb1 : b = (pre ++ vblock v) ++ enc_groups be gs vgs
                       ++ (enc_datas be (level_datas l) (vlevel_datas v) ++ post)).
    { rewrite Hb, enc_level_parts. now rewrite <- !app_assoc. }
    destruct (nth_group_full be b fuel k gs vgs _ _ bg es d cbl sub Hwg Hfuel Hb1 Hvg Hg)
      as (Hpos & Hwf1 & pre1 & post1 & Hb2 & Hlen1).
    rewrite len_app in Hpos, Hlen1.
    set (gpl := groups_prefix_len be gs vgs k) in *.
    rewrite enc_groups_single in Hb2.
    rewrite wf_groups_cons in Hwf1. cbv zeta in Hwf1.
    set (bl := first_block_len es (dec be (slice bg (d_bl_off d) (tbytes (d_bl_t d))))) in *.
    destruct Hwf1 as (Hd & Hlbg & _ & Hfbl & Hfn & Hall & _ & Hwe & _).
    set (D := dim_bytes be d bg bl (ecount es)) in *.
    assert (HlD : len D = d_size d) by (apply len_dim_bytes; assumption).
    destruct (nth_entry_full be sub bl es (Z.to_nat i) e He Hwe Hall)
      as (Hwfe & Hble & Hilt & E1 & E2 & HE & HlE1).
    rewrite Z2Nat.id in Hilt by exact Hi0.
    (* the group view *)
    assert (Hga : group_at be b d (len pre1)
                  = Some {| gv_pos := len pre1; gv_bl := bl; gv_n := ecount es |}).
    { apply (group_at_enc be b pre1 ((enc_entries be sub es) ++ post1) d bg es Hd Hlbg Hfbl Hfn).
      rewrite Hb2. fold bl D. now rewrite <- !app_assoc. }
    (* the entry address *)
    set (pre2 := (pre1 ++ D) ++ E1).
    assert (Hlp2 : len pre2 = len pre + (len (vblock v) + gpl + d_size d
                                       + entries_prefix_len be sub es (Z.to_nat i))).
    { unfold pre2. rewrite !len_app, HlD, HlE1, Hlen1. lia. }
    assert (Hep : entry_pos be b fuel d sub
                    {| gv_pos := len pre1; gv_bl := bl; gv_n := ecount es |} i
                  = Some (len pre2)).
    { unfold entry_pos. cbn [gv_pos gv_bl gv_n].
      replace (i <? 0) with false by (symmetry; apply Z.ltb_ge; lia).
      replace (ecount es <=? i) with false by (symmetry; apply Z.leb_gt; lia).
      cbn [orb].
      destruct (is_flat sub) eqn:Hfl.
      - f_equal. unfold pre2. rewrite !len_app, HlD, HlE1.
        rewrite (entries_prefix_flat be sub bl es (Z.to_nat i) e Hfl He Hall).
        rewrite Z2Nat.id by exact Hi0. lia.
      - replace (len pre1 + d_size d) with (len (pre1 ++ D)) by (rewrite len_app; lia).
        rewrite <- (Z2Nat.id i) at 1 by exact Hi0.
        rewrite (entries_walk_prefix be b fuel sub bl es (Z.to_nat i) e fuel (pre1 ++ D) post1
                   He Hwe Hall Hfuel).
        + f_equal. unfold pre2. rewrite !len_app, HlE1. lia.
        + assert (Hb3 : b = (pre1 ++ D) ++ enc_entries be sub es ++ post1)
            by (rewrite Hb2; now rewrite <- !app_assoc).
          destruct (fuel_entries_b be sub es b _ _ fuel Hwe Hb3 Hfuel) as [_ Hcnt].
          specialize (Hcnt Hfl). lia.
        + rewrite Hb2. now rewrite <- !app_assoc. }
    (* the entry's image *)
    assert (Hb4 : b = pre2 ++ enc_level be sub e ++ (E2 ++ post1)).
    { rewrite Hb2, HE. unfold pre2. now rewrite <- !app_assoc. }
    destruct (IH sub e pre2 (E2 ++ post1) l' v' off' Hwfe Hfuel Hb4 Hsub)
      as (Hr & Hwf' & pre' & post' & Hb' & Hlen').
    rewrite resolve_cons. fold gs. rewrite Hpos. cbn [obind].
    rewrite <- Hlen1, Hga. cbn [obind]. rewrite Hep. cbn [obind gv_bl].
    rewrite <- Hble, Hr.
    split; [f_equal; f_equal; f_equal; lia|]. split; [exact Hwf'|].
    exists pre', post'. split; [exact Hb'|lia].
Qed.

(* instantiation for a message image *)
Lemma msg_resolve_enc be m hdrbg v b pre post path l' v' off :
  wf_message be m hdrbg v -> b = pre ++ enc_message be m hdrbg v ++ post ->
  vresolve be path (m_level m) v = Some (l', v', off) ->
  wf_level be l' v' /\
  exists pre' post',
    b = pre' ++ enc_level be l' v' ++ post' /\
    msg_resolve be b m (len pre) path = Some (len pre', len (vblock v'), l').
Proof.
  intros Hwf Hb Hres.
  pose proof (msg_wf_level be m hdrbg v Hwf) as Hwl.
  pose proof (msg_buffer_split be m hdrbg v b pre post Hb) as Hsplit.
  destruct (resolve_enc be b (default_fuel b) path (m_level m) v _ _ l' v' off Hwl
              (default_fuel_len b) Hsplit Hres) as (Hr & Hwf' & pre' & post' & Hb' & Hlen').
  split; [exact Hwf'|]. exists pre', post'. split; [exact Hb'|].
  unfold msg_resolve. rewrite (msg_block_length_enc be m hdrbg v b pre post Hwf Hb). cbn [obind].
  rewrite <- (len_pre_hdr be m hdrbg v pre Hwf), Hr, Hlen'. reflexivity.
Qed.

Theorem get_field_any_path_enc : stmt_get_field_any_path_enc.
Proof.
  unfold stmt_get_field_any_path_enc.
  intros be m hdrbg v pre post path k l' v' off f Hwf Hres Hk Ho Hs Hle.
  set (b := pre ++ enc_message be m hdrbg v ++ post).
  destruct (msg_resolve_enc be m hdrbg v b pre post path l' v' off Hwf eq_refl Hres)
    as (Hwf' & pre' & post' & Hb' & Hr).
  unfold get_field. rewrite Hr. cbn [obind]. rewrite Hk.
  apply (rd_bytes_at b pre' (vblock v')
           ((enc_groups be (level_groups l') (vlevel_groups v')
             ++ enc_datas be (level_datas l') (vlevel_datas v')) ++ post')).
  - rewrite Hb', enc_level_parts. now rewrite <- !app_assoc.
  - apply in_buf_iff. lia.
Qed.
Print Assumptions get_field_any_path_enc.

Theorem get_data_any_path_enc : stmt_get_data_any_path_enc.
Proof.
  unfold stmt_get_data_any_path_enc.
  intros be m hdrbg v pre post path k l' v' off p Hwf Hres Hnth.
  set (b := pre ++ enc_message be m hdrbg v ++ post).
  destruct (msg_resolve_enc be m hdrbg v b pre post path l' v' off Hwf eq_refl Hres)
    as (Hwf' & pre' & post' & Hb' & Hr).
  apply wf_level_parts in Hwf'. destruct Hwf' as [Hwg Hwd].
  set (gs := level_groups l') in *. set (ds := level_datas l') in *.
  set (G := enc_groups be gs (vlevel_groups v')).
  assert (Hsplit : b = (pre' ++ vblock v') ++ G ++ enc_datas be ds (vlevel_datas v') ++ post').
  { rewrite Hb', enc_level_parts. fold gs ds G. now rewrite <- !app_assoc. }
  unfold get_data, locate_data. rewrite Hr. cbn [obind]. fold gs ds.
  replace (len pre' + len (vblock v')) with (len (pre' ++ vblock v')) by (rewrite len_app; lia).
  assert (Hfuel : fuel_needed_gs gs (vlevel_groups v') <= Z.of_nat (default_fuel b)).
  { eapply fuel_groups_b; [exact Hwg|exact Hsplit|apply default_fuel_len]. }
  rewrite (proj1 (proj2 nav_all) _ be gs b _ _ (default_fuel b) Hwg Hfuel Hsplit).
  cbn [obind]. fold G. rewrite <- len_app.
  destruct (nth_data_pos_enc be b ds (vlevel_datas v') k p ((pre' ++ vblock v') ++ G) post'
              Hwd Hnth) as (t & pre'' & post'' & H1 & Hf & Hb'').
  { rewrite Hsplit. now rewrite <- !app_assoc. }
  rewrite H1. cbn [obind].
  rewrite (rd_enc_at be b pre'' (p ++ post'') t (len p) Hb'' Hf). cbn [obind].
  rewrite <- (len_enc_tw be t (len p)), <- len_app.
  rewrite <- (Z.add_0_r (len (pre'' ++ enc be (tw t) (len p)))).
  rewrite (rd_bytes_at b _ p post'' 0 (len p)).
  - now rewrite slice_full.
  - rewrite Hb''. now rewrite <- !app_assoc.
  - apply in_buf_iff. pose proof (len_nonneg p). lia.
Qed.
Print Assumptions get_data_any_path_enc.
(* ================================================================== *)
(* 4. Complete traversal                                               *)
(* ================================================================== *)

(* stmt_trav_message_enc is false as written (CursorCounterexamples.v); the
   corrected statement needs two more hypotheses. *)

(* (A) a message without any member (no non-constant field, group or data) has
   wire blockLength 0: the traversal of such a message touches nothing, so the
   cursor stays at the start of the block *)
Definition empty_root_has_empty_block (m : message) (cl : clevel) (v : vlevel) : Prop :=
  is_empty_level (m_level m) cl = true -> len (vblock v) = 0.

(* (B) every flat group has at most [N] entries.  The entry loop of
   [trav_groups] consumes one unit of fuel per entry, also for flat groups,
   whose entries may occupy 0 bytes *)
Fixpoint flat_counts_le (N : Z) (l : level) (v : vlevel) {struct v} : Prop :=
  match v with
  | VLevel _ vgs _ => flat_counts_le_gs N (level_groups l) vgs
  end
with flat_counts_le_gs (N : Z) (gs : groups) (vgs : vgroups) {struct vgs} : Prop :=
  match vgs, gs with
  | VGCons _ es vrest, GCons _ _ l rest =>
    (is_flat l = true -> ecount es <= N) /\
    flat_counts_le_es N l es /\ flat_counts_le_gs N rest vrest
  | _, _ => True
  end
with flat_counts_le_es (N : Z) (l : level) (es : ventries) {struct es} : Prop :=
  match es with
  | VENil => True
  | VECons e r => flat_counts_le N l e /\ flat_counts_le_es N l r
  end.

Definition stmt_trav_message_enc' : Prop :=
  forall be m cl hdrbg v pre post,
    wf_message be m hdrbg v ->
    wf_clevel (m_hdr_size m) (m_level m) cl ->
    fields_fit (m_level m) v ->
    len (pre ++ enc_message be m hdrbg v ++ post) < 2 ^ 64 ->
    flat_counts_le (Z.of_nat (default_fuel (pre ++ enc_message be m hdrbg v ++ post)))
                   (m_level m) v ->
    trav_message be (pre ++ enc_message be m hdrbg v ++ post) m cl (len pre)
    = COk (ev_level be (m_level m) v (len pre + m_hdr_size m))
          (len pre + len (enc_message be m hdrbg v)).

(* ---- the entry loop of [trav_groups] as a top-level function ---- *)
Fixpoint trav_entries (be : bool) (b : list Z) (fuel : nat) (l : level) (cl : clevel)
  (bl lvend : Z) (j : nat) (n c : Z) (acc : list event) {struct j} : cres (list event) :=
  if n <=? 0 then COk acc c else
  match j with
  | O => COob
  | S j' =>
    let ev := {| lv_start := c; lv_level := c; lv_bl := bl; lv_end := lvend |} in
    let c0 := if is_empty_level l cl then c + bl else c in
    match trav_level be b fuel l cl ev c0 (EEntry c :: acc) with
    | COk acc' c' => trav_entries be b fuel l cl bl lvend j' (n - 1) c' acc'
    | CAssert => CAssert
    | COob => COob
    end
  end.

Lemma loop_is_trav_entries be b fuel l cl bl lvend : forall j n c acc,
  (fix loop (j : nat) (n c : Z) (acc : list event) {struct j} : cres (list event) :=
     if n <=? 0 then COk acc c else
     match j with
     | O => COob
     | S j' =>
       let ev := {| lv_start := c; lv_level := c; lv_bl := bl; lv_end := lvend |} in
       let c0 := if is_empty_level l cl then c + bl else c in
       match trav_level be b fuel l cl ev c0 (EEntry c :: acc) with
       | COk acc' c' => loop j' (n - 1) c' acc'
       | CAssert => CAssert
       | COob => COob
       end
     end) j n c acc
  = trav_entries be b fuel l cl bl lvend j n c acc.
Proof.
  induction j as [|j IH]; intros n c acc; cbn [trav_entries].
  - reflexivity.
  - destruct (n <=? 0); [reflexivity|]. cbv zeta.
    destruct (trav_level be b fuel l cl
                {| lv_start := c; lv_level := c; lv_bl := bl; lv_end := lvend |}
                (if is_empty_level l cl then c + bl else c) (EEntry c :: acc)) as [acc' c'| |];
      [apply IH|reflexivity|reflexivity].
Qed.

Lemma trav_groups_cons be b fuel d cbl l rest cl crest v k first p c acc :
  trav_groups be b fuel (GCons d cbl l rest) (CGCons cl crest) v k first p c acc =
  match cur_group WPlain first v p (d_size d) (fun _ => None) c with
  | COk s c1 =>
    match rd be b (s + d_bl_off d) (d_bl_t d), rd be b (s + d_n_off d) (d_n_t d) with
    | Some bl, Some n =>
      match trav_entries be b fuel l cl bl (lv_end v) fuel n c1 (EGroup k s n :: acc) with
      | COk acc' c' =>
        let p' := obind p (fun p0 => groups_end be b fuel (GCons d cbl l GNil) p0) in
        trav_groups be b fuel rest crest v (S k) false p' c' acc'
      | CAssert => CAssert
      | COob => COob
      end
    | _, _ => COob
    end
  | CAssert => CAssert
  | COob => COob
  end.
Proof.
  cbn [trav_groups].
  destruct (cur_group WPlain first v p (d_size d) (fun _ => None) c) as [s c1| |];
    [|reflexivity|reflexivity].
  destruct (rd be b (s + d_bl_off d) (d_bl_t d)) as [bl|]; [|reflexivity].
  destruct (rd be b (s + d_n_off d) (d_n_t d)) as [n|]; [|reflexivity].
  rewrite loop_is_trav_entries. reflexivity.
Qed.

Lemma trav_level_eq be b fuel fs gs ds cl v c acc :
  trav_level be b fuel (Level fs gs ds) cl v c acc =
  match trav_fields v (clevel_fields cl) 0 c acc with
  | COk acc1 c1 =>
    match trav_groups be b fuel gs (clevel_groups cl) v 0 true (Some (block_end v)) c1 acc1 with
    | COk acc2 c2 =>
      trav_datas be b v ds 0 (groups_empty gs) (groups_end be b fuel gs (block_end v)) c2 acc2
    | CAssert => CAssert
    | COob => COob
    end
  | CAssert => CAssert
  | COob => COob
  end.
Proof. reflexivity. Qed.

Lemma trav_entries_S be b fuel l cl bl lvend j n c acc : 0 < n ->
  trav_entries be b fuel l cl bl lvend (S j) n c acc =
  match trav_level be b fuel l cl {| lv_start := c; lv_level := c; lv_bl := bl; lv_end := lvend |}
          (if is_empty_level l cl then c + bl else c) (EEntry c :: acc) with
  | COk acc' c' => trav_entries be b fuel l cl bl lvend j (n - 1) c' acc'
  | CAssert => CAssert
  | COob => COob
  end.
Proof.
  intros Hn. cbn [trav_entries]. destruct (Z.leb_spec n 0) as [Hle|Hgt]; [lia|reflexivity].
Qed.

Lemma trav_entries_0 be b fuel l cl bl lvend j c acc :
  trav_entries be b fuel l cl bl lvend j 0 c acc = COk acc c.
Proof. destruct j; reflexivity. Qed.

(* ---- plain calls at the right position ---- *)
Lemma cur_group_plain_ok first lv s dsz gsz c :
  (first = true -> block_end lv = s) -> (first = false -> c = s) ->
  cur_group WPlain first lv (Some s) dsz gsz c = COk s (s + dsz).
Proof.
  intros H1 H2. unfold cur_group. destruct first.
  - rewrite (H1 eq_refl). reflexivity.
  - rewrite (H2 eq_refl), Z.eqb_refl. reflexivity.
Qed.

Lemma cur_data_plain_ok first lv s dsz c z :
  (first = true -> block_end lv = s) -> (first = false -> c = s) -> dsz s = Some z ->
  cur_data WPlain first lv (Some s) dsz c = COk s (s + z).
Proof.
  intros H1 H2 Hz. unfold cur_data. destruct first.
  - rewrite (H1 eq_refl), Hz. reflexivity.
  - rewrite (H2 eq_refl), Z.eqb_refl, Hz. reflexivity.
Qed.

Lemma rev_cons_app {A} (x : A) l acc : rev (x :: l) ++ acc = rev l ++ x :: acc.
Proof. cbn [rev]. now rewrite <- app_assoc. Qed.

(* ---- fields ---- *)
Lemma trav_fields_ok lv hdr : forall fs al pos k c acc,
  accs_ok hdr pos fs al ->
  Forall (fun f => 0 <= f_off f /\ f_off f + f_size f <= lv_bl lv) fs ->
  lv_start lv + hdr = lv_level lv -> 0 <= lv_level lv -> 0 <= pos ->
  lv_level lv + lv_bl lv <= lv_end lv -> lv_end lv < 2 ^ 64 ->
  (fs <> [] -> c = lv_level lv + pos) ->
  trav_fields lv al k c acc
  = COk (rev (ev_fields fs k (lv_level lv)) ++ acc)
        (match fs with [] => c | _ => block_end lv end).
Proof.
  induction fs as [|f fs IH]; intros al pos k c acc Hacc Hfit Hst Hlv Hpos Hend Hlt Hc.
  - destruct al; [|contradiction]. reflexivity.
  - destruct al as [|a al]; [contradiction|].
    cbn [accs_ok] in Hacc.
    destruct Hacc as (Hrel & Hrel0 & Habs & Hsz & Hsz0 & Hlast & Hrest).
    inversion Hfit as [|f' fs' [Hf0 Hf1] Hfit']; subst f' fs'.
    specialize (Hc ltac:(discriminate)).
    cbn [trav_fields]. unfold cur_field.
    assert (Hplaced : (lv_start lv + ca_abs a =? c + ca_rel a) = true) by (apply Z.eqb_eq; lia).
    pose proof (chk_size_le a ltac:(lia)) as Hchk.
    assert (Hsc : size_check c (lv_end lv) (ca_rel a) (chk_size a) = true)
      by (apply size_check_ok; lia).
    rewrite Hplaced, Hsc. cbn [negb ev_fields].
    replace (c + ca_rel a) with (lv_level lv + f_off f) by lia.
    rewrite rev_cons_app.
    destruct fs as [|f2 fs].
    + destruct al; [|contradiction]. rewrite Hlast. reflexivity.
    + rewrite Hlast.
      rewrite (IH al (f_off f + f_size f) (S k) _ _ Hrest Hfit' Hst Hlv ltac:(lia) Hend Hlt).
      * reflexivity.
      * intros _. lia.
Qed.

Section Trav.
  Variables (be : bool) (b : list Z) (fuel : nat).
  Hypothesis Hfuel : len b <= Z.of_nat fuel.
  Hypothesis Hlt : len b < 2 ^ 64.

  (* ---- data ---- *)
  Lemma trav_datas_ok lv : forall ds vds pre post k first c acc,
    datas_fit ds vds -> b = pre ++ enc_datas be ds vds ++ post ->
    (first = true -> block_end lv = len pre) -> (first = false -> c = len pre) ->
    trav_datas be b lv ds k first (Some (len pre)) c acc
    = COk (rev (ev_datas ds vds k (len pre)) ++ acc)
          (match ds with [] => c | _ => len pre + len (enc_datas be ds vds) end).
  Proof.
    induction ds as [|t ds IH]; intros vds pre post k first c acc Hfit Hb H1 H2.
    - destruct vds; [|contradiction]. reflexivity.
    - destruct vds as [|p vds]; [contradiction|].
      cbn [datas_fit] in Hfit. destruct Hfit as (Hu & Hf & Hrest).
      cbn [enc_datas] in Hb.
      assert (Hrd : rd be b (len pre) t = Some (len p)).
      { apply (rd_enc_at be b pre ((p ++ enc_datas be ds vds) ++ post) t (len p)); [|exact Hf].
        rewrite Hb. now rewrite <- !app_assoc. }
      cbn [trav_datas].
      rewrite (cur_data_plain_ok first lv (len pre) _ c (tbytes t + len p) H1 H2).
      2:{ unfold data_size_at. rewrite Hrd. reflexivity. }
      rewrite Hrd. cbn [obind]. unfold data_size_at at 1. rewrite Hrd. cbn [obind].
      set (pre' := pre ++ enc be (tw t) (len p) ++ p).
      assert (Hl' : len pre + (tbytes t + len p) = len pre')
        by (unfold pre'; rewrite !len_app, len_enc_tw; lia).
      replace (if first then Some (len pre + (tbytes t + len p))
               else Some (len pre + (tbytes t + len p))) with (Some (len pre'))
        by (rewrite Hl'; destruct first; reflexivity).
      rewrite Hl'.
      rewrite (IH vds pre' post (S k) false (len pre') _ Hrest).
      + cbn [ev_datas]. rewrite rev_cons_app.
        replace (len pre + tbytes t + len p) with (len pre') by lia.
        f_equal. cbn [enc_datas]. destruct ds as [|t2 ds].
        * cbn [enc_datas]. rewrite !len_app, len_enc_tw, len_nil. lia.
        * rewrite !len_app, len_enc_tw. lia.
      + rewrite Hb. unfold pre'. now rewrite <- !app_assoc.
      + discriminate.
      + reflexivity.
  Qed.

  Let F := Z.of_nat fuel.

  Definition T_level (v : vlevel) : Prop :=
    forall l cl hdr pre post lv c acc,
      wf_level be l v -> wf_clevel hdr l cl -> fields_fit l v -> flat_counts_le F l v ->
      b = pre ++ enc_level be l v ++ post ->
      lv_level lv = len pre -> lv_start lv + hdr = len pre ->
      lv_bl lv = len (vblock v) -> lv_end lv = len b ->
      c = (if is_empty_level l cl then len pre + len (vblock v) else len pre) ->
      trav_level be b fuel l cl lv c acc
      = COk (rev (ev_level be l v (len pre)) ++ acc) (len pre + len (enc_level be l v)).

  Definition T_groups (vgs : vgroups) : Prop :=
    forall gs cgs pre post lv k first c acc,
      wf_groups be gs vgs -> wf_cgroups gs cgs -> fields_fit_gs gs vgs ->
      flat_counts_le_gs F gs vgs ->
      b = pre ++ enc_groups be gs vgs ++ post ->
      lv_end lv = len b ->
      (first = true -> block_end lv = len pre) -> (first = false -> c = len pre) ->
      trav_groups be b fuel gs cgs lv k first (Some (len pre)) c acc
      = COk (rev (ev_groups be gs vgs k (len pre)) ++ acc)
            (if groups_empty gs then c else len pre + len (enc_groups be gs vgs)).

  Definition T_entries (es : ventries) : Prop :=
    forall l cl pre post bl lvend j acc,
      wf_entries be l es -> wf_clevel 0 l cl -> fields_fit_es l es ->
      flat_counts_le_es F l es -> all_blocks_len es bl ->
      b = pre ++ enc_entries be l es ++ post ->
      lvend = len b -> ecount es <= Z.of_nat j ->
      trav_entries be b fuel l cl bl lvend j (ecount es) (len pre) acc
      = COk (rev (ev_entries be l es (len pre)) ++ acc)
            (len pre + len (enc_entries be l es)).

  Lemma T_level_step block vgs vds : T_groups vgs -> T_level (VLevel block vgs vds).
  Proof.
    intros IHg l cl hdr pre post lv c acc Hwf Hcl Hff Hfc Hb Hlvl Hst Hbl Hend Hc.
    destruct l as [fs gs ds]. destruct cl as [al cgs].
    rewrite wf_level_eq in Hwf. destruct Hwf as [Hwg Hwd].
    cbn [wf_clevel] in Hcl. destruct Hcl as [Hacc Hcg].
    cbn [fields_fit] in Hff. destruct Hff as [Hffs Hffg].
    cbn [flat_counts_le] in Hfc.
    cbn [level_groups level_datas level_fields vblock] in *.
    rewrite enc_level_eq in *. cbn [level_groups level_datas] in *.
    set (G := enc_groups be gs vgs) in *. set (Dt := enc_datas be ds vds) in *.
    pose proof (len_nonneg pre) as Hpre0. pose proof (len_nonneg block) as Hblk0.
    assert (Hin : len pre + len block <= len b).
    { rewrite Hb, !len_app. pose proof (len_nonneg G). pose proof (len_nonneg Dt).
      pose proof (len_nonneg post). lia. }
    rewrite trav_level_eq. cbn [clevel_fields clevel_groups].
    (* fields *)
    rewrite (trav_fields_ok lv hdr fs al 0 0%nat c acc Hacc).
    2:{ rewrite Hbl. exact Hffs. }
    2-6: lia.
    2:{ intros Hne. rewrite Hc, Hlvl. unfold is_empty_level. cbn [clevel_fields].
        destruct fs as [|f fs]; [contradiction|]. destruct al; [contradiction|]. lia. }
    (* groups *)
    assert (Hbe : block_end lv = len (pre ++ block)).
    { unfold block_end. rewrite len_app. lia. }
    rewrite Hbe.
    rewrite (IHg gs cgs (pre ++ block) (Dt ++ post) lv 0%nat true _ _ Hwg Hcg Hffg Hfc).
    2:{ rewrite Hb. fold G. now rewrite <- !app_assoc. }
    2:{ exact Hend. }
    2:{ intros _. exact Hbe. }
    2:{ discriminate. }
    fold G.
    (* data *)
    rewrite (proj1 (proj2 nav_all) vgs be gs b (pre ++ block) (Dt ++ post) fuel Hwg).
    2:{ apply (fuel_groups_b be gs vgs b (pre ++ block) (Dt ++ post) fuel Hwg); [|exact Hfuel].
        rewrite Hb. fold G. now rewrite <- !app_assoc. }
    2:{ rewrite Hb. fold G. now rewrite <- !app_assoc. }
    fold G. rewrite <- len_app.
    rewrite (trav_datas_ok lv ds vds ((pre ++ block) ++ G) post 0%nat _ _ _ Hwd).
    2:{ rewrite Hb. fold Dt. now rewrite <- !app_assoc. }
    2:{ intros Hge. destruct gs; [|discriminate]. unfold G. rewrite enc_groups_gnil.
        rewrite app_nil_r. exact Hbe. }
    2:{ intros Hge. rewrite Hge. rewrite !len_app. lia. }
    fold Dt.
    (* events and final position *)
    cbn [ev_level level_fields level_groups level_datas]. fold G.
    rewrite !rev_app_distr, <- !app_assoc, !len_app, Hlvl.
    f_equal.
    - rewrite Z.add_assoc. reflexivity.
    - destruct ds as [|t ds]; [|lia].
      assert (HDt : len Dt = 0) by reflexivity. rewrite HDt.
      destruct gs as [|d cbl l rest]; cbn [groups_empty]; [|lia].
      assert (HG : len G = 0) by (unfold G; rewrite enc_groups_gnil; reflexivity). rewrite HG.
      destruct fs as [|f fs].
      + destruct al; [|contradiction]. rewrite Hc. unfold is_empty_level. cbn. lia.
      + unfold block_end. lia.
  Qed.

  Lemma T_groups_nil : T_groups VGNil.
  Proof.
    intros gs cgs pre post lv k first c acc Hwf Hcg Hff Hfc Hb Hend H1 H2.
    destruct gs; [|contradiction]. reflexivity.
  Qed.

  Lemma T_groups_step bg es vrest :
    T_entries es -> T_groups vrest -> T_groups (VGCons bg es vrest).
  Proof.
    intros IHe IHr gs cgs pre post lv k first c acc Hwf Hcg Hff Hfc Hb Hend H1 H2.
    destruct gs as [|d cbl l rest]; [contradiction|].
    destruct cgs as [|cl crest]; [contradiction|].
    cbn [wf_cgroups] in Hcg. destruct Hcg as [Hcl Hcr].
    cbn [fields_fit_gs] in Hff. destruct Hff as [Hffe Hffr].
    cbn [flat_counts_le_gs] in Hfc. destruct Hfc as (Hcnt & Hfce & Hfcr).
    pose proof (wf_groups_single _ _ _ _ _ _ _ _ Hwf) as Hwf1.
    rewrite wf_groups_cons in Hwf. cbv zeta in Hwf.
    rewrite enc_groups_cons in *.
    set (bl := first_block_len es (dec be (slice bg (d_bl_off d) (tbytes (d_bl_t d))))) in *.
    destruct Hwf as (Hd & Hlen & Hok & Hfbl & Hfn & Hall & Hflat & Hwe & Hwr).
    set (D := dim_bytes be d bg bl (ecount es)) in *.
    set (E := enc_entries be l es) in *.
    set (R := enc_groups be rest vrest) in *.
    assert (HlD : len D = d_size d) by (apply len_dim_bytes; assumption).
    assert (HbD : b = pre ++ D ++ ((E ++ R) ++ post)) by (rewrite Hb; now rewrite <- !app_assoc).
    assert (HDbl : dec be (slice D (d_bl_off d) (tbytes (d_bl_t d))) = bl)
      by (apply dim_bytes_bl; assumption).
    assert (HDn : dec be (slice D (d_n_off d) (tbytes (d_n_t d))) = ecount es)
      by (apply dim_bytes_n; assumption).
    rewrite trav_groups_cons.
    rewrite (cur_group_plain_ok first lv (len pre) (d_size d) _ c H1 H2).
    rewrite (rd_at be b pre D _ (d_bl_off d) (d_bl_t d) HbD) by (apply wf_dim_in_bl; assumption).
    rewrite (rd_at be b pre D _ (d_n_off d) (d_n_t d) HbD) by (apply wf_dim_in_n; assumption).
    rewrite HDbl, HDn.
    (* entries *)
    assert (HbE : b = (pre ++ D) ++ E ++ (R ++ post)) by (rewrite Hb; now rewrite <- !app_assoc).
    replace (len pre + d_size d) with (len (pre ++ D)) by (rewrite len_app; lia).
    rewrite (IHe l cl (pre ++ D) (R ++ post) bl (lv_end lv) fuel _ Hwe Hcl Hffe Hfce Hall HbE Hend).
    2:{ destruct (is_flat l) eqn:Hfl.
        - apply Hcnt. reflexivity.
        - destruct (fuel_entries_b be l es b _ _ fuel Hwe HbE Hfuel) as [_ H]. apply H. exact Hfl. }
    fold E.
    (* the random-access address of the next group *)
    cbn [obind]. cbv zeta.
    rewrite (proj1 (proj2 nav_all) _ be _ b pre (R ++ post) fuel Hwf1).
    2:{ apply (fuel_groups_b be _ _ b pre (R ++ post) fuel Hwf1); [|exact Hfuel].
        rewrite enc_groups_single. fold bl D E. rewrite Hb. now rewrite <- !app_assoc. }
    2:{ rewrite enc_groups_single. fold bl D E. rewrite Hb. now rewrite <- !app_assoc. }
    rewrite enc_groups_single. fold bl D E.
    replace (len pre + len (D ++ E)) with (len ((pre ++ D) ++ E)) by (rewrite !len_app; lia).
    replace (len (pre ++ D) + len E) with (len ((pre ++ D) ++ E)) by (rewrite !len_app; lia).
    rewrite (IHr rest crest ((pre ++ D) ++ E) post lv (S k) false _ _ Hwr Hcr Hffr Hfcr).
    2:{ rewrite Hb. fold R. now rewrite <- !app_assoc. }
    2:{ exact Hend. }
    2:{ discriminate. }
    2:{ reflexivity. }
    fold R. cbn [groups_empty ev_groups]. fold E.
    rewrite rev_cons_app, rev_app_distr, <- !app_assoc.
    rewrite !len_app, HlD.
    f_equal.
    - rewrite Z.add_assoc. reflexivity.
    - destruct rest as [|d2 cbl2 l2 rest2]; cbn [groups_empty]; [|lia].
      assert (HR : len R = 0) by (unfold R; rewrite enc_groups_gnil; reflexivity). lia.
  Qed.

  Lemma T_entries_nil : T_entries VENil.
  Proof.
    intros l cl pre post bl lvend j acc _ _ _ _ _ _ _ _.
    cbn [ecount enc_entries ev_entries rev app]. rewrite trav_entries_0, len_nil.
    f_equal. lia.
  Qed.

  Lemma T_entries_step e r : T_level e -> T_entries r -> T_entries (VECons e r).
  Proof.
    intros IHl IHr l cl pre post bl lvend j acc Hwf Hcl Hff Hfc Hall Hb Hend Hj.
    rewrite wf_entries_cons in Hwf. destruct Hwf as [Hwe Hwr].
    cbn [fields_fit_es] in Hff. destruct Hff as [Hffe Hffr].
    cbn [flat_counts_le_es] in Hfc. destruct Hfc as [Hfce Hfcr].
    cbn [all_blocks_len] in Hall. destruct Hall as [Hbl Hall].
    rewrite enc_entries_cons in *. cbn [ecount] in *. pose proof (ecount_nonneg r) as Hn0.
    destruct j as [|j]; [lia|].
    rewrite trav_entries_S by lia.
    rewrite (IHl l cl 0 pre (enc_entries be l r ++ post) _ _ _ Hwe Hcl Hffe Hfce).
    2:{ rewrite Hb. now rewrite <- !app_assoc. }
    2:{ reflexivity. }
    2:{ cbn [lv_start]. lia. }
    2:{ cbn [lv_bl]. lia. }
    2:{ cbn [lv_end]. exact Hend. }
    2:{ rewrite Hbl. reflexivity. }
    replace (1 + ecount r - 1) with (ecount r) by lia.
    replace (len pre + len (enc_level be l e)) with (len (pre ++ enc_level be l e))
      by (rewrite len_app; lia).
    rewrite (IHr l cl (pre ++ enc_level be l e) post bl lvend j _ Hwr Hcl Hffr Hfcr Hall).
    - cbn [ev_entries]. rewrite rev_cons_app, rev_app_distr, <- !app_assoc, !len_app.
      f_equal. lia.
    - rewrite Hb. now rewrite <- !app_assoc.
    - exact Hend.
    - lia.
  Qed.

  Lemma T_all :
    (forall v, T_level v) /\ (forall vgs, T_groups vgs) /\ (forall es, T_entries es).
  Proof.
    apply vtree_mutind.
    - intros block vgs IH vds. apply T_level_step. exact IH.
    - exact T_groups_nil.
    - intros bg es IHe vrest IHr. apply T_groups_step; assumption.
    - exact T_entries_nil.
    - intros e IHl r IHr. apply T_entries_step; assumption.
  Qed.
End Trav.

Theorem trav_message_enc' : stmt_trav_message_enc'.
Proof.
  unfold stmt_trav_message_enc'. intros be m cl hdrbg v pre post Hwf Hcl Hff Hlt Hfc.
  set (b := pre ++ enc_message be m hdrbg v ++ post) in *.
  assert (Hb : b = pre ++ enc_message be m hdrbg v ++ post) by reflexivity.
  set (hdr := put be hdrbg (m_bl_off m) (m_bl_t m) (len (vblock v))).
  pose proof (msg_wf_level be m hdrbg v Hwf) as Hwl.
  pose proof (msg_buffer_split be m hdrbg v b pre post Hb) as Hsplit. fold hdr in Hsplit.
  pose proof (len_pre_hdr be m hdrbg v pre Hwf) as Hlh. fold hdr in Hlh.
  unfold trav_message. rewrite (msg_block_length_enc be m hdrbg v b pre post Hwf Hb).
  rewrite (proj1 (T_all be b (default_fuel b) (default_fuel_len b) Hlt) v
             (m_level m) cl (m_hdr_size m) (pre ++ hdr) post _ _ [] Hwl Hcl Hff Hfc Hsplit).
  - rewrite app_nil_r, rev_involutive, Hlh. f_equal.
    unfold enc_message. fold hdr. rewrite len_app, <- Z.add_assoc. rewrite len_app in Hlh. lia.
  - cbn [lv_level]. lia.
  - cbn [lv_start]. lia.
  - reflexivity.
  - reflexivity.
  - rewrite Hlh. destruct (is_empty_level (m_level m) cl) eqn:He; [|reflexivity].
    lia.
Qed.
Print Assumptions trav_message_enc'.
(* ---- a sufficient condition for hypothesis (B) that does not mention fuel:
   no non-empty flat group has wire blockLength 0 ---- *)
Fixpoint flat_blocks_pos (l : level) (v : vlevel) {struct v} : Prop :=
  match v with
  | VLevel _ vgs _ => flat_blocks_pos_gs (level_groups l) vgs
  end
with flat_blocks_pos_gs (gs : groups) (vgs : vgroups) {struct vgs} : Prop :=
  match vgs, gs with
  | VGCons _ es vrest, GCons _ _ l rest =>
    (is_flat l = true -> 1 <= first_block_len es 1) /\
    flat_blocks_pos_es l es /\ flat_blocks_pos_gs rest vrest
  | _, _ => True
  end
with flat_blocks_pos_es (l : level) (es : ventries) {struct es} : Prop :=
  match es with
  | VENil => True
  | VECons e r => flat_blocks_pos l e /\ flat_blocks_pos_es l r
  end.

Lemma flat_counts_le_mono N N' : N <= N' ->
  (forall v l, flat_counts_le N l v -> flat_counts_le N' l v) /\
  (forall vgs gs, flat_counts_le_gs N gs vgs -> flat_counts_le_gs N' gs vgs) /\
  (forall es l, flat_counts_le_es N l es -> flat_counts_le_es N' l es).
Proof.
  intros HN. apply vtree_mutind.
  - intros block vgs IH vds l H. cbn [flat_counts_le] in *. apply IH. exact H.
  - intros gs _. destruct gs; exact I.
  - intros bg es IHe vrest IHr gs H. destruct gs as [|d cbl l rest]; [exact I|].
    cbn [flat_counts_le_gs] in *. destruct H as (H1 & H2 & H3).
    split; [intros Hfl; specialize (H1 Hfl); lia|]. split; [apply IHe|apply IHr]; assumption.
  - intros l _. exact I.
  - intros e IHl r IHr l H. cbn [flat_counts_le_es] in *. destruct H as [H1 H2].
    split; [apply IHl|apply IHr]; assumption.
Qed.

Lemma flat_counts_of_blocks_pos be :
  (forall v l, wf_level be l v -> flat_blocks_pos l v ->
     flat_counts_le (len (enc_level be l v)) l v) /\
  (forall vgs gs, wf_groups be gs vgs -> flat_blocks_pos_gs gs vgs ->
     flat_counts_le_gs (len (enc_groups be gs vgs)) gs vgs) /\
  (forall es l, wf_entries be l es -> flat_blocks_pos_es l es ->
     flat_counts_le_es (len (enc_entries be l es)) l es).
Proof.
  apply vtree_mutind.
  - intros block vgs IH vds l Hwf Hp.
    rewrite wf_level_eq in Hwf. destruct Hwf as [Hwg _].
    cbn [flat_blocks_pos] in Hp. cbn [flat_counts_le]. rewrite enc_level_eq, !len_app.
    refine (proj1 (proj2 (flat_counts_le_mono _ _ _)) vgs _ (IH _ Hwg Hp)).
    pose proof (len_nonneg block). pose proof (len_nonneg (enc_datas be (level_datas l) vds)). lia.
  - intros gs _ _. destruct gs; exact I.
  - intros bg es IHe vrest IHr gs Hwf Hp. destruct gs as [|d cbl l rest]; [contradiction|].
    rewrite wf_groups_cons in Hwf. cbv zeta in Hwf.
    destruct Hwf as (Hd & Hlen & _ & _ & _ & Hall & _ & Hwe & Hwr).
    cbn [flat_blocks_pos_gs] in Hp. destruct Hp as (Hp1 & Hp2 & Hp3).
    cbn [flat_counts_le_gs]. rewrite enc_groups_cons, !len_app.
    set (bl := first_block_len es (dec be (slice bg (d_bl_off d) (tbytes (d_bl_t d))))) in *.
    pose proof (len_nonneg (dim_bytes be d bg bl (ecount es))) as HD0.
    pose proof (len_nonneg (enc_entries be l es)) as HE0.
    pose proof (len_nonneg (enc_groups be rest vrest)) as HR0.
    split; [|split].
    + intros Hfl. specialize (Hp1 Hfl).
      rewrite (enc_entries_flat_len be l bl es Hfl Hall).
      pose proof (ecount_nonneg es) as Hn0.
      destruct es as [|e r].
      * cbn [ecount] in *. lia.
      * assert (Hbl : 1 <= bl) by exact Hp1.
        rewrite (enc_entries_flat_len be l bl _ Hfl Hall) in HE0. nia.
    + refine (proj2 (proj2 (flat_counts_le_mono _ _ _)) es _ (IHe _ Hwe Hp2)). lia.
    + refine (proj1 (proj2 (flat_counts_le_mono _ _ _)) vrest _ (IHr _ Hwr Hp3)). lia.
  - intros l _ _. exact I.
  - intros e IHl r IHr l Hwf Hp.
    rewrite wf_entries_cons in Hwf. destruct Hwf as [Hwe Hwr].
    cbn [flat_blocks_pos_es] in Hp. destruct Hp as [Hp1 Hp2].
    cbn [flat_counts_le_es]. rewrite enc_entries_cons, len_app.
    pose proof (len_nonneg (enc_level be l e)). pose proof (len_nonneg (enc_entries be l r)).
    split.
    + refine (proj1 (flat_counts_le_mono _ _ _) e _ (IHl _ Hwe Hp1)). lia.
    + refine (proj2 (proj2 (flat_counts_le_mono _ _ _)) r _ (IHr _ Hwr Hp2)). lia.
Qed.

(* the corrected statement with the fuel-free side condition *)
Definition stmt_trav_message_enc'' : Prop :=
  forall be m cl hdrbg v pre post,
    wf_message be m hdrbg v ->
    wf_clevel (m_hdr_size m) (m_level m) cl ->
    fields_fit (m_level m) v ->
    len (pre ++ enc_message be m hdrbg v ++ post) < 2 ^ 64 ->
    flat_blocks_pos (m_level m) v ->
    trav_message be (pre ++ enc_message be m hdrbg v ++ post) m cl (len pre)
    = COk (ev_level be (m_level m) v (len pre + m_hdr_size m))
          (len pre + len (enc_message be m hdrbg v)).

Theorem trav_message_enc'' : stmt_trav_message_enc''.
Proof.
  unfold stmt_trav_message_enc''. intros be m cl hdrbg v pre post Hwf Hcl Hff Hlt Hpos.
  apply trav_message_enc'; try assumption.
  pose proof (msg_wf_level be m hdrbg v Hwf) as Hwl.
  refine (proj1 (flat_counts_le_mono _ _ _) v _
            (proj1 (flat_counts_of_blocks_pos be) v _ Hwl Hpos)).
  set (b := pre ++ enc_message be m hdrbg v ++ post).
  pose proof (default_fuel_len b).
  pose proof (len_mid_le b _ _ _ (msg_buffer_split be m hdrbg v b pre post eq_refl)). lia.
Qed.
Print Assumptions trav_message_enc''.
